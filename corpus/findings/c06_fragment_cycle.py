"""Witness for the defect fixed by 'fix: fragment cycle detection ...':
valid documents (same fragment spread twice, diamond) were refused with 'Fragment Cylcle
Detected', and a real cycle through a nested selection was accepted.
Run: /venv/bin/python corpus/findings/c06_fragment_cycle.py   (exit 0 = property holds)"""
import asyncio, os, sys
sys.path.insert(0, os.path.join(os.path.dirname(__file__), "..", ".."))
from harness import engine_env
engine_env.setup()
from tartiflette import create_engine

SDL = "type Query { a: T } type T { x: Int t: T }"
VALID = [
    "{ a { ...A } } fragment A on T { ...B ...B } fragment B on T { x }",
    "{ a { ...A } } fragment A on T { ...B ...C } fragment B on T { ...D } fragment C on T { ...D } fragment D on T { x }",
    "{ a { ...A ...B } } fragment A on T { ...C } fragment B on T { ...C } fragment C on T { x }",
]
CYCLIC = [
    "{ a { ...A } } fragment A on T { t { ...A } }",
    "{ a { ...A } } fragment A on T { ... on T { ...B } } fragment B on T { t { ...A } }",
]

async def main():
    e = await create_engine(SDL, schema_name="c06_cycle_witness")
    bad = []
    for q in VALID:
        r = await e.execute(q)
        if r.get("errors"):
            bad.append(("valid document refused", q, r["errors"][0]["message"]))
    for q in CYCLIC:
        r = await e.execute(q)
        if not r.get("errors") or r.get("data") is not None:
            bad.append(("cyclic document accepted", q, r))
    for b in bad:
        print("FAIL", b)
    print("PASS" if not bad else "FAIL")
    return 1 if bad else 0

sys.exit(asyncio.run(main()))
