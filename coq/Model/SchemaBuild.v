(* Implementation model of building an engine from an SDL (schema/transformer.py
   schema_from_document, schema/schema.py add_*_definition, _validate_extensions, extension bake,
   _validate with its ten validators), in the order GraphQLSchema.bake runs them.  The SDL is a
   model term (the lark parser is outside); implementations registered by user code are flags.
   Result: Built | Rejected kinds, a kind naming the message family of the error. *)
From Coq Require Import ZArith List String Bool.
From TV Require Import Py.Prelude Model.Schema Model.ImplValidate.
Import ListNotations.
Open Scope string_scope.
Open Scope list_scope.

Record tdecl := { td_name : string; td_def : typedef; td_dirs : list string }.

Inductive ext :=
| XType (name : string) (d : typedef) (dirs : list string)     (* extend scalar/enum/input/type/interface/union *)
| XSchema (ops : list (string * string)) (dirs : list string).  (* extend schema @d { mutation: M } *)

Record ddecl := { dd_def : dirdef; dd_hooks_awaitable : bool }.

Record sdl := {
  s_types : list tdecl;                       (* in document order, built-ins appended by the engine *)
  s_dirdefs : list ddecl;
  s_exts : list ext;
  s_schema : list (string * string);          (* schema { query: Q ... }: operation kind -> type name *)
  s_schema_dirs : list string;
  s_scalar_impls : list string;               (* scalars with a registered implementation *)
  s_member_dirs : list (string * string * list string)   (* (type, field / enum value / input field) -> directives *)
}.

Definition BUILTIN_SCALAR_NAMES := ["Boolean"; "Date"; "DateTime"; "Float"; "ID"; "Int"; "String"; "Time"].
Definition builtin_types : list tdecl :=
  map (fun n => {| td_name := n; td_def := DScalar; td_dirs := [] |}) BUILTIN_SCALAR_NAMES ++
  map (fun nd => {| td_name := fst nd; td_def := snd nd; td_dirs := [] |}) introspection_types.
Definition builtin_ddecls : list ddecl :=
  map (fun d => {| dd_def := d; dd_hooks_awaitable := true |}) builtin_dirs.

(* ---------- the schema object under construction ---------- *)
Record gschema := {
  g_types : list tdecl;
  g_dirs : list ddecl;
  g_query : string; g_mutation : string; g_subscription : string;
  g_schema_dirs : list string;
  g_impls : list string;
  g_member_dirs : list (string * string * list string)
}.

Definition kind_of (d : typedef) : string :=
  match d with
  | DScalar => "SCALAR" | DEnum _ => "ENUM" | DInput _ => "INPUT" | DObject _ _ => "TYPE"
  | DInterface _ => "INTERFACE" | DUnion _ => "UNION"
  end.
Definition same_kind (a b : typedef) : bool := String.eqb (kind_of a) (kind_of b).

Fixpoint find_tdecl (ts : list tdecl) (n : string) : option tdecl :=
  match ts with
  | [] => None
  | t :: r => if String.eqb n (td_name t) then Some t else find_tdecl r n
  end.
Definition g_has_type (g : gschema) (n : string) : bool :=
  match find_tdecl (g_types g) n with Some _ => true | None => false end.

Fixpoint first_dup (l : list string) (seen : list string) : option string :=
  match l with
  | [] => None
  | x :: r => if mem_str x seen then Some x else first_dup r (x :: seen)
  end.

Definition op_lookup (k : string) (dflt : string) (ops : list (string * string)) : string :=
  match assoc k ops with Some t => t | None => dflt end.

(* schema_from_document: add_type_definition / add_directive_definition refuse redefinitions *)
Definition initial (s : sdl) : gschema + list string :=
  let ts := s_types s ++ builtin_types in
  let ds := s_dirdefs s ++ builtin_ddecls in
  match first_dup (map td_name ts) [], first_dup (map (fun d => dd_name (dd_def d)) ds) [] with
  | Some _, _ => inr ["redefined-type"]
  | None, Some _ => inr ["redefined-directive"]
  | None, None =>
      inl {| g_types := ts; g_dirs := ds;
             g_query := op_lookup "query" "Query" (s_schema s);
             g_mutation := op_lookup "mutation" "Mutation" (s_schema s);
             g_subscription := op_lookup "subscription" "Subscription" (s_schema s);
             g_schema_dirs := s_schema_dirs s;
             g_impls := s_scalar_impls s ++ BUILTIN_SCALAR_NAMES;
             g_member_dirs := s_member_dirs s |}
  end.

(* ---------- _validate_extensions ---------- *)
Definition dup_dirs (kind : string) (ext_dirs existing : list string) : list string :=
  flat_map (fun d => if mem_str d existing then ["ext-directive-already-there"] else []) ext_dirs.

Definition field_names (fs : list field_def) := map fd_name fs.
Definition input_names (fs : list input_def) := map in_name fs.

Definition ext_type_errors (g : gschema) (name : string) (d : typedef) (dirs : list string) : list string :=
  match find_tdecl (g_types g) name with
  | None => ["ext-non-existing-type"]
  | Some t =>
      if negb (same_kind (td_def t) d) then ["ext-wrong-kind"] else
      match td_def t, d with
      | DEnum vals, DEnum xs =>
          flat_map (fun v => if mem_str v vals then ["ext-enum-value-exists"] else []) xs ++ dup_dirs "ENUM" dirs (td_dirs t)
      | DInput fs, DInput xs =>
          dup_dirs "INPUT" dirs (td_dirs t) ++
          flat_map (fun f => if mem_str (in_name f) (input_names fs) then ["ext-input-field-exists"] else []) xs
      | DObject ifs fs, DObject xifs xfs =>
          flat_map (fun f => if mem_str (fd_name f) (field_names fs ++ ["__typename"] ++
                                                     (if String.eqb name (g_query g) then ["__schema"; "__type"] else []))
                             then ["ext-field-exists"] else []) xfs ++
          flat_map (fun i => if mem_str i ifs then ["ext-interface-exists"] else []) xifs ++
          dup_dirs "TYPE" dirs (td_dirs t)
      | DInterface fs, DInterface xfs =>
          flat_map (fun f => if mem_str (fd_name f) (field_names fs) then ["ext-field-exists"] else []) xfs ++
          dup_dirs "INTERFACE" dirs (td_dirs t)
      | DScalar, DScalar => dup_dirs "SCALAR" dirs (td_dirs t)
      | DUnion ms, DUnion xs =>
          flat_map (fun m => if mem_str m ms then ["ext-possible-type-exists"] else []) xs ++ dup_dirs "UNION" dirs (td_dirs t)
      | _, _ => []
      end
  end.

Definition op_name_of (g : gschema) (k : string) : string :=
  if String.eqb k "query" then g_query g else if String.eqb k "mutation" then g_mutation g else g_subscription g.

Fixpoint schema_ext_ops (g : gschema) (ops : list (string * string)) (extended : list string) : list string * list string :=
  match ops with
  | [] => ([], extended)
  | (k, _) :: r =>
      let t := op_name_of g k in
      let e1 := if mem_str t extended then ["ext-schema-operation-multiple-times"] else [] in
      if g_has_type g t
      then let (es, x) := schema_ext_ops g r extended in (e1 ++ ["ext-schema-operation-type-defined"] ++ es, x)
      else let (es, x) := schema_ext_ops g r (extended ++ [t]) in (e1 ++ es, x)
  end.

Definition is_kind (k : string) (e : ext) : bool :=
  match e with XType _ d _ => String.eqb (kind_of d) k | XSchema _ _ => false end.

Definition validate_extensions (g : gschema) (exts : list ext) : list string :=
  let of_kind k := flat_map (fun e => match e with
                                      | XType n d dirs => if String.eqb (kind_of d) k then ext_type_errors g n d dirs else []
                                      | XSchema _ _ => [] end) exts in
  of_kind "ENUM" ++ of_kind "INPUT" ++ of_kind "TYPE" ++ of_kind "INTERFACE" ++ of_kind "SCALAR" ++ of_kind "UNION" ++
  fst (fold_left (fun acc e => match e with
                               | XSchema ops dirs =>
                                   let '(errs, extended) := acc in
                                   let (es, x) := schema_ext_ops g ops extended in
                                   (errs ++ es ++ flat_map (fun d => if mem_str d (g_schema_dirs g)
                                                                     then ["ext-schema-directive-already-there"] else []) dirs, x)
                               | _ => acc end) exts ([], [])).

(* ---------- _bake_extensions: merge, in document order ---------- *)
Fixpoint upd_tdecl (ts : list tdecl) (n : string) (f : tdecl -> tdecl) : list tdecl :=
  match ts with
  | [] => []
  | t :: r => if String.eqb n (td_name t) then f t :: r else t :: upd_tdecl r n f
  end.

Fixpoint update_fields (fs xs : list field_def) : list field_def :=     (* dict.update *)
  match xs with
  | [] => fs
  | x :: r =>
      update_fields (if mem_str (fd_name x) (field_names fs)
                     then map (fun f => if String.eqb (fd_name f) (fd_name x) then x else f) fs
                     else fs ++ [x]) r
  end.
Fixpoint update_inputs (fs xs : list input_def) : list input_def :=
  match xs with
  | [] => fs
  | x :: r =>
      update_inputs (if mem_str (in_name x) (input_names fs)
                     then map (fun f => if String.eqb (in_name f) (in_name x) then x else f) fs
                     else fs ++ [x]) r
  end.

Definition merge_def (a x : typedef) : typedef :=
  match a, x with
  | DEnum vs, DEnum xs => DEnum (vs ++ xs)
  | DInput fs, DInput xs => DInput (update_inputs fs xs)
  | DObject ifs fs, DObject xifs xfs => DObject (ifs ++ xifs) (update_fields fs xfs)
  | DInterface fs, DInterface xfs => DInterface (update_fields fs xfs)
  | DUnion ms, DUnion xs => DUnion (ms ++ xs)
  | _, _ => a
  end.

Definition apply_ext (g : gschema) (e : ext) : gschema :=
  match e with
  | XType n d dirs =>
      {| g_types := upd_tdecl (g_types g) n (fun t => {| td_name := td_name t; td_def := merge_def (td_def t) d;
                                                          td_dirs := td_dirs t ++ dirs |});
         g_dirs := g_dirs g; g_query := g_query g; g_mutation := g_mutation g; g_subscription := g_subscription g;
         g_schema_dirs := g_schema_dirs g; g_impls := g_impls g; g_member_dirs := g_member_dirs g |}
  | XSchema ops dirs =>
      {| g_types := g_types g; g_dirs := g_dirs g;
         g_query := op_lookup "query" (g_query g) ops;
         g_mutation := op_lookup "mutation" (g_mutation g) ops;
         g_subscription := op_lookup "subscription" (g_subscription g) ops;
         g_schema_dirs := g_schema_dirs g ++ dirs; g_impls := g_impls g; g_member_dirs := g_member_dirs g |}
  end.

(* ---------- _validate ---------- *)
Definition g_find (g : gschema) (n : string) : option typedef :=
  match find_tdecl (g_types g) n with Some t => Some (td_def t) | None => None end.

Definition out_fields (d : typedef) : option (list field_def) :=
  match d with DObject _ fs | DInterface fs => Some fs | _ => None end.

Definition v_named_types (g : gschema) : list string :=
  flat_map (fun t => match out_fields (td_def t) with
                     | Some fs => flat_map (fun f => if g_has_type g (named_of (fd_type f)) then [] else ["unknown-field-type"]) fs
                     | None => [] end) (g_types g).

Definition g_implementers (g : gschema) (iface : string) : list string :=
  flat_map (fun t => match td_def t with DObject ifs _ => if mem_str iface ifs then [td_name t] else [] | _ => [] end) (g_types g).

(* _validate_field_type_is_same_as_interface_type (IsValidImplementationFieldType) *)
Fixpoint same_as_interface_type (g : gschema) (ft it : ty) {struct ft} : option bool :=
  if ty_eqb ft it then Some true else
  match ft with
  | TNonNull ft' => same_as_interface_type g ft' (match it with TNonNull it' => it' | _ => it end)
  | TList ft' =>
      match it with
      | TList it' => same_as_interface_type g ft' it'
      | _ => Some false
      end
  | TNamed n =>
      match it with
      | TNonNull _ | TList _ => Some false
      | TNamed i =>
          match g_find g i with
          | Some (DInterface _) => Some (mem_str n (g_implementers g i))
          | Some (DUnion ms) => Some (mem_str n ms)
          | _ => Some false
          end
      end
  end.

Definition args_follow (of_args if_args : list input_def) : list string :=
  flat_map (fun ia => match find (fun a => String.eqb (in_name a) (in_name ia)) of_args with
                      | None => ["interface-argument-missing"]
                      | Some a => if ty_eqb (in_type a) (in_type ia) then [] else ["interface-argument-type"]
                      end) if_args ++
  flat_map (fun a => if negb (mem_str (in_name a) (input_names if_args)) && is_non_null (in_type a)
                     then ["interface-extra-required-argument"] else []) of_args.

Definition obj_fields_with_meta (g : gschema) (name : string) (fs : list field_def) : list field_def :=
  fs ++ (if String.eqb name (g_query g) then [schema_field; type_field] else []) ++ [typename_field].

Definition v_follow_interfaces (g : gschema) : option (list string) :=
  fold_left (fun acc t =>
    match acc, td_def t with
    | Some errs, DObject ifs fs =>
        fold_left (fun acc i =>
          match acc with
          | None => None
          | Some errs =>
              match g_find g i with
              | None => Some (errs ++ ["implements-unknown"])
              | Some (DInterface ifields) =>
                  fold_left (fun acc iff =>
                    match acc with
                    | None => None
                    | Some errs =>
                        match find_field (obj_fields_with_meta g (td_name t) fs) (fd_name iff) with
                        | None => Some (errs ++ ["interface-field-missing"])
                        | Some f =>
                            match same_as_interface_type g (fd_type f) (fd_type iff) with
                            | None => None
                            | Some ok => Some (errs ++ (if ok then [] else ["interface-field-type"]) ++
                                               args_follow (fd_args f) (fd_args iff))
                            end
                        end
                    end) ifields (Some errs)
              | Some _ => Some (errs ++ ["implements-non-interface"])
              end
          end) ifs (Some errs)
    | _, _ => acc
    end) (g_types g) (Some []).

Definition v_roots (g : gschema) : list string :=
  (if g_has_type g (g_query g) then [] else ["missing-query-type"]) ++
  (if negb (String.eqb (g_mutation g) "Mutation") && negb (g_has_type g (g_mutation g)) then ["missing-mutation-type"] else []) ++
  (if negb (String.eqb (g_subscription g) "Subscription") && negb (g_has_type g (g_subscription g)) then ["missing-subscription-type"] else []).

Definition v_non_empty (g : gschema) : list string :=
  flat_map (fun t => match td_def t with
                     | DObject _ fs => if existsb (fun f => negb (prefix "__" (fd_name f))) fs then [] else ["object-without-fields"]
                     | _ => [] end) (g_types g).

Definition v_unions (g : gschema) : list string :=
  flat_map (fun t => match td_def t with
                     | DUnion ms => flat_map (fun m => if String.eqb m (td_name t) then ["union-contains-itself"] else []) ms
                     | _ => [] end) (g_types g).

Definition v_scalars (g : gschema) : list string :=
  flat_map (fun t => match td_def t with
                     | DScalar => if mem_str (td_name t) (g_impls g) then [] else ["scalar-without-implementation"]
                     | _ => [] end) (g_types g).

Fixpoint doubles (l seen double : list string) : list string :=
  match l with
  | [] => double
  | x :: r => doubles r (x :: seen) (if mem_str x seen && negb (mem_str x double) then double ++ [x] else double)
  end.
Definition v_enums (g : gschema) : list string :=
  flat_map (fun t => match td_def t with
                     | DEnum vs => map (fun _ => "enum-value-not-unique") (doubles vs [] [])
                     | _ => [] end) (g_types g).

Definition is_input_name (g : gschema) (n : string) : bool :=
  match g_find g n with Some d => is_input_def d | None => false end.

Definition v_arguments (g : gschema) : list string :=
  flat_map (fun t => match out_fields (td_def t) with
                     | Some fs => flat_map (fun f => flat_map (fun a => if is_input_name g (named_of (in_type a)) then []
                                                                        else ["argument-not-input-type"])
                                                              ((if String.eqb (td_name t) (g_query g) then [] else []) ++ fd_args f)) fs
                     | None => [] end) (g_types g) ++
  flat_map (fun d => flat_map (fun a => if is_input_name g (named_of (in_type a)) then [] else ["argument-not-input-type"])
                              (dd_args (dd_def d))) (g_dirs g).

Definition v_input_fields (g : gschema) : list string :=
  flat_map (fun t => match td_def t with
                     | DInput fs => flat_map (fun f => if is_input_name g (named_of (in_type f)) then []
                                                       else ["input-field-not-input-type"]) fs
                     | _ => [] end) (g_types g).

Definition v_directives (g : gschema) : list string :=
  flat_map (fun d => if dd_hooks_awaitable d then [] else ["directive-hook-not-awaitable"]) (g_dirs g).

Definition validate (g : gschema) : option (list string) :=
  match v_follow_interfaces g with
  | None => None
  | Some follow =>
      Some (v_named_types g ++ follow ++ v_roots g ++ v_non_empty g ++ v_unions g ++ v_scalars g ++ v_enums g ++
            v_arguments g ++ v_input_fields g ++ v_directives g)
  end.

(* ---------- GraphQLSchema.bake ---------- *)
Inductive build_result := Built (g : gschema) | Rejected (kinds : list string) | Raised.

Definition impl_build (s : sdl) : build_result :=
  match initial s with
  | inr k => Rejected k
  | inl g0 =>
      match validate_extensions g0 (s_exts s) with
      | (_ :: _) as errs => Rejected errs
      | [] =>
          let g := fold_left apply_ext (s_exts s) g0 in
          match validate g with
          | None => Raised
          | Some [] => Built g
          | Some errs => Rejected errs
          end
      end
  end.

(* _bake_types runs inside `try: ... except Exception: pass`: the first type whose bake() raises
   (an object naming an undefined or non-interface type in `implements`, a union naming an
   undefined member) leaves every later type unbaked, so the possible types the interface check
   sees are incomplete and _validate may report MORE than this model does (never less: the
   offending type is reported by its own validator). *)
Definition bake_aborts (g : gschema) : bool :=
  existsb (fun t => match td_def t with
                    | DObject ifs _ => existsb (fun i => match g_find g i with Some (DInterface _) => false | _ => true end) ifs
                    | DUnion ms => existsb (fun m => negb (g_has_type g m)) ms
                    | _ => false end) (g_types g).

Definition builds (s : sdl) : bool := match impl_build s with Built _ => true | _ => false end.

(* the steps of GraphQLSchema.bake and the validator lists this model transcribes, checked by
   Proofs/Wiring.v against what harness/wiring.py extracts from the current source *)
Definition model_bake_steps : list string :=
  ["_inject_introspection_fields"; "_validate_extensions"; "_bake_extensions"; "bake_registered_objects"; "_bake_types"; "_validate"].
Definition model_schema_validators : list string :=
  ["_validate_schema_named_types"; "_validate_object_follow_interfaces"; "_validate_schema_root_types_exist";
   "_validate_non_empty_object"; "_validate_union_is_acceptable"; "_validate_all_scalars_have_implementations";
   "_validate_enum_values_are_unique"; "_validate_arguments_have_valid_type"; "_validate_input_type_composed_of_input_type";
   "_validate_directive_implementation"].
Definition model_extension_validators : list string :=
  ["_validate_enum_extensions"; "_validate_input_object_extensions"; "_validate_object_extensions";
   "_validate_interface_extensions"; "_validate_scalar_extensions"; "_validate_union_extensions"; "_validate_schema_extensions"].
