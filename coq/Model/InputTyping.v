(* "v is a value of the input type t": the typing judgment for COERCED input values (what a
   resolver may receive at a position declared with t), by structural recursion on the value.
   What a scalar's internal values look like is a parameter (`leaf`). *)
From Coq Require Import ZArith List String Bool.
From TV Require Import Py.Prelude Model.Schema Model.ImplInput.
Import ListNotations.
Open Scope string_scope.
Open Scope list_scope.

Section Typing.
Variable sch : schema.
Variable leaf : string -> pyval -> bool.

Definition find_input (k : string) (fields : list input_def) : option input_def :=
  find (fun f => String.eqb k (in_name f)) fields.

Definition required_present (fields : list input_def) (kv : list (string * pyval)) : bool :=
  forallb (fun f => match dict_get (in_name f) kv with
                    | Some _ => true
                    | None => negb (is_non_null (in_type f))
                    end) fields.

Fixpoint has_type (v : pyval) {struct v} : ty -> bool :=
  fix on_ty (t : ty) : bool :=
    match t with
    | TNonNull t' => negb (is_none v) && on_ty t'
    | TList t' =>
        match v with
        | PNone => true
        | PList items =>
            (fix all (xs : list pyval) : bool :=
               match xs with [] => true | x :: r => has_type x t' && all r end) items
        | _ => false
        end
    | TNamed n =>
        match v with
        | PNone => true
        | _ =>
          match find_type sch n with
          | Some DScalar => leaf n v
          | Some (DEnum values) => match v with PStr s => mem_str s values | _ => false end
          | Some (DInput fields) =>
              match v with
              | PDict kv =>
                  (fix all (xs : list (string * pyval)) : bool :=
                     match xs with
                     | [] => true
                     | (k, x) :: r =>
                         match find_input k fields with
                         | Some f => has_type x (in_type f)
                         | None => false
                         end && all r
                     end) kv && required_present fields kv
              | _ => false
              end
          | _ => false
          end
        end
    end.

(* the inner loops as ordinary functions *)
Definition all_items (t : ty) (items : list pyval) : bool := forallb (fun x => has_type x t) items.
Definition all_entries (fields : list input_def) (kv : list (string * pyval)) : bool :=
  forallb (fun e => match find_input (fst e) fields with
                    | Some f => has_type (snd e) (in_type f)
                    | None => false end) kv.

(* the variables written inside a literal carry values of the type of their position (what the
   variable-usage rule is meant to guarantee; null / absent values are dealt with by the coercion) *)
Definition var_typed (vs : vars) (t : ty) (x : string) : bool :=
  match dict_get x vs with Some v => is_undef v || has_type v t | None => true end.

Fixpoint lit_vars_typed (fuel : nat) (vs : vars) (t : ty) (l : lit) {struct fuel} : bool :=
  (fix go (t : ty) (l : lit) {struct t} : bool :=
     match t with
     | TNonNull t' => go t' l
     | TList t' =>
         match l with
         | LVar _ x => var_typed vs (TList t') x
         | LList _ items => forallb (go t') items
         | LNull _ => true
         | _ => go t' l
         end
     | TNamed n =>
         match l with
         | LVar _ x => var_typed vs (TNamed n) x
         | LObj _ fnodes =>
             match fuel with
             | O => true
             | S fuel' =>
               match find_type sch n with
               | Some (DInput fields) =>
                   forallb (fun f =>
                     match lit_obj_get (in_name f) fnodes with
                     | Some node => lit_vars_typed fuel' vs (in_type f) node
                     | None => true end
                     && match in_default f with
                        | Some d => lit_vars_typed fuel' vs (in_type f) d
                        | None => true end) fields
               | _ => true
               end
             end
         | _ => true
         end
     end) t l.

(* AST value nodes as the parsers build them: Int / Float nodes carry their lexeme (or, in SDL defaults, the number) *)
Fixpoint wf_lit (l : lit) : bool :=
  match l with
  | LInt _ v => match v with PStr _ | PInt _ => true | _ => false end
  | LFloat _ v => match v with PStr _ | PFloat _ => true | _ => false end
  | LList _ items => (fix go (xs : list lit) : bool := match xs with [] => true | x :: r => wf_lit x && go r end) items
  | LObj _ fs => (fix go (xs : list (string * lit)) : bool := match xs with [] => true | (_, x) :: r => wf_lit x && go r end) fs
  | _ => true
  end.

End Typing.
