(* Date / Time / DateTime built-in scalars (scalar/builtins/date.py, time.py, datetime.py).
   The three classes share one shape; what differs is the strptime format and which part of
   isoformat() is returned.  Those parameters are EXTRACTED from the source on every run
   (harness/translate.py -> Gen/Temporal_gen.v, strict pattern match of the three methods); this
   file models what the library calls they make do on ASCII input:
     - datetime.strptime(s, fmt) for formats over %Y %m %d %H %M %S and literal characters:
       CPython's _strptime regex (ordered alternatives per directive, backtracking, IGNORECASE
       literals, "unconverted data remains"), then the range checks of the datetime constructor;
     - datetime/date/time.isoformat() and str.split("T").
   Not modelled: non-ASCII decimal digits (\d in a str pattern also matches them), tz-aware
   datetimes, subclasses.  Datetime objects are PObj "datetime" [...] values. *)
From Coq Require Import ZArith List String Ascii Bool Lia.
From TV Require Import Py.Prelude Gen.Scalars_gen.
Import ListNotations.
Open Scope string_scope.
Open Scope Z_scope.

(* ---------- characters ---------- *)
Definition digit_of (c : ascii) : option Z :=
  let n := Z.of_N (N_of_ascii c) in
  if (48 <=? n) && (n <=? 57) then Some (n - 48) else None.
Definition digit_in (lo hi : Z) (c : ascii) : option Z :=
  match digit_of c with
  | Some d => if (lo <=? d) && (d <=? hi) then Some d else None
  | None => None
  end.
Definition ascii_of_digit (d : Z) : ascii := ascii_of_N (Z.to_N (48 + d)).

Definition lower (c : ascii) : ascii :=
  let n := N_of_ascii c in
  if (N.leb 65 n && N.leb n 90)%bool then ascii_of_N (n + 32) else c.
Definition ci_eqb (a b : ascii) : bool := Ascii.eqb (lower a) (lower b).

(* ---------- the regex of one directive: ordered alternatives ---------- *)
(* an alternative consumes a prefix and yields the number it denotes *)
Definition alt := string -> option (Z * string).

Definition one (lo hi : Z) : alt := fun s =>
  match s with
  | String c r => match digit_in lo hi c with Some d => Some (d, r) | None => None end
  | EmptyString => None
  end.
(* a fixed first digit range followed by a second digit range *)
Definition two (lo1 hi1 lo2 hi2 : Z) : alt := fun s =>
  match s with
  | String c1 (String c2 r) =>
      match digit_in lo1 hi1 c1, digit_in lo2 hi2 c2 with
      | Some a, Some b => Some (10 * a + b, r)
      | _, _ => None
      end
  | _ => None
  end.
Definition space_one (lo hi : Z) : alt := fun s =>
  match s with
  | String c r => if Ascii.eqb c " "%char then one lo hi r else None
  | EmptyString => None
  end.
Definition four : alt := fun s =>
  match s with
  | String c1 (String c2 (String c3 (String c4 r))) =>
      match digit_of c1, digit_of c2, digit_of c3, digit_of c4 with
      | Some a, Some b, Some c, Some d => Some (1000 * a + 100 * b + 10 * c + d, r)
      | _, _, _, _ => None
      end
  | _ => None
  end.

Inductive directive := DY | Dm | Dd | DH | DM | DS.
Definition alts_of (d : directive) : list alt :=
  match d with
  | DY => [four]                                                      (* \d\d\d\d *)
  | Dm => [two 1 1 0 2; two 0 0 1 9; one 1 9]                         (* 1[0-2]|0[1-9]|[1-9] *)
  | Dd => [two 3 3 0 1; two 1 2 0 9; two 0 0 1 9; one 1 9; space_one 1 9]   (* 3[0-1]|[1-2]\d|0[1-9]|[1-9]| [1-9] *)
  | DH => [two 2 2 0 3; two 0 1 0 9; one 0 9]                         (* 2[0-3]|[0-1]\d|\d *)
  | DM => [two 0 5 0 9; one 0 9]                                      (* [0-5]\d|\d *)
  | DS => [two 6 6 0 1; two 0 5 0 9; one 0 9]                         (* 6[0-1]|[0-5]\d|\d *)
  end.

Inductive fitem := FDir (d : directive) | FLit (c : ascii).

Fixpoint parse_format (s : string) : option (list fitem) :=
  match s with
  | EmptyString => Some []
  | String "%"%char (String c r) =>
      let d := if Ascii.eqb c "Y"%char then Some DY else if Ascii.eqb c "m"%char then Some Dm
               else if Ascii.eqb c "d"%char then Some Dd else if Ascii.eqb c "H"%char then Some DH
               else if Ascii.eqb c "M"%char then Some DM else if Ascii.eqb c "S"%char then Some DS else None in
      match d, parse_format r with
      | Some d, Some l => Some (FDir d :: l)
      | _, _ => None
      end
  | String "%"%char EmptyString => None
  | String c r => match parse_format r with Some l => Some (FLit c :: l) | None => None end
  end.

Record fields := { fY : Z; fm : Z; fd : Z; fH : Z; fM : Z; fS : Z }.
Definition fields0 : fields := {| fY := 1900; fm := 1; fd := 1; fH := 0; fM := 0; fS := 0 |}.
Definition set_field (d : directive) (v : Z) (f : fields) : fields :=
  match d with
  | DY => {| fY := v; fm := fm f; fd := fd f; fH := fH f; fM := fM f; fS := fS f |}
  | Dm => {| fY := fY f; fm := v; fd := fd f; fH := fH f; fM := fM f; fS := fS f |}
  | Dd => {| fY := fY f; fm := fm f; fd := v; fH := fH f; fM := fM f; fS := fS f |}
  | DH => {| fY := fY f; fm := fm f; fd := fd f; fH := v; fM := fM f; fS := fS f |}
  | DM => {| fY := fY f; fm := fm f; fd := fd f; fH := fH f; fM := v; fS := fS f |}
  | DS => {| fY := fY f; fm := fm f; fd := fd f; fH := fH f; fM := fM f; fS := v |}
  end.

(* first alternative whose continuation succeeds (regex backtracking) *)
Fixpoint try_alts {R} (alts : list alt) (k : Z -> string -> option R) (s : string) : option R :=
  match alts with
  | [] => None
  | a :: rest =>
      match a s with
      | Some (v, r) => match k v r with Some x => Some x | None => try_alts rest k s end
      | None => try_alts rest k s
      end
  end.

(* re.match: the pattern matched from the start; what is left over is returned *)
Fixpoint match_format (fmt : list fitem) (f : fields) (s : string) : option (fields * string) :=
  match fmt with
  | [] => Some (f, s)
  | FLit c :: rest =>
      match s with
      | String c' r => if ci_eqb c c' then match_format rest f r else None
      | EmptyString => None
      end
  | FDir d :: rest => try_alts (alts_of d) (fun v r => match_format rest (set_field d v f) r) s
  end.

(* ---------- the calendar (datetime constructor checks) ---------- *)
Definition leap (y : Z) : bool :=
  ((y mod 4 =? 0) && negb (y mod 100 =? 0)) || (y mod 400 =? 0).
Definition days_in_month (y m : Z) : Z :=
  if m =? 2 then (if leap y then 29 else 28)
  else if (m =? 4) || (m =? 6) || (m =? 9) || (m =? 11) then 30 else 31.
Definition valid_date (y m d : Z) : bool :=
  (1 <=? y) && (y <=? 9999) && (1 <=? m) && (m <=? 12) && (1 <=? d) && (d <=? days_in_month y m).
Definition valid_time (h mi s : Z) : bool :=
  (0 <=? h) && (h <=? 23) && (0 <=? mi) && (mi <=? 59) && (0 <=? s) && (s <=? 59).

Definition mk_datetime (y m d h mi s us : Z) : pyval :=
  PObj "datetime" [("year", PInt y); ("month", PInt m); ("day", PInt d); ("hour", PInt h);
                   ("minute", PInt mi); ("second", PInt s); ("microsecond", PInt us)].
Definition mk_date (y m d : Z) : pyval := PObj "date" [("year", PInt y); ("month", PInt m); ("day", PInt d)].
Definition mk_time (h mi s us : Z) : pyval :=
  PObj "time" [("hour", PInt h); ("minute", PInt mi); ("second", PInt s); ("microsecond", PInt us)].

(* datetime.strptime(s, fmt) *)
Definition strptime (fmt s : string) : res pyval :=
  match parse_format fmt with
  | None => Raise ValueError
  | Some items =>
      match match_format items fields0 s with
      | Some (f, EmptyString) =>
          if valid_date (fY f) (fm f) (fd f) && valid_time (fH f) (fM f) (fS f)
          then Ok (mk_datetime (fY f) (fm f) (fd f) (fH f) (fM f) (fS f) 0)
          else Raise ValueError
      | Some (_, String _ _) => Raise ValueError          (* unconverted data remains *)
      | None => Raise ValueError
      end
  end.

(* ---------- isoformat ---------- *)
Definition pad2 (v : Z) : string :=
  String (ascii_of_digit (v / 10)) (String (ascii_of_digit (v mod 10)) EmptyString).
Definition pad4 (v : Z) : string :=
  String (ascii_of_digit (v / 1000)) (String (ascii_of_digit (v / 100 mod 10))
    (String (ascii_of_digit (v / 10 mod 10)) (String (ascii_of_digit (v mod 10)) EmptyString))).
Definition pad6 (v : Z) : string := pad2 (v / 10000) ++ pad2 (v / 100 mod 100) ++ pad2 (v mod 100).

Definition iso_date (y m d : Z) : string := pad4 y ++ "-" ++ pad2 m ++ "-" ++ pad2 d.
Definition iso_time (h mi s us : Z) : string :=
  pad2 h ++ ":" ++ pad2 mi ++ ":" ++ pad2 s ++ (if us =? 0 then "" else "." ++ pad6 us).

Definition well_formed (v : pyval) : bool :=
  match v with
  | PObj "datetime" [("year", PInt y); ("month", PInt m); ("day", PInt d); ("hour", PInt h);
                     ("minute", PInt mi); ("second", PInt s); ("microsecond", PInt us)] =>
      valid_date y m d && valid_time h mi s && (0 <=? us) && (us <=? 999999)
  | PObj "date" [("year", PInt y); ("month", PInt m); ("day", PInt d)] => valid_date y m d
  | PObj "time" [("hour", PInt h); ("minute", PInt mi); ("second", PInt s); ("microsecond", PInt us)] =>
      valid_time h mi s && (0 <=? us) && (us <=? 999999)
  | _ => false
  end.

(* value.isoformat(): AttributeError for anything that is not a (naive) datetime / date / time *)
Definition isoformat (v : pyval) : res string :=
  match v with
  | PObj "datetime" [("year", PInt y); ("month", PInt m); ("day", PInt d); ("hour", PInt h);
                     ("minute", PInt mi); ("second", PInt s); ("microsecond", PInt us)] =>
      Ok (iso_date y m d ++ "T" ++ iso_time h mi s us)
  | PObj "date" [("year", PInt y); ("month", PInt m); ("day", PInt d)] => Ok (iso_date y m d)
  | PObj "time" [("hour", PInt h); ("minute", PInt mi); ("second", PInt s); ("microsecond", PInt us)] =>
      Ok (iso_time h mi s us)
  | _ => Raise AttributeError
  end.

(* s.split("T") *)
Fixpoint split_T (s : string) (cur : string) : list string :=
  match s with
  | EmptyString => [cur]
  | String c r => if Ascii.eqb c "T"%char then cur :: split_T r "" else split_T r (cur ++ String c "")
  end.

(* ---------- the three methods, parametrised by what the translator extracts ---------- *)
(* try: result = super().coerce_input(value); return datetime.strptime(result, FMT)
   except Exception: pass
   raise TypeError(...) *)
Definition temporal_coerce_input (fmt : string) (O : oracles) (v : pyval) : res pyval :=
  catch_exception
    (bind (string_coerce_input O v)
          (fun r => match r with PStr s => strptime fmt s | _ => Raise TypeError end))
    (fun _ => Raise TypeError).

(* if not isinstance(ast, StringValueNode): return UNDEFINED_VALUE
   try: return datetime.strptime(ast.value, FMT)
   except Exception: pass
   return UNDEFINED_VALUE *)
Definition temporal_parse_literal (fmt : string) (O : oracles) (a : pyval) : res pyval :=
  if isinstance a CStringValueNode
  then catch_exception
         (bind (py_attr_value a)
               (fun r => match r with PStr s => strptime fmt s | _ => Raise TypeError end))
         (fun _ => Ok PUndef)
  else Ok PUndef.

(* try: return value.isoformat()[.split("T")[I]]
   except Exception: pass
   raise TypeError(...) *)
Definition temporal_coerce_output (sel : option nat) (O : oracles) (v : pyval) : res pyval :=
  match isoformat v with
  | Ok s =>
      match sel with
      | None => Ok (PStr s)
      | Some i => match nth_error (split_T s "") i with
                  | Some x => Ok (PStr x)
                  | None => Raise TypeError
                  end
      end
  | Raise OutOfFuel => Raise OutOfFuel
  | Raise _ => Raise TypeError
  end.
