(* The scalar table of a model schema: the five built-in scalars are the definitions
   REGENERATED from the repository (Gen/Scalars_gen.v); the custom scalars are the sample
   implementations the harness registers on the real engine (harness/custom_scalars.py). *)
From Coq Require Import ZArith List String Bool.
From TV Require Import Py.Prelude Model.Schema Gen.Scalars_gen.
Import ListNotations.
Open Scope string_scope.

Section Std.
Variable O : oracles.

(* scalar Any: accepts every value unchanged; literals: scalars' .value *)
Definition any_ops : scalar_ops :=
  {| s_input := fun v => Ok v;
     s_literal := fun a => match a with
                           | PAst KIntValue v | PAst KFloatValue v | PAst KStringValue v
                           | PAst KBooleanValue v | PAst KEnumValue v => Ok v
                           | _ => Ok PUndef end;
     s_output := fun v => Ok v |}.

(* scalar Odd: odd integers only, raising ValueError otherwise *)
Definition odd_ops : scalar_ops :=
  {| s_input := fun v => match v with
                         | PInt z => if Z.odd z then Ok (PInt z) else Raise ValueError
                         | _ => Raise ValueError end;
     s_literal := fun a => match a with
                           | PAst KIntValue v =>
                               bind (py_int v) (fun r => match r with
                                 | PInt z => if Z.odd z then Ok (PInt z) else Ok PUndef
                                 | _ => Ok PUndef end)
                           | _ => Ok PUndef end;
     s_output := fun v => match v with
                          | PInt z => if Z.eqb z 99 then Ok PNone          (* a null produced during result coercion *)
                                      else if Z.odd z then Ok (PInt z) else Raise ValueError
                          | _ => Raise ValueError end |}.

Definition std_scalars (n : string) : option scalar_ops :=
  if String.eqb n "Int" then
    Some {| s_input := int_coerce_input O; s_literal := int_parse_literal O; s_output := int_coerce_output O |}
  else if String.eqb n "Float" then
    Some {| s_input := float_coerce_input O; s_literal := float_parse_literal O; s_output := float_coerce_output O |}
  else if String.eqb n "String" then
    Some {| s_input := string_coerce_input O; s_literal := string_parse_literal O; s_output := string_coerce_output O |}
  else if String.eqb n "Boolean" then
    Some {| s_input := boolean_coerce_input O; s_literal := boolean_parse_literal O; s_output := boolean_coerce_output O |}
  else if String.eqb n "ID" then
    Some {| s_input := id_coerce_input O; s_literal := id_parse_literal O; s_output := id_coerce_output O |}
  else if String.eqb n "Any" then Some any_ops
  else if String.eqb n "Odd" then Some odd_ops
  else None.
End Std.
