(* Model of SchemaRegistry (schema/registry.py): process-global state keyed by schema name. *)
From Coq Require Import List String Bool.
Import ListNotations.
Open Scope string_scope.

Inductive reg_kind := RDirective | RResolver | RTypeResolver | RScalar | RSubscription.
Definition reg_kind_eqb (a b : reg_kind) : bool :=
  match a, b with
  | RDirective, RDirective | RResolver, RResolver | RTypeResolver, RTypeResolver
  | RScalar, RScalar | RSubscription, RSubscription => true
  | _, _ => false
  end.

Section Registry.
Variable Impl : Type.                 (* the registered implementation object *)
Variable Sdl : Type.

Record reg_item := { ri_kind : reg_kind; ri_name : string; ri_impl : Impl }.

Inductive reg_op :=
| OpRegister (schema : string) (it : reg_item)     (* @Resolver/@Scalar/@Directive/... (schema_name=...) *)
| OpSdl (schema : string) (sdl : Sdl)              (* register_sdl at cook *)
| OpCook (schema : string).                        (* SchemaBakery.bake: reads the entry of that name *)

Definition op_schema (o : reg_op) : string :=
  match o with OpRegister s _ | OpSdl s _ | OpCook s => s end.

Record entry := { en_items : list reg_item; en_sdl : option Sdl }.
Definition registry := list (string * entry).

Definition empty_entry : entry := {| en_items := []; en_sdl := None |}.

Fixpoint get (n : string) (r : registry) : entry :=
  match r with
  | [] => empty_entry
  | (n', e) :: r' => if String.eqb n n' then e else get n r'
  end.

Fixpoint set (n : string) (e : entry) (r : registry) : registry :=
  match r with
  | [] => [(n, e)]
  | (n', e') :: r' => if String.eqb n n' then (n', e) :: r' else (n', e') :: set n e r'
  end.

Definition already (it : reg_item) (items : list reg_item) : bool :=
  existsb (fun x => reg_kind_eqb (ri_kind x) (ri_kind it) && String.eqb (ri_name x) (ri_name it)) items.

(* what an operation observes: a registration error, or what cook reads *)
Inductive reg_out :=
| RegOk
| RegAlreadyRegistered
| Cooked (items : list reg_item) (sdl : option Sdl).

Definition reg_step (r : registry) (o : reg_op) : registry * reg_out :=
  match o with
  | OpRegister n it =>
      let e := get n r in
      if already it (en_items e) then (r, RegAlreadyRegistered)
      else (set n {| en_items := en_items e ++ [it]; en_sdl := en_sdl e |} r, RegOk)
  | OpSdl n sdl =>
      let e := get n r in (set n {| en_items := en_items e; en_sdl := Some sdl |} r, RegOk)
  | OpCook n => let e := get n r in (r, Cooked (en_items e) (en_sdl e))
  end.

Fixpoint reg_run (r : registry) (ops : list reg_op) : registry * list reg_out :=
  match ops with
  | [] => (r, [])
  | o :: ops' => let (r1, out) := reg_step r o in
                 let (r2, outs) := reg_run r1 ops' in (r2, out :: outs)
  end.

(* the outputs of the operations that concern schema name n, in order *)
Fixpoint outs_of (n : string) (ops : list reg_op) (outs : list reg_out) : list reg_out :=
  match ops, outs with
  | o :: ops', x :: outs' =>
      if String.eqb (op_schema o) n then x :: outs_of n ops' outs' else outs_of n ops' outs'
  | _, _ => []
  end.

End Registry.
