(* CoerceArgumentValues(objectType, field, variableValues) as the GraphQL specification (June 2018,
   section 6.4.1) writes it, over the same data as the implementation model.  The coercion of a
   literal to the argument's type is a parameter (`coerce_literal`: None = coercion fails). *)
From Coq Require Import ZArith List String Bool.
From TV Require Import Py.Prelude Model.Schema Model.ImplInput.
Import ListNotations.
Open Scope string_scope.

Section SpecArgs.
(* coercion of a literal (variables inside it already substituted by the caller's rules) *)
Variable coerce_literal : ty -> lit -> res (option pyval).

Inductive sarg := SAbsent | SValue (v : pyval) | SFieldError.

(* for one argumentDefinition of the field *)
Definition spec_argument (ad : input_def) (anode : option argument) (vs : vars) : res sarg :=
  let argumentType := in_type ad in
  (* "Let hasValue be true if argumentValues provides a value for the name argumentName" /
     "If argumentValue is a Variable: ... hasValue be true if variableValues provides a value for the name variableName" *)
  let hasValue := match anode with
                  | None => false
                  | Some a => match a_value a with
                              | LVar _ vn => match dict_get vn vs with Some _ => true | None => false end
                              | _ => true end
                  end in
  (* "Let value be the value provided in variableValues / argumentValue" *)
  let valueIsNull := match anode with
                     | Some a => match a_value a with
                                 | LVar _ vn => match dict_get vn vs with Some PNone => true | _ => false end
                                 | LNull _ => true
                                 | _ => false end
                     | None => false end in
  match hasValue, in_default ad with
  | false, Some defaultValue =>
      (* "If hasValue is not true and defaultValue exists: add an entry ... with the value defaultValue" *)
      bind (coerce_literal argumentType defaultValue)
           (fun r => match r with Some v => Ok (SValue v) | None => Ok SFieldError end)
  | _, _ =>
      if is_non_null argumentType && (negb hasValue || valueIsNull)
      then Ok SFieldError       (* "if argumentType is a Non-Nullable type, and either hasValue is not true or value is null, throw a field error" *)
      else if hasValue then
        match anode with
        | Some a =>
            match a_value a with
            | LNull _ => Ok (SValue PNone)                             (* "If value is null: add an entry ... with the value null" *)
            | LVar _ vn =>                                             (* "if argumentValue is a Variable: add ... value" (already coerced) *)
                match dict_get vn vs with
                | Some v => if is_undef v then Ok SFieldError else Ok (SValue v)
                | None => Ok SAbsent
                end
            | node =>                                                  (* "Otherwise: coerce value ... if it fails, throw a field error" *)
                bind (coerce_literal argumentType node)
                     (fun r => match r with Some v => Ok (SValue v) | None => Ok SFieldError end)
            end
        | None => Ok SAbsent
        end
      else Ok SAbsent
  end.

(* the whole map: a field error in any argument is a field error of the field *)
Fixpoint spec_arguments (ads : list input_def) (anodes : list argument) (vs : vars) : res (list (string * pyval) * bool) :=
  match ads with
  | [] => Ok ([], false)
  | ad :: ads' =>
      bind (spec_argument ad (find_arg (in_name ad) anodes) vs) (fun o =>
      bind (spec_arguments ads' anodes vs) (fun rest =>
        let (vals, failed) := rest in
        match o with
        | SAbsent => Ok (vals, failed)
        | SValue v => Ok ((in_name ad, v) :: vals, failed)
        | SFieldError => Ok (vals, true)
        end))
  end.
End SpecArgs.
