(* Implementation model of Engine.execute end to end (engine.py execute / _perform_query,
   collect.py parse_and_validate_query, response.py build_response, utils/errors.py
   error_coercer_factory).  The parser and the validation walk are an oracle here: what they
   returned for the request text is the `parsed` argument. *)
From Coq Require Import ZArith List String Bool.
From TV Require Import Py.Prelude Model.Schema Model.ImplInput Model.ImplExec.
Import ListNotations.
Open Scope string_scope.
Open Scope list_scope.

Inductive parsed :=
| PSyntaxError (l : loc)          (* GraphQLSyntaxError carrying the parser's location *)
| PCrash                          (* any other exception: "Server encountered an error." *)
| PInvalid (errs : list gerr)     (* validation errors *)
| PDoc (d : document).

Section Envelope.
Variable A : Type.                      (* what the error coercer returns *)
Variable coercer : gerr -> A.           (* awaited once per error by build_response *)

Record envelope := {
  e_data : pyval;
  e_errors : option (list A);           (* the "errors" key is present only when non-empty *)
  e_coercer_calls : list gerr;          (* the errors the coercer was awaited with, in order *)
  e_log : list call                     (* user code invoked *)
}.

Definition build_response (data : pyval) (errs : list gerr) (log : list call) : envelope :=
  {| e_data := data;
     e_errors := match errs with [] => None | _ => Some (map coercer errs) end;
     e_coercer_calls := errs;
     e_log := log |}.

Definition engine_execute (sch : schema) (U : usercode) (cfg : config) (p : parsed)
           (opname : option string) (raw : vars) (root : pyval) : envelope :=
  match p with
  | PSyntaxError l =>
      build_response PNone [{| g_path := None; g_locs := [l]; g_msg := MEngine "syntax"; g_ext := false |}] []
  | PCrash =>
      build_response PNone [{| g_path := None; g_locs := []; g_msg := MEngine "server"; g_ext := false |}] []
  | PInvalid errs => build_response PNone errs []
  | PDoc d =>
      match impl_execute sch d U cfg opname raw root with
      | OVal r => build_response (r_data r) (r_errors r) (r_log r)
      | _ =>
          (* the catch-all of Engine.execute *)
          build_response PNone
            [{| g_path := Some [KName (query_type sch)]; g_locs := []; g_msg := MEngine "exception"; g_ext := false |}] []
      end
  end.

End Envelope.
