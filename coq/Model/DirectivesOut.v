(* Output side of the directive hooks (coercers/outputs/directives_coercer.py, the per-type bake()
   wiring of output coercers, list_coercer.py, the default resolver):
     - every named type's output coercer is wrapped by the type's on_pre_output_coercion hooks, which
       run for EVERY value at a position of that type -- null results and null list items included;
     - a list coercer hands each item (null or not) to the item type's coercer;
     - an object coercer resolves each selected field (default resolver: read the key), the field
       definition's on_field_execution hooks tag the resolved value (they post-process: last declared
       first), then the field type's coercer runs.
   Part 1 runs the hooks in the logging monad of Model/Directives.v; part 2 is the pure view. *)
From Coq Require Import ZArith List String Bool.
From TV Require Import Py.Prelude Model.Schema Model.Directives.
Import ListNotations.
Open Scope string_scope.
Open Scope list_scope.

Inductive oty :=
| OScalar (type_dirs : list dinst)
| OObject (type_dirs : list dinst) (fields : list (string * list dinst * oty))  (* the SELECTED fields: name, field directives, type *)
| OListOf (item : oty).

Fixpoint tlookup (k : string) (kv : list (string * tval)) : tval :=
  match kv with [] => TNull | (k', v) :: r => if String.eqb k k' then v else tlookup k r end.

(* what the field's on_field_execution hooks make of the resolved value *)
Definition field_tags (ds : list dinst) (resolved : tval) : tval :=
  fold_left (fun v d => tag (di_name d) v) (rev (filter (has_hook FIELD_EXEC) ds)) resolved.

(* ---- part 1: as executed, hooks logging their invocations ---- *)
Definition fname (p : string * list dinst * oty) : string := fst (fst p).
Definition fdirs (p : string * list dinst * oty) : list dinst := snd (fst p).
Definition ftype (p : string * list dinst * oty) : oty := snd p.

Fixpoint output_run (t : oty) : stage tval tag_event :=
  match t with
  | OScalar ds => run_hooks ds PRE_OUTPUT
  | OListOf item =>
      fun v log =>
        match v with
        | TLst xs =>
            let r := fold_left (fun acc x => let r := output_run item x (snd acc) in (fst acc ++ [fst r], snd r)) xs ([], log) in
            (TLst (fst r), snd r)
        | _ => (v, log)
        end
  | OObject ds fields =>
      fun v log =>
        let r1 := run_hooks ds PRE_OUTPUT v log in
        match fst r1 with
        | TObj kv =>
            let r := fold_left (fun acc p =>
                                  let r := output_run (ftype p) (field_tags (fdirs p) (tlookup (fname p) kv)) (snd acc) in
                                  (fst acc ++ [(fname p, fst r)], snd r)) fields ([], snd r1) in
            (TObj (fst r), snd r)
        | v' => (v', snd r1)
        end
  end.

(* ---- part 2: the pure view ---- *)
Fixpoint output_coerce (t : oty) (v : tval) : tval :=
  match t with
  | OScalar ds => apply_tags ds PRE_OUTPUT v
  | OListOf item => match v with TLst xs => TLst (map (output_coerce item) xs) | _ => v end
  | OObject ds fields =>
      match apply_tags ds PRE_OUTPUT v with
      | TObj kv =>
          TObj (map (fun p => (fname p, output_coerce (ftype p) (field_tags (fdirs p) (tlookup (fname p) kv)))) fields)
      | v' => v'
      end
  end.

Definition events (ds : list dinst) (h : string) : list tag_event :=
  map (fun d => (di_name d, h, di_arg d)) (filter (has_hook h) ds).

(* the on_pre_output_coercion invocations, in order: one per applicable instance per governed value *)
Fixpoint output_log (t : oty) (v : tval) : list tag_event :=
  match t with
  | OScalar ds => events ds PRE_OUTPUT
  | OListOf item => match v with TLst xs => flat_map (output_log item) xs | _ => [] end
  | OObject ds fields =>
      events ds PRE_OUTPUT ++
      match apply_tags ds PRE_OUTPUT v with
      | TObj kv => flat_map (fun p => output_log (ftype p) (field_tags (fdirs p) (tlookup (fname p) kv))) fields
      | _ => []
      end
  end.

(* a field of the root type: query-side and schema-side field hooks around the resolver, then the
   return type's coercer *)
Definition root_field_out (field_dirs : list dinst) (t : oty) (resolved : tval) : tval :=
  output_coerce t (field_tags field_dirs resolved).
Definition root_field_log (field_dirs : list dinst) (t : oty) (resolved : tval) : list tag_event :=
  output_log t (field_tags field_dirs resolved).
