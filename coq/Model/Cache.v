(* Model of the parsing cache in front of parse_and_validate_query (engine.py: the
   query_cache_decorator, by default functools.lru_cache(512); key = (query, schema)). *)
From Coq Require Import List Bool Arith Lia.
Import ListNotations.

Section Cache.
Variable K V : Type.
Variable keq : K -> K -> bool.       (* equality of cache keys: tuple/str/bytes/GraphQLSchema __eq__ + __hash__ *)
Variable f : K -> V.                 (* parse_and_validate_query: a function of (query, schema) *)

Inductive cache_cfg :=
| CacheDisabled                      (* query_cache_decorator=None, or lru_cache(0) *)
| CacheUnbounded                     (* lru_cache(None) / a custom memoising decorator *)
| CacheLru (capacity : nat).         (* lru_cache(n), n >= 1 *)

Definition cache := list (K * V).    (* most recently used first *)

Fixpoint lookup (k : K) (c : cache) : option V :=
  match c with
  | [] => None
  | (k', v) :: c' => if keq k k' then Some v else lookup k c'
  end.

Fixpoint remove (k : K) (c : cache) : cache :=
  match c with
  | [] => []
  | (k', v) :: c' => if keq k k' then c' else (k', v) :: remove k c'
  end.

(* one call through the decorated function *)
Definition cache_call (cfg : cache_cfg) (k : K) (c : cache) : V * cache :=
  match cfg with
  | CacheDisabled => (f k, c)
  | CacheUnbounded =>
      match lookup k c with
      | Some v => (v, (k, v) :: remove k c)
      | None => let v := f k in (v, (k, v) :: c)
      end
  | CacheLru cap =>
      match lookup k c with
      | Some v => (v, (k, v) :: remove k c)
      | None => let v := f k in (v, firstn cap ((k, v) :: c))     (* evict the least recently used *)
      end
  end.

Fixpoint cache_run (cfg : cache_cfg) (ks : list K) (c : cache) : list V * cache :=
  match ks with
  | [] => ([], c)
  | k :: ks' => let (v, c1) := cache_call cfg k c in
                let (vs, c2) := cache_run cfg ks' c1 in (v :: vs, c2)
  end.

End Cache.
