(* Specification model of query validation: the rules of section 5 of the June-2018
   specification that the project documents as supported, each as a boolean predicate written
   after the specification's formal statement (direct recursion over the document with the type
   scope as a parameter) -- independent of the walk / shared-context structure of the engine.
   [spec_verdicts] lists (rule tag, holds?); [spec_validb] is their conjunction. *)
From Coq Require Import ZArith List String Bool.
From TV Require Import Py.Prelude Model.Schema Model.ImplValidate.
Import ListNotations.
Open Scope string_scope.
Open Scope list_scope.

Section Spec.
Variable V : vschema.
Let sch := vs V.

(* ---- type system lookups, as the specification sees them ---- *)
Definition s_type (n : string) : option typedef := vfind_type V n.
Definition s_composite (n : string) : bool :=
  match s_type n with Some d => is_composite_def d | None => false end.
Definition s_input_type (n : string) : bool :=
  match s_type n with Some d => is_input_def d | None => false end.

(* field lookup in a type scope; meta-fields: __typename in every composite scope, __schema and
   __type on the query root *)
Definition s_field (scope : option string) (name : string) : option field_def :=
  match scope with
  | None => None
  | Some p =>
      if String.eqb name "__typename" then (if s_composite p then Some typename_field else None)
      else if String.eqb p (query_type sch) && String.eqb name "__schema" then Some schema_field
      else if String.eqb p (query_type sch) && String.eqb name "__type" then Some type_field
      else match s_type p with
           | Some (DObject _ fs) | Some (DInterface fs) => find_field fs name
           | _ => None
           end
  end.

Definition s_directive (n : string) : option dirdef := vfind_directive V n.

Definition s_possible (n : string) : list string := vpossible V n.

(* ---- sites: every selection with the type scope it is written in ---- *)
Inductive site :=
| SiteField (scope : option string) (name : string) (args : list argument) (dirs : list directive) (has_sels : bool)
| SiteSpread (scope : option string) (name : string) (dirs : list directive)
| SiteInline (scope : option string) (tc : option string) (dirs : list directive).

Fixpoint sites_of (scope : option string) (s : selection) : list site :=
  match s with
  | SField _ _ name args dirs sels =>
      let inner := match s_field scope name with Some f => Some (named_of (fd_type f)) | None => None end in
      SiteField scope name args dirs (match sels with [] => false | _ => true end) ::
      (fix go (xs : list selection) : list site :=
         match xs with [] => [] | x :: r => sites_of inner x ++ go r end) sels
  | SSpread _ name dirs => [SiteSpread scope name dirs]
  | SInline _ tc dirs sels =>
      let inner := match tc with Some t => Some t | None => scope end in
      SiteInline scope tc dirs ::
      (fix go (xs : list selection) : list site :=
         match xs with [] => [] | x :: r => sites_of inner x ++ go r end) sels
  end.
Definition sites_of_sels (scope : option string) (sels : list selection) : list site :=
  flat_map (sites_of scope) sels.

Definition op_scope (o : operation) : option string := op_root V (o_kind o).

Definition doc_sites (doc : document) : list site :=
  flat_map (fun o => sites_of_sels (op_scope o) (o_sels o)) (operations doc) ++
  flat_map (fun f => sites_of_sels (Some (fr_type f)) (fr_sels f)) (fragments doc).

(* every directive application with its location name *)
Definition site_dirs (s : site) : string * list directive :=
  match s with
  | SiteField _ _ _ d _ => ("FIELD", d)
  | SiteSpread _ _ d => ("FRAGMENT_SPREAD", d)
  | SiteInline _ _ d => ("INLINE_FRAGMENT", d)
  end.
Definition doc_dir_groups (doc : document) : list (string * list directive) :=
  map (fun o => (op_loc_name (o_kind o), o_dirs o)) (operations doc) ++
  map (fun f => ("FRAGMENT_DEFINITION", fr_dirs f)) (fragments doc) ++
  map site_dirs (doc_sites doc).

Fixpoint nodupb (l : list string) : bool :=
  match l with [] => true | x :: r => negb (mem_str x r) && nodupb r end.

(* ---- 5.2 operations ---- *)
Definition r_operation_names (doc : document) : bool :=
  nodupb (flat_map (fun o => match o_name o with Some n => [n] | None => [] end) (operations doc)).

Definition r_lone_anonymous (doc : document) : bool :=
  if existsb (fun o => match o_name o with None => true | Some _ => false end) (operations doc)
  then (List.length (operations doc) =? 1)%nat else true.

(* response keys selected at the root, through fragments (all selections taken as included) *)
Fixpoint root_keys (fuel : nat) (frs : list fragment) (sels : list selection) : list string :=
  match fuel with
  | O => []
  | S fuel' =>
      flat_map (fun s => match s with
                         | SField _ alias name _ _ _ => [match alias with Some a => a | None => name end]
                         | SSpread _ n _ => match find_fragment frs n with
                                            | Some f => root_keys fuel' frs (fr_sels f)
                                            | None => [] end
                         | SInline _ _ _ sub => root_keys fuel' frs sub
                         end) sels
  end.
Fixpoint dedup (l : list string) : list string :=
  match l with [] => [] | x :: r => if mem_str x r then dedup r else x :: dedup r end.

Definition r_single_root (doc : document) : bool :=
  forallb (fun o => match o_kind o with
                    | OpSubscription =>
                        (List.length (dedup (root_keys (S (S (List.length (fragments doc))) * 4) (fragments doc) (o_sels o))) =? 1)%nat
                    | _ => true end) (operations doc).

(* ---- 5.3 fields ---- *)
Definition r_fields_exist (doc : document) : bool :=
  forallb (fun s => match s with
                    | SiteField scope name _ _ _ => match s_field scope name with Some _ => true | None => false end
                    | _ => true end) (doc_sites doc).

Definition r_leaf_selections (doc : document) : bool :=
  forallb (fun s => match s with
                    | SiteField scope name _ _ has_sels =>
                        match s_field scope name with
                        | Some f => Bool.eqb has_sels (s_composite (named_of (fd_type f)))
                        | None => true end
                    | _ => true end) (doc_sites doc).

(* ---- 5.4 arguments ---- *)
Definition arg_lists_gen (lookup : option string -> string -> option field_def) (doc : document)
  : list (option (list input_def) * list argument) :=
  flat_map (fun s => match s with
                     | SiteField scope name args _ _ =>
                         [(match lookup scope name with Some f => Some (fd_args f) | None => None end, args)]
                     | _ => [] end) (doc_sites doc) ++
  flat_map (fun g => map (fun d => (match s_directive (d_name d) with Some dd => Some (dd_args dd) | None => None end,
                                    dir_args d)) (snd g)) (doc_dir_groups doc).
Definition arg_lists (doc : document) := arg_lists_gen s_field doc.

Definition argument_names_on (l : list (option (list input_def) * list argument)) : bool :=
  forallb (fun da => match fst da with
                     | Some ds => forallb (fun a => existsb (fun d => String.eqb (in_name d) (a_name a)) ds) (snd da)
                     | None => true end) l.

Definition r_argument_names (doc : document) : bool := argument_names_on (arg_lists doc).

(* region of a recorded finding: the same rule with the engine's field lookup, which does not know
   `__typename` in an interface scope *)
Definition r_argument_names_engine_lookup (doc : document) : bool :=
  argument_names_on (arg_lists_gen (vfind_field V) doc).

Definition r_argument_uniqueness (doc : document) : bool :=
  forallb (fun da => nodupb (map a_name (snd da))) (arg_lists doc).

Definition r_required_arguments (doc : document) : bool :=
  forallb (fun da => match fst da with
                     | Some ds => forallb (fun d =>
                         negb (is_non_null (in_type d)) || match in_default d with Some _ => true | None => false end ||
                         existsb (fun a => String.eqb (a_name a) (in_name d)) (snd da)) ds
                     | None => true end) (arg_lists doc).

(* ---- 5.5 fragments ---- *)
Definition r_fragment_names (doc : document) : bool := nodupb (map fr_name (fragments doc)).

Definition type_conditions (doc : document) : list string :=
  map fr_type (fragments doc) ++
  flat_map (fun s => match s with SiteInline _ (Some t) _ => [t] | _ => [] end) (doc_sites doc).

Definition r_type_existence (doc : document) : bool :=
  forallb (fun t => match s_type t with Some _ => true | None => false end) (type_conditions doc).
Definition r_composite_types (doc : document) : bool :=
  forallb (fun t => match s_type t with Some d => is_composite_def d | None => true end) (type_conditions doc).

Definition spread_names (doc : document) : list string :=
  flat_map (fun s => match s with SiteSpread _ n _ => [n] | _ => [] end) (doc_sites doc).

Definition r_fragments_used (doc : document) : bool :=
  forallb (fun f => mem_str (fr_name f) (spread_names doc)) (fragments doc).
Definition r_spread_targets (doc : document) : bool :=
  forallb (fun n => match find_fragment (fragments doc) n with Some _ => true | None => false end) (spread_names doc).

(* no fragment reaches itself: n-fold successor closure *)
Definition succs (frs : list fragment) (n : string) : list string :=
  match find_fragment frs n with
  | Some f => filter (fun m => match find_fragment frs m with Some _ => true | None => false end) (spreads_of (fr_sels f))
  | None => []
  end.
Fixpoint reach (k : nat) (frs : list fragment) (from : list string) : list string :=
  match k with
  | O => []
  | S k' => let next := dedup (flat_map (succs frs) from) in next ++ reach k' frs next
  end.
Definition r_no_cycles (doc : document) : bool :=
  let frs := fragments doc in
  forallb (fun f => negb (mem_str (fr_name f) (reach (List.length frs) frs [fr_name f]))) frs.

Definition applies (scope : option string) (cond : string) : bool :=
  match scope with
  | Some p => if s_composite p && s_composite cond
              then inter_nonempty (s_possible cond) (s_possible p) else true
  | None => true
  end.
Definition r_spread_possible (doc : document) : bool :=
  forallb (fun s => match s with
                    | SiteSpread scope n _ =>
                        match find_fragment (fragments doc) n with
                        | Some f => applies scope (fr_type f)
                        | None => true end
                    | SiteInline scope (Some t) _ => applies scope t
                    | _ => true end) (doc_sites doc).

(* ---- 5.6 values ---- *)
Fixpoint value_ok (v : lit) (t : ty) {struct v} : bool :=
  match v with
  | LVar _ _ => true
  | _ =>
    (fix on_ty (t : ty) : bool :=
       match t with
       | TNonNull t' => match v with LNull _ => false | _ => on_ty t' end
       | TList t' =>
           match v with
           | LNull _ => true
           | LList _ items => (fix all (xs : list lit) : bool :=
                                 match xs with [] => true | x :: r => value_ok x t' && all r end) items
           | _ => on_ty t'
           end
       | TNamed n =>
           match v with
           | LNull _ => true
           | _ =>
             match s_type n with
             | Some DScalar =>
                 match scalars sch n with
                 | Some ops => match s_literal ops (node_of_lit v) with Ok PUndef => false | Ok _ => true | Raise _ => false end
                 | None => false
                 end
             | Some (DEnum values) => match v with LEnum _ s => mem_str s values | _ => false end
             | Some (DInput ifs) =>
                 match v with
                 | LObj _ fields =>
                     forallb (fun f => negb (is_non_null (in_type f)) ||
                                       match in_default f with Some _ => true | None => false end ||
                                       mem_str (in_name f) (map fst fields)) ifs &&
                     (fix all (xs : list (string * lit)) : bool :=
                        match xs with
                        | [] => true
                        | (fname, fv) :: r =>
                            match find (fun f => String.eqb (in_name f) fname) ifs with
                            | Some f => value_ok fv (in_type f) && all r
                            | None => false
                            end
                        end) fields
                 | _ => false
                 end
             | _ => false
             end
           end
       end) t
  end.

Definition r_values_correct (doc : document) : bool :=
  forallb (fun da => match fst da with
                     | Some ds => forallb (fun a => match find (fun d => String.eqb (in_name d) (a_name a)) ds with
                                                    | Some d => value_ok (a_value a) (in_type d)
                                                    | None => true end) (snd da)
                     | None => true end) (arg_lists doc).

Fixpoint obj_fields_unique (v : lit) : bool :=
  match v with
  | LList _ items => (fix all (xs : list lit) : bool :=
                        match xs with [] => true | x :: r => obj_fields_unique x && all r end) items
  | LObj _ fields => nodupb (map fst fields) &&
                     (fix all (xs : list (string * lit)) : bool :=
                        match xs with [] => true | (_, x) :: r => obj_fields_unique x && all r end) fields
  | _ => true
  end.
Definition all_values (doc : document) : list lit :=
  flat_map (fun da => map a_value (snd da)) (arg_lists doc) ++
  flat_map (fun o => flat_map (fun vd => match v_default vd with Some d => [d] | None => [] end) (o_vars o)) (operations doc).
Definition r_input_field_uniqueness (doc : document) : bool := forallb obj_fields_unique (all_values doc).

(* ---- 5.7 directives ---- *)
Definition r_directives_defined (doc : document) : bool :=
  forallb (fun g => forallb (fun d => match s_directive (d_name d) with Some _ => true | None => false end) (snd g))
          (doc_dir_groups doc).
Definition r_directive_locations (doc : document) : bool :=
  forallb (fun g => forallb (fun d => match s_directive (d_name d) with
                                      | Some dd => mem_str (fst g) (dd_locs dd)
                                      | None => true end) (snd g)) (doc_dir_groups doc).
Definition r_directives_unique (doc : document) : bool :=
  forallb (fun g => nodupb (map d_name (snd g))) (doc_dir_groups doc).

(* ---- 5.8 variables ---- *)
Definition r_variable_uniqueness (doc : document) : bool :=
  forallb (fun o => nodupb (map v_name (o_vars o))) (operations doc).
Definition r_variables_input_types (doc : document) : bool :=
  forallb (fun o => forallb (fun vd => match s_type (named_of (v_type vd)) with
                                       | Some d => is_input_def d
                                       | None => true        (* unknown type names: rule 5.5.1.2-like, not in the supported list *)
                                       end) (o_vars o)) (operations doc).

(* a variable usage: name, expected type of the position, does the position have a default *)
Definition usage := (string * ty * bool)%type.

Fixpoint usages_in (v : lit) (t : ty) (has_default : bool) {struct v} : list usage :=
  match v with
  | LVar _ n => [(n, t, has_default)]
  | LList _ items =>
      let item_t := (fix strip (t : ty) : option ty :=
                       match t with TNonNull t' => strip t' | TList t' => Some t' | TNamed _ => None end) t in
      (fix all (xs : list lit) : list usage :=
         match xs with
         | [] => []
         | x :: r => match item_t with
                     | Some it => usages_in x it false
                     | None => usages_in x t false          (* ill-typed anyway (5.6.1) *)
                     end ++ all r
         end) items
  | LObj _ fields =>
      (fix all (xs : list (string * lit)) : list usage :=
         match xs with
         | [] => []
         | (fname, fv) :: r =>
             match s_type (named_of t) with
             | Some (DInput ifs) =>
                 match find (fun f => String.eqb (in_name f) fname) ifs with
                 | Some f => usages_in fv (in_type f) (match in_default f with Some _ => true | None => false end)
                 | None => []
                 end
             | _ => []
             end ++ all r
         end) fields
  | _ => []
  end.

(* all variable names occurring in a value, typed or not *)
Fixpoint vars_in (v : lit) : list string :=
  match v with
  | LVar _ n => [n]
  | LList _ items => (fix all (xs : list lit) : list string :=
                        match xs with [] => [] | x :: r => vars_in x ++ all r end) items
  | LObj _ fields => (fix all (xs : list (string * lit)) : list string :=
                        match xs with [] => [] | (_, x) :: r => vars_in x ++ all r end) fields
  | _ => []
  end.

Definition site_args (s : site) : list (option (list input_def) * list argument) :=
  (match s with
   | SiteField scope name args _ _ =>
       [(match s_field scope name with Some f => Some (fd_args f) | None => None end, args)]
   | _ => [] end) ++
  map (fun d => (match s_directive (d_name d) with Some dd => Some (dd_args dd) | None => None end, dir_args d))
      (snd (site_dirs s)).

Definition args_usages (da : option (list input_def) * list argument) : list usage :=
  match fst da with
  | Some ds => flat_map (fun a => match find (fun d => String.eqb (in_name d) (a_name a)) ds with
                                  | Some d => usages_in (a_value a) (in_type d)
                                                        (match in_default d with Some _ => true | None => false end)
                                  | None => [] end) (snd da)
  | None => []
  end.
Definition args_vars (da : option (list input_def) * list argument) : list string :=
  flat_map (fun a => vars_in (a_value a)) (snd da).

(* fragments reachable from a selection set (transitively) *)
Definition reachable_fragments (doc : document) (sels : list selection) : list fragment :=
  let frs := fragments doc in
  let direct := dedup (filter (fun m => match find_fragment frs m with Some _ => true | None => false end) (spreads_of sels)) in
  let names := dedup (direct ++ reach (List.length frs) frs direct) in
  flat_map (fun n => match find_fragment frs n with Some f => [f] | None => [] end) names.

Definition op_sites (doc : document) (o : operation) : list site :=
  sites_of_sels (op_scope o) (o_sels o) ++
  flat_map (fun f => sites_of_sels (Some (fr_type f)) (fr_sels f)) (reachable_fragments doc (o_sels o)).

Definition op_dir_args (o : operation) : list (option (list input_def) * list argument) :=
  map (fun d => (match s_directive (d_name d) with Some dd => Some (dd_args dd) | None => None end, dir_args d)) (o_dirs o).
Definition frag_dir_args (doc : document) (o : operation) : list (option (list input_def) * list argument) :=
  flat_map (fun f => map (fun d => (match s_directive (d_name d) with Some dd => Some (dd_args dd) | None => None end, dir_args d))
                         (fr_dirs f)) (reachable_fragments doc (o_sels o)).

Definition op_arg_lists (doc : document) (o : operation) :=
  op_dir_args o ++ frag_dir_args doc o ++ flat_map site_args (op_sites doc o).

Definition r_uses_defined (doc : document) : bool :=
  forallb (fun o => forallb (fun n => mem_str n (map v_name (o_vars o)))
                            (flat_map args_vars (op_arg_lists doc o))) (operations doc).
Definition r_variables_used (doc : document) : bool :=
  forallb (fun o => forallb (fun vd => mem_str (v_name vd) (flat_map args_vars (op_arg_lists doc o))) (o_vars o))
          (operations doc).

(* AreTypesCompatible(variableType, locationType) *)
Fixpoint types_compatible (var_t loc_t : ty) {struct loc_t} : bool :=
  match loc_t with
  | TNonNull l' => match var_t with TNonNull v' => types_compatible v' l' | _ => false end
  | TList l' =>
      match var_t with
      | TNonNull (TList v') | TList v' => types_compatible v' l'
      | _ => false
      end
  | TNamed n =>
      match var_t with
      | TNonNull (TNamed m) | TNamed m => String.eqb m n
      | _ => false
      end
  end.

(* IsVariableUsageAllowed *)
Definition usage_allowed (vd : var_def) (u : usage) : bool :=
  let loc_t := snd (fst u) in
  let loc_default := snd u in
  match loc_t with
  | TNonNull inner =>
      if is_non_null (v_type vd) then types_compatible (v_type vd) loc_t
      else
        let has_nonnull_default := match v_default vd with None | Some (LNull _) => false | Some _ => true end in
        if negb has_nonnull_default && negb loc_default then false
        else types_compatible (v_type vd) inner
  | _ => types_compatible (v_type vd) loc_t
  end.

Definition r_usages_allowed (doc : document) : bool :=
  forallb (fun o => forallb (fun u => match find (fun vd => String.eqb (v_name vd) (fst (fst u))) (o_vars o) with
                                      | Some vd => usage_allowed vd u
                                      | None => true end)
                            (flat_map args_usages (op_arg_lists doc o))) (operations doc).

(* region of a recorded finding: the rule restricted to variables that are directly the value of
   an argument (usages nested in list / object literals left out) *)
Definition args_usages_direct (da : option (list input_def) * list argument) : list usage :=
  match fst da with
  | Some ds => flat_map (fun a => match a_value a with
                                  | LVar _ n => match find (fun d => String.eqb (in_name d) (a_name a)) ds with
                                                | Some d => [(n, in_type d, match in_default d with Some _ => true | None => false end)]
                                                | None => [] end
                                  | _ => [] end) (snd da)
  | None => []
  end.
Definition r_usages_allowed_direct (doc : document) : bool :=
  forallb (fun o => forallb (fun u => match find (fun vd => String.eqb (v_name vd) (fst (fst u))) (o_vars o) with
                                      | Some vd => usage_allowed vd u
                                      | None => true end)
                            (flat_map args_usages_direct (op_arg_lists doc o))) (operations doc).

(* ---- all supported rules ---- *)
Definition spec_verdicts (doc : document) : list (string * bool) := [
  ("operation-name-uniqueness", r_operation_names doc);
  ("lone-anonymous-operation", r_lone_anonymous doc);
  ("single-root-field", r_single_root doc);
  ("field-selections-on-objects-interfaces-and-unions-types", r_fields_exist doc);
  ("leaf-field-selections", r_leaf_selections doc);
  ("argument-names", r_argument_names doc);
  ("argument-uniqueness", r_argument_uniqueness doc);
  ("required-arguments", r_required_arguments doc);
  ("fragment-name-uniqueness", r_fragment_names doc);
  ("fragment-spread-type-existence", r_type_existence doc);
  ("fragments-on-composite-types", r_composite_types doc);
  ("fragment-must-be-used", r_fragments_used doc);
  ("fragment-spread-target-defined", r_spread_targets doc);
  ("fragment-spreads-must-not-form-cycles", r_no_cycles doc);
  ("fragment-spread-is-possible", r_spread_possible doc);
  ("values-of-correct-type", r_values_correct doc);
  ("input-object-field-uniqueness", r_input_field_uniqueness doc);
  ("directives-are-defined", r_directives_defined doc);
  ("directives-are-in-valid-locations", r_directive_locations doc);
  ("directives-are-unique-per-location", r_directives_unique doc);
  ("variable-uniqueness", r_variable_uniqueness doc);
  ("variables-are-input-types", r_variables_input_types doc);
  ("all-variable-uses-defined", r_uses_defined doc);
  ("all-variables-used", r_variables_used doc);
  ("all-variable-usages-are-allowed", r_usages_allowed doc)
].

Definition spec_validb (doc : document) : bool := forallb snd (spec_verdicts doc).
Definition violated_rules (doc : document) : list string :=
  flat_map (fun tv : string * bool => if snd tv then [] else [fst tv]) (spec_verdicts doc).

End Spec.
