(* Implementation model of input coercion, written after the code:
     coercers/inputs/*          (JSON variable values)
     coercers/literals/*        (AST literals, variables substituted inside literals)
     coercers/variables.py      (variable_coercer / coerce_variables)
     coercers/argument(s).py    (argument_coercer / coerce_arguments)
   Coercers are built as in get_input_coercer / get_literal_coercer: the wrapper list is
   peeled off the type, then folded (reversed) around the leaf coercer.  Directive hooks are
   absent here (they are the subject of C13): every *_directives_coercer is the identity.
   Recursion through named input-object types consumes fuel. *)
From Coq Require Import ZArith List String Bool.
From TV Require Import Py.Prelude Model.Schema.
Import ListNotations.
Open Scope string_scope.
Open Scope list_scope.

Inductive ekind :=
| EExpectedType       (* scalar / enum leaf refused the value *)
| ENonNullNull        (* "Expected non-nullable type ... not to be null" *)
| ENotObject          (* "Expected type < T > to be an object" *)
| EFieldRequired      (* "Field < path > of required type ... was not provided" *)
| EUnknownField       (* "Field < f > is not defined by type < T >" *)
| EInvalidDefault     (* "Variable < $v > got invalid default value" *)
| EVarNonNullNull     (* "Variable < $v > of non-null type ... must not be null" *)
| EVarRequired.       (* "Variable < $v > of required type ... was not provided" *)

Definition cerr := (ekind * list pkey)%type.
(* CoercionResult: value is None as soon as errors is non-empty *)
Definition cres := (pyval * list cerr)%type.
Definition mk_cres (v : pyval) (errs : list cerr) : cres :=
  match errs with [] => (v, []) | _ => (PNone, errs) end.

Definition is_undef (v : pyval) : bool := match v with PUndef => true | _ => false end.
Definition is_none (v : pyval) : bool := match v with PNone => true | _ => false end.

Fixpoint dict_get (k : string) (d : list (string * pyval)) : option pyval :=
  match d with
  | [] => None
  | (k', v) :: d' => if String.eqb k k' then Some v else dict_get k d'
  end.

Inductive wrapper := WList | WNonNull.
Fixpoint peel (t : ty) : list wrapper * string :=
  match t with
  | TNamed n => ([], n)
  | TList t' => let (w, n) := peel t' in (WList :: w, n)
  | TNonNull t' => let (w, n) := peel t' in (WNonNull :: w, n)
  end.

Section Impl.
Variable sch : schema.

(* ================= coercers/inputs ================= *)
Definition icoercer := list pkey -> pyval -> res cres.

(* null_coercer_wrapper *)
Definition null_wrap (c : icoercer) : icoercer :=
  fun path v => if is_none v then Ok (PNone, []) else c path v.

Definition in_scalar_coercer (ops : scalar_ops) : icoercer :=
  null_wrap (fun path v =>
    match catch_exception (bind (s_input ops v) (fun r => Ok (Some r))) (fun _ => Ok None) with
    | Ok (Some r) => if is_undef r then Ok (PNone, [(EExpectedType, path)]) else Ok (r, [])
    | Ok None => Ok (PNone, [(EExpectedType, path)])
    | Raise e => Raise e
    end).

Definition in_enum_coercer (values : list string) : icoercer :=
  null_wrap (fun path v =>
    match v with
    | PStr s => if mem_str s values then Ok (v, []) else Ok (PNone, [(EExpectedType, path)])
    | _ => Ok (PNone, [(EExpectedType, path)])
    end).

(* merge loop shared by list / object coercers:
     if errs: errors.extend(errs)  elif not errors: values.append(value) *)
Fixpoint merge_list (rs : list cres) (vals : list pyval) (errs : list cerr) : list pyval * list cerr :=
  match rs with
  | [] => (vals, errs)
  | (v, es) :: rs' =>
      match es with
      | _ :: _ => merge_list rs' vals (errs ++ es)
      | [] => match errs with
              | [] => merge_list rs' (vals ++ [v]) errs
              | _ => merge_list rs' vals errs
              end
      end
  end.

Fixpoint map_res {A B} (f : A -> res B) (l : list A) : res (list B) :=
  match l with
  | [] => Ok []
  | x :: xs => bind (f x) (fun y => bind (map_res f xs) (fun ys => Ok (y :: ys)))
  end.

Fixpoint enumerate_from {A} (i : Z) (l : list A) : list (Z * A) :=
  match l with [] => [] | x :: xs => (i, x) :: enumerate_from (i + 1)%Z xs end.

Definition in_list_coercer (inner : icoercer) : icoercer :=
  null_wrap (fun path v =>
    match v with
    | PList items =>
        bind (map_res (fun ix => inner (path ++ [KIdx (fst ix)]) (snd ix)) (enumerate_from 0 items))
             (fun rs => let (vals, errs) := merge_list rs [] [] in Ok (mk_cres (PList vals) errs))
    | _ =>
        bind (inner path v) (fun r => Ok (mk_cres (PList [fst r]) (snd r)))
    end).

Definition in_non_null_coercer (inner : icoercer) : icoercer :=
  fun path v => if is_none v then Ok (PNone, [(ENonNullNull, path)]) else inner path v.

Definition wrap_input (ws : list wrapper) (leaf : icoercer) : icoercer :=
  fold_right (fun w inner => match w with
                             | WList => in_list_coercer inner
                             | WNonNull => in_non_null_coercer inner
                             end) leaf ws.

(* ================= coercers/literals ================= *)
(* a literal coercion never produces errors without directive hooks: the result is a value
   or UNDEFINED_VALUE (PUndef) *)
Definition vars := list (string * pyval).

(* variables.get(name, UNDEFINED) with `if not variables` first *)
Definition var_lookup (vs : vars) (n : string) : pyval :=
  match dict_get n vs with Some v => v | None => PUndef end.

Definition is_missing_variable (x : lit) (vs : vars) : bool :=
  match x with LVar _ n => is_undef (var_lookup vs n) | _ => false end.

(* lcoercer: variables -> is_non_null_type flag -> node -> value-or-undefined *)
Definition lcoercer := vars -> bool -> lit -> res pyval.

(* null_and_variable_coercer_wrapper *)
Definition nv_wrap (c : vars -> lit -> res pyval) : lcoercer :=
  fun vs nn x =>
    match x with
    | LNull _ => Ok PNone
    | LVar _ n =>
        let v := var_lookup vs n in
        if is_undef v || (is_none v && nn) then Ok PUndef else Ok v
    | _ => c vs x
    end.

Definition lit_scalar_coercer (ops : scalar_ops) : lcoercer :=
  nv_wrap (fun _ x =>
    match catch_exception (bind (s_literal ops (node_of_lit x)) (fun r => Ok (Some r))) (fun _ => Ok None) with
    | Ok (Some r) => Ok r          (* a value, or UNDEFINED_VALUE itself *)
    | Ok None => Ok PUndef
    | Raise e => Raise e
    end).

Definition lit_enum_coercer (values : list string) : lcoercer :=
  nv_wrap (fun _ x =>
    match x with
    | LEnum _ s => if mem_str s values then Ok (PStr s) else Ok PUndef
    | _ => Ok PUndef
    end).

(* the list merge of literals/list_coercer.py without errors: any UNDEFINED item makes the
   whole list UNDEFINED *)
Fixpoint all_defined (l : list pyval) : bool :=
  match l with [] => true | v :: l' => negb (is_undef v) && all_defined l' end.

Definition lit_list_coercer (item_non_null : bool) (inner : lcoercer) : lcoercer :=
  nv_wrap (fun vs x =>
    match x with
    | LList _ items =>
        bind (map_res (fun it =>
                if is_missing_variable it vs
                then (if item_non_null then Ok PUndef else Ok PNone)
                else inner vs false it) items)
             (fun rs => if all_defined rs then Ok (PList rs) else Ok PUndef)
    | _ =>
        bind (inner vs false x) (fun v => if is_undef v then Ok PUndef else Ok (PList [v]))
    end).

Definition lit_non_null_coercer (inner : lcoercer) : lcoercer :=
  fun vs _ x => match x with LNull _ => Ok PUndef | _ => inner vs true x end.

Definition item_is_non_null (ws : list wrapper) : bool :=
  match ws with WNonNull :: _ => true | _ => false end.

Fixpoint wrap_literal (ws : list wrapper) (leaf : lcoercer) : lcoercer :=
  match ws with
  | [] => leaf
  | WList :: ws' => lit_list_coercer (item_is_non_null ws') (wrap_literal ws' leaf)
  | WNonNull :: ws' => lit_non_null_coercer (wrap_literal ws' leaf)
  end.

(* ================= leaves by name (fuel for input objects) ================= *)
Inductive field_outcome := FSkip | FInvalid | FVal (v : pyval).

Fixpoint obj_merge_lit (rs : list (string * field_outcome)) (acc : list (string * pyval)) : pyval :=
  match rs with
  | [] => PDict acc
  | (_, FSkip) :: rs' => obj_merge_lit rs' acc
  | (_, FInvalid) :: _ => PUndef
  | (n, FVal v) :: rs' => if is_undef v then PUndef else obj_merge_lit rs' (acc ++ [(n, v)])
  end.

Fixpoint lit_obj_get (k : string) (fs : list (string * lit)) : option lit :=
  match fs with
  | [] => None
  | (k', v) :: fs' =>
      (* field_nodes dict comprehension: the LAST node with a given name wins *)
      match lit_obj_get k fs' with
      | Some later => Some later
      | None => if String.eqb k k' then Some v else None
      end
  end.

Inductive in_field_outcome := IUndef | IRes (r : cres).

Fixpoint obj_merge_in (rs : list (string * in_field_outcome)) (vals : list (string * pyval))
         (errs : list cerr) : list (string * pyval) * list cerr :=
  match rs with
  | [] => (vals, errs)
  | (_, IUndef) :: rs' => obj_merge_in rs' vals errs
  | (n, IRes (v, es)) :: rs' =>
      match es with
      | _ :: _ => obj_merge_in rs' vals (errs ++ es)
      | [] => match errs with
              | [] => obj_merge_in rs' (vals ++ [(n, v)]) errs
              | _ => obj_merge_in rs' vals errs
              end
      end
  end.

Fixpoint has_field (n : string) (fs : list input_def) : bool :=
  match fs with [] => false | f :: fs' => String.eqb n (in_name f) || has_field n fs' end.

Fixpoint literal_leaf (fuel : nat) (n : string) : lcoercer :=
  match fuel with
  | O => fun _ _ _ => Raise OutOfFuel
  | S fuel' =>
      match find_type sch n with
      | Some DScalar =>
          match scalars sch n with
          | Some ops => lit_scalar_coercer ops
          | None => fun _ _ _ => Raise AttributeError   (* scalar without implementation *)
          end
      | Some (DEnum values) => lit_enum_coercer values
      | Some (DInput fields) =>
          nv_wrap (fun vs x =>
            match x with
            | LObj _ fnodes =>
                bind (map_res (fun f =>
                        let (ws, leafn) := peel (in_type f) in
                        let coercer := wrap_literal ws (literal_leaf fuel' leafn) in
                        let use_default :=
                          match lit_obj_get (in_name f) fnodes with
                          | None => true
                          | Some node => is_missing_variable node vs
                          end in
                        if use_default then
                          match in_default f with
                          | Some d => bind (coercer vs false d) (fun v => Ok (in_name f, FVal v))
                          | None => if is_non_null (in_type f) then Ok (in_name f, FInvalid)
                                    else Ok (in_name f, FSkip)
                          end
                        else
                          match lit_obj_get (in_name f) fnodes with
                          | Some node => bind (coercer vs false node) (fun v => Ok (in_name f, FVal v))
                          | None => Ok (in_name f, FSkip)
                          end) fields)
                     (fun rs => Ok (obj_merge_lit rs []))
            | _ => Ok PUndef
            end)
      | Some _ | None =>
          (* not an input type: `inner_type.literal_coercer` raises AttributeError and the
             chain's leaf is `lambda *a, **k: None`; its result cannot be unpacked *)
          fun _ _ _ => Raise TypeError
      end
  end.

Definition get_literal_coercer (fuel : nat) (t : ty) : lcoercer :=
  let (ws, n) := peel t in wrap_literal ws (literal_leaf fuel n).

Fixpoint input_leaf (fuel : nat) (n : string) : icoercer :=
  match fuel with
  | O => fun _ _ => Raise OutOfFuel
  | S fuel' =>
      match find_type sch n with
      | Some DScalar =>
          match scalars sch n with
          | Some ops => in_scalar_coercer ops
          | None => fun _ _ => Raise AttributeError
          end
      | Some (DEnum values) => in_enum_coercer values
      | Some (DInput fields) =>
          null_wrap (fun path v =>
            match v with
            | PDict kv =>
                bind (map_res (fun f =>
                        let (ws, leafn) := peel (in_type f) in
                        match dict_get (in_name f) kv with
                        | None =>
                            match in_default f with
                            | Some d =>
                                (* an invalid default (UNDEFINED_VALUE) is a coercion error of the field *)
                                bind (wrap_literal ws (literal_leaf fuel' leafn) [] false d)
                                     (fun dv => if is_undef dv
                                                then Ok (in_name f, IRes (PNone, [(EInvalidDefault, path ++ [KName (in_name f)])]))
                                                else Ok (in_name f, IRes (dv, [])))
                            | None =>
                                if is_non_null (in_type f)
                                then Ok (in_name f, IRes (PNone, [(EFieldRequired, path ++ [KName (in_name f)])]))
                                else Ok (in_name f, IUndef)
                            end
                        | Some fv =>
                            bind (wrap_input ws (input_leaf fuel' leafn) (path ++ [KName (in_name f)]) fv)
                                 (fun r => Ok (in_name f, IRes r))
                        end) fields)
                     (fun rs =>
                        let (vals, errs) := obj_merge_in rs [] [] in
                        let unknown := flat_map (fun kvp => if has_field (fst kvp) fields then []
                                                            else [(EUnknownField, path)]) kv in
                        Ok (mk_cres (PDict vals) (errs ++ unknown)))
            | _ => Ok (PNone, [(ENotObject, path)])
            end)
      | Some _ | None => fun _ _ => Raise TypeError
      end
  end.

Definition get_input_coercer (fuel : nat) (t : ty) : icoercer :=
  let (ws, n) := peel t in wrap_input ws (input_leaf fuel n).

(* ================= coercers/variables.py ================= *)
Inductive var_outcome := VUndefined | VRes (r : cres).

Definition variable_coercer (fuel : nat) (vd : var_def) (raw : vars) : res var_outcome :=
  let has_value := match dict_get (v_name vd) raw with Some _ => true | None => false end in
  let value := var_lookup raw (v_name vd) in
  match has_value, v_default vd with
  | false, Some d =>
      bind (get_literal_coercer fuel (v_type vd) [] false d)
           (fun v => if is_undef v then Ok (VRes (PNone, [(EInvalidDefault, [])]))
                     else Ok (VRes (v, [])))
  | _, _ =>
      if (negb has_value || is_none value) && is_non_null (v_type vd)
      then Ok (VRes (PNone, [((if has_value then EVarNonNullNull else EVarRequired), [])]))
      else if has_value
           then bind (get_input_coercer fuel (v_type vd) [] value) (fun r => Ok (VRes (mk_cres (fst r) (snd r))))
           else Ok VUndefined
  end.

(* per-variable errors are attributed to the variable (every error's location is the variable
   definition node) *)
Definition verr := (string * cerr)%type.

Fixpoint coerce_variables (fuel : nat) (vds : list var_def) (raw : vars)
  : res (vars * list verr) :=
  match vds with
  | [] => Ok ([], [])
  | vd :: vds' =>
      bind (variable_coercer fuel vd raw) (fun o =>
      bind (coerce_variables fuel vds' raw) (fun rest =>
        let (vals, errs) := rest in
        match o with
        | VUndefined => Ok (vals, errs)
        | VRes (v, []) => Ok ((v_name vd, v) :: vals, errs)
        | VRes (_, es) => Ok (vals, map (fun e => (v_name vd, e)) es ++ errs)
        end))
  end.

(* ================= coercers/argument.py, arguments.py ================= *)
Inductive aerr_kind := ANonNullNull | AVarNotProvided | ARequired | AInvalidValue.
(* an argument error carries the location its message is attached to *)
Definition aerr := (string * aerr_kind * loc)%type.

Inductive arg_outcome := AUndefined | AVal (v : pyval) | AErr (e : aerr).

Fixpoint find_arg (n : string) (args : list argument) : option argument :=
  (* argument_nodes_map dict comprehension: last wins *)
  match args with
  | [] => None
  | a :: args' =>
      match find_arg n args' with
      | Some later => Some later
      | None => if String.eqb n (a_name a) then Some a else None
      end
  end.

Definition argument_coercer (fuel : nat) (ad : input_def) (field_loc : loc)
           (anode : option argument) (vs : vars) : res arg_outcome :=
  let name := in_name ad in
  let t := in_type ad in
  let '(has_value, is_null) :=
    match anode with
    | Some a =>
        match a_value a with
        | LVar _ vn =>
            let hv := match dict_get vn vs with Some _ => true | None => false end in
            (hv, hv && is_none (var_lookup vs vn))
        | LNull _ => (true, true)
        | _ => (true, false)
        end
    | None => (false, false)
    end in
  let run_literal (node : lit) (eloc : loc) :=
    bind (get_literal_coercer fuel t vs false node)
         (fun v => if is_undef v then Ok (AErr (name, AInvalidValue, eloc)) else Ok (AVal v)) in
  match has_value, in_default ad with
  | false, Some d =>
      run_literal d (match anode with Some a => lit_loc (a_value a) | None => field_loc end)
  | _, _ =>
      if (negb has_value || is_null) && is_non_null t then
        match anode with
        | Some a =>
            if is_null then Ok (AErr (name, ANonNullNull, lit_loc (a_value a)))
            else match a_value a with
                 | LVar _ _ => Ok (AErr (name, AVarNotProvided, lit_loc (a_value a)))
                 | _ => Ok (AErr (name, ARequired, field_loc))
                 end
        | None => Ok (AErr (name, ARequired, field_loc))
        end
      else if has_value then
        match anode with
        | Some a =>
            match a_value a with
            | LNull _ => Ok (AVal PNone)
            | LVar _ vn => let v := var_lookup vs vn in
                           if is_undef v then Ok (AErr (name, AInvalidValue, lit_loc (a_value a)))
                           else Ok (AVal v)
            | node => run_literal node (lit_loc node)
            end
        | None => Ok AUndefined
        end
      else Ok AUndefined
  end.

(* coerce_arguments: the dictionary handed to the resolver, or the list of errors raised as
   a MultipleException *)
Fixpoint coerce_arguments_aux (fuel : nat) (ads : list input_def) (field_loc : loc)
         (anodes : list argument) (vs : vars) : res (list (string * pyval) * list aerr) :=
  match ads with
  | [] => Ok ([], [])
  | ad :: ads' =>
      bind (argument_coercer fuel ad field_loc (find_arg (in_name ad) anodes) vs) (fun o =>
      bind (coerce_arguments_aux fuel ads' field_loc anodes vs) (fun rest =>
        let (vals, errs) := rest in
        match o with
        | AUndefined => Ok (vals, errs)
        | AVal v => Ok ((in_name ad, v) :: vals, errs)
        | AErr e => Ok (vals, e :: errs)
        end))
  end.

Definition coerce_arguments (fuel : nat) (ads : list input_def) (field_loc : loc)
           (anodes : list argument) (vs : vars) : res (list (string * pyval) * list aerr) :=
  match ads with
  | [] => Ok ([], [])      (* `if not argument_definitions: return {}` *)
  | _ => coerce_arguments_aux fuel ads field_loc anodes vs
  end.

End Impl.
