(* Decidable forms of the C10 laws, evaluated by the check on the observations of the REAL
   scalar objects (search for a failing input; no dependency on generated code). *)
From Coq Require Import ZArith List String Bool SpecFloat.
From TV Require Import Py.Prelude Model.ScalarSpec.
Import ListNotations.
Open Scope string_scope.
Open Scope Z_scope.

Definition res_eqb (a b : res pyval) : bool :=
  match a, b with
  | Ok x, Ok y => pyval_eqb x y
  | Raise e, Raise f => exc_eqb e f
  | _, _ => false
  end.

(* equal up to the class of the raised exception *)
Definition res_agreeb (a b : res pyval) : bool :=
  match a, b with
  | Ok x, Ok y => pyval_eqb x y
  | Raise _, Raise _ => true
  | _, _ => false
  end.

Definition optZ_eqb (a : option Z) (z : Z) : bool :=
  match a with Some x => x =? z | None => false end.

Definition int_denotesb (O : oracles) (v : pyval) (z : Z) : bool :=
  match v with
  | PBool b => z =? b2z b
  | PInt z' => z =? z'
  | PFloat f => sf_finite f && optZ_eqb (sf_to_Z_exact f) z
  | PStr s => match float_of_string O s with
              | Some f => sf_finite f && optZ_eqb (sf_to_Z_exact f) z
              | None => false
              end
  | _ => false
  end.

Definition float_denotesb (O : oracles) (v : pyval) (f : spec_float) : bool :=
  match v with
  | PBool b => sf_eqb_struct f (if b then S754_finite false 4503599627370496 (-52) else S754_zero false)
  | PInt z => match sf_of_Z z with Ok g => sf_eqb_struct f g | Raise _ => false end
  | PFloat g => sf_eqb_struct f g
  | PStr s => match float_of_string O s with Some g => sf_eqb_struct f g | None => false end
  | _ => false
  end.

(* fn ids: 0..14 = (int,float,string,boolean,id) x (output,input,literal) *)
Definition spec_of (O : oracles) (fn : nat) : pyval -> res pyval :=
  nth fn [int_output_spec O; int_input_spec O; int_literal_spec O;
          float_output_spec O; float_input_spec O; float_literal_spec O;
          string_output_spec O; string_input_spec O; string_literal_spec O;
          boolean_output_spec O; boolean_input_spec O; boolean_literal_spec O;
          id_output_spec O; id_input_spec O; id_literal_spec O] (fun _ => Raise OutOfFuel).

(* does the observation obs of function fn on input v satisfy the C10 law for fn? *)
Definition lawb (O : oracles) (fn : nat) (v : pyval) (obs : res pyval) : bool :=
  match fn with
  | 0%nat => match obs with Raise _ => true
             | Ok (PInt z) => in32b z && int_denotesb O v z | Ok _ => false end
  | 3%nat => match obs with Raise _ => true
             | Ok (PFloat f) => sf_finite f && float_denotesb O v f | Ok _ => false end
  | 6%nat => match obs with Raise _ => true
             | Ok (PStr s) => match v with
                              | PStr s' => String.eqb s s'
                              | PInt z => String.eqb s (Z_to_string z)
                              | _ => true end
             | Ok _ => false end
  | 9%nat => match obs with Raise _ => true
             | Ok (PBool b) => match v with PBool b' => Bool.eqb b b' | _ => true end
             | Ok _ => false end
  | 12%nat => match obs with Raise _ => true
              | Ok (PStr s) => match v with
                               | PStr s' => String.eqb s s'
                               | _ => match integral_value v with
                                      | Some z => String.eqb s (Z_to_string z)
                                      | None => false end
                               end
              | Ok _ => false end
  | _ => res_agreeb obs (spec_of O fn v)   (* input / literal: accepts exactly, same result *)
  end.

(* idempotence on observations: input(r) observed as obs_in for a produced result r *)
Definition idem_lawb (r : pyval) (obs_in : res pyval) : bool := res_agreeb obs_in (Ok r).

(* literal = variable on observations: both refuse, or both yield the same value *)
Definition litvar_lawb (obs_lit obs_in : res pyval) : bool :=
  match obs_lit, obs_in with
  | Ok PUndef, Raise _ => true
  | Ok a, Ok b => pyval_eqb a b
  | _, _ => false
  end.

Fixpoint idx_where {A} (p : A -> bool) (l : list A) (i : Z) : list Z :=
  match l with
  | [] => []
  | x :: xs => if p x then i :: idx_where p xs (i + 1) else idx_where p xs (i + 1)
  end.

(* oracle tables supplied by the harness *)
Fixpoint assoc_str {A} (s : string) (t : list (string * A)) : option A :=
  match t with
  | [] => None
  | (k, v) :: t' => if String.eqb s k then Some v else assoc_str s t'
  end.
Fixpoint assoc_val {A} (x : pyval) (t : list (pyval * A)) : option A :=
  match t with
  | [] => None
  | (k, v) :: t' => if pyval_eqb x k then Some v else assoc_val x t'
  end.
Definition table_oracle (ft : list (string * option spec_float)) (st : list (pyval * option string)) : oracles :=
  {| float_of_string := fun s => match assoc_str s ft with Some o => o | None => None end;
     str_of_value := fun v => match assoc_val v st with Some o => o | None => None end |}.
