(* Shared syntax of the model: GraphQL types, literal (AST) values, schema definitions,
   executable documents.  Terms of these types are printed by the harness from the schema
   it generated and from the JSON AST the engine itself receives from the parser. *)
From Coq Require Import ZArith List String Bool.
From TV Require Import Py.Prelude.
Import ListNotations.
Open Scope string_scope.

Definition loc := (Z * Z)%type.            (* line, column (1-based) *)

Inductive ty :=
| TNamed (n : string)
| TList (t : ty)
| TNonNull (t : ty).

Fixpoint named_of (t : ty) : string :=
  match t with TNamed n => n | TList t' | TNonNull t' => named_of t' end.
Definition is_non_null (t : ty) : bool := match t with TNonNull _ => true | _ => false end.

Fixpoint ty_eqb (a b : ty) : bool :=
  match a, b with
  | TNamed x, TNamed y => String.eqb x y
  | TList x, TList y => ty_eqb x y
  | TNonNull x, TNonNull y => ty_eqb x y
  | _, _ => false
  end.

(* ---- literal values (AST value nodes) ---- *)
Inductive lit :=
| LVar (l : loc) (name : string)
| LInt (l : loc) (v : pyval)       (* PStr lexeme in a query; PInt in SDL defaults (lark casts) *)
| LFloat (l : loc) (v : pyval)     (* PStr lexeme in a query; PFloat in SDL defaults *)
| LStr (l : loc) (s : string)
| LBool (l : loc) (b : bool)
| LNull (l : loc)
| LEnum (l : loc) (s : string)
| LList (l : loc) (items : list lit)
| LObj (l : loc) (fields : list (string * lit)).

Definition lit_loc (x : lit) : loc :=
  match x with
  | LVar l _ | LInt l _ | LFloat l _ | LStr l _ | LBool l _ | LNull l | LEnum l _
  | LList l _ | LObj l _ => l
  end.

(* the AST node handed to a scalar's parse_literal *)
Definition node_of_lit (x : lit) : pyval :=
  match x with
  | LVar _ _ => PAst KVariable PNone
  | LInt _ v => PAst KIntValue v
  | LFloat _ v => PAst KFloatValue v
  | LStr _ s => PAst KStringValue (PStr s)
  | LBool _ b => PAst KBooleanValue (PBool b)
  | LNull _ => PAst KNullValue PNone
  | LEnum _ s => PAst KEnumValue (PStr s)
  | LList _ _ => PAst KListValue PNone
  | LObj _ _ => PAst KObjectValue PNone
  end.

(* ---- schema ---- *)
Record input_def := {           (* an argument or an input field *)
  in_name : string;
  in_type : ty;
  in_default : option lit
}.

Record field_def := {
  fd_name : string;
  fd_type : ty;
  fd_args : list input_def
}.

Inductive typedef :=
| DScalar
| DEnum (values : list string)
| DInput (fields : list input_def)
| DObject (interfaces : list string) (fields : list field_def)
| DInterface (fields : list field_def)
| DUnion (members : list string).

(* the three coercion functions of a scalar *)
Record scalar_ops := {
  s_input : pyval -> res pyval;
  s_literal : pyval -> res pyval;
  s_output : pyval -> res pyval
}.

Record schema := {
  types : list (string * typedef);
  query_type : string;
  mutation_type : option string;
  subscription_type : option string;
  scalars : string -> option scalar_ops     (* built-ins: the translated definitions *)
}.

Fixpoint assoc {A} (k : string) (l : list (string * A)) : option A :=
  match l with
  | [] => None
  | (k', v) :: l' => if String.eqb k k' then Some v else assoc k l'
  end.

Definition find_type (s : schema) (n : string) : option typedef := assoc n (types s).

Fixpoint mem_str (x : string) (l : list string) : bool :=
  match l with [] => false | y :: l' => String.eqb x y || mem_str x l' end.

(* possible object types of an abstract type *)
Definition implementers (s : schema) (iface : string) : list string :=
  flat_map (fun nd => match snd nd with
                      | DObject ifs _ => if mem_str iface ifs then [fst nd] else []
                      | _ => [] end) (types s).

Definition possible_types (s : schema) (n : string) : list string :=
  match find_type s n with
  | Some (DUnion ms) => ms
  | Some (DInterface _) => implementers s n
  | _ => []
  end.

Definition is_abstract (s : schema) (n : string) : bool :=
  match find_type s n with Some (DUnion _) | Some (DInterface _) => true | _ => false end.

Definition fields_of (s : schema) (n : string) : list field_def :=
  match find_type s n with
  | Some (DObject _ fs) | Some (DInterface fs) => fs
  | _ => []
  end.

Fixpoint find_field (fs : list field_def) (n : string) : option field_def :=
  match fs with
  | [] => None
  | f :: fs' => if String.eqb n (fd_name f) then Some f else find_field fs' n
  end.

(* ---- executable documents ---- *)
Record directive := {
  d_name : string;
  d_args : list (string * lit);
  d_loc : loc
}.

Record argument := {
  a_name : string;
  a_value : lit;
  a_loc : loc
}.

Inductive selection :=
| SField (l : loc) (alias : option string) (name : string) (args : list argument)
         (dirs : list directive) (sels : list selection)
| SSpread (l : loc) (name : string) (dirs : list directive)
| SInline (l : loc) (type_cond : option string) (dirs : list directive) (sels : list selection).

Record var_def := {
  v_name : string;
  v_type : ty;
  v_default : option lit;
  v_loc : loc
}.

Inductive op_kind := OpQuery | OpMutation | OpSubscription.

Record operation := {
  o_kind : op_kind;
  o_name : option string;
  o_vars : list var_def;
  o_dirs : list directive;
  o_sels : list selection;
  o_loc : loc
}.

Record fragment := {
  fr_name : string;
  fr_type : string;
  fr_dirs : list directive;
  fr_sels : list selection;
  fr_loc : loc
}.

Record document := {
  operations : list operation;
  fragments : list fragment
}.

Fixpoint find_fragment (fs : list fragment) (n : string) : option fragment :=
  match fs with
  | [] => None
  | f :: fs' => if String.eqb n (fr_name f) then Some f else find_fragment fs' n
  end.

(* response-path keys *)
Inductive pkey := KName (s : string) | KIdx (i : Z).
Definition pkey_eqb (a b : pkey) : bool :=
  match a, b with
  | KName x, KName y => String.eqb x y
  | KIdx x, KIdx y => Z.eqb x y
  | _, _ => false
  end.
Fixpoint path_eqb (a b : list pkey) : bool :=
  match a, b with
  | [], [] => true
  | x :: a', y :: b' => pkey_eqb x y && path_eqb a' b'
  | _, _ => false
  end.
