(* Implementation model of Engine.subscribe (engine.py _perform_subscription,
   execute.py create_source_event_stream): one `execute` per payload of the source stream. *)
From Coq Require Import ZArith List String Bool.
From TV Require Import Py.Prelude Model.Schema Model.ImplInput Model.ImplExec.
Import ListNotations.
Open Scope string_scope.
Open Scope list_scope.

Inductive sub_outcome :=
| SubRefused (r : response)                       (* a single errors-only response; source not started *)
| SubStream (source_args : list (string * pyval)) (responses : list (outcome response))
| SubRaised                                       (* an exception escapes the generator *)
| SubCrash.

Section Sub.
Variable sch : schema.
Variable doc : document.
Variable U : usercode.
Variable cfg : config.
(* the registered @Subscription generator of a field: coerced arguments |-> finite event list *)
Variable source : string -> list (string * pyval) -> list pyval.
Variable has_source : string -> bool.

Definition impl_subscribe (opname : option string) (raw : vars) : sub_outcome :=
  match select_operation doc opname with
  | None => SubRefused {| r_data := PNone;
                          r_errors := [{| g_path := None; g_locs := []; g_msg := MEngine "operation"; g_ext := false |}];
                          r_log := [] |}
  | Some op =>
      match coerce_variables sch 40 (o_vars op) raw with
      | Raise _ => SubCrash
      | Ok (_, (e :: es) as errs) =>
          SubRefused {| r_data := PNone; r_errors := map (verr_to_gerr (o_vars op)) errs; r_log := [] |}
      | Ok (vs, []) =>
          match root_type_of sch (o_kind op) with
          | None => SubRaised
          | Some rt =>
              match collect_fields sch doc vs COLLECT_FUEL rt (o_sels op) [] [] with
              | Some ((key, node :: _) :: _, _) =>
                  match get_field_definition sch rt (fn_name node) with
                  | None => SubRaised                      (* "The subscription field is not defined" *)
                  | Some fd =>
                      if negb (has_source (fd_name fd)) then SubRaised
                      else
                        match coerce_arguments sch 20 (fd_args fd) (fn_loc node) (fn_args node) vs with
                        | Ok (args, []) =>
                            SubStream args
                              (map (fun payload => impl_execute sch doc U cfg opname raw payload)
                                   (source (fd_name fd) args))
                        | _ => SubRaised                   (* MultipleException escapes subscribe *)
                        end
                  end
              | _ => SubRaised
              end
          end
      end
  end.

End Sub.
