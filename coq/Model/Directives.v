(* Implementation model of directive hooks (utils/directives.py wraps_with_directives, the per-type
   bake() wiring of input / literal / output directive coercers, coercers/argument.py, the
   query-side wrapping of resolver/factory.py).
   Part 1 is generic: hooks are arbitrary functions taking the next stage as a continuation, in a
   logging monad.  Part 2 instantiates the hooks with the harness's tagging hooks (a tag is wrapped
   around every leaf of the value, then the next stage is called once) over a small universe of
   input types and values, and models the three routes a value can take to a resolver. *)
From Coq Require Import ZArith List String Bool.
From TV Require Import Py.Prelude Model.Schema.
Import ListNotations.
Open Scope string_scope.
Open Scope list_scope.

(* ------------------------------------------------------------------ part 1: wraps_with_directives *)
Section Wraps.
Variable V : Type.                       (* what flows through the stage *)
Variable E : Type.                       (* log entries: one per hook invocation *)
Definition M (A : Type) := list E -> A * list E.
Definition stage := V -> M V.

Record dinst := { di_name : string; di_hooks : list string; di_arg : Z }.

(* the implementation of hook [h] of directive instance [d]: receives the next stage *)
Variable impl : dinst -> string -> stage -> stage.

Definition has_hook (h : string) (d : dinst) : bool := mem_str h (di_hooks d).

(* for directive in reversed(directives_definition):
       if directive_hook in directive["callables"]: func = partial(wrapper, hook, args_coercer, func) *)
Definition wraps_with_directives (ds : list dinst) (h : string) (base : stage) : stage :=
  fold_left (fun f d => if has_hook h d then impl d h f else f) (rev ds) base.

(* first declared outermost *)
Definition nest (ds : list dinst) (h : string) (base : stage) : stage :=
  fold_right (fun d f => impl d h f) base (filter (has_hook h) ds).
End Wraps.

(* ------------------------------------------------------------------ part 2: tagging hooks *)
Inductive tval :=
| TLeaf (s : string)
| TNull
| TObj (fields : list (string * tval))
| TLst (items : list tval).

Fixpoint tag (t : string) (v : tval) : tval :=
  match v with
  | TLeaf s => TLeaf (t ++ "(" ++ s ++ ")")%string
  | TNull => TNull
  | TObj fs => TObj ((fix go (l : list (string * tval)) := match l with [] => [] | (k, x) :: r => (k, tag t x) :: go r end) fs)
  | TLst xs => TLst ((fix go (l : list tval) := match l with [] => [] | x :: r => tag t x :: go r end) xs)
  end.

(* a tagging hook: logs its invocation, tags the value, calls the next stage exactly once *)
Definition tag_event := (string * string * Z)%type.          (* directive, hook, coerced argument *)
Definition tagging (d : dinst) (h : string) (next : stage tval tag_event) : stage tval tag_event :=
  fun v log => next (tag (di_name d) v) (log ++ [(di_name d, h, di_arg d)]).

Definition ret_stage : stage tval tag_event := fun v log => (v, log).

Definition run_hooks (ds : list dinst) (h : string) (v : tval) : M tag_event tval :=
  wraps_with_directives tval tag_event tagging ds h ret_stage v.

(* pure view: the tags of the applicable directives, first declared applied first *)
Definition apply_tags (ds : list dinst) (h : string) (v : tval) : tval :=
  fold_left (fun v d => tag (di_name d) v) (filter (has_hook h) ds) v.

(* ---- input types annotated with the directive instances attached to them ---- *)
Inductive ity :=
| IScalar (type_dirs : list dinst)
| IObj (type_dirs : list dinst) (fields : list (string * list dinst * ity))      (* name, input-field directives, type *)
| IList (item : ity).

Definition POST_INPUT := "on_post_input_coercion".
Definition ARG_EXEC := "on_argument_execution".
Definition FIELD_EXEC := "on_field_execution".
Definition PRE_OUTPUT := "on_pre_output_coercion".

Fixpoint assoc3 {A B} (k : string) (l : list (string * A * B)) : option (A * B) :=
  match l with
  | [] => None
  | (k', a, b) :: r => if String.eqb k k' then Some (a, b) else assoc3 k r
  end.

(* coercers/inputs: a JSON value (variable) through get_input_coercer(type): leaf and input-object
   coercers wrapped by input_directives_coercer with the type's hooks; each input field by
   input_directives_coercer with the field's hooks.  Nulls are passed through untouched. *)
Fixpoint input_coerce (t : ity) (raw : tval) {struct raw} : tval :=
  match raw with
  | TNull => TNull
  | TLeaf s => match t with IScalar ds => apply_tags ds POST_INPUT (TLeaf s) | _ => TLeaf s end
  | TObj kvs =>
      match t with
      | IObj ds fields =>
          apply_tags ds POST_INPUT
            (TObj ((fix go (l : list (string * tval)) : list (string * tval) :=
                      match l with
                      | [] => []
                      | (k, x) :: r =>
                          match assoc3 k fields with
                          | Some (fds, ft) => (k, apply_tags fds POST_INPUT (input_coerce ft x)) :: go r
                          | None => (k, x) :: go r
                          end
                      end) kvs))
      | _ => TObj kvs
      end
  | TLst xs =>
      match t with
      | IList it => TLst ((fix go (l : list tval) : list tval :=
                             match l with [] => [] | x :: r => input_coerce it x :: go r end) xs)
      | _ => TLst xs
      end
  end.

(* literals of a request *)
Inductive tlit :=
| QLeaf (s : string)
| QNull
| QVar (name : string)
| QObj (fields : list (string * tlit))
| QLst (items : list tlit).

(* coercers/literals: get_literal_coercer(type) with literal_directives_coercer around the leaf /
   input-object coercers: the type-level hooks are SKIPPED when the node is a variable (they ran at
   variable coercion), the input-field hooks (is_input_field=True) are not *)
Fixpoint literal_coerce (vars : string -> tval) (t : ity) (q : tlit) {struct q} : tval :=
  match q with
  | QVar n => vars n
  | QNull => TNull
  | QLeaf s => match t with IScalar ds => apply_tags ds POST_INPUT (TLeaf s) | _ => TLeaf s end
  | QObj kvs =>
      match t with
      | IObj ds fields =>
          apply_tags ds POST_INPUT
            (TObj ((fix go (l : list (string * tlit)) : list (string * tval) :=
                      match l with
                      | [] => []
                      | (k, x) :: r =>
                          match assoc3 k fields with
                          | Some (fds, ft) => (k, apply_tags fds POST_INPUT (literal_coerce vars ft x)) :: go r
                          | None => (k, TNull) :: go r
                          end
                      end) kvs))
      | _ => TNull
      end
  | QLst xs =>
      match t with
      | IList it => TLst ((fix go (l : list tlit) : list tval :=
                             match l with [] => [] | x :: r => literal_coerce vars it x :: go r end) xs)
      | _ => TNull
      end
  end.

(* the JSON value a literal denotes once its variables are replaced by their raw values *)
Fixpoint subst (raw : string -> tval) (q : tlit) : tval :=
  match q with
  | QVar n => raw n
  | QNull => TNull
  | QLeaf s => TLeaf s
  | QObj kvs => TObj ((fix go (l : list (string * tlit)) := match l with [] => [] | (k, x) :: r => (k, subst raw x) :: go r end) kvs)
  | QLst xs => TLst ((fix go (l : list tlit) := match l with [] => [] | x :: r => subst raw x :: go r end) xs)
  end.

(* every variable sits at a position of the type it was coerced with at the start of the request *)
Fixpoint well_placed (raw vars : string -> tval) (t : ity) (q : tlit) {struct q} : Prop :=
  match q with
  | QVar n => vars n = input_coerce t (raw n)
  | QObj kvs =>
      match t with
      | IObj _ fields =>
          (fix go (l : list (string * tlit)) : Prop :=
             match l with
             | [] => True
             | (k, x) :: r => match assoc3 k fields with
                              | Some (_, ft) => well_placed raw vars ft x
                              | None => False end /\ go r
             end) kvs
      | _ => False
      end
  | QLst xs =>
      match t with
      | IList it => (fix go (l : list tlit) : Prop := match l with [] => True | x :: r => well_placed raw vars it x /\ go r end) xs
      | _ => False
      end
  | QLeaf _ => match t with IScalar _ => True | _ => False end
  | QNull => True
  end.

(* coercers/argument.py: the literal coercer of the argument's type, then the argument's
   on_argument_execution hooks *)
Definition argument_value (vars : string -> tval) (arg_dirs : list dinst) (t : ity) (q : tlit) : tval :=
  apply_tags arg_dirs ARG_EXEC (literal_coerce vars t q).

(* types/field.py + resolver/factory.py: query-side directives (of every merged field node) wrap
   the schema-side ones, which wrap the resolver; a field hook tags the resolver's RESULT after
   calling the next stage, so the innermost (schema-side, last declared) tag is applied first;
   then the output coercer of the return type applies the type's on_pre_output_coercion hooks *)
Definition field_result (query_dirs schema_dirs type_dirs : list dinst) (resolved : tval) : tval :=
  apply_tags type_dirs PRE_OUTPUT
    (fold_left (fun v d => tag (di_name d) v) (rev (filter (has_hook FIELD_EXEC) (query_dirs ++ schema_dirs))) resolved).
