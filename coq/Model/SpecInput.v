(* Specification model of input coercion: a second, independent transcription, written by
   direct recursion on the declared type in the style of the June-2018 specification
   (section 3 "Input Coercion" of each type kind, 6.1.2 CoerceVariableValues, 6.4.1
   CoerceArgumentValues), with the reading the property text fixes where the spec's table and
   the reference implementation differ: single values are wrapped at EVERY list level.
   Errors are accumulated declaratively (all errors of all items/fields, in order). *)
From Coq Require Import ZArith List String Bool.
From TV Require Import Py.Prelude Model.Schema Model.ImplInput.
Import ListNotations.
Open Scope string_scope.
Open Scope list_scope.

Section Spec.
Variable sch : schema.

Definition no_errors (rs : list cres) : bool := forallb (fun r => match snd r with [] => true | _ => false end) rs.
Definition all_errors (rs : list cres) : list cerr := flat_map snd rs.

(* result of coercing a collection: all values when nothing failed, otherwise every error *)
Definition collect (rs : list cres) (mk : list pyval -> pyval) : cres :=
  match all_errors rs with
  | [] => (mk (map fst rs), [])
  | es => (PNone, es)
  end.

(* coerce every item of a list value, threading the index into the path *)
Fixpoint coerce_items (f : list pkey -> pyval -> res cres) (path : list pkey) (i : Z)
         (l : list pyval) : res (list cres) :=
  match l with
  | [] => Ok []
  | x :: xs => bind (f (path ++ [KIdx i]) x) (fun r =>
               bind (coerce_items f path (i + 1)%Z xs) (fun rs => Ok (r :: rs)))
  end.

(* one declared input field against the provided object *)
Definition coerce_field (coerce_ty : ty -> list pkey -> pyval -> res cres)
           (literal : ty -> lit -> res pyval)
           (path : list pkey) (kv : list (string * pyval)) (f : input_def) : res (option cres) :=
  match dict_get (in_name f) kv with
  | Some fv => bind (coerce_ty (in_type f) (path ++ [KName (in_name f)]) fv) (fun r => Ok (Some r))
  | None =>
      match in_default f with
      | Some d => bind (literal (in_type f) d) (fun dv =>
                    if is_undef dv then Ok (Some (PNone, [(EInvalidDefault, path ++ [KName (in_name f)])]))
                    else Ok (Some (dv, [])))
      | None =>
          if is_non_null (in_type f)
          then Ok (Some (PNone, [(EFieldRequired, path ++ [KName (in_name f)])]))
          else Ok None
      end
  end.

Fixpoint coerce_fields (cf : input_def -> res (option cres)) (fs : list input_def)
  : res (list (string * option cres)) :=
  match fs with
  | [] => Ok []
  | f :: fs' => bind (cf f) (fun o => bind (coerce_fields cf fs') (fun rest => Ok ((in_name f, o) :: rest)))
  end.

Definition present_of (rs : list (string * option cres)) : list (string * cres) :=
  flat_map (fun r => match snd r with Some c => [(fst r, c)] | None => [] end) rs.

Definition unknown_of (fields : list input_def) (path : list pkey) (kv : list (string * pyval)) : list cerr :=
  flat_map (fun kvp => if has_field (fst kvp) fields then [] else [(EUnknownField, path)]) kv.

Definition finish_object (fields : list input_def) (path : list pkey) (kv : list (string * pyval))
           (rs : list (string * option cres)) : cres :=
  let present := present_of rs in
  match all_errors (map snd present) ++ unknown_of fields path kv with
  | [] => (PDict (map (fun r => (fst r, fst (snd r))) present), [])
  | es => (PNone, es)
  end.

Definition wrap_single (r : cres) : cres :=
  match snd r with
  | [] => (PList [fst r], [])
  | es => (PNone, es)
  end.

(* CoerceValue(type, value): outer recursion on fuel (spent when a named type is entered),
   inner structural recursion on the type *)
Fixpoint spec_coerce (fuel : nat) (t : ty) (path : list pkey) (v : pyval) {struct fuel} : res cres :=
  (fix coerce (t : ty) (path : list pkey) (v : pyval) {struct t} : res cres :=
     match t with
     | TNonNull t' =>
         if is_none v then Ok (PNone, [(ENonNullNull, path)]) else coerce t' path v
     | TList t' =>
         if is_none v then Ok (PNone, [])
         else match v with
              | PList items =>
                  bind (coerce_items (coerce t') path 0%Z items) (fun rs => Ok (collect rs PList))
              | _ => bind (coerce t' path v) (fun r => Ok (wrap_single r))
              end
     | TNamed n =>
         match fuel with
         | O => Raise OutOfFuel
         | S fuel' =>
           match find_type sch n with
           | Some DScalar =>
               match scalars sch n with
               | Some ops =>
                   if is_none v then Ok (PNone, []) else
                   match s_input ops v with
                   | Ok r => if is_undef r then Ok (PNone, [(EExpectedType, path)]) else Ok (r, [])
                   | Raise OutOfFuel => Raise OutOfFuel
                   | Raise _ => Ok (PNone, [(EExpectedType, path)])
                   end
               | None => Raise AttributeError
               end
           | Some (DEnum values) =>
               if is_none v then Ok (PNone, []) else
               match v with
               | PStr s => if mem_str s values then Ok (v, []) else Ok (PNone, [(EExpectedType, path)])
               | _ => Ok (PNone, [(EExpectedType, path)])
               end
           | Some (DInput fields) =>
               if is_none v then Ok (PNone, []) else
               match v with
               | PDict kv =>
                   bind (coerce_fields
                           (coerce_field (spec_coerce fuel')
                                         (fun ft d => get_literal_coercer sch fuel' ft [] false d)
                                         path kv) fields)
                        (fun rs => Ok (finish_object fields path kv rs))
               | _ => Ok (PNone, [(ENotObject, path)])
               end
           | Some _ | None => Raise TypeError
           end
         end
     end) t path v.

(* CoerceVariableValues: per declared variable, in declaration order *)
Definition spec_variable (fuel : nat) (vd : var_def) (raw : vars) : res (option cres) :=
  match dict_get (v_name vd) raw with
  | None =>
      match v_default vd with
      | Some d =>
          bind (get_literal_coercer sch fuel (v_type vd) [] false d) (fun v =>
            if is_undef v then Ok (Some (PNone, [(EInvalidDefault, [])])) else Ok (Some (v, [])))
      | None =>
          if is_non_null (v_type vd) then Ok (Some (PNone, [(EVarRequired, [])])) else Ok None
      end
  | Some value =>
      if is_none value && is_non_null (v_type vd)
      then Ok (Some (PNone, [(EVarNonNullNull, [])]))
      else bind (spec_coerce fuel (v_type vd) [] value) (fun r => Ok (Some r))
  end.

Fixpoint spec_coerce_variables (fuel : nat) (vds : list var_def) (raw : vars) : res (vars * list verr) :=
  match vds with
  | [] => Ok ([], [])
  | vd :: vds' =>
      bind (spec_variable fuel vd raw) (fun o =>
      bind (spec_coerce_variables fuel vds' raw) (fun rest =>
        let (vals, errs) := rest in
        match o with
        | None => Ok (vals, errs)
        | Some (v, []) => Ok ((v_name vd, v) :: vals, errs)
        | Some (_, es) => Ok (vals, map (fun e => (v_name vd, e)) es ++ errs)
        end))
  end.

End Spec.
