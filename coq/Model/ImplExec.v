(* Implementation model of request execution, written after the code:
     execution/collect.py  (collect_fields / collect_subfields, should_include_node)
     execution/execute.py  (execute_fields, execute_fields_serially, execute_operation, execute)
     resolver/factory.py   (resolve_field, resolve_field_value_or_error)
     coercers/outputs      (coercer chain: non-null / list / scalar / enum / object / abstract,
                            complete_value_catching_error, handle_field_error)
     utils/errors.py       (located_error, extract_exceptions_from_results)
     execution/context.py  (operation selection, add_error), resolver/default.py.
   State-passing: the append-only ExecutionContext.errors list and the log of user-code
   invocations are threaded through.  Python exceptions are data.  This is the schedule in
   which every awaited user coroutine completes at once; Model/Async.v re-expresses the same
   functions over a calculus with suspension for C08/C09/C15.  Directive hooks other than
   @skip/@include are absent (C13). *)
From Coq Require Import ZArith List String Bool.
From TV Require Import Py.Prelude Model.Schema Model.ImplInput.
Import ListNotations.
Open Scope string_scope.
Open Scope list_scope.

(* ---------- errors ---------- *)
Inductive emsg :=
| MUser (s : string)        (* text supplied by user code (resolver / type resolver) *)
| MEngine (tag : string).   (* engine-authored text: only its presence is observable here *)

(* an exception travelling upward: path / locations are bound at most once, by the innermost
   located_error that sees them missing *)
Record perr := {
  p_path : option (list pkey);
  p_locs : option (list loc);
  p_msg : emsg;
  p_ext : bool                (* carries `extensions` *)
}.
Record gerr := {              (* an entry of the response's errors *)
  g_path : option (list pkey);
  g_locs : list loc;
  g_msg : emsg;
  g_ext : bool
}.
Definition raw_err (m : emsg) (ext : bool) : perr :=
  {| p_path := None; p_locs := None; p_msg := m; p_ext := ext |}.
Definition engine_err (tag : string) : perr := raw_err (MEngine tag) false.

Definition locate (nodes_locs : list loc) (path : list pkey) (e : perr) : perr :=
  {| p_path := match p_path e with Some p => Some p | None => Some path end;
     p_locs := match p_locs e with Some l => Some l | None => Some nodes_locs end;
     p_msg := p_msg e; p_ext := p_ext e |}.

Definition finalize (e : perr) : gerr :=
  {| g_path := p_path e;
     g_locs := match p_locs e with Some l => l | None => [] end;
     g_msg := p_msg e; g_ext := p_ext e |}.

(* ---------- user code as oracles ---------- *)
Inductive uret := URet (v : pyval) | URaise (msg : string) (is_graphql : bool) (ext : bool).

Inductive call :=
| CResolver (path : list pkey) (ptype field : string) (source : pyval) (args : list (string * pyval))
| CTypeResolver (path : list pkey) (abstract : string) (value : pyval).

Inductive tr_kind := TRDefault | TRCustom.

Record usercode := {
  has_resolver : string -> string -> bool;
  resolver : list pkey -> string -> string -> pyval -> list (string * pyval) -> uret;
  (* the most specific type resolver for (abstract type, "Parent.field") *)
  type_resolver_kind : string -> string -> string -> tr_kind;
  type_resolver : list pkey -> string -> pyval -> uret
}.

Record config := {
  parent_concurrently : bool;   (* coerce_parent_concurrently: the engine-wide default *)
  list_concurrently : bool;     (* no observable effect in this schedule; kept for Async.v *)
  (* @Resolver("Parent.field", parent_concurrently=...): the per-field setting resolved at bake time
     (types/field.py: query_parent_concurrently if not None else the schema's default) *)
  field_parent : string -> string -> option bool;
  field_list : string -> string -> option bool     (* likewise for list_concurrently (Async.v only) *)
}.
Definition uniform_cfg (p l : bool) : config :=
  {| parent_concurrently := p; list_concurrently := l; field_parent := fun _ _ => None; field_list := fun _ _ => None |}.

(* ---------- state ---------- *)
Record st := { s_errors : list gerr; s_log : list call }.
Definition st0 : st := {| s_errors := []; s_log := [] |}.
Definition add_errors (l : list perr) (s : st) : st :=
  {| s_errors := s_errors s ++ map finalize l; s_log := s_log s |}.
Definition add_call (c : call) (s : st) : st :=
  {| s_errors := s_errors s; s_log := s_log s ++ [c] |}.

Inductive outcome (A : Type) :=
| OVal (a : A)
| OExc (l : list perr)      (* a raised (Multiple)Exception *)
| OCrash (e : exc).         (* out of fuel / an internal error of the model's totalisation *)
Arguments OVal {A}. Arguments OExc {A}. Arguments OCrash {A}.

Definition M (A : Type) := st -> outcome A * st.

(* ---------- field nodes ---------- *)
Record fnode := {
  fn_loc : loc; fn_alias : option string; fn_name : string;
  fn_args : list argument; fn_dirs : list directive; fn_sels : list selection
}.
Definition response_key (f : fnode) : string :=
  match fn_alias f with Some a => a | None => fn_name f end.

Definition fields := list (string * list fnode).   (* ordered dict: first appearance *)

Fixpoint fields_add (k : string) (f : fnode) (fs : fields) : fields :=
  match fs with
  | [] => [(k, [f])]
  | (k', l) :: fs' => if String.eqb k k' then (k', l ++ [f]) :: fs' else (k', l) :: fields_add k f fs'
  end.

Section Exec.
Variable sch : schema.
Variable doc : document.
Variable vs : vars.              (* coerced variable values *)
Variable U : usercode.
Variable cfg : config.

(* ---------- @skip / @include ---------- *)
Definition if_arg : list input_def :=
  [{| in_name := "if"; in_type := TNonNull (TNamed "Boolean"); in_default := None |}].

Definition directive_args (d : directive) : list argument :=
  map (fun a => {| a_name := fst a; a_value := snd a; a_loc := d_loc d |}) (d_args d).

(* None: an exception was raised while coercing the directive's arguments *)
Definition directive_if (d : directive) : option bool :=
  match coerce_arguments sch 20 if_arg (d_loc d) (directive_args d) vs with
  | Ok (vals, []) => match dict_get "if" vals with
                     | Some v => Some (truthy v)
                     | None => None       (* directive_args["if"] -> KeyError *)
                     end
  | _ => None
  end.

(* should_include_node: SkipCollection or any exception excludes the node *)
Fixpoint should_include (dirs : list directive) : bool :=
  match dirs with
  | [] => true
  | d :: ds =>
      (if String.eqb (d_name d) "skip" then
         match directive_if d with Some b => negb b | None => false end
       else if String.eqb (d_name d) "include" then
         match directive_if d with Some b => b | None => false end
       else true)
      && should_include ds
  end.

(* does_fragment_condition_match *)
Definition condition_matches (tc : option string) (runtime_type : string) : bool :=
  match tc with
  | None => true
  | Some c => String.eqb c runtime_type ||
              (is_abstract sch c && mem_str runtime_type (possible_types sch c))
  end.

(* collect_fields: accumulator-passing, shared ordered dict and visited-fragment set.
   fuel: spent when a named fragment is entered (the visited set makes it terminate) *)
Fixpoint collect_fields (fuel : nat) (runtime_type : string) (sels : list selection)
         (acc : fields) (visited : list string) {struct fuel} : option (fields * list string) :=
  match fuel with
  | O => None
  | S fuel' =>
    (fix go (sels : list selection) (acc : fields) (visited : list string) {struct sels}
       : option (fields * list string) :=
       match sels with
       | [] => Some (acc, visited)
       | SField l alias name args dirs sub :: rest =>
           if should_include dirs
           then let f := {| fn_loc := l; fn_alias := alias; fn_name := name; fn_args := args;
                            fn_dirs := dirs; fn_sels := sub |} in
                go rest (fields_add (response_key f) f acc) visited
           else go rest acc visited
       | SInline _ tc dirs sub :: rest =>
           if should_include dirs && condition_matches tc runtime_type
           then match collect_fields fuel' runtime_type sub acc visited with
                | Some (acc', visited') => go rest acc' visited'
                | None => None
                end
           else go rest acc visited
       | SSpread _ name dirs :: rest =>
           if mem_str name visited || negb (should_include dirs) then go rest acc visited
           else
             let visited' := name :: visited in
             match find_fragment (fragments doc) name with
             | Some fr =>
                 if condition_matches (Some (fr_type fr)) runtime_type
                 then match collect_fields fuel' runtime_type (fr_sels fr) acc visited' with
                      | Some (acc', visited'') => go rest acc' visited''
                      | None => None
                      end
                 else go rest acc visited'
             | None => None      (* execution_context.fragments[name] -> KeyError *)
             end
       end) sels acc visited
  end.

(* collect_subfields: one accumulator and one visited set across all merged field nodes *)
Fixpoint collect_subfields (fuel : nat) (return_type : string) (nodes : list fnode)
         (acc : fields) (visited : list string) : option fields :=
  match nodes with
  | [] => Some acc
  | n :: rest =>
      match fn_sels n with
      | [] => collect_subfields fuel return_type rest acc visited
      | sels => match collect_fields fuel return_type sels acc visited with
                | Some (acc', visited') => collect_subfields fuel return_type rest acc' visited'
                | None => None
                end
      end
  end.

Definition COLLECT_FUEL := 64%nat.

(* ---------- default resolvers ---------- *)
Definition dict_method_names : list string :=
  ["clear"; "copy"; "fromkeys"; "get"; "items"; "keys"; "pop"; "popitem"; "setdefault";
   "update"; "values"].

(* default_field_resolver: getattr first, then subscription *)
Definition default_field_resolver (parent : pyval) (name : string) : pyval :=
  match parent with
  | PDict kv =>
      if mem_str name dict_method_names then POpaque "builtin_function_or_method"
      else match dict_get name kv with Some v => v | None => PNone end
  | PObj _ attrs => match dict_get name attrs with Some v => v | None => PNone end
  | _ => PNone
  end.

(* default_type_resolver *)
Definition default_type_resolver (v : pyval) : pyval :=
  match v with
  | PDict kv => match dict_get "_typename" kv with Some t => t | None => PStr "dict" end
  | PObj cls attrs => match dict_get "_typename" attrs with Some t => t | None => PStr cls end
  | PList _ => PStr "list"
  | PStr _ => PStr "str"
  | PInt _ => PStr "int"
  | PBool _ => PStr "bool"
  | PFloat _ => PStr "float"
  | _ => PStr "object"
  end.

Definition locs_of (nodes : list fnode) : list loc := map fn_loc nodes.

(* handle_field_error *)
Definition handle_field_error (l : list perr) (nodes : list fnode) (path : list pkey)
           (return_type : ty) : M pyval :=
  fun s =>
    let located := map (locate (locs_of nodes) path) l in
    if is_non_null return_type then (OExc located, s)
    else (OVal PNone, add_errors located s).

Definition is_exc_value (v : pyval) : option perr :=
  match v with
  | PExc (UserErr m) => Some (raw_err (MUser m) false)
  | PExc (GraphQLErr m) => Some (raw_err (MUser m) false)
  | PExc _ => Some (engine_err "exception-value")
  | _ => None
  end.

(* completion of the items of a list value, results merged by index *)
Fixpoint complete_items (complete_item : pyval -> list pkey -> M pyval) (path : list pkey) (i : Z)
         (items : list pyval) : M (list pyval) :=
  fun s =>
    match items with
    | [] => (OVal [], s)
    | x :: xs =>
        let (r, s1) := complete_item x (path ++ [KIdx i]) s in
        let (rs, s2) := complete_items complete_item path (i + 1)%Z xs s1 in
        match r, rs with
        | OCrash e, _ => (OCrash e, s2)
        | _, OCrash e => (OCrash e, s2)
        | OVal v, OVal vs' => (OVal (v :: vs'), s2)
        | OVal _, OExc l => (OExc l, s2)
        | OExc l, OVal _ => (OExc l, s2)
        | OExc l, OExc l' => (OExc (l ++ l'), s2)      (* extract_exceptions_from_results *)
        end
    end.

(* the output coercer chain for the type t (get_output_coercer), with the leaf given *)
Section Coercer.
Variable nodes : list fnode.
Variable leaf : string -> pyval -> list pkey -> M pyval.

Fixpoint coerce_output (t : ty) (v : pyval) (path : list pkey) {struct t} : M pyval :=
  match t with
  | TNonNull t' =>
      fun s => match coerce_output t' v path s with
               | (OVal PNone, s') => (OExc [engine_err "null-for-non-null"], s')
               | r => r
               end
  | TList t' =>
      fun s =>
        match v with
        | PNone => (OVal PNone, s)
        | PList items =>
            match complete_items
                    (fun item ipath s0 =>
                       (* complete_value_catching_error for one item *)
                       match (match is_exc_value item with
                              | Some e => (OExc [e], s0)
                              | None => coerce_output t' item ipath s0
                              end) with
                       | (OExc l, s1) => handle_field_error l nodes ipath t' s1
                       | r => r
                       end) path 0%Z items s with
            | (OVal l, s') => (OVal (PList l), s')
            | (OExc l, s') => (OExc l, s')
            | (OCrash e, s') => (OCrash e, s')
            end
        | _ => (OExc [engine_err "not-a-list"], s)
        end
  | TNamed n => leaf n v path
  end.
End Coercer.

(* extract the perr of what user code raised *)
Definition user_raise (msg : string) (ext : bool) : perr := raw_err (MUser msg) ext.

(* ensure_valid_runtime_type *)
Definition resolve_runtime_type (abstract : string) (t : pyval) (nodes : list fnode)
  : outcome string :=
  match t with
  | PStr n =>
      match find_type sch n with
      | Some (DObject _ _) =>
          if mem_str n (possible_types sch abstract) then OVal n
          else OExc [{| p_path := None; p_locs := Some (locs_of nodes);
                        p_msg := MEngine "not-possible-type"; p_ext := false |}]
      | _ => OExc [{| p_path := None; p_locs := Some (locs_of nodes);
                      p_msg := MEngine "not-an-object-type"; p_ext := false |}]
      end
  | _ => OExc [{| p_path := None; p_locs := Some (locs_of nodes);
                  p_msg := MEngine "not-an-object-type"; p_ext := false |}]
  end.

(* execute_fields over already collected fields, given the per-field resolution function *)
Fixpoint exec_fields_conc (rf : string -> list fnode -> M (option pyval)) (fs : fields)
  : M (list (string * pyval)) :=
  fun s =>
    match fs with
    | [] => (OVal [], s)
    | (k, nodes) :: rest =>
        let (r, s1) := rf k nodes s in
        let (rs, s2) := exec_fields_conc rf rest s1 in
        match r, rs with
        | OCrash e, _ => (OCrash e, s2)
        | _, OCrash e => (OCrash e, s2)
        | OVal (Some v), OVal kv => (OVal ((k, v) :: kv), s2)
        | OVal None, OVal kv => (OVal kv, s2)
        | OVal _, OExc l => (OExc l, s2)
        | OExc l, OVal _ => (OExc l, s2)
        | OExc l, OExc l' => (OExc (l ++ l'), s2)
        end
    end.

(* awaited one by one: the first raised exception propagates, later fields never start *)
Fixpoint exec_fields_seq (rf : string -> list fnode -> M (option pyval)) (fs : fields)
  : M (list (string * pyval)) :=
  fun s =>
    match fs with
    | [] => (OVal [], s)
    | (k, nodes) :: rest =>
        match rf k nodes s with
        | (OCrash e, s1) => (OCrash e, s1)
        | (OExc l, s1) => (OExc l, s1)
        | (OVal o, s1) =>
            match exec_fields_seq rf rest s1 with
            | (OVal kv, s2) => (OVal (match o with Some v => (k, v) :: kv | None => kv end), s2)
            | r => r
            end
        end
    end.

(* execute_fields with PER-FIELD settings: in one pass over the fields, a sequential field is awaited
   on the spot (its exception propagates at once: later fields are never started, the deferred ones
   neither), a concurrent one is deferred; afterwards all deferred ones run (gather with
   return_exceptions=True: every one of them, exceptions collected); results by field position *)
Fixpoint mixed_pass1 (isc : string -> list fnode -> bool) (rf : string -> list fnode -> M (option pyval))
         (fs : fields) : M (list (option (option pyval))) :=
  fun s =>
    match fs with
    | [] => (OVal [], s)
    | (k, nodes) :: rest =>
        if isc k nodes then
          match mixed_pass1 isc rf rest s with
          | (OVal slots, s') => (OVal (None :: slots), s')
          | (OExc l, s') => (OExc l, s')
          | (OCrash e, s') => (OCrash e, s')
          end
        else
          match rf k nodes s with
          | (OCrash e, s1) => (OCrash e, s1)
          | (OExc l, s1) => (OExc l, s1)
          | (OVal o, s1) =>
              match mixed_pass1 isc rf rest s1 with
              | (OVal slots, s2) => (OVal (Some o :: slots), s2)
              | (OExc l, s2) => (OExc l, s2)
              | (OCrash e, s2) => (OCrash e, s2)
              end
          end
    end.

Fixpoint mixed_pass2 (rf : string -> list fnode -> M (option pyval)) (fs : fields)
         (slots : list (option (option pyval))) : M (list (string * pyval)) :=
  fun s =>
    match fs, slots with
    | (k, nodes) :: rest, Some o :: srest =>
        let (rs, s2) := mixed_pass2 rf rest srest s in
        match rs with
        | OVal kv => (OVal (match o with Some v => (k, v) :: kv | None => kv end), s2)
        | OExc l => (OExc l, s2)
        | OCrash e => (OCrash e, s2)
        end
    | (k, nodes) :: rest, None :: srest =>
        let (r, s1) := rf k nodes s in
        let (rs, s2) := mixed_pass2 rf rest srest s1 in
        match r, rs with
        | OCrash e, _ => (OCrash e, s2)
        | _, OCrash e => (OCrash e, s2)
        | OVal (Some v), OVal kv => (OVal ((k, v) :: kv), s2)
        | OVal None, OVal kv => (OVal kv, s2)
        | OVal _, OExc l => (OExc l, s2)
        | OExc l, OVal _ => (OExc l, s2)
        | OExc l, OExc l' => (OExc (l ++ l'), s2)
        end
    | _, _ => (OVal [], s)
    end.

Definition exec_fields_mixed (isc : string -> list fnode -> bool) (rf : string -> list fnode -> M (option pyval))
           (fs : fields) : M (list (string * pyval)) :=
  fun s =>
    match mixed_pass1 isc rf fs s with
    | (OVal slots, s1) => mixed_pass2 rf fs slots s1
    | (OExc l, s1) => (OExc l, s1)
    | (OCrash e, s1) => (OCrash e, s1)
    end.

Definition typename_field : field_def :=
  {| fd_name := "__typename"; fd_type := TNonNull (TNamed "String"); fd_args := [] |}.

Definition get_field_definition (ptype fname : string) : option field_def :=
  if String.eqb fname "__typename" then
    match find_type sch ptype with
    | Some (DObject _ _) | Some (DInterface _) | Some (DUnion _) => Some typename_field
    | _ => None
    end
  else find_field (fields_of sch ptype) fname.

(* The pieces of resolve_field, parametrised by the function `rf` used for the fields of
   sub-objects (the same function at a smaller fuel). *)
Definition rfun := string -> pyval -> list pkey -> string -> list fnode -> M (option pyval).

(* field_definition.parent_concurrently of the field a response key selects on the parent type *)
Definition field_conc (otype : string) (k : string) (nodes : list fnode) : bool :=
  match nodes with
  | n :: _ => match field_parent cfg otype (fn_name n) with Some b => b | None => parent_concurrently cfg end
  | [] => parent_concurrently cfg
  end.

(* complete_object_value: collect_subfields + execute_fields *)
Definition exec_sub (rf : rfun) (nodes : list fnode) (otype : string) (value : pyval)
           (opath : list pkey) : M pyval :=
  fun s0 =>
    match collect_subfields COLLECT_FUEL otype nodes [] [] with
    | None => (OCrash KeyError, s0)
    | Some sub =>
        match exec_fields_mixed (field_conc otype) (fun k ns => rf otype value opath k ns) sub s0 with
        | (OVal kv, s1) => (OVal (PDict kv), s1)
        | (OExc l, s1) => (OExc l, s1)
        | (OCrash e, s1) => (OCrash e, s1)
        end
    end.

(* the leaf output coercers: scalar / enum / object / abstract *)
Definition leaf_coercer (rf : rfun) (ptype : string) (fd : field_def) (nodes : list fnode)
           (path : list pkey) (n : string) (v : pyval) (lpath : list pkey) : M pyval :=
  fun s0 =>
    match find_type sch n with
    | Some DScalar =>
        match v with
        | PNone => (OVal PNone, s0)
        | _ =>
          match scalars sch n with
          | Some ops =>
              match s_output ops v with
              | Ok r => if is_undef r then (OExc [engine_err "scalar-undefined"], s0)
                        else (OVal r, s0)
              | Raise OutOfFuel => (OCrash OutOfFuel, s0)
              | Raise _ => (OExc [engine_err "scalar-coerce-output"], s0)
              end
          | None => (OExc [engine_err "scalar-not-callable"], s0)
          end
        end
    | Some (DEnum values) =>
        match v with
        | PNone => (OVal PNone, s0)
        | PStr x => if mem_str x values then (OVal v, s0)
                    else (OExc [engine_err "enum-unknown-value"], s0)
        | _ => (OExc [engine_err "enum-unknown-value"], s0)
        end
    | Some (DObject _ _) =>
        match v with
        | PNone => (OVal PNone, s0)
        | _ => exec_sub rf nodes n v lpath s0
        end
    | Some (DInterface _) | Some (DUnion _) =>
        match v with
        | PNone => (OVal PNone, s0)
        | _ =>
          let tr :=
            match type_resolver_kind U n ptype (fd_name fd) with
            | TRDefault => (URet (default_type_resolver v), s0)
            | TRCustom => (type_resolver U path n v, add_call (CTypeResolver path n v) s0)
            end in
          match tr with
          | (URaise msg _ ext, s1) => (OExc [user_raise msg ext], s1)
          | (URet t, s1) =>
              match resolve_runtime_type n t nodes with
              | OVal rt => exec_sub rf nodes rt v lpath s1
              | OExc l => (OExc l, s1)
              | OCrash e => (OCrash e, s1)
              end
          end
        end
    | Some (DInput _) | None => (OExc [engine_err "no-output-coercer"], s0)
    end.

(* resolve_field_value_or_error: coerce the arguments, call the resolver once *)
Definition resolve_value (ptype : string) (source : pyval) (path : list pkey) (fd : field_def)
           (node : fnode) : M pyval :=
  fun s =>
    if String.eqb (fn_name node) "__typename" then (OVal (PStr ptype), s)
    else
      match coerce_arguments sch 20 (fd_args fd) (fn_loc node) (fn_args node) vs with
      | Raise e => (OCrash e, s)
      | Ok (_, (e :: es) as aerrs) =>
          (OExc (map (fun ae => {| p_path := None; p_locs := Some [snd ae];
                                   p_msg := MEngine "argument"; p_ext := false |}) aerrs), s)
      | Ok (args, []) =>
          if has_resolver U ptype (fd_name fd)
          then
            let s1 := add_call (CResolver path ptype (fd_name fd) source args) s in
            match resolver U path ptype (fd_name fd) source args with
            | URet v => (OVal v, s1)
            | URaise msg _ ext => (OExc [user_raise msg ext], s1)
            end
          else (OVal (default_field_resolver source (fd_name fd)), s)
      end.

(* complete_value_catching_error at the field level *)
Definition complete_field (rf : rfun) (ptype : string) (fd : field_def) (nodes : list fnode)
           (path : list pkey) (raw : outcome pyval) : M (option pyval) :=
  fun s1 =>
    let completed :=
      match raw with
      | OExc l => (OExc l, s1)
      | OCrash e => (OCrash e, s1)
      | OVal v =>
          match is_exc_value v with
          | Some e => (OExc [e], s1)
          | None => coerce_output nodes (leaf_coercer rf ptype fd nodes path) (fd_type fd) v path s1
          end
      end in
    match completed with
    | (OExc l, s2) =>
        match handle_field_error l nodes path (fd_type fd) s2 with
        | (OVal v, s3) => (OVal (Some v), s3)
        | (OExc l', s3) => (OExc l', s3)
        | (OCrash e, s3) => (OCrash e, s3)
        end
    | (OVal v, s2) => (OVal (Some v), s2)
    | (OCrash e, s2) => (OCrash e, s2)
    end.

Definition resolve_field_body (rf : rfun) (ptype : string) (source : pyval) (ppath : list pkey)
           (key : string) (nodes : list fnode) : M (option pyval) :=
  fun s =>
    match nodes with
    | [] => (OCrash KeyError, s)
    | node :: _ =>
      match get_field_definition ptype (fn_name node) with
      | None => (OVal None, s)                    (* UNDEFINED_VALUE: dropped from the result *)
      | Some fd =>
        let path := ppath ++ [KName key] in
        match resolve_value ptype source path fd node s with
        | (OCrash e, s1) => (OCrash e, s1)
        | (raw, s1) => complete_field rf ptype fd nodes path raw s1
        end
      end
    end.

(* resolve_field: one response key of one parent object.  fuel: depth of the response tree *)
Fixpoint resolve_field (fuel : nat) : rfun :=
  match fuel with
  | O => fun _ _ _ _ _ s => (OCrash OutOfFuel, s)
  | S fuel' => resolve_field_body (resolve_field fuel')
  end.

Definition EXEC_FUEL := 40%nat.

(* execute_operation *)
Definition root_type_of (k : op_kind) : option string :=
  match k with
  | OpQuery => Some (query_type sch)
  | OpMutation => mutation_type sch
  | OpSubscription => subscription_type sch
  end.

Record response := { r_data : pyval; r_errors : list gerr; r_log : list call }.

Definition execute_operation (op : operation) (root_value : pyval) : outcome response :=
  match root_type_of (o_kind op) with
  | None => OCrash KeyError
  | Some rt =>
      match collect_fields COLLECT_FUEL rt (o_sels op) [] [] with
      | None => OCrash KeyError
      | Some (fs, _) =>
          let rf := fun k ns => resolve_field EXEC_FUEL rt root_value [] k ns in
          let run := match o_kind op with
                     | OpMutation => exec_fields_seq rf fs
                     | _ => exec_fields_mixed (field_conc rt) rf fs
                     end in
          match run st0 with
          | (OVal kv, s) => OVal {| r_data := PDict kv; r_errors := s_errors s; r_log := s_log s |}
          | (OExc l, s) =>
              let s' := add_errors l s in
              OVal {| r_data := PNone; r_errors := s_errors s'; r_log := s_log s' |}
          | (OCrash e, _) => OCrash e
          end
      end
  end.

End Exec.

(* ---------- execute: operation selection, variable coercion, execution ---------- *)
Definition select_operation (doc : document) (name : option string) : option operation :=
  match name with
  | Some n =>
      (* operations dict keyed by name: the last definition with that name wins *)
      fold_left (fun acc op => match o_name op with
                               | Some m => if String.eqb m n then Some op else acc
                               | None => acc end) (operations doc) None
  | None => match operations doc with [op] => Some op | _ => None end
  end.

Definition vdef_loc (vds : list var_def) (n : string) : list loc :=
  flat_map (fun vd => if String.eqb (v_name vd) n then [v_loc vd] else []) vds.

Definition verr_to_gerr (vds : list var_def) (e : verr) : gerr :=
  {| g_path := None; g_locs := vdef_loc vds (fst e); g_msg := MEngine "variable"; g_ext := false |}.

Definition impl_execute (sch : schema) (doc : document) (U : usercode) (cfg : config)
           (opname : option string) (raw : vars) (root_value : pyval) : outcome response :=
  match select_operation doc opname with
  | None => OVal {| r_data := PNone;
                    r_errors := [{| g_path := None; g_locs := []; g_msg := MEngine "operation"; g_ext := false |}];
                    r_log := [] |}
  | Some op =>
      match coerce_variables sch 40 (o_vars op) raw with
      | Raise e => OCrash e
      | Ok (_, (e :: es) as errs) =>
          OVal {| r_data := PNone; r_errors := map (verr_to_gerr (o_vars op)) errs; r_log := [] |}
      | Ok (vs, []) => execute_operation sch doc vs U cfg op root_value
      end
  end.
