(* Specification model of the coercion of a LITERAL (an AST value with variables possibly
   nested inside it) to the declared input type: a second, independent transcription written
   by direct recursion on the declared type (specification section 3, "Input Coercion" of
   each type kind, and the valueFromAST reading of it), instead of the chain of wrapper
   coercers the implementation folds around a leaf.  PUndef stands for "invalid value".
   `nn` says that the position is directly under a Non-Null wrapper. *)
From Coq Require Import ZArith List String Bool.
From TV Require Import Py.Prelude Model.Schema Model.ImplInput.
Import ListNotations.
Open Scope string_scope.
Open Scope list_scope.

Section Spec.
Variable sch : schema.

(* a variable written where a value is expected: its runtime value; invalid when the
   variable has none, or when it is null at a non-null position *)
Definition var_value (vs : vars) (nn : bool) (x : string) : pyval :=
  match dict_get x vs with
  | None => PUndef
  | Some v => if is_undef v then PUndef else if is_none v && nn then PUndef else v
  end.

(* one declared field of an input object against the written object *)
Definition spec_obj_field (literal : ty -> lit -> res pyval) (vs : vars)
           (fnodes : list (string * lit)) (f : input_def) : res field_outcome :=
  let provided := match lit_obj_get (in_name f) fnodes with
                  | Some node => if is_missing_variable node vs then None else Some node
                  | None => None
                  end in
  match provided with
  | Some node => bind (literal (in_type f) node) (fun v => Ok (FVal v))
  | None =>
      match in_default f with
      | Some d => bind (literal (in_type f) d) (fun v => Ok (FVal v))
      | None => if is_non_null (in_type f) then Ok FInvalid else Ok FSkip
      end
  end.

Definition field_bad (r : string * field_outcome) : bool :=
  match snd r with FInvalid => true | FVal v => is_undef v | FSkip => false end.

Definition finish_lit_object (rs : list (string * field_outcome)) : pyval :=
  if existsb field_bad rs then PUndef
  else PDict (flat_map (fun r => match snd r with FVal v => [(fst r, v)] | _ => [] end) rs).

Fixpoint spec_literal (fuel : nat) (t : ty) (vs : vars) (nn : bool) (l : lit) {struct fuel} : res pyval :=
  (fix go (t : ty) (nn : bool) (l : lit) {struct t} : res pyval :=
     match t with
     | TNonNull t' =>
         match l with LNull _ => Ok PUndef | _ => go t' true l end
     | TList t' =>
         match l with
         | LNull _ => Ok PNone
         | LVar _ x => Ok (var_value vs nn x)
         | LList _ items =>
             bind (map_res (fun it => if is_missing_variable it vs
                                      then (if is_non_null t' then Ok PUndef else Ok PNone)
                                      else go t' false it) items)
                  (fun rs => if all_defined rs then Ok (PList rs) else Ok PUndef)
         | _ => bind (go t' false l) (fun v => if is_undef v then Ok PUndef else Ok (PList [v]))
         end
     | TNamed n =>
         match fuel with
         | O => Raise OutOfFuel
         | S fuel' =>
           match find_type sch n with
           | Some DScalar =>
               match scalars sch n with
               | Some ops =>
                   match l with
                   | LNull _ => Ok PNone
                   | LVar _ x => Ok (var_value vs nn x)
                   | _ => match s_literal ops (node_of_lit l) with
                          | Ok r => Ok r
                          | Raise OutOfFuel => Raise OutOfFuel
                          | Raise _ => Ok PUndef
                          end
                   end
               | None => Raise AttributeError
               end
           | Some (DEnum values) =>
               match l with
               | LNull _ => Ok PNone
               | LVar _ x => Ok (var_value vs nn x)
               | LEnum _ s => if mem_str s values then Ok (PStr s) else Ok PUndef
               | _ => Ok PUndef
               end
           | Some (DInput fields) =>
               match l with
               | LNull _ => Ok PNone
               | LVar _ x => Ok (var_value vs nn x)
               | LObj _ fnodes =>
                   bind (map_res (fun f =>
                           bind (spec_obj_field (fun ft x => spec_literal fuel' ft vs false x) vs fnodes f)
                                (fun o => Ok (in_name f, o))) fields)
                        (fun rs => Ok (finish_lit_object rs))
               | _ => Ok PUndef
               end
           | Some _ | None => Raise TypeError
           end
         end
     end) t nn l.

End Spec.
