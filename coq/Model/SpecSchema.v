(* Specification side of the schema build (C12): which SDL models break one of the rules the
   property lists, stated declaratively over the declared definitions and their extensions. *)
From Coq Require Import ZArith List String Bool.
From TV Require Import Py.Prelude Model.Schema Model.ImplValidate Model.SpecValidate Model.SchemaBuild.
Import ListNotations.
Open Scope string_scope.
Open Scope list_scope.

Section Spec.
Variable s : sdl.

Definition all_decls : list tdecl := s_types s ++ builtin_types.
Definition all_ddecls : list ddecl := s_dirdefs s ++ builtin_ddecls.

Definition v_duplicate_definitions : bool :=
  negb (nodupb (map td_name all_decls)) || negb (nodupb (map (fun d => dd_name (dd_def d)) all_ddecls)).

(* an extension must name an existing type of its own kind and add only new members *)
Definition ext_ok (e : ext) : bool :=
  match e with
  | XType n d dirs =>
      match find_tdecl all_decls n with
      | None => false
      | Some t =>
          same_kind (td_def t) d &&
          forallb (fun x => negb (mem_str x (td_dirs t))) dirs &&
          match td_def t, d with
          | DEnum vs, DEnum xs => forallb (fun x => negb (mem_str x vs)) xs
          | DInput fs, DInput xs => forallb (fun x => negb (mem_str (in_name x) (map in_name fs))) xs
          | DObject ifs fs, DObject xifs xfs =>
              forallb (fun x => negb (mem_str (fd_name x) (map fd_name fs))) xfs && forallb (fun x => negb (mem_str x ifs)) xifs
          | DInterface fs, DInterface xfs => forallb (fun x => negb (mem_str (fd_name x) (map fd_name fs))) xfs
          | DUnion ms, DUnion xs => forallb (fun x => negb (mem_str x ms)) xs
          | _, _ => true
          end
      end
  | XSchema ops dirs => forallb (fun d => negb (mem_str d (s_schema_dirs s))) dirs
  end.
Definition v_invalid_extension : bool := negb (forallb ext_ok (s_exts s)).

(* the schema the SDL denotes: definitions with their (valid) extensions applied *)
Definition denoted : option gschema :=
  match initial s with
  | inl g0 => Some (fold_left apply_ext (s_exts s) g0)
  | inr _ => None
  end.

Definition defined (g : gschema) (n : string) : bool := g_has_type g n.

Definition all_out_fields (g : gschema) : list field_def :=
  flat_map (fun t => match out_fields (td_def t) with Some fs => fs | None => [] end) (g_types g).
Definition all_args (g : gschema) : list input_def :=
  flat_map fd_args (all_out_fields g) ++ flat_map (fun d => dd_args (dd_def d)) (g_dirs g).
Definition all_input_fields (g : gschema) : list input_def :=
  flat_map (fun t => match td_def t with DInput fs => fs | _ => [] end) (g_types g).

Definition v_undefined_type (g : gschema) : bool :=
  existsb (fun f => negb (defined g (named_of (fd_type f)))) (all_out_fields g) ||
  existsb (fun a => negb (defined g (named_of (in_type a)))) (all_args g ++ all_input_fields g).

Definition v_non_input_type (g : gschema) : bool :=
  existsb (fun a => match g_find g (named_of (in_type a)) with Some d => negb (is_input_def d) | None => false end)
          (all_args g ++ all_input_fields g).

(* IsValidImplementationFieldType *)
Fixpoint valid_impl_type (g : gschema) (ft it : ty) {struct ft} : bool :=
  match ft with
  | TNonNull ft' => match it with TNonNull it' => valid_impl_type g ft' it' | _ => valid_impl_type g ft' it end
  | TList ft' => match it with TList it' => valid_impl_type g ft' it' | _ => false end
  | TNamed n =>
      match it with
      | TNamed i =>
          String.eqb n i ||
          match g_find g i with
          | Some (DInterface _) => mem_str n (g_implementers g i)
          | Some (DUnion ms) => mem_str n ms
          | _ => false
          end
      | _ => false
      end
  end.

Definition honours (g : gschema) (fs : list field_def) (iff : field_def) : bool :=
  match find_field fs (fd_name iff) with
  | None => false
  | Some f =>
      valid_impl_type g (fd_type f) (fd_type iff) &&
      forallb (fun ia => match find (fun a => String.eqb (in_name a) (in_name ia)) (fd_args f) with
                         | Some a => ty_eqb (in_type a) (in_type ia)
                         | None => false end) (fd_args iff) &&
      forallb (fun a => mem_str (in_name a) (map in_name (fd_args iff)) || negb (is_non_null (in_type a)) ||
                        match in_default a with Some _ => true | None => false end) (fd_args f)
  end.

Definition v_interface_not_honoured (g : gschema) : bool :=
  existsb (fun t => match td_def t with
                    | DObject ifs fs =>
                        existsb (fun i => match g_find g i with
                                          | Some (DInterface ifields) => negb (forallb (honours g fs) ifields)
                                          | _ => true end) ifs
                    | _ => false end) (g_types g).

Definition v_roots (g : gschema) : bool :=
  negb (defined g (g_query g)) ||
  (negb (String.eqb (g_mutation g) "Mutation") && negb (defined g (g_mutation g))) ||
  (negb (String.eqb (g_subscription g) "Subscription") && negb (defined g (g_subscription g))).

Definition v_empty_object (g : gschema) : bool :=
  existsb (fun t => match td_def t with DObject _ [] => true | _ => false end) (g_types g).
Definition v_union_self (g : gschema) : bool :=
  existsb (fun t => match td_def t with DUnion ms => mem_str (td_name t) ms | _ => false end) (g_types g).
Definition v_enum_duplicates (g : gschema) : bool :=
  existsb (fun t => match td_def t with DEnum vs => negb (nodupb vs) | _ => false end) (g_types g).
Definition v_scalar_impl (g : gschema) : bool :=
  existsb (fun t => match td_def t with DScalar => negb (mem_str (td_name t) (g_impls g)) | _ => false end) (g_types g).
Definition v_hooks (g : gschema) : bool := existsb (fun d => negb (dd_hooks_awaitable d)) (g_dirs g).

Definition spec_violations : list (string * bool) :=
  ("duplicate-definition", v_duplicate_definitions) ::
  ("invalid-extension", v_invalid_extension) ::
  match denoted with
  | None => []
  | Some g => [
      ("undefined-type", v_undefined_type g); ("non-input-type", v_non_input_type g);
      ("interface-not-honoured", v_interface_not_honoured g); ("root-types", v_roots g);
      ("object-without-fields", v_empty_object g); ("union-contains-itself", v_union_self g);
      ("duplicate-enum-value", v_enum_duplicates g); ("scalar-without-implementation", v_scalar_impl g);
      ("directive-hook-not-awaitable", v_hooks g)]
  end.

Definition violates_checked_rule : bool := existsb snd spec_violations.
End Spec.

(* ---------- evaluation entry points ---------- *)
Definition str_set_eq (a b : list string) : bool :=
  forallb (fun x => mem_str x b) a && forallb (fun x => mem_str x a) b.

Definition merged_of (s : sdl) : option gschema :=
  match initial s with inl g0 => Some (fold_left apply_ext (s_exts s) g0) | inr _ => None end.

Definition build_agree (s : sdl) (obs_built : bool) (obs_kinds : list string) : bool :=
  match impl_build s with
  | Built _ => obs_built
  | Rejected ks =>
      negb obs_built &&
      (if match merged_of s with Some g => bake_aborts g | None => false end
       then forallb (fun k => mem_str k obs_kinds) ks          (* aborted bake: the engine may report more *)
       else str_set_eq ks obs_kinds)
  | Raised => negb obs_built
  end.

Definition build_verdict (s : sdl) : Z :=
  match impl_build s with Built _ => 0 | Rejected _ => 1 | Raised => 2 end.

Fixpoint smask (l : list (string * bool)) (w : Z) : Z :=
  match l with [] => 0 | (_, b) :: r => ((if b then w else 0) + smask r (2 * w))%Z end.
Definition spec_build_mask (s : sdl) : Z := smask (spec_violations s) 1.
