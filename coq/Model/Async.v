(* A small calculus for the engine's use of asyncio: programs that await user coroutines
   (`Call`, which suspends), fan out with asyncio.gather (`Gather`, results merged by index), and
   append to the request's write-only state (`Emit`: ExecutionContext.errors, the invocation log).
   Two interpreters: `run_seq` (every awaited user coroutine completes at once -- the schedule a
   plain test exercises) and the scheduler (`start` / `release`): after a fan-out all children are
   started, each runs until it blocks on a user coroutine; a pick releases one blocked call site
   and runs what it enables, joins included -- the discipline of the gated driver used by the
   correspondence check. *)
From Coq Require Import ZArith List String Bool.
From TV Require Import Py.Prelude Model.Schema Model.ImplInput Model.ImplExec.
Import ListNotations.
Open Scope string_scope.
Open Scope list_scope.

(* what a sub-computation returns *)
Inductive res :=
| RVal (v : pyval)
| ROpt (o : option pyval)
| RKVs (kv : list (string * pyval))
| RExc (l : list perr)
| RCrash (e : exc).

Definition site := list pkey.             (* a resolver call site: its response path *)

(* what a program itself may append; the start / finish marks are written by the interpreters *)
Inductive uevent :=
| UError (g : gerr)
| UCall (c : call).

Inductive event :=
| EUser (u : uevent)
| EStart (s : site)
| EFinish (s : site).

Inductive prog :=
| Ret (r : res)
| Call (s : site) (ptype field : string) (source : pyval) (args : list (string * pyval)) (k : uret -> prog)
| Emit (e : uevent) (k : prog)
| Gather (children : list prog) (k : list res -> prog).

(* sequential composition *)
Fixpoint bind (p : prog) (f : res -> prog) {struct p} : prog :=
  match p with
  | Ret r => f r
  | Call s t fd src a k => Call s t fd src a (fun u => bind (k u) f)
  | Emit e k => Emit e (bind k f)
  | Gather cs k => Gather cs (fun rs => bind (k rs) f)
  end.

Section Interp.
(* the user coroutines: what each call site returns once it completes *)
Variable oracle : site -> string -> string -> pyval -> list (string * pyval) -> uret.

(* ---------- all awaited coroutines complete at once ---------- *)
Fixpoint run_seq (p : prog) : res * list event :=
  match p with
  | Ret r => (r, [])
  | Call s t fd src a k =>
      let (r, ev) := run_seq (k (oracle s t fd src a)) in (r, EStart s :: EFinish s :: ev)
  | Emit e k => let (r, ev) := run_seq k in (r, EUser e :: ev)
  | Gather cs k =>
      let rs := (fix go (cs : list prog) : list res * list event :=
                   match cs with
                   | [] => ([], [])
                   | c :: cs' => let (r, e1) := run_seq c in
                                 let (rs, e2) := go cs' in (r :: rs, e1 ++ e2)
                   end) cs in
      let (r, ev) := run_seq (k (fst rs)) in (r, snd rs ++ ev)
  end.

(* ---------- scheduler ---------- *)
Inductive proc :=
| PDone (r : res)
| PBlocked (s : site) (ptype field : string) (source : pyval) (args : list (string * pyval)) (k : uret -> prog)
| PJoin (children : list proc) (k : list res -> prog).

Definition done_res (p : proc) : option res := match p with PDone r => Some r | _ => None end.

Fixpoint all_done (ps : list proc) : option (list res) :=
  match ps with
  | [] => Some []
  | p :: ps' => match done_res p, all_done ps' with
                | Some r, Some rs => Some (r :: rs)
                | _, _ => None
                end
  end.

(* run until every branch is blocked on a user coroutine (children started in list order) *)
Fixpoint start (p : prog) {struct p} : proc * list event :=
  match p with
  | Ret r => (PDone r, [])
  | Call s t fd src a k => (PBlocked s t fd src a k, [EStart s])
  | Emit e k => let (q, ev) := start k in (q, EUser e :: ev)
  | Gather cs k =>
      let started := (fix go (cs : list prog) : list proc * list event :=
                        match cs with
                        | [] => ([], [])
                        | c :: cs' => let (q, e1) := start c in
                                      let (qs, e2) := go cs' in (q :: qs, e1 ++ e2)
                        end) cs in
      match all_done (fst started) with
      | Some rs => let (q, ev) := start (k rs) in (q, snd started ++ ev)
      | None => (PJoin (fst started) k, snd started)
      end
  end.

(* release the (first) blocked call site s: the coroutine returns, the enabled continuation runs
   until blocked, and every join it completes continues in turn *)
Fixpoint release (s : site) (p : proc) {struct p} : option (proc * list event) :=
  match p with
  | PDone _ => None
  | PBlocked s' t fd src a k =>
      if path_eqb s s'
      then let (q, ev) := start (k (oracle s' t fd src a)) in Some (q, EFinish s' :: ev)
      else None
  | PJoin cs k =>
      match (fix go (cs : list proc) {struct cs} : option (list proc * list event) :=
               match cs with
               | [] => None
               | c :: cs' =>
                   match release s c with
                   | Some (c', ev) => Some (c' :: cs', ev)
                   | None => match go cs' with
                             | Some (cs'', ev) => Some (c :: cs'', ev)
                             | None => None
                             end
                   end
               end) cs with
      | None => None
      | Some (procs, ev) =>
          match all_done procs with
          | Some rs => let (q, ev') := start (k rs) in Some (q, ev ++ ev')
          | None => Some (PJoin procs k, ev)
          end
      end
  end.

(* the call sites currently blocked, in start order *)
Fixpoint blocked (p : proc) {struct p} : list site :=
  match p with
  | PDone _ => []
  | PBlocked s _ _ _ _ _ => [s]
  | PJoin cs _ => (fix go (cs : list proc) : list site :=
                     match cs with [] => [] | c :: cs' => blocked c ++ go cs' end) cs
  end.

(* drive a program with a sequence of picks; None: a pick was not a blocked site *)
Fixpoint run_picks (picks : list site) (p : proc) (acc : list event) : option (proc * list event) :=
  match picks with
  | [] => Some (p, acc)
  | s :: picks' =>
      match release s p with
      | Some (p', ev) => run_picks picks' p' (acc ++ ev)
      | None => None
      end
  end.

Definition run_sched (picks : list site) (p : prog) : option (proc * list event) :=
  let (q, ev) := start p in run_picks picks q ev.

(* completing everything that is still pending, every coroutine returning at once *)
Fixpoint complete (p : proc) {struct p} : res * list event :=
  match p with
  | PDone r => (r, [])
  | PBlocked s t fd src a k =>
      let (r, ev) := run_seq (k (oracle s t fd src a)) in (r, EFinish s :: ev)
  | PJoin cs k =>
      let done := (fix go (cs : list proc) : list res * list event :=
                     match cs with
                     | [] => ([], [])
                     | c :: cs' => let (r, e1) := complete c in
                                   let (rs, e2) := go cs' in (r :: rs, e1 ++ e2)
                     end) cs in
      let (r, ev) := run_seq (k (fst done)) in (r, snd done ++ ev)
  end.

End Interp.

(* ======================= the executor, written in the calculus ======================= *)
Section AExec.
Variable sch : schema.
Variable doc : document.
Variable vs : vars.
Variable U : usercode.            (* only the synchronous parts are used: has_resolver, type resolvers *)
Variable cfg : config.

Definition emit_errors (l : list perr) (k : prog) : prog :=
  fold_right (fun e acc => Emit (UError (finalize e)) acc) k l.

Definition a_handle_field_error (l : list perr) (nodes : list fnode) (path : list pkey) (t : ty) : prog :=
  let located := map (locate (locs_of nodes) path) l in
  if is_non_null t then Ret (RExc located) else emit_errors located (Ret (RVal PNone)).

(* merge the results of sibling fields (execute_fields after gather) *)
Fixpoint merge_fields (ks : list string) (rs : list res) : res :=
  match ks, rs with
  | k :: ks', r :: rs' =>
      match r, merge_fields ks' rs' with
      | RCrash e, _ => RCrash e
      | _, RCrash e => RCrash e
      | ROpt (Some v), RKVs kv => RKVs ((k, v) :: kv)
      | ROpt None, RKVs kv => RKVs kv
      | RExc l, RKVs _ => RExc l
      | RExc l, RExc l' => RExc (l ++ l')
      | _, RExc l' => RExc l'
      | _, _ => RCrash KeyError
      end
  | _, _ => RKVs []
  end.

Fixpoint collect_item_results (rs : list res) : res (* RVal (PList l) | RExc | RCrash *) :=
  match rs with
  | [] => RVal (PList [])
  | r :: rs' =>
      match r, collect_item_results rs' with
      | RCrash e, _ => RCrash e
      | _, RCrash e => RCrash e
      | RVal v, RVal (PList l) => RVal (PList (v :: l))
      | RExc l, RVal _ => RExc l
      | RExc l, RExc l' => RExc (l ++ l')
      | _, RExc l' => RExc l'
      | _, _ => RCrash KeyError
      end
  end.

(* a chain of awaits: each program runs after the previous one completed; results collected *)
Fixpoint sequence (ps : list prog) (k : list res -> prog) : prog :=
  match ps with
  | [] => k []
  | p :: ps' => bind p (fun r => sequence ps' (fun rs => k (r :: rs)))
  end.

(* execute_fields_serially / non-concurrent siblings: the first raised exception propagates *)
Fixpoint sequence_abort (kps : list (string * prog)) : prog :=
  match kps with
  | [] => Ret (RKVs [])
  | (key, p) :: rest =>
      bind p (fun r =>
        match r with
        | ROpt o =>
            bind (sequence_abort rest) (fun r' =>
              match r' with
              | RKVs kv => Ret (RKVs (match o with Some v => (key, v) :: kv | None => kv end))
              | other => Ret other
              end)
        | other => Ret other
        end)
  end.

(* execute_fields with per-field settings, as a program: sequential fields are awaited one after the other
   (an exception aborts: nothing later starts, the deferred ones neither), then ALL deferred fields fan out
   in one gather; results are merged by field position *)
Fixpoint a_mixed_pass1 (isc : string -> list fnode -> bool) (arf : string -> list fnode -> prog)
         (fs : fields) (k : list (option (option pyval)) -> prog) : prog :=
  match fs with
  | [] => k []
  | (key, nodes) :: rest =>
      if isc key nodes then a_mixed_pass1 isc arf rest (fun slots => k (None :: slots))
      else bind (arf key nodes) (fun r =>
             match r with
             | ROpt o => a_mixed_pass1 isc arf rest (fun slots => k (Some o :: slots))
             | other => Ret other
             end)
  end.

Fixpoint interleave (slots : list (option (option pyval))) (rs : list res) : list res :=
  match slots with
  | [] => []
  | Some o :: srest => ROpt o :: interleave srest rs
  | None :: srest => match rs with
                     | r :: rs' => r :: interleave srest rs'
                     | [] => RCrash KeyError :: interleave srest []
                     end
  end.

Definition a_exec_fields_mixed (isc : string -> list fnode -> bool) (arf : string -> list fnode -> prog)
           (fs : fields) : prog :=
  a_mixed_pass1 isc arf fs (fun slots =>
    Gather (map (fun kn => arf (fst kn) (snd kn)) (filter (fun kn => isc (fst kn) (snd kn)) fs))
           (fun rs => Ret (merge_fields (map fst fs) (interleave slots rs)))).

Definition arfun := string -> pyval -> list pkey -> string -> list fnode -> prog.

Definition a_exec_sub (rf : arfun) (nodes : list fnode) (otype : string) (value : pyval)
           (opath : list pkey) : prog :=
  match collect_subfields sch doc vs COLLECT_FUEL otype nodes [] [] with
  | None => Ret (RCrash KeyError)
  | Some sub =>
      let finish := fun r => match r with
                             | RKVs kv => Ret (RVal (PDict kv))
                             | other => Ret other
                             end in
      bind (a_exec_fields_mixed (field_conc cfg otype) (fun k ns => rf otype value opath k ns) sub) finish
  end.

Definition a_leaf (rf : arfun) (ptype : string) (fd : field_def) (nodes : list fnode)
           (path : list pkey) (n : string) (v : pyval) (lpath : list pkey) : prog :=
  match find_type sch n with
  | Some DScalar =>
      match v with
      | PNone => Ret (RVal PNone)
      | _ =>
        match scalars sch n with
        | Some ops =>
            match s_output ops v with
            | Ok r => if is_undef r then Ret (RExc [engine_err "scalar-undefined"]) else Ret (RVal r)
            | Raise OutOfFuel => Ret (RCrash OutOfFuel)
            | Raise _ => Ret (RExc [engine_err "scalar-coerce-output"])
            end
        | None => Ret (RExc [engine_err "scalar-not-callable"])
        end
      end
  | Some (DEnum values) =>
      match v with
      | PNone => Ret (RVal PNone)
      | PStr x => if mem_str x values then Ret (RVal v) else Ret (RExc [engine_err "enum-unknown-value"])
      | _ => Ret (RExc [engine_err "enum-unknown-value"])
      end
  | Some (DObject _ _) =>
      match v with
      | PNone => Ret (RVal PNone)
      | _ => a_exec_sub rf nodes n v lpath
      end
  | Some (DInterface _) | Some (DUnion _) =>
      match v with
      | PNone => Ret (RVal PNone)
      | _ =>
        let continue_with (t : uret) : prog :=
          match t with
          | URaise msg _ ext => Ret (RExc [user_raise msg ext])
          | URet tn =>
              match resolve_runtime_type sch n tn nodes with
              | OVal rt => a_exec_sub rf nodes rt v lpath
              | OExc l => Ret (RExc l)
              | OCrash e => Ret (RCrash e)
              end
          end in
        match type_resolver_kind U n ptype (fd_name fd) with
        | TRDefault => continue_with (URet (default_type_resolver v))
        | TRCustom => Emit (UCall (CTypeResolver path n v)) (continue_with (type_resolver U path n v))
        end
      end
  | Some (DInput _) | None => Ret (RExc [engine_err "no-output-coercer"])
  end.

Section ACoercer.
Variable nodes : list fnode.
Variable leaf : string -> pyval -> list pkey -> prog.
Variable lconc : bool.          (* the field's list_concurrently, resolved at bake time *)

Fixpoint a_coerce_output (t : ty) (v : pyval) (path : list pkey) {struct t} : prog :=
  match t with
  | TNonNull t' =>
      bind (a_coerce_output t' v path) (fun r =>
        match r with
        | RVal PNone => Ret (RExc [engine_err "null-for-non-null"])
        | other => Ret other
        end)
  | TList t' =>
      match v with
      | PNone => Ret (RVal PNone)
      | PList items =>
          let item_prog := fun (ix : Z * pyval) =>
            let ipath := path ++ [KIdx (fst ix)] in
            bind (match is_exc_value (snd ix) with
                  | Some e => Ret (RExc [e])
                  | None => a_coerce_output t' (snd ix) ipath
                  end)
                 (fun r => match r with
                           | RExc l => a_handle_field_error l nodes ipath t'
                           | other => Ret other
                           end) in
          let progs := map item_prog (enumerate_from 0 items) in
          if lconc
          then Gather progs (fun rs => Ret (collect_item_results rs))
          else sequence progs (fun rs => Ret (collect_item_results rs))
      | _ => Ret (RExc [engine_err "not-a-list"])
      end
  | TNamed n => leaf n v path
  end.
End ACoercer.

Definition a_resolve_field_body (rf : arfun) (ptype : string) (source : pyval) (ppath : list pkey)
           (key : string) (nodes : list fnode) : prog :=
  match nodes with
  | [] => Ret (RCrash KeyError)
  | node :: _ =>
      match get_field_definition sch ptype (fn_name node) with
      | None => Ret (ROpt None)
      | Some fd =>
          let path := ppath ++ [KName key] in
          let complete (raw : res) : prog :=
            bind (match raw with
                  | RVal v =>
                      match is_exc_value v with
                      | Some e => Ret (RExc [e])
                      | None => a_coerce_output nodes (a_leaf rf ptype fd nodes path)
                                  (match field_list cfg ptype (fd_name fd) with Some b => b | None => list_concurrently cfg end)
                                  (fd_type fd) v path
                      end
                  | other => Ret other
                  end)
                 (fun r => match r with
                           | RExc l => bind (a_handle_field_error l nodes path (fd_type fd))
                                            (fun r' => match r' with RVal v => Ret (ROpt (Some v)) | o => Ret o end)
                           | RVal v => Ret (ROpt (Some v))
                           | other => Ret other
                           end) in
          if String.eqb (fn_name node) "__typename" then complete (RVal (PStr ptype))
          else
            match coerce_arguments sch 20 (fd_args fd) (fn_loc node) (fn_args node) vs with
            | Raise e => Ret (RCrash e)
            | Ok (_, (e :: es) as aerrs) =>
                complete (RExc (map (fun ae => {| p_path := None; p_locs := Some [snd ae];
                                                  p_msg := MEngine "argument"; p_ext := false |}) aerrs))
            | Ok (args, []) =>
                if has_resolver U ptype (fd_name fd)
                then Emit (UCall (CResolver path ptype (fd_name fd) source args))
                       (Call path ptype (fd_name fd) source args (fun u =>
                          match u with
                          | URet v => complete (RVal v)
                          | URaise msg _ ext => complete (RExc [user_raise msg ext])
                          end))
                else complete (RVal (default_field_resolver source (fd_name fd)))
            end
      end
  end.

Fixpoint a_resolve_field (fuel : nat) : arfun :=
  match fuel with
  | O => fun _ _ _ _ _ => Ret (RCrash OutOfFuel)
  | S fuel' => a_resolve_field_body (a_resolve_field fuel')
  end.

Definition a_execute_operation (op : operation) (root_value : pyval) : prog :=
  match root_type_of sch (o_kind op) with
  | None => Ret (RCrash KeyError)
  | Some rt =>
      match collect_fields sch doc vs COLLECT_FUEL rt (o_sels op) [] [] with
      | None => Ret (RCrash KeyError)
      | Some (fs, _) =>
          let rf := fun k ns => a_resolve_field EXEC_FUEL rt root_value [] k ns in
          let serial := bind (sequence_abort (map (fun kn => (fst kn, rf (fst kn) (snd kn))) fs)) in
          let finish := fun r => match r with
                                 | RKVs kv => Ret (RVal (PDict kv))
                                 | RExc l => emit_errors l (Ret (RVal PNone))
                                 | other => Ret other
                                 end in
          match o_kind op with
          | OpMutation => serial finish
          | _ => bind (a_exec_fields_mixed (field_conc cfg rt) rf fs) finish
          end
      end
  end.

End AExec.

(* response of a finished run: data + the emitted errors and invocations *)
Definition errors_of (ev : list event) : list gerr :=
  flat_map (fun e => match e with EUser (UError g) => [g] | _ => [] end) ev.
Definition calls_of (ev : list event) : list call :=
  flat_map (fun e => match e with EUser (UCall c) => [c] | _ => [] end) ev.
Definition starts_of (ev : list event) : list site :=
  flat_map (fun e => match e with EStart s => [s] | _ => [] end) ev.
Definition finishes_of (ev : list event) : list site :=
  flat_map (fun e => match e with EFinish s => [s] | _ => [] end) ev.

Definition response_of (r : res) (ev : list event) : outcome response :=
  match r with
  | RVal d => OVal {| r_data := d; r_errors := errors_of ev; r_log := calls_of ev |}
  | RCrash e => OCrash e
  | _ => OCrash KeyError
  end.
