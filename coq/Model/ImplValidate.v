(* Implementation model of query validation: the walk of
   language/parsers/libgraphqlparser/transformers.py, which builds the AST and calls the 26 rules
   of language/validators/query/*.py at fixed sites while sharing one mutable context
   (Validators.ctx).  Written function by function after the Python; a rule that raises an
   exception other than TartifletteError makes parse_and_validate_query answer with the generic
   "Server encountered an error." (modelled by the [crashed] flag).
   Observation compared with the engine: the set of (rule tag, error path[, locations]). *)
From Coq Require Import ZArith List String Bool.
From RecordUpdate Require Import RecordSet.
From TV Require Import Py.Prelude Model.Schema.
Import ListNotations RecordSetNotations.
Open Scope string_scope.
Open Scope list_scope.

(* ---------- schema as the validators see it (after bake) ---------- *)
Record dirdef := { dd_name : string; dd_args : list input_def; dd_locs : list string }.
Record vschema := { vs : schema; vs_dirs : list dirdef }.

Definition S_ (n : string) := TNamed n.
Definition fld (n : string) (t : ty) (a : list input_def) := {| fd_name := n; fd_type := t; fd_args := a |}.
Definition arg_ (n : string) (t : ty) (d : option lit) := {| in_name := n; in_type := t; in_default := d |}.

Definition incl_deprecated := [arg_ "includeDeprecated" (S_ "Boolean") (Some (LBool (0, 0)%Z false))].

(* schema/builtins/introspection.sdl *)
Definition introspection_types : list (string * typedef) := [
  ("__Schema", DObject [] [
     fld "types" (TNonNull (TList (TNonNull (S_ "__Type")))) [];
     fld "queryType" (TNonNull (S_ "__Type")) [];
     fld "mutationType" (S_ "__Type") [];
     fld "subscriptionType" (S_ "__Type") [];
     fld "directives" (TNonNull (TList (TNonNull (S_ "__Directive")))) []]);
  ("__Type", DObject [] [
     fld "kind" (TNonNull (S_ "__TypeKind")) [];
     fld "name" (S_ "String") [];
     fld "description" (S_ "String") [];
     fld "fields" (TList (TNonNull (S_ "__Field"))) incl_deprecated;
     fld "interfaces" (TList (TNonNull (S_ "__Type"))) [];
     fld "possibleTypes" (TList (TNonNull (S_ "__Type"))) [];
     fld "enumValues" (TList (TNonNull (S_ "__EnumValue"))) incl_deprecated;
     fld "inputFields" (TList (TNonNull (S_ "__InputValue"))) [];
     fld "ofType" (S_ "__Type") []]);
  ("__Field", DObject [] [
     fld "name" (TNonNull (S_ "String")) [];
     fld "description" (S_ "String") [];
     fld "args" (TNonNull (TList (TNonNull (S_ "__InputValue")))) [];
     fld "type" (TNonNull (S_ "__Type")) [];
     fld "isDeprecated" (TNonNull (S_ "Boolean")) [];
     fld "deprecationReason" (S_ "String") []]);
  ("__InputValue", DObject [] [
     fld "name" (TNonNull (S_ "String")) [];
     fld "description" (S_ "String") [];
     fld "type" (TNonNull (S_ "__Type")) [];
     fld "defaultValue" (S_ "String") []]);
  ("__EnumValue", DObject [] [
     fld "name" (TNonNull (S_ "String")) [];
     fld "description" (S_ "String") [];
     fld "isDeprecated" (TNonNull (S_ "Boolean")) [];
     fld "deprecationReason" (S_ "String") []]);
  ("__TypeKind", DEnum ["SCALAR"; "OBJECT"; "INTERFACE"; "UNION"; "ENUM"; "INPUT_OBJECT"; "LIST"; "NON_NULL"]);
  ("__Directive", DObject [] [
     fld "name" (TNonNull (S_ "String")) [];
     fld "description" (S_ "String") [];
     fld "locations" (TNonNull (TList (TNonNull (S_ "__DirectiveLocation")))) [];
     fld "args" (TNonNull (TList (TNonNull (S_ "__InputValue")))) []]);
  ("__DirectiveLocation", DEnum ["QUERY"; "MUTATION"; "SUBSCRIPTION"; "FIELD"; "FRAGMENT_DEFINITION";
     "FRAGMENT_SPREAD"; "INLINE_FRAGMENT"; "SCHEMA"; "SCALAR"; "OBJECT"; "FIELD_DEFINITION";
     "ARGUMENT_DEFINITION"; "INTERFACE"; "UNION"; "ENUM"; "ENUM_VALUE"; "INPUT_OBJECT";
     "INPUT_FIELD_DEFINITION"])
].

Definition builtin_dirs : list dirdef := [
  {| dd_name := "deprecated";
     dd_args := [arg_ "reason" (S_ "String") (Some (LStr (0, 0)%Z "No longer supported"))];
     dd_locs := ["FIELD_DEFINITION"; "ENUM_VALUE"] |};
  {| dd_name := "nonIntrospectable"; dd_args := []; dd_locs := ["FIELD_DEFINITION"; "SCHEMA"] |};
  {| dd_name := "skip"; dd_args := [arg_ "if" (TNonNull (S_ "Boolean")) None];
     dd_locs := ["FIELD"; "FRAGMENT_SPREAD"; "INLINE_FRAGMENT"] |};
  {| dd_name := "include"; dd_args := [arg_ "if" (TNonNull (S_ "Boolean")) None];
     dd_locs := ["FIELD"; "FRAGMENT_SPREAD"; "INLINE_FRAGMENT"] |}
].

Section Validate.
Variable V : vschema.
Let sch := vs V.

Definition vfind_type (n : string) : option typedef :=
  match find_type sch n with
  | Some d => Some d
  | None => assoc n introspection_types
  end.
Definition has_type (n : string) : bool := match vfind_type n with Some _ => true | None => false end.

Definition is_composite_def (d : typedef) : bool :=
  match d with DObject _ _ | DInterface _ | DUnion _ => true | _ => false end.
Definition is_input_def (d : typedef) : bool :=
  match d with DScalar | DEnum _ | DInput _ => true | _ => false end.

Fixpoint find_dir (ds : list dirdef) (n : string) : option dirdef :=
  match ds with
  | [] => None
  | d :: r => if String.eqb n (dd_name d) then Some d else find_dir r n
  end.
Definition vfind_directive (n : string) : option dirdef := find_dir (vs_dirs V ++ builtin_dirs) n.

(* fields after _inject_introspection_fields: __typename on objects and unions (interfaces have
   no add_field), __schema / __type on the query root *)
Definition typename_field := fld "__typename" (TNonNull (S_ "String")) [].
Definition schema_field := fld "__schema" (TNonNull (S_ "__Schema")) [].
Definition type_field := fld "__type" (S_ "__Type") [arg_ "name" (TNonNull (S_ "String")) None].

Definition vfields_of (tn : string) : option (list field_def) :=
  match vfind_type tn with
  | Some (DObject _ fs) =>
      Some (fs ++ (if String.eqb tn (query_type sch) then [schema_field; type_field] else []) ++ [typename_field])
  | Some (DInterface fs) => Some fs
  | Some (DUnion _) => Some [typename_field]
  | _ => None
  end.

(* find_field(parent_type_name, field_name, schema): None absorbs every lookup failure *)
Definition vfind_field (parent : option string) (name : string) : option field_def :=
  match parent with
  | None => None
  | Some p => match vfields_of p with Some fs => find_field fs name | None => None end
  end.

(* get_schema_field_type_name *)
Definition field_type_name (parent : option string) (name : string) : option string :=
  match vfind_field parent name with Some f => Some (named_of (fd_type f)) | None => None end.

(* find_field_reduced_type: schema.type_definitions[reduce_type(...)] *)
Definition field_reduced_type (parent : option string) (name : string) : option typedef :=
  match field_type_name parent name with Some n => vfind_type n | None => None end.

Definition vpossible (n : string) : list string :=
  match vfind_type n with
  | Some (DObject _ _) => [n]
  | Some (DUnion ms) => ms
  | Some (DInterface _) => implementers sch n
  | _ => []
  end.

Definition inter_nonempty (a b : list string) : bool := existsb (fun x => mem_str x b) a.

(* ---------- errors ---------- *)
Definition verror := (string * option (list pkey) * list loc)%type.
Definition mkerr (tag : string) (path : option (list pkey)) (locs : list loc) : verror := (tag, path, locs).

(* ---------- the shared context ---------- *)
Record arguse := {
  au_arg : string; au_var : string; au_varloc : loc;
  au_where : string; au_isdir : bool; au_path : option (list pkey)
}.
Record scope_info := mk_si {
  si_used : list (string * loc);
  si_args : list arguse;
  si_spreads : list string
}.
#[export] Instance eta_si : Settable _ := settable! mk_si <si_used; si_args; si_spreads>.
Definition empty_si := mk_si [] [] [].

Record vctx := mk_ctx {
  parent_type : option string;
  in_operation : bool;
  cur_op : string;
  cur_frag : string;
  in_directive : bool;
  cur_directive : string;
  cur_field : string;
  in_vardefs : bool;
  per_op : list (string * scope_info);
  per_frag : list (string * scope_info);
  frag_spreads : list (string * loc);
  spreaded_in : list (option string * list (string * loc * option (list pkey)));
  inlined_in : list (option string * list (option string * loc));
  errs : list verror;
  aborted : bool;
  crashed : bool
}.
#[export] Instance eta_ctx : Settable _ := settable! mk_ctx
  <parent_type; in_operation; cur_op; cur_frag; in_directive; cur_directive; cur_field; in_vardefs;
   per_op; per_frag; frag_spreads; spreaded_in; inlined_in; errs; aborted; crashed>.

Definition init_ctx : vctx :=
  mk_ctx None false "" "" false "" "" false [] [] [] [] [] [] false false.

(* Validators.validate: skipped once aborted; an aborting rule with errors sets the flag;
   None = the rule raised *)
Definition emit (rule_aborts : bool) (r : option (list verror)) (st : vctx) : vctx :=
  if aborted st || crashed st then st else
  match r with
  | None => st <| crashed := true |>
  | Some es =>
      let st' := st <| errs ::= fun l => l ++ es |> in
      if rule_aborts && negb (match es with [] => true | _ => false end) then st' <| aborted := true |> else st'
  end.
Definition emit_ok (es : list verror) (st : vctx) : vctx := emit false (Some es) st.

Fixpoint upd_assoc {K A} (eqb : K -> K -> bool) (k : K) (dflt : A) (f : A -> A) (l : list (K * A)) : list (K * A) :=
  match l with
  | [] => [(k, f dflt)]
  | (k', v) :: r => if eqb k k' then (k', f v) :: r else (k', v) :: upd_assoc eqb k dflt f r
  end.
Definition opt_str_eqb (a b : option string) : bool :=
  match a, b with
  | None, None => true
  | Some x, Some y => String.eqb x y
  | _, _ => false
  end.

(* the scope (operation or fragment) the walk is in *)
Definition upd_scope (f : scope_info -> scope_info) (st : vctx) : vctx :=
  if in_operation st
  then st <| per_op ::= upd_assoc String.eqb (cur_op st) empty_si f |>
  else st <| per_frag ::= upd_assoc String.eqb (cur_frag st) empty_si f |>.

Definition opath := option (list pkey).
Definition path_push (p : opath) (k : string) : opath :=
  Some (match p with Some l => l ++ [KName k] | None => [KName k] end).

(* ---------- uniqueness rules (6 of them share this loop) ---------- *)
Fixpoint uniq_groups {A} (name : A -> string) (all l : list A) (tested : list string) : list (list A) :=
  match l with
  | [] => []
  | x :: r =>
      if mem_str (name x) tested then uniq_groups name all r tested
      else
        let same := filter (fun y => String.eqb (name y) (name x)) all in
        if (1 <? List.length same)%nat
        then same :: uniq_groups name all r (name x :: tested)
        else uniq_groups name all r tested
  end.
Definition uniq_errors {A} (tag : string) (name : A -> string) (where_ : A -> loc) (path : opath) (l : list A) : list verror :=
  map (fun g => mkerr tag path (map where_ g)) (uniq_groups name l l []).

(* ---------- values ---------- *)
Definition record_var (n : string) (l : loc) (st : vctx) : vctx :=
  if in_vardefs st then st else upd_scope (fun si => si <| si_used ::= fun u => u ++ [(n, l)] |>) st.

Fixpoint walk_value (path : opath) (v : lit) (st : vctx) {struct v} : vctx :=
  match v with
  | LVar l n => record_var n l st
  | LList _ items =>
      (fix go (xs : list lit) (st : vctx) : vctx :=
         match xs with [] => st | x :: r => go r (walk_value path x st) end) items st
  | LObj _ fields =>
      let st' := (fix go (xs : list (string * lit)) (st : vctx) : vctx :=
         match xs with [] => st | (_, x) :: r => go r (walk_value path x st) end) fields st in
      match fields with
      | [] => st'
      | _ => emit_ok (uniq_errors "input-object-field-uniqueness" fst (fun kv => lit_loc (snd kv)) path fields) st'
      end
  | _ => st
  end.

(* ---------- values-of-correct-type ---------- *)
Definition has_value_attr (v : lit) : bool :=
  match v with LList _ _ | LObj _ _ | LVar _ _ | LNull _ => false | _ => true end.

(* `not isinstance(value_node, EnumValueNode) or value_node.value not in [x.value for x in enum.values]` *)
Definition enum_value_known (v : lit) (values : list string) : option bool :=
  match v with
  | LEnum _ s => Some (mem_str s values)
  | _ => Some false
  end.

Definition VT := "values-of-correct-type".

(* _validate: recursion on the value; the wrappers of the type are peeled by the inner fix.
   Returns None when the rule raises. [errs] is the accumulator of the Python code. *)
Fixpoint vct (path : opath) (argloc : loc) (v : lit) (c : ty) (acc : list verror) {struct v} : option (list verror) :=
  match v with
  | LVar _ _ => Some acc
  | _ =>
    (fix on_ty (c : ty) (acc : list verror) {struct c} : option (list verror) :=
       match c with
       | TNonNull c' =>
           match v with
           | LNull _ => Some (acc ++ [mkerr VT path [argloc]])
           | _ => on_ty c' acc
           end
       | TList c' =>
           match v with
           | LNull _ => Some acc
           | LList _ items =>
               (fix each (xs : list lit) (acc : list verror) : option (list verror) :=
                  match xs with
                  | [] => Some acc
                  | x :: r =>
                      match x with
                      | LVar _ _ => each r acc
                      | _ => match vct path argloc x c' acc with Some acc' => each r acc' | None => None end
                      end
                  end) items acc
           | _ => on_ty c' acc
           end
       | TNamed n =>
           match v with
           | LNull _ => Some acc
           | _ =>
             match vfind_type n with
             | Some DScalar =>
                 match scalars sch n with
                 | Some ops =>
                     match s_literal ops (node_of_lit v) with
                     | Ok PUndef => if has_value_attr v then Some (acc ++ [mkerr VT path [argloc]]) else None
                     | Ok _ => Some acc
                     | Raise _ => None
                     end
                 | None => None
                 end
             | Some (DInput ifs) =>
                 match v with
                 | LObj _ fields =>
                     let missing := flat_map (fun f =>
                        if negb (mem_str (in_name f) (map fst fields)) && is_non_null (in_type f) &&
                           match in_default f with None => true | Some _ => false end
                        then [mkerr VT path [lit_loc v]] else []) ifs in
                     (fix each (xs : list (string * lit)) (acc : list verror) : option (list verror) :=
                        match xs with
                        | [] => Some acc
                        | (fname, fv) :: r =>
                            match find (fun f => String.eqb (in_name f) fname) ifs with
                            | None => each r (acc ++ [mkerr VT path [lit_loc fv]])
                            | Some f =>
                                match vct path argloc fv (in_type f) acc with
                                | Some acc' => each r acc'
                                | None => None
                                end
                            end
                        end) fields (acc ++ missing)
                 | _ => Some (acc ++ [mkerr VT path [lit_loc v]])
                 end
             | Some (DEnum values) =>
                 match enum_value_known v values with
                 | Some true => Some acc
                 | Some false => Some (acc ++ [mkerr VT path [argloc]])
                 | None => None
                 end
             | Some _ => Some acc
             | None => None                    (* schema.find_type -> KeyError *)
             end
           end
       end) c acc
  end.

Definition vct_arguments (path : opath) (defs : option (list input_def)) (args : list argument) : option (list verror) :=
  match defs with
  | None => Some []
  | Some ds =>
      (fix each (xs : list argument) (acc : list verror) : option (list verror) :=
         match xs with
         | [] => Some acc
         | a :: r =>
             match find (fun d => String.eqb (in_name d) (a_name a)) ds with
             | None => each r acc
             | Some d => match vct path (a_loc a) (a_value a) (in_type d) acc with
                         | Some acc' => each r acc'
                         | None => None
                         end
             end
         end) args []
  end.

(* ---------- argument-names / required-arguments ---------- *)
Definition argument_names_errors (path : opath) (defs : option (list input_def)) (args : list argument) : list verror :=
  match defs with
  | None => []
  | Some ds => flat_map (fun a => if existsb (fun d => String.eqb (in_name d) (a_name a)) ds then []
                                  else [mkerr "argument-names" path [a_loc a]]) args
  end.

Definition required_arguments_errors (path : opath) (defs : option (list input_def)) (node_loc : loc)
           (args : list argument) : list verror :=
  match defs with
  | None => []
  | Some ds => flat_map (fun d =>
      if is_non_null (in_type d) && match in_default d with None => true | Some _ => false end &&
         negb (existsb (fun a => String.eqb (a_name a) (in_name d)) args)
      then [mkerr "required-arguments" path [node_loc]] else []) ds
  end.

(* ---------- arguments, directives ---------- *)
Definition walk_argument (path : opath) (a : argument) (st : vctx) : vctx :=
  let st := walk_value path (a_value a) st in
  match a_value a with
  | LVar l vn =>
      let u := {| au_arg := a_name a; au_var := vn; au_varloc := l;
                  au_where := if in_directive st then cur_directive st else cur_field st;
                  au_isdir := in_directive st; au_path := path |} in
      upd_scope (fun si => si <| si_args ::= fun x => x ++ [u] |>) st
  | _ => st
  end.

Definition walk_arguments (path : opath) (args : list argument) (st : vctx) : vctx :=
  match args with
  | [] => st
  | _ =>
      let st := fold_left (fun st a => walk_argument path a st) args st in
      emit_ok (uniq_errors "argument-uniqueness" a_name a_loc path args) st
  end.

Definition dir_args (d : directive) : list argument :=
  map (fun kv => {| a_name := fst kv; a_value := snd kv; a_loc := lit_loc (snd kv) |}) (d_args d).

Definition walk_directive (path : opath) (d : directive) (st : vctx) : vctx :=
  let st := st <| in_directive := true |> <| cur_directive := d_name d |> in
  let st := walk_arguments path (dir_args d) st in
  let st := st <| in_directive := false |> in
  let defs := match vfind_directive (d_name d) with Some dd => Some (dd_args dd) | None => None end in
  let st := emit false (vct_arguments path defs (dir_args d)) st in
  let st := emit_ok (argument_names_errors path defs (dir_args d)) st in
  let st := emit_ok (required_arguments_errors path defs (d_loc d) (dir_args d)) st in
  emit_ok (match defs with None => [mkerr "directives-are-defined" path [d_loc d]] | Some _ => [] end) st.

Definition walk_directives (path : opath) (ds : list directive) (st : vctx) : vctx :=
  match ds with
  | [] => st
  | _ =>
      let st := fold_left (fun st d => walk_directive path d st) ds st in
      emit_ok (uniq_errors "directives-are-unique-per-location" d_name d_loc path ds) st
  end.

Definition valid_locations_errors (path : opath) (where_ : string) (node_loc : loc) (ds : list directive) : list verror :=
  flat_map (fun d => match vfind_directive (d_name d) with
                     | None => []
                     | Some dd => if mem_str where_ (dd_locs dd) then []
                                  else [mkerr "directives-are-in-valid-locations" path [node_loc; d_loc d]]
                     end) ds.

Definition show_opt (o : option string) : string := match o with Some s => s | None => "None" end.

(* ---------- selections ---------- *)
Definition field_rules (path : opath) (l : loc) (name : string) (args : list argument) (dirs : list directive)
           (has_sels : bool) (st : vctx) : vctx :=
  let parent := parent_type st in
  let st := emit_ok (valid_locations_errors path "FIELD" l dirs) st in
  let rt := field_reduced_type parent name in
  let st := emit_ok (if String.eqb name "__typename" then [] else
                     match rt with None => [mkerr "field-selections-on-objects-interfaces-and-unions-types" path [l]]
                                 | Some _ => [] end) st in
  let st := emit_ok (match rt with
                     | None => []
                     | Some d => if negb has_sels && is_composite_def d then [mkerr "leaf-field-selections" path [l]]
                                 else if has_sels && negb (is_composite_def d) then [mkerr "leaf-field-selections" path [l]]
                                 else []
                     end) st in
  let defs := match vfind_field parent name with Some f => Some (fd_args f) | None => None end in
  let st := emit false (vct_arguments path defs args) st in
  let st := emit_ok (argument_names_errors path defs args) st in
  emit_ok (required_arguments_errors path defs l args) st.

Fixpoint walk_selection (path : opath) (s : selection) (st : vctx) {struct s} : vctx :=
  match s with
  | SField l alias name args dirs sels =>
      let path' := path_push path name in
      let saved := parent_type st in
      let st := st <| parent_type := field_type_name saved name |> <| in_directive := false |>
                   <| cur_field := (show_opt saved ++ "." ++ name)%string |> in
      let st := walk_arguments path' args st in
      let st := walk_directives path' dirs st in
      let st := (fix go (xs : list selection) (st : vctx) : vctx :=
                   match xs with [] => st | x :: r => go r (walk_selection path' x st) end) sels st in
      let st := st <| parent_type := saved |> in
      field_rules path' l name args dirs (match sels with [] => false | _ => true end) st
  | SSpread l name dirs =>
      let st := walk_directives path dirs st in
      let st := emit_ok (valid_locations_errors path "FRAGMENT_SPREAD" l dirs) st in
      let st := st <| frag_spreads ::= fun x => x ++ [(name, l)] |>
                   <| spreaded_in ::= upd_assoc opt_str_eqb (parent_type st) [] (fun x => x ++ [(name, l, path)]) |> in
      upd_scope (fun si => si <| si_spreads ::= fun x => x ++ [name] |>) st
  | SInline l tc dirs sels =>
      let saved := parent_type st in
      let st := match tc with Some t => st <| parent_type := Some t |> | None => st end in
      let st := walk_directives path dirs st in
      let st := (fix go (xs : list selection) (st : vctx) : vctx :=
                   match xs with [] => st | x :: r => go r (walk_selection path x st) end) sels st in
      let st := emit_ok (valid_locations_errors path "INLINE_FRAGMENT" l dirs) st in
      let st := emit_ok (match tc with
                         | Some t => if has_type t then [] else [mkerr "fragment-spread-type-existence" path [l]]
                         | None => [] end) st in
      let st := emit_ok (match tc with
                         | Some t => match vfind_type t with
                                     | Some d => if is_composite_def d then [] else [mkerr "fragments-on-composite-types" path [l]]
                                     | None => [] end
                         | None => [] end) st in
      let st := st <| inlined_in ::= upd_assoc opt_str_eqb saved [] (fun x => x ++ [(tc, l)]) |> in
      st <| parent_type := saved |>
  end.

Definition walk_selections (path : opath) (sels : list selection) (st : vctx) : vctx :=
  fold_left (fun st s => walk_selection path s st) sels st.

(* ---------- definitions ---------- *)
Definition walk_fragment (fr : fragment) (st : vctx) : vctx :=
  let saved := parent_type st in
  let st := st <| parent_type := Some (fr_type fr) |> <| in_operation := false |> <| cur_frag := fr_name fr |>
               <| per_frag ::= upd_assoc String.eqb (fr_name fr) empty_si (fun x => x) |> in
  let st := walk_directives None (fr_dirs fr) st in
  let st := walk_selections None (fr_sels fr) st in
  let st := emit_ok (valid_locations_errors None "FRAGMENT_DEFINITION" (fr_loc fr) (fr_dirs fr)) st in
  let st := emit_ok (if has_type (fr_type fr) then [] else [mkerr "fragment-spread-type-existence" None [fr_loc fr]]) st in
  let st := emit_ok (match vfind_type (fr_type fr) with
                     | Some d => if is_composite_def d then [] else [mkerr "fragments-on-composite-types" None [fr_loc fr]]
                     | None => [] end) st in
  st <| parent_type := saved |>.

Definition walk_vardef (vd : var_def) (st : vctx) : vctx :=
  let st := match v_default vd with Some d => walk_value None d st | None => st end in
  emit_ok (match vfind_type (named_of (v_type vd)) with
           | Some d => if is_input_def d then [] else [mkerr "variables-are-input-types" None [v_loc vd]]
           | None => [] end) st.

Definition walk_vardefs (vds : list var_def) (st : vctx) : vctx :=
  match vds with
  | [] => st
  | _ =>
      let st := st <| in_vardefs := true |> in
      let st := fold_left (fun st vd => walk_vardef vd st) vds st in
      let st := st <| in_vardefs := false |> in
      emit_ok (uniq_errors "variable-uniqueness" v_name v_loc None vds) st
  end.

Definition op_root (k : op_kind) : option string :=
  match k with
  | OpQuery => Some (query_type sch)
  | OpMutation => mutation_type sch
  | OpSubscription => subscription_type sch
  end.
Definition op_loc_name (k : op_kind) : string :=
  match k with OpQuery => "QUERY" | OpMutation => "MUTATION" | OpSubscription => "SUBSCRIPTION" end.
Definition op_key (o : operation) : string := match o_name o with Some n => n | None => "None" end.

Definition walk_operation (o : operation) (st : vctx) : vctx :=
  let st := st <| parent_type := op_root (o_kind o) |> <| in_operation := true |> <| cur_op := op_key o |>
               <| per_op ::= upd_assoc String.eqb (op_key o) empty_si (fun x => x) |> in
  let st := walk_vardefs (o_vars o) st in
  let st := walk_directives None (o_dirs o) st in
  let st := walk_selections None (o_sels o) st in
  emit_ok (valid_locations_errors None (op_loc_name (o_kind o)) (o_loc o) (o_dirs o)) st.

(* ---------- document-level rules ---------- *)
(* _collect_spreads: every spread name below a selection set, fields and inline fragments included *)
Fixpoint spreads_of_sel (s : selection) : list string :=
  match s with
  | SSpread _ n _ => [n]
  | SField _ _ _ _ _ sels | SInline _ _ _ sels =>
      (fix go (xs : list selection) : list string :=
         match xs with [] => [] | x :: r => spreads_of_sel x ++ go r end) sels
  end.
Definition spreads_of (sels : list selection) : list string := flat_map spreads_of_sel sels.

(* FragmentSpreadsMustNotFormCycles._validate_fragment: DFS with the current spread path and the
   set of fragments already checked.  inl checked' | inr tt = CycleException.  Fuel is spent per
   fragment entered; None = out of fuel (not reachable with fuel > number of fragments). *)
Fixpoint cyc_each (rec : fragment -> list string -> option (list string + unit)) (frs : list fragment)
         (path' : list string) (self : string) (names : list string) (checked : list string)
  : option (list string + unit) :=
  match names with
  | [] => Some (inl (self :: checked))
  | n :: r =>
      if mem_str n path' then Some (inr tt) else
      match find_fragment frs n with
      | None => cyc_each rec frs path' self r checked
      | Some f =>
          match rec f checked with
          | Some (inl checked') => cyc_each rec frs path' self r checked'
          | other => other
          end
      end
  end.

Fixpoint cyc_fragment (fuel : nat) (frs : list fragment) (fr : fragment) (path : list string)
         (checked : list string) {struct fuel} : option (list string + unit) :=
  match fuel with
  | O => None
  | S fuel' =>
      if mem_str (fr_name fr) checked then Some (inl checked) else
      let path' := path ++ [fr_name fr] in
      cyc_each (fun f c => cyc_fragment fuel' frs f path' c) frs path' (fr_name fr)
               (spreads_of (fr_sels fr)) checked
  end.

Fixpoint cyc_all (fuel : nat) (frs todo : list fragment) (checked : list string) : option bool :=
  match todo with
  | [] => Some false
  | fr :: r =>
      match cyc_fragment fuel frs fr [] checked with
      | Some (inl checked') => cyc_all fuel frs r checked'
      | Some (inr _) => Some true
      | None => None
      end
  end.

Definition cycle_rule (frs : list fragment) : option (list verror) :=
  match cyc_all (S (List.length frs)) frs frs [] with
  | Some true => Some [mkerr "fragment-spreads-must-not-form-cycles" None (map fr_loc frs)]
  | Some false => Some []
  | None => None
  end.

Definition operation_name_errors (ops : list operation) : list verror :=
  uniq_errors "operation-name-uniqueness" op_key o_loc None
              (filter (fun o => match o_name o with Some _ => true | None => false end) ops).

Definition lone_anonymous_errors (ops : list operation) : list verror :=
  if (1 <? List.length ops)%nat then
    match filter (fun o => match o_name o with None => true | Some _ => false end) ops with
    | [] => []
    | bad => [mkerr "lone-anonymous-operation" None (map o_loc bad)]
    end
  else [].

(* SingleRootField._collect_response_keys: response keys of the root selection set, through inline
   fragments and (each at most once) named fragments; every subscription operation is checked *)
Fixpoint sels_depth (s : selection) : nat :=
  match s with
  | SField _ _ _ _ _ _ | SSpread _ _ _ => 1%nat
  | SInline _ _ _ sub => S ((fix go (xs : list selection) : nat :=
                               match xs with [] => O | x :: r => Nat.max (sels_depth x) (go r) end) sub)
  end.
Definition sels_depth_l (sels : list selection) : nat := fold_left (fun a s => Nat.max a (sels_depth s)) sels O.

Fixpoint response_keys (fuel : nat) (frs : list fragment) (sels : list selection)
         (visited keys : list string) {struct fuel} : option (list string * list string) :=
  match fuel with
  | O => None
  | S fuel' =>
      (fix go (xs : list selection) (visited keys : list string) : option (list string * list string) :=
         match xs with
         | [] => Some (visited, keys)
         | SSpread _ n _ :: r =>
             if mem_str n visited then go r visited keys else
             match find_fragment frs n with
             | None => go r (n :: visited) keys
             | Some f => match response_keys fuel' frs (fr_sels f) (n :: visited) keys with
                         | Some (v', k') => go r v' k'
                         | None => None
                         end
             end
         | SInline _ _ _ sub :: r =>
             match response_keys fuel' frs sub visited keys with
             | Some (v', k') => go r v' k'
             | None => None
             end
         | SField _ alias name _ _ _ :: r =>
             let k := match alias with Some a => a | None => name end in
             go r visited (if mem_str k keys then keys else k :: keys)
         end) sels visited keys
  end.

Definition single_root_fuel (doc : document) : nat :=
  (S (S (List.length (fragments doc))) +
   fold_left (fun a f => a + sels_depth_l (fr_sels f)) (fragments doc) O +
   fold_left (fun a o => a + sels_depth_l (o_sels o)) (operations doc) O)%nat.

Fixpoint single_root_sels (fuel : nat) (doc : document) (oloc : loc) (sels : list selection) : option (list verror) :=
  match fuel with
  | O => None
  | S fuel' =>
      match sels with
      | [] => Some []
      | [SSpread _ n _] =>
          match find_fragment (fragments doc) n with
          | None => Some []
          | Some f => single_root_sels fuel' doc oloc (fr_sels f)
          end
      | [SInline _ _ _ sub] => single_root_sels fuel' doc oloc sub
      | [_] => Some []
      | _ =>
          match response_keys (single_root_fuel doc) (fragments doc) sels [] [] with
          | Some (_, keys) => Some (if (1 <? List.length keys)%nat then [mkerr "single-root-field" None [oloc]] else [])
          | None => None
          end
      end
  end.

Definition single_root_rule (doc : document) : option (list verror) :=
  fold_left (fun acc o =>
    match acc, o_kind o with
    | Some es, OpSubscription =>
        match single_root_sels (single_root_fuel doc) doc (o_loc o) (o_sels o) with
        | Some es' => Some (es ++ es')
        | None => None
        end
    | _, _ => acc
    end) (operations doc) (Some []).

Definition fragment_name_errors (frs : list fragment) : list verror :=
  uniq_errors "fragment-name-uniqueness" fr_name fr_loc None frs.

Fixpoint group_by_name {A} (l : list (string * A)) (acc : list (string * list A)) : list (string * list A) :=
  match l with
  | [] => acc
  | (k, v) :: r => group_by_name r (upd_assoc String.eqb k [] (fun x => x ++ [v]) acc)
  end.

Definition spread_target_errors (frs : list fragment) (spreads : list (string * loc)) : list verror :=
  map (fun g => mkerr "fragment-spread-target-defined" None (snd g))
      (group_by_name (filter (fun s => match find_fragment frs (fst s) with None => true | Some _ => false end) spreads) []).

Definition must_be_used_errors (frs : list fragment) (spreads : list (string * loc)) : list verror :=
  flat_map (fun f => if existsb (fun s => String.eqb (fst s) (fr_name f)) spreads then []
                     else [mkerr "fragment-must-be-used" None [fr_loc f]]) frs.

(* _validate_node *)
Definition node_possible (tc : option string) (possible : list string) : bool :=
  match tc with
  | None => true
  | Some t =>
      match vfind_type t with
      | Some d => if is_composite_def d then inter_nonempty (vpossible t) possible else true
      | None => true
      end
  end.

Definition composite_possible (tn : option string) : option (list string) :=
  match tn with
  | None => None
  | Some t => match vfind_type t with
              | Some d => if is_composite_def d then Some (vpossible t) else None
              | None => None
              end
  end.

Definition inline_possible_errors (inl_in : list (option string * list (option string * loc))) : list verror :=
  flat_map (fun e =>
    match composite_possible (fst e) with
    | None => []
    | Some ps => flat_map (fun n => if node_possible (fst n) ps then []
                                    else [mkerr "fragment-spread-is-possible" None [snd n]]) (snd e)
    end) inl_in.

(* spreads: the list of found fragments is indexed against the unfiltered list of spreads *)
Definition spread_possible_errors (frs : list fragment)
           (spr_in : list (option string * list (string * loc * option (list pkey)))) : list verror :=
  flat_map (fun e =>
    match composite_possible (fst e) with
    | None => []
    | Some ps =>
        let found := flat_map (fun s => match find_fragment frs (fst (fst s)) with Some f => [f] | None => [] end) (snd e) in
        flat_map (fun fs => let '(f, s) := fs in
                            if node_possible (Some (fr_type f)) ps then []
                            else [mkerr "fragment-spread-is-possible" (snd s) [snd (fst s)]])
                 (combine found (snd e))
    end) spr_in.

(* get_used_vars / _find_var_usage_in_spread: no visited set; nested spreads first *)
Definition scope_of (l : list (string * scope_info)) (k : string) : scope_info :=
  match assoc k l with Some s => s | None => empty_si end.

Fixpoint via_spreads {A} (fuel : nat) (pf : list (string * scope_info)) (get : scope_info -> list A)
         (spreads : list string) : option (list A) :=
  match fuel with
  | O => None
  | S fuel' =>
      (fix each (xs : list string) (acc : list A) : option (list A) :=
         match xs with
         | [] => Some acc
         | n :: r =>
             match via_spreads fuel' pf get (si_spreads (scope_of pf n)) with
             | Some nested => each r (acc ++ nested ++ get (scope_of pf n))
             | None => None
             end
         end) spreads []
  end.

Definition scope_collect {A} (st : vctx) (get : scope_info -> list A) (o : operation) : option (list A) :=
  let si := scope_of (per_op st) (op_key o) in
  match via_spreads (S (S (List.length (per_frag st)))) (per_frag st) get (si_spreads si) with
  | Some l => Some (get si ++ l)
  | None => None
  end.

Fixpoint group_vars (l : list (string * loc)) (acc : list (string * list loc)) : list (string * list loc) :=
  match l with
  | [] => acc
  | (k, v) :: r => group_vars r (upd_assoc String.eqb k [] (fun x => x ++ [v]) acc)
  end.

Definition uses_defined_rule (st : vctx) (ops : list operation) : option (list verror) :=
  fold_left (fun acc o =>
    match acc, scope_collect st si_used o with
    | Some es, Some used =>
        let undefined := filter (fun u => negb (existsb (fun vd => String.eqb (v_name vd) (fst u)) (o_vars o))) used in
        Some (es ++ map (fun g => mkerr "all-variable-uses-defined" None (o_loc o :: snd g)) (group_vars undefined []))
    | _, _ => None
    end) ops (Some []).

Definition variables_used_rule (st : vctx) (ops : list operation) : option (list verror) :=
  fold_left (fun acc o =>
    match acc, scope_collect st si_used o with
    | Some es, Some used =>
        let unused := filter (fun vd => negb (existsb (fun u => String.eqb (fst u) (v_name vd)) used)) (o_vars o) in
        Some (es ++ map (fun g => mkerr "all-variables-used" None (o_loc o :: snd g))
                        (group_vars (map (fun vd => (v_name vd, v_loc vd)) unused) []))
    | _, _ => None
    end) ops (Some []).

(* _validate_type_compatibility(var_type, schema_type) *)
Fixpoint type_compat (var_type schema_type : ty) {struct schema_type} : bool :=
  match schema_type with
  | TNonNull s' => match var_type with TNonNull v' => type_compat v' s' | _ => false end
  | TList s' =>
      (fix strip (v : ty) : bool :=
         match v with
         | TNonNull v' => strip v'
         | TList v' => type_compat v' s'
         | TNamed _ => false
         end) var_type
  | TNamed n =>
      (fix strip (v : ty) : bool :=
         match v with
         | TNonNull v' => strip v'
         | TList _ => false
         | TNamed m => String.eqb m n
         end) var_type
  end.

Definition usage_ok (arg : input_def) (vd : var_def) : bool :=
  match in_type arg with
  | TNonNull inner =>
      if is_non_null (v_type vd) then type_compat (v_type vd) (in_type arg)
      else
        let var_has_default := match v_default vd with None | Some (LNull _) => false | Some _ => true end in
        let arg_has_default := match in_default arg with Some _ => true | None => false end in
        if negb var_has_default && negb arg_has_default then false
        else type_compat (v_type vd) inner
  | _ => type_compat (v_type vd) (in_type arg)
  end.

Definition split_dot (s : string) : option (string * string) :=
  let i := index 0 "." s in
  match i with
  | Some k => Some (substring 0 k s, substring (S k) (String.length s - S k) s)
  | None => None
  end.

Definition schema_argument (u : arguse) : option input_def :=
  let defs :=
    if au_isdir u then match vfind_directive (au_where u) with Some dd => Some (dd_args dd) | None => None end
    else match split_dot (au_where u) with
         | Some (p, f) => match vfind_field (Some p) f with Some fd => Some (fd_args fd) | None => None end
         | None => None
         end in
  match defs with
  | Some ds => find (fun d => String.eqb (in_name d) (au_arg u)) ds
  | None => None
  end.

Definition usages_allowed_rule (st : vctx) (ops : list operation) : option (list verror) :=
  fold_left (fun acc o =>
    match acc, scope_collect st si_args o with
    | Some es, Some uses =>
        Some (es ++ flat_map (fun u =>
          match schema_argument u, find (fun vd => String.eqb (v_name vd) (au_var u)) (o_vars o) with
          | Some a, Some vd => if usage_ok a vd then []
                               else [mkerr "all-variable-usages-are-allowed" (au_path u) [v_loc vd; au_varloc u]]
          | _, _ => []
          end) uses)
    | _, _ => None
    end) ops (Some []).

(* ---------- the whole walk: _parse_definitions + document_from_ast_json ---------- *)
Definition validate_ctx (doc : document) : vctx :=
  let st := fold_left (fun st o => walk_operation o st) (operations doc) init_ctx in
  let st := fold_left (fun st f => walk_fragment f st) (fragments doc) st in
  let frs := fragments doc in
  let ops := operations doc in
  let st := emit true (cycle_rule frs) st in
  let st := emit_ok (operation_name_errors ops) st in
  let st := emit_ok (lone_anonymous_errors ops) st in
  let st := emit false (single_root_rule doc) st in
  let st := emit_ok (fragment_name_errors frs) st in
  let st := emit_ok (spread_target_errors frs (frag_spreads st)) st in
  let st := emit_ok (must_be_used_errors frs (frag_spreads st)) st in
  let st := emit_ok (inline_possible_errors (inlined_in st) ++ spread_possible_errors frs (spreaded_in st)) st in
  let st := emit false (uses_defined_rule st ops) st in
  let st := emit false (variables_used_rule st ops) st in
  emit false (usages_allowed_rule st ops) st.

Inductive vresult := VCrash | VErrors (es : list verror).

Definition impl_validate (doc : document) : vresult :=
  let st := validate_ctx doc in
  if crashed st then VCrash else VErrors (errs st).

(* parse_and_validate_query: the document is handed to execution only when there is no error *)
Definition accepted (doc : document) : bool :=
  match impl_validate doc with VErrors [] => true | _ => false end.

End Validate.

(* ---------- the walk's rule invocations, by transformer function, in source order; and RULE_SET
   with the abort flags.  Proofs/Wiring.v checks them against the lists harness/wiring.py extracts
   from the current source on every run. ---------- *)
Definition model_call_sites : list (string * string) := [
  ("_parse_object_fields", "input-object-field-uniqueness");
  ("_parse_arguments", "argument-uniqueness");
  ("_parse_directive", "values-of-correct-type"); ("_parse_directive", "argument-names");
  ("_parse_directive", "required-arguments"); ("_parse_directive", "directives-are-defined");
  ("_parse_directives", "directives-are-unique-per-location");
  ("_parse_field", "directives-are-in-valid-locations");
  ("_parse_field", "field-selections-on-objects-interfaces-and-unions-types");
  ("_parse_field", "leaf-field-selections"); ("_parse_field", "values-of-correct-type");
  ("_parse_field", "argument-names"); ("_parse_field", "required-arguments");
  ("_parse_fragment_spread", "directives-are-in-valid-locations");
  ("_parse_inline_fragment", "directives-are-in-valid-locations");
  ("_parse_inline_fragment", "fragment-spread-type-existence");
  ("_parse_inline_fragment", "fragments-on-composite-types");
  ("_parse_fragment_definition", "directives-are-in-valid-locations");
  ("_parse_fragment_definition", "fragment-spread-type-existence");
  ("_parse_fragment_definition", "fragments-on-composite-types");
  ("_parse_variable_definition", "variables-are-input-types");
  ("_parse_variable_definitions", "variable-uniqueness");
  ("_parse_operation_definition", "directives-are-in-valid-locations");
  ("_parse_definitions", "fragment-spreads-must-not-form-cycles");
  ("_parse_definitions", "operation-name-uniqueness"); ("_parse_definitions", "lone-anonymous-operation");
  ("_parse_definitions", "single-root-field"); ("_parse_definitions", "fragment-name-uniqueness");
  ("_parse_definitions", "fragment-spread-target-defined"); ("_parse_definitions", "fragment-must-be-used");
  ("_parse_definitions", "fragment-spread-is-possible"); ("_parse_definitions", "all-variable-uses-defined");
  ("_parse_definitions", "all-variables-used"); ("_parse_definitions", "all-variable-usages-are-allowed");
  ("document_from_ast_json", "executable-definitions")].

Definition model_aborting_rules : list string := ["fragment-spreads-must-not-form-cycles"].

Definition supported_rules : list string := [
  "executable-definitions"; "operation-name-uniqueness"; "lone-anonymous-operation"; "single-root-field";
  "field-selections-on-objects-interfaces-and-unions-types"; "leaf-field-selections"; "argument-names";
  "argument-uniqueness"; "required-arguments"; "fragment-name-uniqueness"; "fragment-spread-type-existence";
  "fragments-on-composite-types"; "fragment-must-be-used"; "fragment-spread-target-defined";
  "fragment-spreads-must-not-form-cycles"; "fragment-spread-is-possible"; "values-of-correct-type";
  "input-object-field-uniqueness"; "directives-are-defined"; "directives-are-in-valid-locations";
  "directives-are-unique-per-location"; "variable-uniqueness"; "variables-are-input-types";
  "all-variable-uses-defined"; "all-variables-used"; "all-variable-usages-are-allowed"].
