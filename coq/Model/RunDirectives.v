(* Evaluation entry points of the directive-hook check (C13). *)
From Coq Require Import ZArith List String Bool.
From TV Require Import Py.Prelude Model.Schema Model.Directives.
Import ListNotations.
Open Scope string_scope.
Open Scope list_scope.

Fixpoint tval_eqb (a b : tval) {struct a} : bool :=
  match a, b with
  | TLeaf x, TLeaf y => String.eqb x y
  | TNull, TNull => true
  | TObj xs, TObj ys =>
      (* key order is not observable (the engine builds the dict in schema order) *)
      (List.length xs =? List.length ys)%nat &&
      (fix go (l : list (string * tval)) : bool :=
         match l with
         | [] => true
         | (k, x) :: l' =>
             (fix find (m : list (string * tval)) : bool :=
                match m with
                | [] => false
                | (k', y) :: m' => (String.eqb k k' && tval_eqb x y) || find m'
                end) ys && go l'
         end) xs
  | TLst xs, TLst ys =>
      (fix go (l m : list tval) : bool :=
         match l, m with
         | [], [] => true
         | x :: l', y :: m' => tval_eqb x y && go l' m'
         | _, _ => false
         end) xs ys
  | _, _ => false
  end.

(* variables: name, declared (annotated) type, raw JSON value *)
Definition decl := (string * ity * tval)%type.
Definition vars_of (decls : list decl) : string -> tval :=
  fun n => match find (fun d => String.eqb (fst (fst d)) n) decls with
           | Some (_, t, raw) => input_coerce t raw
           | None => TNull
           end.

Definition arg_agree (decls : list decl) (arg_dirs : list dinst) (t : ity) (q : tlit) (obs : tval) : bool :=
  tval_eqb (argument_value (vars_of decls) arg_dirs t q) obs.

Definition out_agree (query_dirs schema_dirs type_dirs : list dinst) (resolved obs : tval) : bool :=
  tval_eqb (field_result query_dirs schema_dirs type_dirs resolved) obs.

(* which hook instances run (name, argument), once per value they govern *)
Definition uses (ds : list dinst) (h : string) : list (string * Z) :=
  map (fun d => (di_name d, di_arg d)) (filter (has_hook h) ds).

Fixpoint input_uses (t : ity) (raw : tval) {struct raw} : list (string * Z) :=
  match raw with
  | TNull => []
  | TLeaf _ => match t with IScalar ds => uses ds POST_INPUT | _ => [] end
  | TObj kvs =>
      match t with
      | IObj ds fields =>
          (fix go (l : list (string * tval)) : list (string * Z) :=
             match l with
             | [] => []
             | (k, x) :: r => match assoc3 k fields with
                              | Some (fds, ft) => input_uses ft x ++ uses fds POST_INPUT
                              | None => [] end ++ go r
             end) kvs ++ uses ds POST_INPUT
      | _ => []
      end
  | TLst xs =>
      match t with
      | IList it => (fix go (l : list tval) : list (string * Z) :=
                       match l with [] => [] | x :: r => input_uses it x ++ go r end) xs
      | _ => []
      end
  end.

Fixpoint literal_uses (t : ity) (q : tlit) {struct q} : list (string * Z) :=
  match q with
  | QVar _ | QNull => []
  | QLeaf _ => match t with IScalar ds => uses ds POST_INPUT | _ => [] end
  | QObj kvs =>
      match t with
      | IObj ds fields =>
          (fix go (l : list (string * tlit)) : list (string * Z) :=
             match l with
             | [] => []
             | (k, x) :: r => match assoc3 k fields with
                              | Some (fds, ft) => literal_uses ft x ++ uses fds POST_INPUT
                              | None => [] end ++ go r
             end) kvs ++ uses ds POST_INPUT
      | _ => []
      end
  | QLst xs =>
      match t with
      | IList it => (fix go (l : list tlit) : list (string * Z) :=
                       match l with [] => [] | x :: r => literal_uses it x ++ go r end) xs
      | _ => []
      end
  end.

Definition use_eqb (a b : string * Z) : bool := String.eqb (fst a) (fst b) && (snd a =? snd b)%Z.
Fixpoint remove_one (x : string * Z) (l : list (string * Z)) : option (list (string * Z)) :=
  match l with
  | [] => None
  | y :: r => if use_eqb x y then Some r else match remove_one x r with Some r' => Some (y :: r') | None => None end
  end.
Fixpoint multiset_eqb (a b : list (string * Z)) : bool :=
  match a with
  | [] => match b with [] => true | _ => false end
  | x :: a' => match remove_one x b with Some b' => multiset_eqb a' b' | None => false end
  end.

(* the post-input-coercion hook invocations of one request: variables once each, then the literal
   parts of every argument *)
Definition input_hook_log_agree (decls : list decl) (args : list (ity * tlit)) (obs : list (string * Z)) : bool :=
  multiset_eqb (flat_map (fun d => input_uses (snd (fst d)) (snd d)) decls ++
                flat_map (fun a => literal_uses (fst a) (snd a)) args) obs.
