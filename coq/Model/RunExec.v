(* Table-driven user code and observation comparison for the execution correspondence. *)
From Coq Require Import ZArith List String Bool.
From TV Require Import Py.Prelude Model.Schema Model.ImplInput Model.ImplExec Model.RunInput Model.RunArgs.
Import ListNotations.
Open Scope string_scope.
Open Scope list_scope.

Fixpoint mem_pair (a b : string) (l : list (string * string)) : bool :=
  match l with
  | [] => false
  | (x, y) :: l' => (String.eqb a x && String.eqb b y) || mem_pair a b l'
  end.

Fixpoint rlookup (p : list pkey) (t f : string) (tab : list (list pkey * string * string * uret)) : uret :=
  match tab with
  | [] => URaise "NO-ORACLE-ENTRY" false false
  | (p', t', f', r) :: tab' =>
      if path_eqb p p' && String.eqb t t' && String.eqb f f' then r else rlookup p t f tab'
  end.
(* type resolvers receive the field's info (path without list indices): keyed by value *)
Fixpoint tlookup (a : string) (v : pyval) (tab : list (string * pyval * uret)) : uret :=
  match tab with
  | [] => URaise "NO-ORACLE-ENTRY" false false
  | (a', v', r) :: tab' => if String.eqb a a' && pyval_eqb v v' then r else tlookup a v tab'
  end.

Definition table_usercode (resolvers : list (string * string)) (type_resolvers : list string)
           (field_trs : list (string * string))
           (rtab : list (list pkey * string * string * uret))
           (ttab : list (string * pyval * uret)) : usercode :=
  {| has_resolver := fun t f => mem_pair t f resolvers;
     resolver := fun p t f _ _ => rlookup p t f rtab;
     type_resolver_kind := fun a t f =>
       if mem_pair t f field_trs || mem_str a type_resolvers then TRCustom else TRDefault;
     type_resolver := fun _ a v => tlookup a v ttab |}.

Definition opt_path_eqb (a b : option (list pkey)) : bool :=
  match a, b with
  | None, None => true
  | Some x, Some y => path_eqb x y
  | _, _ => false
  end.

Definition emsg_eqb (a b : emsg) : bool :=
  match a, b with
  | MUser x, MUser y => String.eqb x y
  | MEngine _, MEngine _ => true
  | _, _ => false
  end.

Definition gerr_eqb (a b : gerr) : bool :=
  opt_path_eqb (g_path a) (g_path b) && locs_eqb (g_locs a) (g_locs b) &&
  emsg_eqb (g_msg a) (g_msg b) && Bool.eqb (g_ext a) (g_ext b).

Definition call_eqb (a b : call) : bool :=
  match a, b with
  | CResolver p t f s ar, CResolver p' t' f' s' ar' =>
      path_eqb p p' && String.eqb t t' && String.eqb f f' && pyval_eqb s s' && kv_eqb ar ar'
  | CTypeResolver p a v, CTypeResolver p' a' v' =>
      path_eqb p p' && String.eqb a a' && pyval_eqb v v'
  | _, _ => false
  end.

(* multiset equality by removal *)
Fixpoint remove_first {A} (eqb : A -> A -> bool) (x : A) (l : list A) : option (list A) :=
  match l with
  | [] => None
  | y :: l' => if eqb x y then Some l'
               else match remove_first eqb x l' with Some r => Some (y :: r) | None => None end
  end.
Fixpoint perm_eqb {A} (eqb : A -> A -> bool) (a b : list A) : bool :=
  match a with
  | [] => match b with [] => true | _ => false end
  | x :: a' => match remove_first eqb x b with Some b' => perm_eqb eqb a' b' | None => false end
  end.

Definition resp_agree (m : outcome response) (obs : response) : bool :=
  match m with
  | OVal r => pyval_eqb (r_data r) (r_data obs) &&
              perm_eqb gerr_eqb (r_errors r) (r_errors obs) &&
              perm_eqb call_eqb (r_log r) (r_log obs)
  | _ => false
  end.

(* which component differs (for the report): 1 data, 2 errors, 4 log, 8 crash *)
Definition resp_diff (m : outcome response) (obs : response) : Z :=
  match m with
  | OVal r => (if pyval_eqb (r_data r) (r_data obs) then 0 else 1) +
              (if perm_eqb gerr_eqb (r_errors r) (r_errors obs) then 0 else 2) +
              (if perm_eqb call_eqb (r_log r) (r_log obs) then 0 else 4)
  | _ => 8
  end%Z.
