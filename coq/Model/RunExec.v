(* Table-driven user code and observation comparison for the execution correspondence. *)
From Coq Require Import ZArith List String Bool.
From TV Require Import Py.Prelude Model.Schema Model.ImplInput Model.ImplExec Model.RunInput Model.RunArgs.
Import ListNotations.
Open Scope string_scope.
Open Scope list_scope.

Fixpoint mem_pair (a b : string) (l : list (string * string)) : bool :=
  match l with
  | [] => false
  | (x, y) :: l' => (String.eqb a x && String.eqb b y) || mem_pair a b l'
  end.

Fixpoint rlookup (p : list pkey) (t f : string) (tab : list (list pkey * string * string * uret)) : uret :=
  match tab with
  | [] => URaise "NO-ORACLE-ENTRY" false false
  | (p', t', f', r) :: tab' =>
      if path_eqb p p' && String.eqb t t' && String.eqb f f' then r else rlookup p t f tab'
  end.
(* type resolvers receive the field's info (path without list indices): keyed by value *)
Fixpoint tlookup (a : string) (v : pyval) (tab : list (string * pyval * uret)) : uret :=
  match tab with
  | [] => URaise "NO-ORACLE-ENTRY" false false
  | (a', v', r) :: tab' => if String.eqb a a' && pyval_eqb v v' then r else tlookup a v tab'
  end.

Definition table_usercode (resolvers : list (string * string)) (type_resolvers : list string)
           (field_trs : list (string * string))
           (rtab : list (list pkey * string * string * uret))
           (ttab : list (string * pyval * uret)) : usercode :=
  {| has_resolver := fun t f => mem_pair t f resolvers;
     resolver := fun p t f _ _ => rlookup p t f rtab;
     type_resolver_kind := fun a t f =>
       if mem_pair t f field_trs || mem_str a type_resolvers then TRCustom else TRDefault;
     type_resolver := fun _ a v => tlookup a v ttab |}.

Definition opt_path_eqb (a b : option (list pkey)) : bool :=
  match a, b with
  | None, None => true
  | Some x, Some y => path_eqb x y
  | _, _ => false
  end.

Definition emsg_eqb (a b : emsg) : bool :=
  match a, b with
  | MUser x, MUser y => String.eqb x y
  | MEngine _, MEngine _ => true
  | _, _ => false
  end.

Definition gerr_eqb (a b : gerr) : bool :=
  opt_path_eqb (g_path a) (g_path b) && locs_eqb (g_locs a) (g_locs b) &&
  emsg_eqb (g_msg a) (g_msg b) && Bool.eqb (g_ext a) (g_ext b).

Definition call_eqb (a b : call) : bool :=
  match a, b with
  | CResolver p t f s ar, CResolver p' t' f' s' ar' =>
      path_eqb p p' && String.eqb t t' && String.eqb f f' && pyval_eqb s s' && kv_eqb ar ar'
  | CTypeResolver p a v, CTypeResolver p' a' v' =>
      path_eqb p p' && String.eqb a a' && pyval_eqb v v'
  | _, _ => false
  end.

(* multiset equality by removal *)
Fixpoint remove_first {A} (eqb : A -> A -> bool) (x : A) (l : list A) : option (list A) :=
  match l with
  | [] => None
  | y :: l' => if eqb x y then Some l'
               else match remove_first eqb x l' with Some r => Some (y :: r) | None => None end
  end.
Fixpoint perm_eqb {A} (eqb : A -> A -> bool) (a b : list A) : bool :=
  match a with
  | [] => match b with [] => true | _ => false end
  | x :: a' => match remove_first eqb x b with Some b' => perm_eqb eqb a' b' | None => false end
  end.

Definition resp_agree (m : outcome response) (obs : response) : bool :=
  match m with
  | OVal r => pyval_eqb (r_data r) (r_data obs) &&
              perm_eqb gerr_eqb (r_errors r) (r_errors obs) &&
              perm_eqb call_eqb (r_log r) (r_log obs)
  | _ => false
  end.

(* which component differs (for the report): 1 data, 2 errors, 4 log, 8 crash *)
Definition resp_diff (m : outcome response) (obs : response) : Z :=
  match m with
  | OVal r => (if pyval_eqb (r_data r) (r_data obs) then 0 else 1) +
              (if perm_eqb gerr_eqb (r_errors r) (r_errors obs) then 0 else 2) +
              (if perm_eqb call_eqb (r_log r) (r_log obs) then 0 else 4)
  | _ => 8
  end%Z.

(* ---------- property predicates evaluated on the ENGINE's observation ---------- *)
From TV Require Import Model.SpecExec.

Definition in32b' (z : Z) : bool := ((-2147483648 <=? z) && (z <=? 2147483647))%Z.

(* C03: structural conformance of returned data to schema and selection *)
Fixpoint confb (sch : schema) (doc : document) (vs : vars) (fuel : nat) (t : ty) (nodes : list fnode)
         (v : pyval) {struct fuel} : bool :=
  match fuel with
  | O => false
  | S fuel' =>
    let obj (rt : string) (kv : list (string * pyval)) : bool :=
      match find_type sch rt with
      | Some (DObject _ _) =>
          match collect_subfields sch doc vs COLLECT_FUEL rt nodes [] [] with
          | Some sub =>
              (fix go (sub : fields) (kv : list (string * pyval)) {struct sub} : bool :=
                 match sub with
                 | [] => match kv with [] => true | _ => false end
                 | (k, ns) :: rest =>
                     match ns with
                     | [] => false
                     | node :: _ =>
                         match get_field_definition sch rt (fn_name node) with
                         | None => go rest kv
                         | Some fd =>
                             match kv with
                             | (k', x) :: kv' =>
                                 String.eqb k k' && confb sch doc vs fuel' (fd_type fd) ns x && go rest kv'
                             | [] => false
                             end
                         end
                     end
                 end) sub kv
          | None => false
          end
      | _ => false
      end in
    (fix ct (t : ty) (v : pyval) {struct t} : bool :=
       match t with
       | TNonNull t' => negb (is_none v) && ct t' v
       | TList t' => is_none v || match v with PList l => forallb (ct t') l | _ => false end
       | TNamed n =>
           is_none v ||
           match find_type sch n with
           | Some DScalar =>
               if String.eqb n "Int" then match v with PInt z => in32b' z | _ => false end
               else if String.eqb n "Float" then match v with PFloat f => sf_finite f | _ => false end
               else if String.eqb n "String" || String.eqb n "ID" then match v with PStr _ => true | _ => false end
               else if String.eqb n "Boolean" then match v with PBool _ => true | _ => false end
               else true
           | Some (DEnum values) => match v with PStr x => mem_str x values | _ => false end
           | Some (DObject _ _) => match v with PDict kv => obj n kv | _ => false end
           | Some (DInterface _) | Some (DUnion _) =>
               match v with PDict kv => existsb (fun rt => obj rt kv) (possible_types sch n) | _ => false end
           | _ => false
           end
       end) t v
  end.

Definition root_confb (sch : schema) (doc : document) (vs : vars) (op : operation) (data : pyval) : bool :=
  match data with
  | PNone => true
  | PDict kv =>
      match root_type_of sch (o_kind op) with
      | Some rt =>
          let root_node := {| fn_loc := (0, 0)%Z; fn_alias := None; fn_name := "<root>"; fn_args := [];
                              fn_dirs := []; fn_sels := o_sels op |} in
          confb sch doc vs 40 (TNamed rt) [root_node] data
      | None => false
      end
  | _ => false
  end.

(* walk a response path through data: Some v = value there; None = the path runs into a null
   (or non-container) before its end *)
Fixpoint data_at (v : pyval) (p : list pkey) : option pyval :=
  match p with
  | [] => Some v
  | KName k :: p' => match v with
                     | PDict kv => match dict_get k kv with Some x => data_at x p' | None => None end
                     | _ => None end
  | KIdx i :: p' => match v with
                    | PList l => match nth_error l (Z.to_nat i) with Some x => data_at x p' | None => None end
                    | _ => None end
  end.

(* C02 soundness on the observation: every error's path ends at, or passes through, a null *)
Definition error_points_at_null (data : pyval) (g : gerr) : bool :=
  match g_path g with
  | None => is_none data
  | Some p => match data_at data p with Some PNone | None => true | Some _ => false end
  end.

Fixpoint path_mem (p : list pkey) (l : list (list pkey)) : bool :=
  match l with [] => false | q :: l' => path_eqb p q || path_mem p l' end.

Definition paths_of (errs : list gerr) : list (list pkey) :=
  flat_map (fun g => match g_path g with Some p => [p] | None => [] end) errs.

Definition subset_paths (a b : list (list pkey)) : bool := forallb (fun p => path_mem p b) a.

(* C01/C02 on the observation: data is what the specification's algorithm prescribes, every
   origin of a field error is reported (complete), no error points anywhere else (sound) *)
Definition spec_verdict (sch : schema) (doc : document) (U : usercode) (cfg : config)
           (opname : option string) (raw : vars) (root : pyval) (obs : response) : Z :=
  match select_operation doc opname with
  | None => 0
  | Some op =>
      match coerce_variables sch 40 (o_vars op) raw with
      | Ok (vs, []) =>
          match spec_execute_operation sch doc vs U op root with
          | None => 64
          | Some (data, origins) =>
              (if pyval_eqb data (r_data obs) then 0 else 1) +
              (if subset_paths origins (paths_of (r_errors obs)) ||
                  negb (match o_kind op with OpMutation => false | _ => parent_concurrently cfg end)
               then 0 else 2) +
              (if subset_paths (paths_of (r_errors obs)) origins then 0 else 4) +
              (if forallb (error_points_at_null (r_data obs)) (r_errors obs) then 0 else 8) +
              (if root_confb sch doc vs op (r_data obs) then 0 else 16)
          end
      | _ => 0
      end
  end%Z.

(* ---------- subscriptions (C14) ---------- *)
From TV Require Import Model.Subscribe.

Inductive sobs :=
| SObsRefused (r : response)
| SObsStream (args : list (string * pyval)) (n : Z)
| SObsRaised.

Definition sub_agree (sch : schema) (doc : document) (cfg : config) (sources : list string)
           (opn : option string) (raw : vars) (events : list pyval) (obs : sobs) : bool :=
  let U0 := table_usercode [] [] [] [] [] in
  match impl_subscribe sch doc U0 cfg (fun _ _ => events) (fun f => mem_str f sources) opn raw, obs with
  | SubRefused r, SObsRefused r' =>
      pyval_eqb (r_data r) (r_data r') && perm_eqb gerr_eqb (r_errors r) (r_errors r')
  | SubStream args rs, SObsStream args' n => kv_eqb args args' && (Z.of_nat (List.length rs) =? n)%Z
  | SubRaised, SObsRaised => true
  | _, _ => false
  end.

(* ---------- scheduled runs (C08 C09 C15) ---------- *)
From TV Require Import Model.Async.

Definition a_execute (sch : schema) (doc : document) (U : usercode) (cfg : config)
           (opname : option string) (raw : vars) (root : pyval) : option prog :=
  match select_operation doc opname with
  | None => None
  | Some op =>
      match coerce_variables sch 40 (o_vars op) raw with
      | Ok (vs, []) => Some (a_execute_operation sch doc vs U cfg op root)
      | _ => None
      end
  end.

Definition sites_perm (a b : list site) : bool := perm_eqb path_eqb a b.

(* the model under the same pick sequence: response, set of started and of finished call sites *)
Definition sched_agree (sch : schema) (doc : document) (U : usercode) (cfg : config)
           (opname : option string) (raw : vars) (root : pyval)
           (picks : list site) (obs : response) (started finished : list site) : bool :=
  match a_execute sch doc U cfg opname raw root with
  | None => false
  | Some p =>
      match run_sched (resolver U) picks p with
      | Some (PDone r, ev) =>
          resp_agree (response_of r ev) obs &&
          sites_perm (starts_of ev) started && sites_perm (finishes_of ev) finished
      | _ => false
      end
  end.

(* the sequential interpreter of the calculus agrees with the state-passing model *)
Definition seq_models_agree (sch : schema) (doc : document) (U : usercode) (cfg : config)
           (opname : option string) (raw : vars) (root : pyval) : bool :=
  match a_execute sch doc U cfg opname raw root with
  | None => true
  | Some p =>
      let (r, ev) := run_seq (resolver U) p in
      match response_of r ev, impl_execute sch doc U cfg opname raw root with
      | OVal a, OVal b => pyval_eqb (r_data a) (r_data b) && perm_eqb gerr_eqb (r_errors a) (r_errors b) &&
                          perm_eqb call_eqb (r_log a) (r_log b)
      | OCrash _, OCrash _ => true
      | _, _ => false
      end
  end.

(* C09: in the start/finish log of a mutation, everything of root field i precedes the start of
   root field i+1 *)
Fixpoint index_of (k : pkey) (keys : list string) (i : Z) : Z :=
  match keys with
  | [] => (-1)%Z
  | x :: keys' => match k with
                  | KName n => if String.eqb n x then i else index_of k keys' (i + 1)%Z
                  | _ => (-1)%Z
                  end
  end.
Fixpoint nondecreasing (l : list Z) : bool :=
  match l with
  | a :: ((b :: _) as l') => (a <=? b)%Z && nondecreasing l'
  | _ => true
  end.
Definition serialb (root_keys : list string) (log : list site) : bool :=
  nondecreasing (map (fun s => match s with k :: _ => index_of k root_keys 0%Z | [] => (-1)%Z end) log).
