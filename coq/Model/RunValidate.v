(* Evaluation entry points of the validation checks (C06 C07): agreement of the implementation
   model with the errors the engine reported, and the specification's verdict per rule. *)
From Coq Require Import ZArith List String Bool.
From TV Require Import Py.Prelude Model.Schema Model.ImplValidate Model.SpecValidate.
Import ListNotations.
Open Scope string_scope.
Open Scope list_scope.

Definition opath_eqb (a b : option (list pkey)) : bool :=
  match a, b with
  | None, None => true
  | Some x, Some y => path_eqb x y
  | _, _ => false
  end.
Definition loc_eqb (a b : loc) : bool := (fst a =? fst b)%Z && (snd a =? snd b)%Z.
Definition locs_subset (a b : list loc) : bool := forallb (fun x => existsb (loc_eqb x) b) a.

(* rules whose error locations the model reproduces exactly (as sets) *)
Definition LOC_TAGS : list string := [
  "directives-are-defined"; "directives-are-unique-per-location"; "directives-are-in-valid-locations";
  "field-selections-on-objects-interfaces-and-unions-types"; "leaf-field-selections"; "required-arguments";
  "fragment-spread-type-existence"; "fragments-on-composite-types"; "fragment-spreads-must-not-form-cycles";
  "operation-name-uniqueness"; "lone-anonymous-operation"; "fragment-name-uniqueness";
  "fragment-spread-target-defined"; "fragment-must-be-used"; "all-variable-uses-defined";
  "all-variables-used"; "all-variable-usages-are-allowed"; "variable-uniqueness"; "variables-are-input-types"].

Definition verr_eqb (a b : verror) : bool :=
  let '(ta, pa, la) := a in
  let '(tb, pb, lb) := b in
  String.eqb ta tb && opath_eqb pa pb &&
  (if mem_str ta LOC_TAGS then locs_subset la lb && locs_subset lb la else true).

Definition set_eq (a b : list verror) : bool :=
  forallb (fun x => existsb (verr_eqb x) b) a && forallb (fun x => existsb (verr_eqb x) a) b.

(* obs_crash: the engine answered with the generic "Server encountered an error." *)
Definition val_agree (V : vschema) (doc : document) (obs_crash : bool) (obs : list verror) : bool :=
  match impl_validate V doc with
  | VCrash => obs_crash
  | VErrors es => negb obs_crash && set_eq es obs
  end.

(* bit i set = rule i of spec_verdicts is violated *)
Fixpoint mask_of (l : list (string * bool)) (w : Z) : Z :=
  match l with
  | [] => 0
  | (_, ok) :: r => ((if ok then 0 else w) + mask_of r (2 * w))%Z
  end.
Definition spec_mask (V : vschema) (doc : document) : Z := mask_of (spec_verdicts V doc) 1.

(* regions of the recorded findings: bit 0 = the usages rule holds for directly used variables,
   bit 1 = the argument-names rule holds under the engine's field lookup *)
Definition region_mask (V : vschema) (doc : document) : Z :=
  ((if r_usages_allowed_direct V doc then 1 else 0) + (if r_argument_names_engine_lookup V doc then 2 else 0))%Z.

(* what the implementation model reports: 0 = accepted, 1 = errors, 2 = crash *)
Definition impl_verdict (V : vschema) (doc : document) : Z :=
  match impl_validate V doc with VErrors [] => 0 | VErrors _ => 1 | VCrash => 2 end.

Fixpoint idx_where' {A} (f : A -> bool) (l : list A) (i : Z) : list Z :=
  match l with [] => [] | x :: r => (if f x then [i] else []) ++ idx_where' f r (i + 1)%Z end.

(* ---------- validation in front of execution (collect.py parse_and_validate_query + engine.py
   _perform_query): the `parsed` oracle of Model/Envelope.v instantiated with the validation model *)
From TV Require Import Model.ImplInput Model.ImplExec Model.Envelope.

Definition gerr_of_verror (e : verror) : gerr :=
  let '(tag, path, locs) := e in
  {| g_path := path; g_locs := locs; g_msg := MEngine tag; g_ext := true |}.

Definition parsed_of (V : vschema) (doc : document) : parsed :=
  match impl_validate V doc with
  | VCrash => PCrash
  | VErrors [] => PDoc doc
  | VErrors es => PInvalid (map gerr_of_verror es)
  end.

Definition validate_and_execute {A} (coercer : gerr -> A) (V : vschema) (U : usercode) (cfg : config)
           (doc : document) (opname : option string) (raw : vars) (root : pyval) : envelope A :=
  engine_execute A coercer (vs V) U cfg (parsed_of V doc) opname raw root.
