(* Per-root-field observation of argument coercion, used by the C05 correspondence. *)
From Coq Require Import ZArith List String Bool.
From TV Require Import Py.Prelude Model.Schema Model.ImplInput Model.RunInput.
Import ListNotations.
Open Scope string_scope.
Open Scope list_scope.

Inductive aobs :=
| ACalled (args : list (string * pyval))
| AFailed (locs : list loc)
| ANoCall.

Definition loc_eqb (a b : loc) : bool := Z.eqb (fst a) (fst b) && Z.eqb (snd a) (snd b).
Fixpoint locs_eqb (a b : list loc) : bool :=
  match a, b with
  | [], [] => true
  | x :: a', y :: b' => loc_eqb x y && locs_eqb a' b'
  | _, _ => false
  end.

Definition aobs_eqb (a b : aobs) : bool :=
  match a, b with
  | ACalled x, ACalled y => kv_eqb x y
  | AFailed x, AFailed y => locs_eqb x y
  | ANoCall, ANoCall => true
  | _, _ => false
  end.

Definition model_field (sch : schema) (vs : vars) (sel : selection) : option (string * aobs) :=
  match sel with
  | SField l alias name args _ _ =>
      let key := match alias with Some a => a | None => name end in
      match find_field (fields_of sch (query_type sch)) name with
      | Some fd =>
          match coerce_arguments sch FUEL (fd_args fd) l args vs with
          | Ok (vals, []) => Some (key, ACalled vals)
          | Ok (_, errs) => Some (key, AFailed (map (fun e => snd e) errs))
          | Raise _ => Some (key, ANoCall)
          end
      | None => Some (key, ANoCall)
      end
  | _ => None
  end.

Fixpoint obs_list_eqb (a b : list (string * aobs)) : bool :=
  match a, b with
  | [], [] => true
  | (k, x) :: a', (k', y) :: b' => String.eqb k k' && aobs_eqb x y && obs_list_eqb a' b'
  | _, _ => false
  end.

Definition args_agree (sch : schema) (doc : document) (raw : vars) (obs : list (string * aobs)) : bool :=
  match operations doc with
  | [op] =>
      match coerce_variables sch FUEL (o_vars op) raw with
      | Ok (vs, []) =>
          obs_list_eqb (flat_map (fun s => match model_field sch vs s with Some x => [x] | None => [] end)
                                 (o_sels op)) obs
      | _ => false
      end
  | _ => false
  end.
