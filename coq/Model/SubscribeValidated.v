(* Engine.subscribe end to end: parse_and_validate_query in front of the subscription executor
   (engine.py subscribe / _perform_subscription): a document the validation walk refuses is answered with
   ONE errors-only response and the source stream is never created. *)
From Coq Require Import ZArith List String Bool.
From TV Require Import Py.Prelude Model.Schema Model.ImplInput Model.ImplExec Model.Envelope Model.Subscribe
     Model.ImplValidate Model.RunValidate.
Import ListNotations.
Open Scope string_scope.
Open Scope list_scope.

Definition validate_and_subscribe (V : vschema) (U : usercode) (cfg : config)
           (source : string -> list (string * pyval) -> list pyval) (has_source : string -> bool)
           (doc : document) (opname : option string) (raw : vars) : sub_outcome :=
  match parsed_of V doc with
  | PDoc d => impl_subscribe (vs V) d U cfg source has_source opname raw
  | PInvalid errs => SubRefused {| r_data := PNone; r_errors := errs; r_log := [] |}
  | PCrash => SubRefused {| r_data := PNone;
                            r_errors := [{| g_path := None; g_locs := []; g_msg := MEngine "server"; g_ext := false |}];
                            r_log := [] |}
  | PSyntaxError l => SubRefused {| r_data := PNone;
                                    r_errors := [{| g_path := None; g_locs := [l]; g_msg := MEngine "syntax"; g_ext := false |}];
                                    r_log := [] |}
  end.

(* a refused document: one errors-only response, no stream *)
Theorem refused_subscription_never_starts V U cfg source has_source doc opname raw :
  accepted V doc = false ->
  exists r, validate_and_subscribe V U cfg source has_source doc opname raw = SubRefused r /\
            r_data r = PNone /\ r_errors r <> [] /\ r_log r = [].
Proof.
  unfold accepted, validate_and_subscribe, parsed_of. intros H.
  destruct (impl_validate V doc) as [|[|e es]]; try discriminate; eexists; (split; [reflexivity|]); cbn; repeat split; discriminate.
Qed.

(* an accepted document is handed to the subscription executor unchanged *)
Theorem accepted_subscription_is_executed V U cfg source has_source doc opname raw :
  accepted V doc = true ->
  validate_and_subscribe V U cfg source has_source doc opname raw = impl_subscribe (vs V) doc U cfg source has_source opname raw.
Proof.
  unfold accepted, validate_and_subscribe, parsed_of. intros H.
  destruct (impl_validate V doc) as [|[|e es]]; try discriminate. reflexivity.
Qed.
