(* Model of what introspection reports for a built schema (schema/schema.py bake: the `types`
   list filter, queryType / mutationType / subscriptionType, directives; the introspection
   attributes filled by each type's bake: fields without the injected `__` fields, interfaces,
   possibleTypes, enumValues, inputFields, args, wrapped types; @deprecated / @nonIntrospectable;
   __Type.fields / __Type.enumValues with includeDeprecated; __type(name:)). *)
From Coq Require Import ZArith List String Bool.
From TV Require Import Py.Prelude Model.Schema Model.ImplValidate Model.SchemaBuild.
Import ListNotations.
Open Scope string_scope.
Open Scope list_scope.

Inductive tref :=
| RNamed (kind name : string)
| RList (t : tref)
| RNonNull (t : tref).

Record iarg := { ia_name : string; ia_type : tref; ia_default : option lit }.   (* the declared default value *)
Record ifield := { if_name : string; if_args : list iarg; if_type : tref; if_deprecated : bool }.
Record itype := {
  it_kind : string; it_name : string;
  it_fields : option (list ifield);
  it_interfaces : option (list string);
  it_possible : option (list string);
  it_enum : option (list (string * bool));        (* value, isDeprecated *)
  it_input : option (list iarg)
}.
Record ischema := {
  is_query : option string; is_mutation : option string; is_subscription : option string;
  is_types : list itype;
  is_directives : list (string * list string * list iarg)
}.

Section I.
Variable g : gschema.

Definition intro_kind (d : typedef) : string :=
  match d with
  | DScalar => "SCALAR" | DEnum _ => "ENUM" | DInput _ => "INPUT_OBJECT" | DObject _ _ => "OBJECT"
  | DInterface _ => "INTERFACE" | DUnion _ => "UNION"
  end.

Fixpoint ref_of (t : ty) : tref :=
  match t with
  | TNamed n => RNamed (match g_find g n with Some d => intro_kind d | None => "?" end) n
  | TList t' => RList (ref_of t')
  | TNonNull t' => RNonNull (ref_of t')
  end.

Definition member_dirs (tn m : string) : list string :=
  flat_map (fun e => match e with (t, x, ds) => if String.eqb t tn && String.eqb x m then ds else [] end) (g_member_dirs g).
Definition deprecated (tn m : string) : bool := mem_str "deprecated" (member_dirs tn m).
Definition hidden (tn m : string) : bool := mem_str "nonIntrospectable" (member_dirs tn m).

Definition arg_of (a : input_def) : iarg :=
  {| ia_name := in_name a; ia_type := ref_of (in_type a); ia_default := in_default a |}.

(* the `fields` list filled by bake_fields: declaration order, injected `__` fields left out; the
   introspection directives executor drops what @nonIntrospectable hides *)
Definition fields_of_type (tn : string) (fs : list field_def) : list ifield :=
  flat_map (fun f => if prefix "__" (fd_name f) || hidden tn (fd_name f) then []
                     else [{| if_name := fd_name f; if_args := map arg_of (fd_args f); if_type := ref_of (fd_type f);
                              if_deprecated := deprecated tn (fd_name f) |}]) fs.

Definition type_info (t : tdecl) : itype :=
  let n := td_name t in
  match td_def t with
  | DScalar => {| it_kind := "SCALAR"; it_name := n; it_fields := None; it_interfaces := None; it_possible := None;
                  it_enum := None; it_input := None |}
  | DEnum vs => {| it_kind := "ENUM"; it_name := n; it_fields := None; it_interfaces := None; it_possible := None;
                   it_enum := Some (map (fun v => (v, deprecated n v)) vs); it_input := None |}
  | DInput fs => {| it_kind := "INPUT_OBJECT"; it_name := n; it_fields := None; it_interfaces := None; it_possible := None;
                    it_enum := None; it_input := Some (map arg_of fs) |}
  | DObject ifs fs => {| it_kind := "OBJECT"; it_name := n; it_fields := Some (fields_of_type n fs);
                         it_interfaces := Some ifs; it_possible := None; it_enum := None; it_input := None |}
  | DInterface fs => {| it_kind := "INTERFACE"; it_name := n; it_fields := Some (fields_of_type n fs);
                        it_interfaces := None; it_possible := Some (g_implementers g n); it_enum := None; it_input := None |}
  | DUnion ms => {| it_kind := "UNION"; it_name := n; it_fields := None; it_interfaces := None; it_possible := Some ms;
                    it_enum := None; it_input := None |}
  end.

(* schema.types: every defined type whose name does not start with `__` *)
Definition introspect_types : list itype :=
  map type_info (filter (fun t => negb (prefix "__" (td_name t))) (g_types g)).

Definition root_name (n : string) : option string := if g_has_type g n then Some n else None.

Definition introspect : ischema :=
  {| is_query := root_name (g_query g); is_mutation := root_name (g_mutation g);
     is_subscription := root_name (g_subscription g);
     is_types := introspect_types;
     is_directives := map (fun d => (dd_name (dd_def d), dd_locs (dd_def d), map arg_of (dd_args (dd_def d)))) (g_dirs g) |}.

(* __type(name:): schema.find_type, None for unknown names (meta types included) *)
Definition introspect_type (n : string) : option itype :=
  match find_tdecl (g_types g) n with Some t => Some (type_info t) | None => None end.

(* __Type.fields(includeDeprecated: false) *)
Definition without_deprecated (fs : list ifield) : list ifield := filter (fun f => negb (if_deprecated f)) fs.
End I.

(* ---------- comparison with an observed introspection result ---------- *)
Fixpoint tref_eqb (a b : tref) : bool :=
  match a, b with
  | RNamed k n, RNamed k' n' => String.eqb k k' && String.eqb n n'
  | RList x, RList y | RNonNull x, RNonNull y => tref_eqb x y
  | _, _ => false
  end.
(* the same GraphQL value, source positions aside *)
Fixpoint lit_same (a b : lit) {struct a} : bool :=
  match a, b with
  | LVar _ x, LVar _ y => String.eqb x y
  | LInt _ v, LInt _ w | LFloat _ v, LFloat _ w => pyval_eqb v w
  | LStr _ s, LStr _ t | LEnum _ s, LEnum _ t => String.eqb s t
  | LBool _ x, LBool _ y => Bool.eqb x y
  | LNull _, LNull _ => true
  | LList _ xs, LList _ ys =>
      (fix go (l m : list lit) : bool :=
         match l, m with
         | [], [] => true
         | x :: l', y :: m' => lit_same x y && go l' m'
         | _, _ => false
         end) xs ys
  | LObj _ fs, LObj _ gs =>
      (fix go (l m : list (string * lit)) : bool :=
         match l, m with
         | [], [] => true
         | (k, x) :: l', (k', y) :: m' => String.eqb k k' && lit_same x y && go l' m'
         | _, _ => false
         end) fs gs
  | _, _ => false
  end.

Definition opt_lit_same (a b : option lit) : bool :=
  match a, b with None, None => true | Some x, Some y => lit_same x y | _, _ => false end.

(* defaultValue is compared as a VALUE: what the engine prints, parsed back, is the declared default *)
Definition iarg_eqb (a b : iarg) : bool :=
  String.eqb (ia_name a) (ia_name b) && tref_eqb (ia_type a) (ia_type b) && opt_lit_same (ia_default a) (ia_default b).
Fixpoint list_eqb {A} (eqb : A -> A -> bool) (a b : list A) : bool :=
  match a, b with
  | [], [] => true
  | x :: a', y :: b' => eqb x y && list_eqb eqb a' b'
  | _, _ => false
  end.
Definition opt_eqb {A} (eqb : A -> A -> bool) (a b : option A) : bool :=
  match a, b with None, None => true | Some x, Some y => eqb x y | _, _ => false end.
Definition ifield_eqb (a b : ifield) : bool :=
  String.eqb (if_name a) (if_name b) && list_eqb iarg_eqb (if_args a) (if_args b) && tref_eqb (if_type a) (if_type b) &&
  Bool.eqb (if_deprecated a) (if_deprecated b).
Definition set_eqb (a b : list string) : bool :=
  forallb (fun x => mem_str x b) a && forallb (fun x => mem_str x a) b && (List.length a =? List.length b)%nat.
Definition itype_eqb (a b : itype) : bool :=
  String.eqb (it_kind a) (it_kind b) && String.eqb (it_name a) (it_name b) &&
  opt_eqb (list_eqb ifield_eqb) (it_fields a) (it_fields b) &&
  opt_eqb set_eqb (it_interfaces a) (it_interfaces b) && opt_eqb set_eqb (it_possible a) (it_possible b) &&
  opt_eqb (list_eqb (fun x y => String.eqb (fst x) (fst y) && Bool.eqb (snd x) (snd y))) (it_enum a) (it_enum b) &&
  opt_eqb (list_eqb iarg_eqb) (it_input a) (it_input b).

(* types and directives are compared as name-keyed sets: nothing missing, nothing extra *)
Definition types_agree (a b : list itype) : bool :=
  (List.length a =? List.length b)%nat &&
  forallb (fun x => existsb (itype_eqb x) b) a && forallb (fun y => existsb (fun x => itype_eqb x y) a) b.
Definition dir_eqb (a b : string * list string * list iarg) : bool :=
  String.eqb (fst (fst a)) (fst (fst b)) && set_eqb (snd (fst a)) (snd (fst b)) && list_eqb iarg_eqb (snd a) (snd b).
Definition ischema_agree (a b : ischema) : bool :=
  opt_eqb String.eqb (is_query a) (is_query b) && opt_eqb String.eqb (is_mutation a) (is_mutation b) &&
  opt_eqb String.eqb (is_subscription a) (is_subscription b) && types_agree (is_types a) (is_types b) &&
  (List.length (is_directives a) =? List.length (is_directives b))%nat &&
  forallb (fun x => existsb (dir_eqb x) (is_directives b)) (is_directives a).

(* names of the types on which model and observation differ (for the replay) *)
Definition differing_types (a b : list itype) : list string :=
  flat_map (fun x => if existsb (itype_eqb x) b then [] else [it_name x]) a ++
  flat_map (fun y => if existsb (fun x => itype_eqb x y) a then [] else [it_name y]) b.

Definition introspection_agree (s : sdl) (obs : ischema) : bool :=
  match impl_build s with
  | Built g => ischema_agree (introspect g) obs
  | _ => false
  end.
Definition introspection_diff (s : sdl) (obs : ischema) : list string :=
  match impl_build s with
  | Built g => differing_types (is_types (introspect g)) (is_types obs)
  | _ => ["not built"]
  end.
