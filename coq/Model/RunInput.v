(* Observation types and comparison used by the correspondence checks of C04 / C05. *)
From Coq Require Import ZArith List String Bool.
From TV Require Import Py.Prelude Model.Schema Model.ImplInput Model.SpecInput Model.ScalarLawsB.
Import ListNotations.
Open Scope string_scope.
Open Scope list_scope.

Inductive vobs :=
| ObsRefused (offenders : list string)         (* one entry per error, by variable *)
| ObsCoerced (values : list (string * pyval))  (* info.variable_values, in order *)
| ObsCrash.

Fixpoint kv_eqb (a b : list (string * pyval)) : bool :=
  match a, b with
  | [], [] => true
  | (k, x) :: a', (k', y) :: b' => String.eqb k k' && pyval_eqb x y && kv_eqb a' b'
  | _, _ => false
  end.
Fixpoint strs_eqb (a b : list string) : bool :=
  match a, b with
  | [], [] => true
  | x :: a', y :: b' => String.eqb x y && strs_eqb a' b'
  | _, _ => false
  end.

Definition vobs_eqb (a b : vobs) : bool :=
  match a, b with
  | ObsRefused x, ObsRefused y => strs_eqb x y
  | ObsCoerced x, ObsCoerced y => kv_eqb x y
  | ObsCrash, ObsCrash => true
  | _, _ => false
  end.

Definition obs_of (r : res (vars * list verr)) : vobs :=
  match r with
  | Ok (vals, []) => ObsCoerced vals
  | Ok (_, errs) => ObsRefused (map fst errs)
  | Raise _ => ObsCrash
  end.

Definition FUEL := 40%nat.

Definition impl_vobs (sch : schema) (vds : list var_def) (raw : vars) : vobs :=
  obs_of (coerce_variables sch FUEL vds raw).
Definition spec_vobs (sch : schema) (vds : list var_def) (raw : vars) : vobs :=
  obs_of (spec_coerce_variables sch FUEL vds raw).
