(* Specification side of execution (June-2018 section 6.3 / 6.4), written in the recursive
   style of the specification text.
   CollectFields is specified as the ordered traversal of the selections that apply
   (`spec_collect`: skip/include, type conditions, each named fragment at most once per
   selection-set collection), the grouped field set being the grouping of that sequence by
   response key in first-appearance order (`group_fields`). *)
From Coq Require Import ZArith List String Bool.
From TV Require Import Py.Prelude Model.Schema Model.ImplInput Model.ImplExec.
Import ListNotations.
Open Scope string_scope.
Open Scope list_scope.

Definition group_fields (flat : list (string * fnode)) (acc : fields) : fields :=
  fold_left (fun a kn => fields_add (fst kn) (snd kn) a) flat acc.

Section Spec.
Variable sch : schema.
Variable doc : document.
Variable vs : vars.

(* the fields that apply, in document order, with the fragments visited *)
Fixpoint spec_collect (fuel : nat) (object_type : string) (sels : list selection)
         (visited : list string) {struct fuel} : option (list (string * fnode) * list string) :=
  match fuel with
  | O => None
  | S fuel' =>
    (fix go (sels : list selection) (visited : list string) {struct sels} :=
       match sels with
       | [] => Some ([], visited)
       | SField l alias name args dirs sub :: rest =>
           if should_include sch vs dirs
           then let f := {| fn_loc := l; fn_alias := alias; fn_name := name; fn_args := args;
                            fn_dirs := dirs; fn_sels := sub |} in
                match go rest visited with
                | Some (flat, v) => Some ((response_key f, f) :: flat, v)
                | None => None
                end
           else go rest visited
       | SInline _ tc dirs sub :: rest =>
           if should_include sch vs dirs && condition_matches sch tc object_type
           then match spec_collect fuel' object_type sub visited with
                | Some (flat1, v1) =>
                    match go rest v1 with
                    | Some (flat2, v2) => Some (flat1 ++ flat2, v2)
                    | None => None
                    end
                | None => None
                end
           else go rest visited
       | SSpread _ name dirs :: rest =>
           if mem_str name visited || negb (should_include sch vs dirs) then go rest visited
           else
             match find_fragment (fragments doc) name with
             | Some fr =>
                 if condition_matches sch (Some (fr_type fr)) object_type
                 then match spec_collect fuel' object_type (fr_sels fr) (name :: visited) with
                      | Some (flat1, v1) =>
                          match go rest v1 with
                          | Some (flat2, v2) => Some (flat1 ++ flat2, v2)
                          | None => None
                          end
                      | None => None
                      end
                 else go rest (name :: visited)
             | None => None
             end
       end) sels visited
  end.

(* CollectFields(objectType, selectionSet, variableValues) *)
Definition spec_collect_fields (fuel : nat) (object_type : string) (sels : list selection) : option fields :=
  match spec_collect fuel object_type sels [] with
  | Some (flat, _) => Some (group_fields flat [])
  | None => None
  end.

End Spec.

(* ---------- ExecuteSelectionSet / ExecuteField / CompleteValue (data only) ----------
   Pure transcription of sections 6.3 and 6.4 with the error rule of 6.4.4 ("Errors and
   Non-Nullability"): a field error makes the field null when its type is nullable and
   otherwise propagates to the parent field; list items likewise.  The result carries the
   response paths at which field errors ORIGINATED (every origin must be reported). *)
Inductive sres :=
| SVal (v : pyval) (origins : list (list pkey))
| SFail (origins : list (list pkey))     (* a field error propagates to the parent *)
| SCrash.

Section SpecExecute.
Variable sch : schema.
Variable doc : document.
Variable vs : vars.
Variable U : usercode.

Definition sfun := string -> pyval -> list pkey -> string -> list fnode -> option sres.

(* ResolveAbstractType *)
Definition spec_runtime_type (ptype : string) (fd : field_def) (path : list pkey) (n : string)
           (v : pyval) : option string :=
  let t := match type_resolver_kind U n ptype (fd_name fd) with
           | TRDefault => URet (default_type_resolver v)
           | TRCustom => type_resolver U path n v
           end in
  match t with
  | URet (PStr rt) =>
      match find_type sch rt with
      | Some (DObject _ _) => if mem_str rt (possible_types sch n) then Some rt else None
      | _ => None
      end
  | _ => None
  end.

(* ExecuteSelectionSet over the grouped field set; every field is executed *)
Fixpoint spec_fields (sf : string -> list fnode -> option sres) (fs : fields)
  : option (list (string * pyval)) * list (list pkey) * bool (* crash *) :=
  match fs with
  | [] => (Some [], [], false)
  | (k, nodes) :: rest =>
      let '(rkv, ro, rc) := spec_fields sf rest in
      match sf k nodes with
      | None => (rkv, ro, rc)                                   (* field not defined: skipped *)
      | Some SCrash => (None, ro, true)
      | Some (SFail o) => (None, o ++ ro, rc)
      | Some (SVal v o) =>
          (match rkv with Some kv => Some ((k, v) :: kv) | None => None end, o ++ ro, rc)
      end
  end.

Definition spec_object (sf : sfun) (nodes : list fnode) (otype : string) (value : pyval)
           (opath : list pkey) : sres :=
  match spec_collect_fields sch doc vs COLLECT_FUEL otype
          (flat_map (fun n => fn_sels n) nodes) with   (* MergeSelectionSets(fields) *)
  | None => SCrash
  | Some sub =>
      match spec_fields (fun k ns => sf otype value opath k ns) sub with
      | (_, _, true) => SCrash
      | (Some kv, o, _) => SVal (PDict kv) o
      | (None, o, _) => SFail o
      end
  end.

Section Complete.
Variable sf : sfun.
Variable ptype : string.
Variable fd : field_def.
Variable nodes : list fnode.
Variable fpath : list pkey.     (* the field's own response path *)

Definition fail_here (path : list pkey) : sres := SFail [path].

(* one list item: a failure is absorbed when the item type is nullable *)
Definition absorb (t : ty) (r : sres) : sres :=
  match r with
  | SFail o => if is_non_null t then SFail o else SVal PNone o
  | _ => r
  end.

Fixpoint spec_items (complete_item : pyval -> list pkey -> sres) (path : list pkey) (i : Z)
         (items : list pyval) : option (list pyval) * list (list pkey) * bool :=
  match items with
  | [] => (Some [], [], false)
  | x :: xs =>
      let '(rl, ro, rc) := spec_items complete_item path (i + 1)%Z xs in
      match complete_item x (path ++ [KIdx i]) with
      | SCrash => (None, ro, true)
      | SFail o => (None, o ++ ro, rc)
      | SVal v o => (match rl with Some l => Some (v :: l) | None => None end, o ++ ro, rc)
      end
  end.

(* CompleteValue(fieldType, fields, result, variableValues) *)
Fixpoint spec_complete (t : ty) (v : pyval) (path : list pkey) {struct t} : sres :=
  match t with
  | TNonNull t' =>
      match spec_complete t' v path with
      | SVal PNone o => SFail (o ++ [path])          (* null for a non-null type: field error *)
      | r => r
      end
  | TList t' =>
      match v with
      | PNone => SVal PNone []
      | PList items =>
          match spec_items (fun item ipath =>
                              absorb t' (match is_exc_value item with
                                         | Some _ => fail_here ipath
                                         | None => spec_complete t' item ipath
                                         end)) path 0%Z items with
          | (_, _, true) => SCrash
          | (Some l, o, _) => SVal (PList l) o
          | (None, o, _) => SFail o
          end
      | _ => fail_here path                           (* not a collection: field error *)
      end
  | TNamed n =>
      match v with
      | PNone => match find_type sch n with
                 | Some (DInput _) | None => fail_here path
                 | _ => SVal PNone []
                 end
      | _ =>
        match find_type sch n with
        | Some DScalar =>
            match scalars sch n with
            | Some ops => match s_output ops v with
                          | Ok r => if is_undef r then fail_here path else SVal r []
                          | Raise OutOfFuel => SCrash
                          | Raise _ => fail_here path
                          end
            | None => fail_here path
            end
        | Some (DEnum values) =>
            match v with
            | PStr x => if mem_str x values then SVal v [] else fail_here path
            | _ => fail_here path
            end
        | Some (DObject _ _) => spec_object sf nodes n v path
        | Some (DInterface _) | Some (DUnion _) =>
            match spec_runtime_type ptype fd fpath n v with
            | Some rt => spec_object sf nodes rt v path
            | None => fail_here path
            end
        | Some (DInput _) | None => fail_here path
        end
      end
  end.
End Complete.

(* ExecuteField *)
Definition spec_field_body (sf : sfun) (ptype : string) (source : pyval) (ppath : list pkey)
           (key : string) (nodes : list fnode) : option sres :=
  match nodes with
  | [] => Some SCrash
  | node :: _ =>
      match get_field_definition sch ptype (fn_name node) with
      | None => None
      | Some fd =>
          let path := ppath ++ [KName key] in
          let resolved : sres :=
            if String.eqb (fn_name node) "__typename" then SVal (PStr ptype) []
            else
              match coerce_arguments sch 20 (fd_args fd) (fn_loc node) (fn_args node) vs with
              | Raise _ => SCrash
              | Ok (_, _ :: _) => fail_here path               (* CoerceArgumentValues failed *)
              | Ok (args, []) =>
                  if has_resolver U ptype (fd_name fd)
                  then match resolver U path ptype (fd_name fd) source args with
                       | URet v => SVal v []
                       | URaise _ _ _ => fail_here path
                       end
                  else SVal (default_field_resolver source (fd_name fd)) []
              end in
          Some (absorb (fd_type fd)
                  (match resolved with
                   | SVal v _ =>
                       match is_exc_value v with
                       | Some _ => fail_here path
                       | None => spec_complete sf ptype fd nodes path (fd_type fd) v path
                       end
                   | r => r
                   end))
      end
  end.

Fixpoint spec_field (fuel : nat) : sfun :=
  match fuel with
  | O => fun _ _ _ _ _ => Some SCrash
  | S fuel' => spec_field_body (spec_field fuel')
  end.

(* ExecuteQuery / ExecuteMutation: data and the origins of the field errors *)
Definition spec_execute_operation (op : operation) (root_value : pyval)
  : option (pyval * list (list pkey)) :=
  match root_type_of sch (o_kind op) with
  | None => None
  | Some rt =>
      match spec_collect_fields sch doc vs COLLECT_FUEL rt (o_sels op) with
      | None => None
      | Some fs =>
          match spec_fields (fun k ns => spec_field EXEC_FUEL rt root_value [] k ns) fs with
          | (_, _, true) => None
          | (Some kv, o, _) => Some (PDict kv, o)
          | (None, o, _) => Some (PNone, o)
          end
      end
  end.

End SpecExecute.
