(* Evaluation entry points of the directive-hook check (C13), output side. *)
From Coq Require Import ZArith List String Bool.
From TV Require Import Py.Prelude Model.Schema Model.Directives Model.DirectivesOut Model.RunDirectives.
Import ListNotations.
Open Scope string_scope.
Open Scope list_scope.

(* one root field of the request: its field directives (query side ++ schema side), the annotated
   return type restricted to the selected fields, what the resolver returned *)
Definition opart := (list dinst * oty * tval)%type.

Definition out_tree_agree (p : opart) (obs : tval) : bool :=
  match p with (fd, t, resolved) => tval_eqb (root_field_out fd t resolved) obs end.

Definition pre_output_log_agree (parts : list opart) (obs : list (string * Z)) : bool :=
  multiset_eqb (flat_map (fun p => match p with (fd, t, resolved) =>
                                     map (fun e => (fst (fst e), snd e)) (root_field_log fd t resolved) end) parts) obs.
