(* Reference semantics of the five built-in scalars' three coercion directions, written
   directly by cases on the value (June-2018 spec, section 3.5 "Scalars": result coercion,
   input coercion, and literal input coercion).  The translated definitions
   (Gen/Scalars_gen.v) are proved equal to these in Proofs/ScalarRefine.v; the laws of
   property C10 are proved about these in Proofs/ScalarLaws.v. *)
From Coq Require Import ZArith List String Bool SpecFloat.
From TV Require Import Py.Prelude.
Import ListNotations.
Open Scope string_scope.
Open Scope Z_scope.

Definition in32b (z : Z) : bool := (-2147483648 <=? z) && (z <=? 2147483647).
Definition b2z (b : bool) : Z := if b then 1 else 0.

(* the integer denoted by a non-boolean number, when it denotes one *)
Definition integral_value (v : pyval) : option Z :=
  match v with
  | PInt z => Some z
  | PFloat f => if sf_finite f then sf_to_Z_exact f else None
  | _ => None
  end.

Definition is_some {A} (o : option A) : bool := match o with Some _ => true | None => false end.


(* AST value nodes as the parser builds them: Int/Float/String nodes carry their lexeme
   (a str), Boolean nodes a bool.  parse_literal is specified on these. *)
Definition wf_node (a : pyval) : bool :=
  match a with
  | PAst KIntValue (PStr _) | PAst KFloatValue (PStr _) | PAst KStringValue (PStr _) => true
  | PAst KIntValue (PInt _) | PAst KFloatValue (PFloat _) => true   (* SDL defaults: lark casts *)
  | PAst KBooleanValue (PBool _) => true
  | PAst KIntValue _ | PAst KFloatValue _ | PAst KStringValue _ | PAst KBooleanValue _ => false
  | _ => true
  end.

(* ---- Int ---- *)
Definition int_output_spec (O : oracles) (v : pyval) : res pyval :=
  match v with
  | PBool b => Ok (PInt (b2z b))
  | PInt z => if in32b z then Ok (PInt z) else Raise TypeError
  | PFloat f =>
      match integral_value v with
      | Some z => if in32b z then Ok (PInt z) else Raise TypeError
      | None => Raise TypeError
      end
  | PStr s =>
      match s with
      | EmptyString => Raise TypeError
      | _ =>
        match float_of_string O s with
        | Some f =>
            match integral_value (PFloat f) with
            | Some z => if in32b z then Ok (PInt z) else Raise TypeError
            | None => Raise TypeError
            end
        | None => Raise TypeError
        end
      end
  | _ => Raise TypeError
  end.

Definition int_input_spec (O : oracles) (v : pyval) : res pyval :=
  match integral_value v with
  | Some z => if in32b z then Ok (PInt z) else Raise TypeError
  | None => Raise TypeError
  end.

Definition int_literal_spec (O : oracles) (a : pyval) : res pyval :=
  match a with
  | PAst KIntValue (PStr s) =>
      match string_to_Z s with
      | Some z => if in32b z then Ok (PInt z) else Ok PUndef
      | None => Ok PUndef
      end
  | PAst KIntValue (PInt z) => if in32b z then Ok (PInt z) else Ok PUndef
  | _ => Ok PUndef
  end.

(* ---- Float ---- *)
Definition finite_float_of (v : pyval) : option spec_float :=
  match v with
  | PBool b => Some (if b then S754_finite false 4503599627370496 (-52) else S754_zero false)
  | PInt z => match sf_of_Z z with Ok f => Some f | Raise _ => None end
  | PFloat f => if sf_finite f then Some f else None
  | _ => None
  end.

Definition float_output_spec (O : oracles) (v : pyval) : res pyval :=
  match v with
  | PStr EmptyString => Raise TypeError
  | PStr s =>
      match float_of_string O s with
      | Some f => if sf_finite f then Ok (PFloat f) else Raise TypeError
      | None => Raise TypeError
      end
  | _ => match finite_float_of v with Some f => Ok (PFloat f) | None => Raise TypeError end
  end.

Definition float_input_spec (O : oracles) (v : pyval) : res pyval :=
  match v with
  | PBool _ => Raise TypeError
  | _ => match finite_float_of v with Some f => Ok (PFloat f) | None => Raise TypeError end
  end.

Definition float_literal_spec (O : oracles) (a : pyval) : res pyval :=
  match a with
  | PAst KFloatValue (PStr s) | PAst KIntValue (PStr s) =>
      match float_of_string O s with
      | Some f => if sf_finite f then Ok (PFloat f) else Ok PUndef
      | None => Ok PUndef
      end
  | PAst KFloatValue (PFloat f) => if sf_finite f then Ok (PFloat f) else Ok PUndef
  | PAst KIntValue (PInt z) =>
      match sf_of_Z z with Ok f => Ok (PFloat f) | Raise _ => Ok PUndef end
  | _ => Ok PUndef
  end.

(* ---- String ---- *)
Definition string_output_spec (O : oracles) (v : pyval) : res pyval :=
  match v with
  | PStr s => Ok (PStr s)
  | PBool b => Ok (PStr (if b then "true" else "false"))
  | _ => match py_str O v with Ok r => Ok r | Raise _ => Raise TypeError end
  end.

Definition string_input_spec (O : oracles) (v : pyval) : res pyval :=
  match v with PStr s => Ok (PStr s) | _ => Raise TypeError end.

Definition string_literal_spec (O : oracles) (a : pyval) : res pyval :=
  match a with PAst KStringValue x => Ok x | _ => Ok PUndef end.

(* ---- Boolean ---- *)
Definition boolean_output_spec (O : oracles) (v : pyval) : res pyval :=
  match v with
  | PBool b => Ok (PBool b)
  | PInt z => match sf_of_Z z with Ok _ => Ok (PBool (negb (z =? 0))) | Raise _ => Raise TypeError end
  | PFloat f => if sf_finite f then Ok (PBool (truthy (PFloat f))) else Raise TypeError
  | _ => Raise TypeError
  end.

Definition boolean_input_spec (O : oracles) (v : pyval) : res pyval :=
  match v with PBool b => Ok (PBool b) | _ => Raise TypeError end.

Definition boolean_literal_spec (O : oracles) (a : pyval) : res pyval :=
  match a with PAst KBooleanValue x => Ok x | _ => Ok PUndef end.

(* ---- ID ---- *)
Definition id_output_spec (O : oracles) (v : pyval) : res pyval :=
  match v with
  | PStr s => Ok (PStr s)
  | _ => match integral_value v with
         | Some z => Ok (PStr (Z_to_string z))
         | None => Raise TypeError
         end
  end.

Definition id_input_spec (O : oracles) (v : pyval) : res pyval := id_output_spec O v.

Definition id_literal_spec (O : oracles) (a : pyval) : res pyval :=
  match a with
  | PAst KStringValue x => Ok x
  | PAst KIntValue (PInt z) => Ok (PStr (Z_to_string z))   (* SDL default `= 4` *)
  | PAst KIntValue x => Ok x                               (* query literal: the lexeme *)
  | _ => Ok PUndef
  end.

