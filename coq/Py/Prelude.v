(* Python value universe and the semantics of the builtins that the translated scalar
   modules use.  Hand-written; validated on every run by the C10 correspondence check
   (the real scalar objects are run on a boundary pool and compared with the translated
   definitions evaluated over this prelude). *)
From Coq Require Import ZArith List String Ascii Bool Lia SpecFloat DecimalString DecimalZ.
Import ListNotations.
Open Scope Z_scope.

(* ---------- exceptions as data ---------- *)
Inductive exc :=
| TypeError | ValueError | OverflowError | KeyError | AttributeError
| GraphQLErr (msg : string)        (* TartifletteError family raised by user code *)
| UserErr (msg : string)           (* any other Exception subclass *)
| OutOfFuel.                       (* not a Python exception: fuel exhausted *)

Inductive res (A : Type) := Ok (a : A) | Raise (e : exc).
Arguments Ok {A}. Arguments Raise {A}.
Definition bind {A B} (m : res A) (f : A -> res B) : res B :=
  match m with Ok a => f a | Raise e => Raise e end.
(* `except Exception:` — every modelled exception is an Exception subclass; OutOfFuel is
   not an exception and is never caught *)
Definition catch_exception {A} (m : res A) (h : exc -> res A) : res A :=
  match m with Ok a => Ok a | Raise OutOfFuel => Raise OutOfFuel | Raise e => h e end.

(* ---------- AST value-node kinds (what parse_literal receives) ---------- *)
Inductive astkind :=
| KIntValue | KFloatValue | KStringValue | KBooleanValue | KNullValue | KEnumValue
| KListValue | KObjectValue | KVariable.

(* ---------- values ---------- *)
Inductive pyval :=
| PNone
| PUndef                                   (* tartiflette.constants.UNDEFINED_VALUE *)
| PBool (b : bool)
| PInt (z : Z)
| PFloat (f : spec_float)                  (* canonical IEEE-754 binary64 data *)
| PStr (s : string)
| PList (l : list pyval)
| PDict (kv : list (string * pyval))       (* insertion-ordered *)
| PObj (cls : string) (attrs : list (string * pyval))
| PExc (e : exc)                           (* an exception instance used as a value *)
| POpaque (tag : string)                   (* bytes, tuple, set, generator, ... : none of the above *)
| PAst (k : astkind) (value : pyval).      (* an AST value node with its .value *)

Inductive pyclass :=
| CBool | CInt | CStr | CFloat | CList | CDict
| CIntValueNode | CFloatValueNode | CStringValueNode | CBooleanValueNode.

Definition isinstance (v : pyval) (c : pyclass) : bool :=
  match v, c with
  | PBool _, CBool => true
  | PBool _, CInt => true                  (* bool is a subclass of int *)
  | PInt _, CInt => true
  | PStr _, CStr => true
  | PFloat _, CFloat => true
  | PList _, CList => true
  | PDict _, CDict => true
  | PAst KIntValue _, CIntValueNode => true
  | PAst KFloatValue _, CFloatValueNode => true
  | PAst KStringValue _, CStringValueNode => true
  | PAst KBooleanValue _, CBooleanValueNode => true
  | _, _ => false
  end.

Definition truthy (v : pyval) : bool :=
  match v with
  | PNone => false
  | PUndef => true
  | PBool b => b
  | PInt z => negb (z =? 0)
  | PFloat f => match f with S754_zero _ => false | _ => true end
  | PStr s => match s with EmptyString => false | _ => true end
  | PList l => match l with [] => false | _ => true end
  | PDict l => match l with [] => false | _ => true end
  | PObj _ _ | PExc _ | POpaque _ | PAst _ _ => true
  end.

(* ---------- floats as data ---------- *)
Definition prec := 53.
Definition emax := 1024.

Definition sf_finite (f : spec_float) : bool :=
  match f with S754_zero _ | S754_finite _ _ _ => true | _ => false end.

Definition sgn (s : bool) : Z := if s then -1 else 1.

(* the integer a finite float denotes, when it denotes one *)
Definition sf_to_Z_exact (f : spec_float) : option Z :=
  match f with
  | S754_zero _ => Some 0
  | S754_finite s m e =>
      if 0 <=? e then Some (sgn s * (Z.pos m * 2 ^ e))
      else if (Z.pos m mod 2 ^ (- e)) =? 0 then Some (sgn s * (Z.pos m / 2 ^ (- e)))
      else None
  | _ => None
  end.

(* truncation toward zero, int(f) *)
Definition sf_trunc (f : spec_float) : res Z :=
  match f with
  | S754_nan => Raise ValueError
  | S754_infinity _ => Raise OverflowError
  | S754_zero _ => Ok 0
  | S754_finite s m e =>
      Ok (sgn s * (if 0 <=? e then Z.pos m * 2 ^ e else Z.pos m / 2 ^ (- e)))
  end.

(* floor(f) *)
Definition sf_floor (f : spec_float) : res Z :=
  match f with
  | S754_nan => Raise ValueError
  | S754_infinity _ => Raise OverflowError
  | S754_zero _ => Ok 0
  | S754_finite s m e =>
      if 0 <=? e then Ok (sgn s * (Z.pos m * 2 ^ e))
      else if s then Ok (- ((Z.pos m + 2 ^ (- e) - 1) / 2 ^ (- e)))
      else Ok (Z.pos m / 2 ^ (- e))
  end.

(* float(z): round to nearest even; Python raises OverflowError when it does not fit *)
Definition sf_of_Z (z : Z) : res spec_float :=
  match z with
  | Z0 => Ok (S754_zero false)
  | Zpos p => let f := binary_normalize prec emax (Zpos p) 0 false in
              if sf_finite f then Ok f else Raise OverflowError
  | Zneg p => let f := binary_normalize prec emax (Zpos p) 0 false in
              match f with
              | S754_finite _ m e => Ok (S754_finite true m e)
              | S754_zero _ => Ok (S754_zero true)
              | _ => Raise OverflowError
              end
  end.

(* exact three-way comparison of an integer with a float (None: unordered, i.e. NaN) *)
Definition cmp_Z_sf (z : Z) (f : spec_float) : option comparison :=
  match f with
  | S754_nan => None
  | S754_infinity s => Some (if s then Gt else Lt)
  | S754_zero _ => Some (z ?= 0)
  | S754_finite s m e =>
      if 0 <=? e then Some (z ?= sgn s * (Z.pos m * 2 ^ e))
      else Some (z * 2 ^ (- e) ?= sgn s * Z.pos m)
  end.

Definition cmp_sf_sf (a b : spec_float) : option comparison := SFcompare a b.

(* ---------- numbers ---------- *)
Inductive num := NZ (z : Z) | NF (f : spec_float).
Definition as_num (v : pyval) : option num :=
  match v with
  | PBool b => Some (NZ (if b then 1 else 0))
  | PInt z => Some (NZ z)
  | PFloat f => Some (NF f)
  | _ => None
  end.
Definition cmp_num (a b : num) : option comparison :=
  match a, b with
  | NZ x, NZ y => Some (x ?= y)
  | NZ x, NF g => cmp_Z_sf x g
  | NF f, NZ y => option_map CompOpp (cmp_Z_sf y f)
  | NF f, NF g => cmp_sf_sf f g
  end.

Definition is_eq_cmp (c : option comparison) : bool :=
  match c with Some Eq => true | _ => false end.
Definition is_le_cmp (c : option comparison) : bool :=
  match c with Some Lt | Some Eq => true | _ => false end.

(* a <= b ; TypeError for unorderable operands *)
Definition py_le (a b : pyval) : res bool :=
  match as_num a, as_num b with
  | Some x, Some y =>
      Ok (is_le_cmp (cmp_num x y))
  | _, _ =>
      match a, b with
      | PStr s, PStr t => Ok (String.leb s t)
      | _, _ => Raise TypeError
      end
  end.

(* ---------- equality (==) on the universe ---------- *)
Definition exc_eqb (a b : exc) : bool :=
  match a, b with
  | TypeError, TypeError | ValueError, ValueError | OverflowError, OverflowError
  | KeyError, KeyError | AttributeError, AttributeError | OutOfFuel, OutOfFuel => true
  | GraphQLErr s, GraphQLErr t => String.eqb s t
  | UserErr s, UserErr t => String.eqb s t
  | _, _ => false
  end.

Definition astkind_eqb (a b : astkind) : bool :=
  match a, b with
  | KIntValue, KIntValue | KFloatValue, KFloatValue | KStringValue, KStringValue
  | KBooleanValue, KBooleanValue | KNullValue, KNullValue | KEnumValue, KEnumValue
  | KListValue, KListValue | KObjectValue, KObjectValue | KVariable, KVariable => true
  | _, _ => false
  end.

Definition sf_eqb_struct (a b : spec_float) : bool :=
  match a, b with
  | S754_zero s, S754_zero t => Bool.eqb s t
  | S754_infinity s, S754_infinity t => Bool.eqb s t
  | S754_nan, S754_nan => true
  | S754_finite s m e, S754_finite t n g => Bool.eqb s t && Pos.eqb m n && (e =? g)
  | _, _ => false
  end.

(* structural identity of two values (used to compare observations, NOT python ==) *)
Fixpoint pyval_eqb (a b : pyval) {struct a} : bool :=
  let fix list_eqb (l1 l2 : list pyval) {struct l1} : bool :=
    match l1, l2 with
    | [], [] => true
    | x :: xs, y :: ys => pyval_eqb x y && list_eqb xs ys
    | _, _ => false
    end in
  let fix kv_eqb (l1 l2 : list (string * pyval)) {struct l1} : bool :=
    match l1, l2 with
    | [], [] => true
    | (k, x) :: xs, (k', y) :: ys => String.eqb k k' && pyval_eqb x y && kv_eqb xs ys
    | _, _ => false
    end in
  match a, b with
  | PNone, PNone => true
  | PUndef, PUndef => true
  | PBool x, PBool y => Bool.eqb x y
  | PInt x, PInt y => x =? y
  | PFloat x, PFloat y => sf_eqb_struct x y
  | PStr x, PStr y => String.eqb x y
  | PList x, PList y => list_eqb x y
  | PDict x, PDict y => kv_eqb x y
  | PObj c x, PObj d y => String.eqb c d && kv_eqb x y
  | PExc x, PExc y => exc_eqb x y
  | POpaque x, POpaque y => String.eqb x y
  | PAst k x, PAst l y => astkind_eqb k l && pyval_eqb x y
  | _, _ => false
  end.

(* python `a == b` on numbers and strings; other kinds: structural *)
Definition py_eq (a b : pyval) : bool :=
  match as_num a, as_num b with
  | Some x, Some y => is_eq_cmp (cmp_num x y)
  | _, _ => pyval_eqb a b
  end.

(* ---------- decimal text of an integer and back (standard library) ---------- *)
Definition Z_to_string (z : Z) : string := NilZero.string_of_int (Z.to_int z).

(* int("<lexeme>") for the lexemes the GraphQL lexer produces: -?[0-9]+ *)
Definition string_to_Z (s : string) : option Z :=
  option_map Z.of_int (NilZero.int_of_string s).

(* ---------- oracles for what is not re-implemented ----------
   float("<text>")  and  str(<non-trivial value>)  are Python library behaviour; the model
   takes them as parameters (a Section would force every client into it, so they are
   passed as a record).  Theorems quantify over ALL oracles; the correspondence check
   instantiates them with the table the harness recorded from the real interpreter. *)
Record oracles := {
  float_of_string : string -> option spec_float;   (* None: ValueError *)
  str_of_value : pyval -> option string            (* None: str() raised *)
}.

Section WithOracles.
Variable O : oracles.

Definition py_int (v : pyval) : res pyval :=
  match v with
  | PBool b => Ok (PInt (if b then 1 else 0))
  | PInt z => Ok (PInt z)
  | PFloat f => bind (sf_trunc f) (fun z => Ok (PInt z))
  | PStr s => match string_to_Z s with Some z => Ok (PInt z) | None => Raise ValueError end
  | _ => Raise TypeError
  end.

Definition py_float (v : pyval) : res pyval :=
  match v with
  | PBool b => Ok (PFloat (if b then S754_finite false 4503599627370496 (-52) else S754_zero false))
  | PInt z => bind (sf_of_Z z) (fun f => Ok (PFloat f))
  | PFloat f => Ok (PFloat f)
  | PStr s => match float_of_string O s with Some f => Ok (PFloat f) | None => Raise ValueError end
  | _ => Raise TypeError
  end.

Definition py_str (v : pyval) : res pyval :=
  match v with
  | PStr s => Ok (PStr s)
  | PInt z => Ok (PStr (Z_to_string z))
  | PBool b => Ok (PStr (if b then "True" else "False"))
  | PNone => Ok (PStr "None")
  | _ => match str_of_value O v with Some s => Ok (PStr s) | None => Raise TypeError end
  end.

Definition py_bool (v : pyval) : res pyval := Ok (PBool (truthy v)).

(* math.isfinite *)
Definition py_isfinite (v : pyval) : res pyval :=
  match v with
  | PBool _ => Ok (PBool true)
  | PInt z => bind (sf_of_Z z) (fun _ => Ok (PBool true))
  | PFloat f => Ok (PBool (sf_finite f))
  | _ => Raise TypeError
  end.

(* math.floor *)
Definition py_floor (v : pyval) : res pyval :=
  match v with
  | PBool b => Ok (PInt (if b then 1 else 0))
  | PInt z => Ok (PInt z)
  | PFloat f => bind (sf_floor f) (fun z => Ok (PInt z))
  | _ => Raise TypeError
  end.

(* node.value *)
Definition py_attr_value (v : pyval) : res pyval :=
  match v with
  | PAst _ x => Ok x
  | _ => Raise AttributeError
  end.

End WithOracles.
