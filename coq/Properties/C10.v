(* C10 — built-in scalars obey their coercion laws.
   Statements are about the definitions REGENERATED from /repo's scalar modules
   (Gen/Scalars_gen.v); universally quantified over the whole value universe `pyval` and
   over every oracle for float("<text>") / str(<value>).  This file contains statements
   only; proofs are `exact`/`rewrite` of lemmas from Proofs/. *)
From Coq Require Import ZArith List String Bool SpecFloat.
From TV Require Import Py.Prelude Model.ScalarSpec Proofs.PreludeFacts Proofs.ScalarLaws
  Proofs.ScalarRefine Gen.Scalars_gen.
Import ListNotations.
Open Scope Z_scope.

Section C10.
Variable O : oracles.

(* ---- result coercion: wire type, same value, no truncation / wrap ---- *)
Theorem C10_int_output_wire v r :
  int_coerce_output O v = Ok r -> exists z, r = PInt z /\ in32 z /\ int_denotes O v z.
Proof. rewrite int_coerce_output_refines. apply int_output_wire. Qed.

Theorem C10_float_output_wire v r :
  float_coerce_output O v = Ok r ->
  exists f, r = PFloat f /\ sf_finite f = true /\ float_denotes O v f.
Proof. rewrite float_coerce_output_refines. apply float_output_wire. Qed.

Theorem C10_string_output_wire v r :
  string_coerce_output O v = Ok r ->
  exists s, r = PStr s /\ (forall s', v = PStr s' -> s = s') /\ (forall z, v = PInt z -> s = Z_to_string z).
Proof. rewrite string_coerce_output_refines. apply string_output_wire. Qed.

Theorem C10_boolean_output_wire v r :
  boolean_coerce_output O v = Ok r -> exists b, r = PBool b /\ (forall b', v = PBool b' -> b = b').
Proof. rewrite boolean_coerce_output_refines. apply boolean_output_wire. Qed.

Theorem C10_id_output_wire v r :
  id_coerce_output O v = Ok r ->
  exists s, r = PStr s /\ (forall s', v = PStr s' -> s = s') /\
            (forall z, integral_value v = Some z -> s = Z_to_string z).
Proof. rewrite id_coerce_output_refines. apply id_output_wire. Qed.

(* ---- input coercion accepts exactly the kinds the specification allows ---- *)
Theorem C10_int_input_accepts_exactly v r :
  int_coerce_input O v = Ok r <-> exists z, r = PInt z /\ int_acceptable v z.
Proof. rewrite int_coerce_input_refines. apply int_input_accepts_exactly. Qed.

Theorem C10_float_input_accepts_exactly v r :
  float_coerce_input O v = Ok r <-> exists f, r = PFloat f /\ float_acceptable v f.
Proof. rewrite float_coerce_input_refines. apply float_input_accepts_exactly. Qed.

Theorem C10_string_input_accepts_exactly v r :
  string_coerce_input O v = Ok r <-> exists s, v = PStr s /\ r = PStr s.
Proof. rewrite string_coerce_input_refines. apply string_input_accepts_exactly. Qed.

Theorem C10_boolean_input_accepts_exactly v r :
  boolean_coerce_input O v = Ok r <-> exists b, v = PBool b /\ r = PBool b.
Proof. rewrite boolean_coerce_input_refines. apply boolean_input_accepts_exactly. Qed.

Theorem C10_id_input_accepts_exactly v r :
  id_coerce_input O v = Ok r <->
  (exists s, v = PStr s /\ r = PStr s) \/
  (exists z, integral_value v = Some z /\ r = PStr (Z_to_string z)).
Proof. rewrite id_coerce_input_refines. apply id_input_accepts_exactly. Qed.

(* ---- a literal of the natural kind and a variable carrying the same JSON value ---- *)
Theorem C10_int_literal_eq_variable z :
  match int_parse_literal O (PAst KIntValue (PStr (Z_to_string z))), int_coerce_input O (PInt z) with
  | Ok PUndef, Raise _ => ~ in32 z
  | Ok a, Ok b => a = b /\ a = PInt z /\ in32 z
  | _, _ => False
  end.
Proof.
  rewrite int_parse_literal_refines by reflexivity. rewrite int_coerce_input_refines.
  apply int_literal_eq_variable.
Qed.

Theorem C10_float_literal_eq_variable s f k :
  (k = KFloatValue \/ k = KIntValue) -> float_of_string O s = Some f ->
  match float_parse_literal O (PAst k (PStr s)), float_coerce_input O (PFloat f) with
  | Ok PUndef, Raise _ => sf_finite f = false
  | Ok a, Ok b => a = b /\ a = PFloat f /\ sf_finite f = true
  | _, _ => False
  end.
Proof.
  intros Hk Hs. rewrite float_parse_literal_refines by (destruct Hk as [-> | ->]; reflexivity).
  rewrite float_coerce_input_refines. now apply float_literal_eq_variable.
Qed.

Theorem C10_string_literal_eq_variable s :
  string_parse_literal O (PAst KStringValue (PStr s)) = string_coerce_input O (PStr s).
Proof.
  rewrite string_parse_literal_refines by reflexivity. rewrite string_coerce_input_refines.
  apply string_literal_eq_variable.
Qed.

Theorem C10_boolean_literal_eq_variable b :
  boolean_parse_literal O (PAst KBooleanValue (PBool b)) = boolean_coerce_input O (PBool b).
Proof.
  rewrite boolean_parse_literal_refines by reflexivity. rewrite boolean_coerce_input_refines.
  apply boolean_literal_eq_variable.
Qed.

Theorem C10_id_literal_eq_variable z s :
  id_parse_literal O (PAst KIntValue (PStr (Z_to_string z))) = id_coerce_input O (PInt z) /\
  id_parse_literal O (PAst KStringValue (PStr s)) = id_coerce_input O (PStr s).
Proof.
  rewrite !id_parse_literal_refines by reflexivity. rewrite !id_coerce_input_refines.
  split; [apply id_literal_eq_variable_int | apply id_literal_eq_variable_str].
Qed.

(* literals of another kind are never accepted (parse_literal yields UNDEFINED_VALUE) *)
Theorem C10_literal_wrong_kind_refused a :
  wf_node a = true ->
  (forall x, a <> PAst KIntValue x) ->
  int_parse_literal O a = Ok PUndef /\
  ((forall x, a <> PAst KFloatValue x) -> float_parse_literal O a = Ok PUndef) /\
  ((forall x, a <> PAst KStringValue x) -> id_parse_literal O a = Ok PUndef).
Proof.
  intros Hwf Hni.
  rewrite int_parse_literal_refines, float_parse_literal_refines, id_parse_literal_refines by exact Hwf.
  destruct a as [ | |b|z|f|s|l|kv|cls attrs|e|tag|k x]; cbn; auto.
  destruct k; cbn; auto; try (exfalso; eapply Hni; reflexivity);
    repeat split; auto; intros H; exfalso; eapply H; reflexivity.
Qed.

(* ---- idempotence: a produced result fed back as input yields the same value ---- *)
Theorem C10_int_idempotent v r : int_coerce_output O v = Ok r -> int_coerce_input O r = Ok r.
Proof. rewrite int_coerce_output_refines, int_coerce_input_refines. apply int_idempotent. Qed.
Theorem C10_float_idempotent v r : float_coerce_output O v = Ok r -> float_coerce_input O r = Ok r.
Proof. rewrite float_coerce_output_refines, float_coerce_input_refines. apply float_idempotent. Qed.
Theorem C10_string_idempotent v r : string_coerce_output O v = Ok r -> string_coerce_input O r = Ok r.
Proof. rewrite string_coerce_output_refines, string_coerce_input_refines. apply string_idempotent. Qed.
Theorem C10_boolean_idempotent v r : boolean_coerce_output O v = Ok r -> boolean_coerce_input O r = Ok r.
Proof. rewrite boolean_coerce_output_refines, boolean_coerce_input_refines. apply boolean_idempotent. Qed.
Theorem C10_id_idempotent v r : id_coerce_output O v = Ok r -> id_coerce_input O r = Ok r.
Proof. rewrite id_coerce_output_refines, id_coerce_input_refines. apply id_idempotent. Qed.

End C10.

(* ---- non-vacuity: the hypotheses are met by concrete non-trivial values ---- *)
Definition O_ex : oracles :=
  {| float_of_string := fun s => if String.eqb s "3.0" then Some (S754_finite false 6755399441055744 (-51)) else None;
     str_of_value := fun _ => None |}.
Example C10_nonvacuous :
  int_coerce_output O_ex (PStr "3.0") = Ok (PInt 3) /\
  int_coerce_output O_ex (PInt (-2147483648)) = Ok (PInt (-2147483648)) /\
  int_coerce_input O_ex (PFloat (S754_finite false 6755399441055744 (-51))) = Ok (PInt 3) /\
  float_coerce_output O_ex (PInt 3) = Ok (PFloat (S754_finite false 6755399441055744 (-51))) /\
  id_coerce_output O_ex (PInt 42) = Ok (PStr "42") /\
  (exists e, int_coerce_input O_ex (PInt 2147483648) = Raise e) /\
  (exists e, float_coerce_input O_ex (PFloat S754_nan) = Raise e).
Proof. vm_compute. repeat split; eauto. Qed.

Print Assumptions C10_int_output_wire.
Print Assumptions C10_float_output_wire.
Print Assumptions C10_string_output_wire.
Print Assumptions C10_boolean_output_wire.
Print Assumptions C10_id_output_wire.
Print Assumptions C10_int_input_accepts_exactly.
Print Assumptions C10_float_input_accepts_exactly.
Print Assumptions C10_string_input_accepts_exactly.
Print Assumptions C10_boolean_input_accepts_exactly.
Print Assumptions C10_id_input_accepts_exactly.
Print Assumptions C10_int_literal_eq_variable.
Print Assumptions C10_float_literal_eq_variable.
Print Assumptions C10_string_literal_eq_variable.
Print Assumptions C10_boolean_literal_eq_variable.
Print Assumptions C10_id_literal_eq_variable.
Print Assumptions C10_literal_wrong_kind_refused.
Print Assumptions C10_int_idempotent.
Print Assumptions C10_float_idempotent.
Print Assumptions C10_string_idempotent.
Print Assumptions C10_boolean_idempotent.
Print Assumptions C10_id_idempotent.
