(* C07 — documents breaking a supported validation rule are refused, nothing runs.
   Statements only.  Proved (for every schema, document, user code, configuration): whenever the
   validation walk reports an error or a rule raises, the response has `data: null`, a non-empty
   `errors`, and NO user code is invoked (the executor is not reached); the uniqueness rules are
   complete (a repeated operation / fragment / variable / argument / directive / input-field name
   is always reported, wherever the list sits); the fragment-cycle rule reports nothing EXACTLY for
   acyclic graphs (both directions, for every graph), a cyclic graph puts the walk in a refusing
   state and no later rule undoes a refusal.
   PARTIAL: completeness of every other rule at every site (`violates a supported rule ->
   impl_validate reports`) is decided per rewritten document by the check (specification verdict
   inside Coq vs the real engine) and the implementation model is tied to the engine by comparing
   error sets; it is not proved for all documents. *)
From Coq Require Import ZArith List String Bool.
From TV Require Import Py.Prelude Model.Schema Model.ImplInput Model.ImplExec Model.Envelope
     Model.ImplValidate Model.SpecValidate Model.RunValidate Proofs.ValidateProofs Proofs.ValidateRules Proofs.ValidateValues Proofs.ValidateSites Proofs.ValidateWalk Proofs.ValidateTree Proofs.SingleRoot Proofs.ValidateSpreads Proofs.ValidateScopes Proofs.ValidateVars Proofs.ValidatePure Proofs.SingleRootSpreads Proofs.FieldLookup
     Gen.Wiring_gen Proofs.Wiring.
Import ListNotations.
Open Scope string_scope.
Open Scope list_scope.

Theorem C07_refused_runs_nothing {A} (coercer : gerr -> A) V U cfg doc opname raw root :
  impl_validate V doc <> VErrors [] ->
  let r := validate_and_execute coercer V U cfg doc opname raw root in
  e_data A r = PNone /\ e_errors A r <> None /\ e_log A r = [].
Proof.
  intros H. unfold validate_and_execute, parsed_of.
  destruct (impl_validate V doc) as [|es]; cbn.
  - repeat split; discriminate.
  - destruct es as [|e es]; [contradiction|]. cbn. repeat split; discriminate.
Qed.

(* completeness of the uniqueness rules *)
Theorem C07_repeated_operation_name_reported doc :
  r_operation_names doc = false -> operation_name_errors (operations doc) <> [].
Proof. intros H E. apply operation_names_rule in E. congruence. Qed.
Theorem C07_repeated_fragment_name_reported doc :
  r_fragment_names doc = false -> fragment_name_errors (fragments doc) <> [].
Proof. intros H E. apply fragment_names_rule in E. congruence. Qed.
Theorem C07_repeated_variable_reported vds :
  nodupb (map v_name vds) = false -> uniq_errors "variable-uniqueness" v_name v_loc None vds <> [].
Proof. intros H E. apply variable_uniqueness_rule in E. congruence. Qed.
Theorem C07_repeated_argument_reported path args :
  nodupb (map a_name args) = false -> uniq_errors "argument-uniqueness" a_name a_loc path args <> [].
Proof. intros H E. apply argument_uniqueness_rule in E. congruence. Qed.
Theorem C07_repeated_directive_reported path ds :
  nodupb (map d_name ds) = false -> uniq_errors "directives-are-unique-per-location" d_name d_loc path ds <> [].
Proof. intros H E. apply directive_uniqueness_rule in E. congruence. Qed.
Theorem C07_repeated_input_field_reported path (fields : list (string * lit)) :
  nodupb (map fst fields) = false ->
  uniq_errors "input-object-field-uniqueness" fst (fun kv => lit_loc (snd kv)) path fields <> [].
Proof. intros H E. apply input_field_uniqueness_rule in E. congruence. Qed.

(* tie to the current source (regenerated on every run): every rule the project documents as
   supported is registered in RULE_SET and invoked from the walk, at exactly the sites the model
   transcribes, and only the cycle rule aborts *)
Theorem C07_source_invokes_every_supported_rule :
  src_call_sites = model_call_sites /\ map fst (filter snd src_rule_set) = model_aborting_rules /\
  forallb (fun r => existsb (fun kv => String.eqb (fst kv) r) src_rule_set &&
                    existsb (fun fr => String.eqb (snd fr) r) src_call_sites) supported_rules = true.
Proof. exact (conj call_sites_are_the_models (conj aborting_rules_are_the_models every_supported_rule_is_registered_and_invoked)). Qed.

(* a cyclic fragment graph is always reported: the rule (with distinct fragment names -- repeated names
   are reported by their own rule) answers Some [] exactly for acyclic graphs, whatever the fuel;
   emitting its verdict puts the walk in a refusing state, and no later rule can undo that *)
Theorem C07_cycle_rule_exact frs :
  NoDup (map fr_name frs) -> (cycle_rule frs = Some [] <-> acyclic frs).
Proof. exact (cycle_rule_exact frs). Qed.

Theorem C07_fragment_cycle_refuses frs st :
  NoDup (map fr_name frs) -> ~ acyclic frs -> aborted st = false ->
  refusing (emit true (cycle_rule frs) st).
Proof. exact (cycle_emit_refuses frs st). Qed.

Theorem C07_refusal_is_never_undone b r st : refusing st -> refusing (emit b r st).
Proof. exact (emit_keeps b r st). Qed.

(* non-vacuity: a cycle closed through a nested selection *)
Definition FR (n : string) (sels : list selection) : fragment :=
  {| fr_name := n; fr_type := "Query"; fr_dirs := []; fr_sels := sels; fr_loc := (1, 1)%Z |}.
Definition cyc : list fragment :=
  [FR "A" [SField (1, 1)%Z None "x" [] [] [SSpread (1, 1)%Z "B" []]]; FR "B" [SInline (1, 1)%Z None [] [SSpread (1, 1)%Z "A" []]]].
Example C07_cycle_reported : NoDup (map fr_name cyc) /\ cycle_rule cyc <> Some [].
Proof. split; [repeat constructor; cbn; intuition discriminate|vm_compute; discriminate]. Qed.

(* three more rules proved exact for every schema and document (Proofs/ValidateRules.v); here the
   direction C07 needs: what the specification forbids is reported.  The spread list the last two
   read from the walk's shared context is exactly the document's (C06_rules_read_the_documents_spreads). *)
Theorem C07_second_anonymous_operation_reported doc :
  r_lone_anonymous doc = false -> lone_anonymous_errors (operations doc) <> [].
Proof. intros H E. apply lone_anonymous_exact_doc in E. congruence. Qed.
Theorem C07_unused_fragment_reported V doc :
  r_fragments_used V doc = false -> must_be_used_errors (fragments doc) (frag_spreads (walked V doc)) <> [].
Proof. intros H E. apply must_be_used_exact in E. congruence. Qed.
Theorem C07_undefined_spread_target_reported V doc :
  r_spread_targets V doc = false -> spread_target_errors (fragments doc) (frag_spreads (walked V doc)) <> [].
Proof. intros H E. apply spread_targets_exact in E. congruence. Qed.

(* 5.6.1 values of correct type, exact at every depth: a literal the specification rejects for its expected
   type makes the rule raise or append at least one error, and the walk then refuses the document *)
Theorem C07_incorrect_value_reported V
  (Hin : forall n ifs f, vfind_type V n = Some (DInput ifs) -> In f ifs -> input_ty V (in_type f))
  v path argloc c acc :
  input_ty V c -> value_ok V v c = false ->
  vct V path argloc v c acc = None \/ exists e es, vct V path argloc v c acc = Some (acc ++ e :: es).
Proof. intros Hc H. exact (proj1 (proj2 (vct_exact V Hin v path argloc c acc Hc)) H). Qed.

Theorem C07_incorrect_arguments_refuse V
  (Hin : forall n ifs f, vfind_type V n = Some (DInput ifs) -> In f ifs -> input_ty V (in_type f))
  path ds args st :
  (forall d, In d ds -> input_ty V (in_type d)) -> args_ok V ds args = false -> aborted st = false ->
  refusing (emit false (vct_arguments V path (Some ds) args) st).
Proof.
  intros Hd H Ha. apply flagged_values_refuse; [exact Ha|]. exact (proj2 (vct_arguments_exact V Hin path ds args Hd) H).
Qed.

(* the per-site rules, each exact (Proofs/ValidateSites.v): what the specification forbids at a site is reported *)
Theorem C07_unknown_argument_reported path ds args :
  forallb (fun a => existsb (fun d => String.eqb (in_name d) (a_name a)) ds) args = false ->
  argument_names_errors path (Some ds) args <> [].
Proof. intros H E. apply argument_names_exact in E. congruence. Qed.
Theorem C07_missing_required_argument_reported path ds l args :
  forallb (fun d => negb (is_non_null (in_type d)) || match in_default d with Some _ => true | None => false end ||
                    existsb (fun a => String.eqb (a_name a) (in_name d)) args) ds = false ->
  required_arguments_errors path (Some ds) l args <> [].
Proof. intros H E. apply required_arguments_exact in E. congruence. Qed.
Theorem C07_misplaced_directive_reported V path where_ l ds :
  forallb (fun d => match s_directive V (d_name d) with Some dd => mem_str where_ (dd_locs dd) | None => true end) ds = false ->
  valid_locations_errors V path where_ l ds <> [].
Proof. intros H E. apply valid_locations_exact in E. congruence. Qed.

(* whatever any rule reports or raises, at any point of the walk, the document is not accepted: acceptance is the
   conjunction of all rules being quiet (C06_acceptance_decomposed), so one flagged rule suffices *)
Theorem C07_any_flagged_rule_refuses V doc :
  accepted V doc = true -> quiet (walk_phase_errs V doc) /\ quiet (cycle_rule (fragments doc)).
Proof. intros H. apply accepted_iff_clean in H. apply validate_clean_iff in H. tauto. Qed.

(* COMPLETENESS over the whole document (Proofs/ValidateTree.v): a document with ANY node -- at any depth,
   in an operation or a fragment -- violating one of the specification's node predicates (argument names /
   uniqueness / required arguments, values of correct type, input-field uniqueness, directives defined /
   unique / in valid locations and their argument rules, field exists, leaf selection, type conditions,
   variable definitions), or a cyclic fragment graph, a repeated operation or fragment name, a second
   anonymous operation, a spread of an undefined fragment, an unused fragment, is NOT accepted. *)
Theorem C07_violating_document_refused V
  (Hin : forall n ifs f, vfind_type V n = Some (DInput ifs) -> In f ifs -> input_ty V (in_type f))
  (Hfields : forall scope name f d, vfind_field V scope name = Some f -> In d (fd_args f) -> input_ty V (in_type d))
  (Hdirs : forall n dd d, vfind_directive V n = Some dd -> In d (dd_args dd) -> input_ty V (in_type d)) doc :
  doc_walk_ok V doc = false \/ ~ acyclic (fragments doc) \/ r_operation_names doc = false \/ r_lone_anonymous doc = false \/
  r_fragment_names doc = false \/ r_spread_targets V doc = false \/ r_fragments_used V doc = false ->
  accepted V doc = false.
Proof.
  intros H. destruct (accepted V doc) eqn:E; [|reflexivity]. exfalso.
  apply (accepted_characterised V Hin Hfields Hdirs doc) in E.
  destruct E as (E0 & E1 & E2 & E3 & E4 & E5 & E6 & _).
  destruct H as [H|[H|[H|[H|[H|[H|H]]]]]]; try congruence; now apply H.
Qed.

(* 5.2.3.1 single root field: a subscription reaching two different response keys at the root through fields
   and inline fragments (at any nesting) is reported by the rule, and the document is not accepted *)
Theorem C07_two_root_keys_reported doc o :
  In o (operations doc) -> o_kind o = OpSubscription -> two_root_keys (o_sels o) -> single_root_rule doc <> Some [].
Proof. exact (single_root_rule_refuses doc o). Qed.

Theorem C07_two_root_keys_refused V doc o :
  In o (operations doc) -> o_kind o = OpSubscription -> two_root_keys (o_sels o) -> accepted V doc = false.
Proof.
  intros Hin Hk Htwo. destruct (accepted V doc) eqn:E; [|reflexivity]. exfalso.
  apply accepted_iff_clean, validate_clean_iff in E. destruct E as (_ & _ & _ & _ & Hq & _).
  exact (single_root_rule_refuses doc o Hin Hk Htwo Hq).
Qed.

Example C07_two_root_keys_example :
  two_root_keys [SField (1,1)%Z (Some "ka") "su" [] [] [];
                 SInline (1,2)%Z (Some "Subscription") [] [SInline (1,3)%Z None [] [SField (1,4)%Z None "kb" [] [] []]]].
Proof. exists "ka", "kb". repeat split; [discriminate|cbn; auto|cbn; auto]. Qed.

(* 5.5.2.3 fragment spread is possible, EXACT: the rule reports nothing exactly when every inline fragment and every
   spread of a defined fragment -- wherever it sits: operation, nested selection, fragment -- can apply in the type scope
   it is written in (`applies_in`, which for a type condition is the specification's `applies`: both composite =>
   possible types intersect); the entries are a pure function of the document (scopes handed down the tree) *)
Theorem C07_possible_spreads_rule_exact V doc :
  inline_possible_errors V (inlined_in (ValidateWalk.walked V doc)) ++
  spread_possible_errors V (fragments doc) (spreaded_in (ValidateWalk.walked V doc)) = [] <->
  (forall scope tc l, In (scope, (tc, l)) (doc_inl V doc) -> applies_in V scope tc = true) /\
  (forall scope n l p f, In (scope, (n, l, p)) (doc_spr V doc) -> find_fragment (fragments doc) n = Some f ->
                         applies_in V scope (Some (fr_type f)) = true).
Proof. exact (possible_spreads_exact V doc). Qed.

Theorem C07_applies_is_the_specifications V scope t : applies_in V scope (Some t) = applies V scope t.
Proof. exact (applies_in_spec V scope t). Qed.

Theorem C07_impossible_inline_fragment_refused V doc scope tc l :
  In (scope, (tc, l)) (doc_inl V doc) -> applies_in V scope tc = false -> accepted V doc = false.
Proof.
  intros Hin Hno. destruct (accepted V doc) eqn:E; [|reflexivity]. exfalso.
  apply accepted_iff_clean, validate_clean_iff in E. destruct E as (_ & _ & _ & _ & _ & _ & _ & _ & Hq & _).
  apply (possible_spreads_exact V doc) in Hq. destruct Hq as [H1 _]. rewrite (H1 scope tc l Hin) in Hno. discriminate.
Qed.

Theorem C07_impossible_fragment_spread_refused V doc scope n l p f :
  In (scope, (n, l, p)) (doc_spr V doc) -> find_fragment (fragments doc) n = Some f ->
  applies_in V scope (Some (fr_type f)) = false -> accepted V doc = false.
Proof.
  intros Hin Hf Hno. destruct (accepted V doc) eqn:E; [|reflexivity]. exfalso.
  apply accepted_iff_clean, validate_clean_iff in E. destruct E as (_ & _ & _ & _ & _ & _ & _ & _ & Hq & _).
  apply (possible_spreads_exact V doc) in Hq. destruct Hq as [_ H2]. rewrite (H2 scope n l p f Hin Hf) in Hno. discriminate.
Qed.

(* The three variable rules, EXACT (Proofs/ValidateVars.v).  An operation "sees" what is recorded in its own selection
   tree and in every fragment reachable through spreads (`op_sees`: the engine's traversal has no visited set, it returns
   exactly when it terminates and then membership is reachability); the records are a pure function of the document
   (Proofs/ValidateScopes.v, `books_ctx`). *)
Theorem C07_uses_defined_rule_exact st ops :
  uses_defined_rule st ops = Some [] <->
  forall o, In o ops ->
    scope_collect st si_used o <> None /\
    forall n l, op_sees st si_used o (n, l) -> exists vd, In vd (o_vars o) /\ v_name vd = n.
Proof. exact (uses_defined_exact st ops). Qed.

Theorem C07_variables_used_rule_exact st ops :
  variables_used_rule st ops = Some [] <->
  forall o, In o ops ->
    scope_collect st si_used o <> None /\
    forall vd, In vd (o_vars o) -> exists l, op_sees st si_used o (v_name vd, l).
Proof. exact (variables_used_exact st ops). Qed.

Theorem C07_usages_allowed_rule_exact V st ops :
  usages_allowed_rule V st ops = Some [] <->
  forall o, In o ops ->
    scope_collect st si_args o <> None /\
    forall u a vd, op_sees st si_args o u -> schema_argument V u = Some a ->
                   find (fun vd0 => String.eqb (v_name vd0) (au_var u)) (o_vars o) = Some vd -> usage_ok a vd = true.
Proof. exact (usages_allowed_exact V st ops). Qed.

(* ... hence a document using an undeclared variable, declaring an unused one, or passing a variable where its type does
   not fit -- in the operation itself, in a nested selection, in a directive argument or in a fragment reached through
   any chain of spreads -- is not accepted *)
Theorem C07_undeclared_variable_refused V
  (Hin : forall n ifs f, vfind_type V n = Some (DInput ifs) -> In f ifs -> input_ty V (in_type f))
  (Hfields : forall scope name f d, vfind_field V scope name = Some f -> In d (fd_args f) -> input_ty V (in_type d))
  (Hdirs : forall n dd d, vfind_directive V n = Some dd -> In d (dd_args dd) -> input_ty V (in_type d)) doc o n l :
  In o (operations doc) -> op_sees (books_ctx V doc) si_used o (n, l) ->
  (forall vd, In vd (o_vars o) -> v_name vd <> n) -> accepted V doc = false.
Proof. exact (undeclared_variable_refused V Hin Hfields Hdirs doc o n l). Qed.

Theorem C07_unused_variable_refused V
  (Hin : forall n ifs f, vfind_type V n = Some (DInput ifs) -> In f ifs -> input_ty V (in_type f))
  (Hfields : forall scope name f d, vfind_field V scope name = Some f -> In d (fd_args f) -> input_ty V (in_type d))
  (Hdirs : forall n dd d, vfind_directive V n = Some dd -> In d (dd_args dd) -> input_ty V (in_type d)) doc o vd :
  In o (operations doc) -> In vd (o_vars o) ->
  (forall l, ~ op_sees (books_ctx V doc) si_used o (v_name vd, l)) -> accepted V doc = false.
Proof. exact (unused_variable_refused V Hin Hfields Hdirs doc o vd). Qed.

Theorem C07_disallowed_variable_usage_refused V
  (Hin : forall n ifs f, vfind_type V n = Some (DInput ifs) -> In f ifs -> input_ty V (in_type f))
  (Hfields : forall scope name f d, vfind_field V scope name = Some f -> In d (fd_args f) -> input_ty V (in_type d))
  (Hdirs : forall n dd d, vfind_directive V n = Some dd -> In d (dd_args dd) -> input_ty V (in_type d)) doc o u a vd :
  In o (operations doc) -> op_sees (books_ctx V doc) si_args o u -> schema_argument V u = Some a ->
  find (fun vd0 => String.eqb (v_name vd0) (au_var u)) (o_vars o) = Some vd -> usage_ok a vd = false ->
  accepted V doc = false.
Proof. exact (disallowed_usage_refused V Hin Hfields Hdirs doc o u a vd). Qed.

(* 5.2.3.1 single root field, EXACT through fragment spreads: the engine's traversal (with its visited set; cyclic spread
   graphs included) collects every response key reachable through inline fragments and any chain of spreads, so a
   subscription from whose root two DIFFERENT response keys are reachable is reported, and the document is not accepted
   (the converse is C06_one_root_key_written_many_times_accepted) *)
Theorem C07_every_reachable_root_key_is_collected frs fuel sels v' k' :
  response_keys fuel frs sels [] [] = Some (v', k') -> forall k, reachable_key frs sels k -> In k k'.
Proof. exact (response_keys_complete frs fuel sels v' k'). Qed.

Theorem C07_two_reachable_root_keys_reported doc o :
  In o (operations doc) -> o_kind o = OpSubscription -> two_reachable_keys (fragments doc) (o_sels o) ->
  single_root_rule doc <> Some [].
Proof. exact (single_root_rule_refuses_reachable doc o). Qed.

Theorem C07_two_reachable_root_keys_refused V doc o :
  In o (operations doc) -> o_kind o = OpSubscription -> two_reachable_keys (fragments doc) (o_sels o) -> accepted V doc = false.
Proof.
  intros Hin Hk Htwo. destruct (accepted V doc) eqn:E; [|reflexivity]. exfalso.
  apply accepted_iff_clean, validate_clean_iff in E. destruct E as (_ & _ & _ & _ & Hq & _).
  exact (single_root_rule_refuses_reachable doc o Hin Hk Htwo Hq).
Qed.

(* the field lookup the node predicates use is the specification's (meta-fields by name, then the declared fields), for
   schemas whose declared field names do not begin with two underscores and whose query root is an object type -- EXCEPT
   `__typename` in an interface scope (recorded finding C07-interface-typename-arguments) *)
Theorem C07_field_lookup_is_the_specifications V p name :
  (forall ifs fs, vfind_type V p = Some (DObject ifs fs) -> plain_names fs) ->
  (forall fs, vfind_type V p = Some (DInterface fs) -> plain_names fs) ->
  (String.eqb p (query_type (vs V)) = true -> exists ifs fs, vfind_type V p = Some (DObject ifs fs)) ->
  (is_interface V p = true -> name <> "__typename"%string) ->
  vfind_field V (Some p) name = s_field V (Some p) name.
Proof. exact (field_lookup_agrees V p name). Qed.

Print Assumptions C07_source_invokes_every_supported_rule.
Print Assumptions C07_cycle_rule_exact.
Print Assumptions C07_fragment_cycle_refuses.
Print Assumptions C07_refusal_is_never_undone.
Print Assumptions C07_refused_runs_nothing.
Print Assumptions C07_repeated_operation_name_reported.
Print Assumptions C07_repeated_fragment_name_reported.
Print Assumptions C07_repeated_variable_reported.
Print Assumptions C07_repeated_argument_reported.
Print Assumptions C07_repeated_directive_reported.
Print Assumptions C07_repeated_input_field_reported.
Print Assumptions C07_second_anonymous_operation_reported.
Print Assumptions C07_unused_fragment_reported.
Print Assumptions C07_undefined_spread_target_reported.
Print Assumptions C07_incorrect_value_reported.
Print Assumptions C07_incorrect_arguments_refuse.
Print Assumptions C07_unknown_argument_reported.
Print Assumptions C07_missing_required_argument_reported.
Print Assumptions C07_misplaced_directive_reported.
Print Assumptions C07_any_flagged_rule_refuses.
Print Assumptions C07_violating_document_refused.
Print Assumptions C07_two_root_keys_reported.
Print Assumptions C07_two_root_keys_refused.
Print Assumptions C07_possible_spreads_rule_exact.
Print Assumptions C07_impossible_inline_fragment_refused.
Print Assumptions C07_impossible_fragment_spread_refused.
Print Assumptions C07_uses_defined_rule_exact.
Print Assumptions C07_variables_used_rule_exact.
Print Assumptions C07_usages_allowed_rule_exact.
Print Assumptions C07_undeclared_variable_refused.
Print Assumptions C07_unused_variable_refused.
Print Assumptions C07_disallowed_variable_usage_refused.
Print Assumptions C07_every_reachable_root_key_is_collected.
Print Assumptions C07_two_reachable_root_keys_reported.
Print Assumptions C07_two_reachable_root_keys_refused.
Print Assumptions C07_field_lookup_is_the_specifications.
