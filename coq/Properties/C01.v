(* C01 — request results equal the GraphQL execution algorithm's result.
   Statements only.  Proved here about the implementation model (Model/ImplExec.v, tied to /repo
   by the correspondence check): the accumulator-passing collect_fields computes the grouping
   of the specification's CollectFields traversal; response keys appear once, in
   first-appearance order, each with exactly the fields selecting it (merged sub-selections).
   The equality of the response DATA with the specification's ExecuteSelectionSet /
   CompleteValue transcription (Model/SpecExec.v, spec_execute_operation) is evaluated by the
   check on every observation of the real engine (predicate spec_verdict);
   PARTIAL: its proof for the model (C01_data_refines_spec) is in Proofs/ExecRefine.v when present. *)
From Coq Require Import ZArith List String Bool.
From TV Require Import Py.Prelude Model.Schema Model.ImplInput Model.ImplExec Model.SpecExec
  Proofs.CollectRefine.
Import ListNotations.
Open Scope string_scope.

Section C01.
Variable sch : schema.
Variable doc : document.
Variable vs : vars.

(* CollectFields: shared ordered dict + visited set  =  grouping of the ordered traversal *)
Theorem C01_collect_fields_refines_spec fuel rt sels acc visited :
  collect_fields sch doc vs fuel rt sels acc visited =
  match spec_collect sch doc vs fuel rt sels visited with
  | Some (flat, v) => Some (group_fields flat acc, v)
  | None => None
  end.
Proof. exact (collect_fields_refines_spec sch doc vs fuel rt sels acc visited). Qed.

(* every response key appears once ... *)
Theorem C01_response_keys_nodup flat : NoDup (keys (group_fields flat [])).
Proof. apply group_fields_nodup. constructor. Qed.

(* ... in first-appearance order ... *)
Theorem C01_response_keys_first_appearance flat :
  keys (group_fields flat []) = first_appearance (map fst flat) [].
Proof. exact (group_fields_order flat []). Qed.

(* ... holding exactly the fields selected under that key, in document order (merged
   sub-selections included) *)
Theorem C01_group_holds_all_fields flat k :
  nodes_of k (group_fields flat []) = map snd (filter (fun kn => String.eqb k (fst kn)) flat).
Proof. apply (group_fields_nodes flat [] k). constructor. Qed.

End C01.

(* non-vacuity: a fragment spread twice, an alias colliding with a field name, a merged key *)
Definition exs : schema :=
  {| types := [("Query", DObject [] [ {| fd_name := "a"; fd_type := TNamed "T"; fd_args := [] |} ]);
               ("T", DObject [] [ {| fd_name := "x"; fd_type := TNamed "Int"; fd_args := [] |};
                                  {| fd_name := "y"; fd_type := TNamed "Int"; fd_args := [] |} ])];
     query_type := "Query"; mutation_type := None; subscription_type := None; scalars := fun _ => None |}.
Definition exd : document :=
  {| operations := [];
     fragments := [ {| fr_name := "F"; fr_type := "T"; fr_dirs := [];
                       fr_sels := [SField (1,1)%Z None "y" [] [] []; SField (1,2)%Z (Some "x") "y" [] [] []];
                       fr_loc := (1,0)%Z |} ] |}.
Example C01_nonvacuous :
  match collect_fields exs exd [] 5 "T"
          [SField (2,1)%Z None "x" [] [] []; SSpread (2,2)%Z "F" []; SSpread (2,3)%Z "F" [];
           SInline (2,4)%Z (Some "T") [] [SField (2,5)%Z None "y" [] [] []]] [] [] with
  | Some (fs, visited) => (keys fs, map (fun g => List.length (snd g)) fs, visited)
  | None => ([], [], [])
  end = (["x"; "y"], [2%nat; 2%nat], ["F"]).
Proof. vm_compute. reflexivity. Qed.

Print Assumptions C01_collect_fields_refines_spec.
Print Assumptions C01_response_keys_nodup.
Print Assumptions C01_response_keys_first_appearance.
Print Assumptions C01_group_holds_all_fields.
