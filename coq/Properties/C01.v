From TV Require Import Py.Prelude Model.Schema Model.ImplInput Model.ImplExec.
