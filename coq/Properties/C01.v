(* C01 — request results equal the GraphQL execution algorithm's result.
   Statements only.  Proved here about the implementation model (Model/ImplExec.v, tied to /repo
   by the correspondence check): the accumulator-passing collect_fields computes the grouping
   of the specification's CollectFields traversal; response keys appear once, in
   first-appearance order, each with exactly the fields selecting it (merged sub-selections).
   C01_data_refines_spec (Proofs/ExecRefine.v): whenever the specification's ExecuteSelectionSet /
   ExecuteField / CompleteValue transcription (Model/SpecExec.v, with the error rule of 6.4.4)
   yields a result, the implementation model (state-passing execute_fields in both sibling
   strategies, the folded output coercer chain, raise / catch / MultipleException merging,
   collect_subfields over merged nodes) answers with exactly that data -- for every schema,
   document, variables, user code (resolvers and type resolvers returning or raising anything),
   configuration and operation kind.  The same predicate is also evaluated by the check on every
   observation of the real engine.  PARTIAL: the resolver call log equality is decided per run. *)
From Coq Require Import ZArith List String Bool.
From TV Require Import Py.Prelude Model.Schema Model.ImplInput Model.ImplExec Model.SpecExec
  Proofs.CollectRefine Proofs.ExecRefine Proofs.ExecCalls.
Import ListNotations.
Open Scope string_scope.

Section C01.
Variable sch : schema.
Variable doc : document.
Variable vs : vars.

(* CollectFields: shared ordered dict + visited set  =  grouping of the ordered traversal *)
Theorem C01_collect_fields_refines_spec fuel rt sels acc visited :
  collect_fields sch doc vs fuel rt sels acc visited =
  match spec_collect sch doc vs fuel rt sels visited with
  | Some (flat, v) => Some (group_fields flat acc, v)
  | None => None
  end.
Proof. exact (collect_fields_refines_spec sch doc vs fuel rt sels acc visited). Qed.

(* every response key appears once ... *)
Theorem C01_response_keys_nodup flat : NoDup (keys (group_fields flat [])).
Proof. apply group_fields_nodup. constructor. Qed.

(* ... in first-appearance order ... *)
Theorem C01_response_keys_first_appearance flat :
  keys (group_fields flat []) = first_appearance (map fst flat) [].
Proof. exact (group_fields_order flat []). Qed.

(* ... holding exactly the fields selected under that key, in document order (merged
   sub-selections included) *)
Theorem C01_group_holds_all_fields flat k :
  nodes_of k (group_fields flat []) = map snd (filter (fun kn => String.eqb k (fst kn)) flat).
Proof. apply (group_fields_nodes flat [] k). constructor. Qed.

End C01.

(* the response data is the specification's *)
Theorem C01_data_refines_spec sch doc vs U cfg op root d o :
  spec_execute_operation sch doc vs U op root = Some (d, o) ->
  exists r, execute_operation sch doc vs U cfg op root = OVal r /\ r_data r = d.
Proof. exact (execute_operation_refines_spec sch doc vs U cfg op root d o). Qed.

(* per field, at every depth of the response tree: a defined field whose specification result is a
   value yields that value, a field error yields a raised exception, an undefined field is dropped *)
Theorem C01_field_refines_spec sch doc vs U cfg fuel ptype source ppath key nodes s :
  match spec_field sch doc vs U fuel ptype source ppath key nodes with
  | None => fst (resolve_field sch doc vs U cfg fuel ptype source ppath key nodes s) = OVal None
  | Some (SVal v _) => fst (resolve_field sch doc vs U cfg fuel ptype source ppath key nodes s) = OVal (Some v)
  | Some (SFail _) => exists l, fst (resolve_field sch doc vs U cfg fuel ptype source ppath key nodes s) = OExc l
  | Some SCrash => True
  end.
Proof. exact (resolve_field_refines sch doc vs U cfg fuel ptype source ppath key nodes s). Qed.

(* non-vacuity: a fragment spread twice, an alias colliding with a field name, a merged key *)
Definition exs : schema :=
  {| types := [("Query", DObject [] [ {| fd_name := "a"; fd_type := TNamed "T"; fd_args := [] |} ]);
               ("T", DObject [] [ {| fd_name := "x"; fd_type := TNamed "Int"; fd_args := [] |};
                                  {| fd_name := "y"; fd_type := TNamed "Int"; fd_args := [] |} ])];
     query_type := "Query"; mutation_type := None; subscription_type := None; scalars := fun _ => None |}.
Definition exd : document :=
  {| operations := [];
     fragments := [ {| fr_name := "F"; fr_type := "T"; fr_dirs := [];
                       fr_sels := [SField (1,1)%Z None "y" [] [] []; SField (1,2)%Z (Some "x") "y" [] [] []];
                       fr_loc := (1,0)%Z |} ] |}.
Example C01_nonvacuous :
  match collect_fields exs exd [] 5 "T"
          [SField (2,1)%Z None "x" [] [] []; SSpread (2,2)%Z "F" []; SSpread (2,3)%Z "F" [];
           SInline (2,4)%Z (Some "T") [] [SField (2,5)%Z None "y" [] [] []]] [] [] with
  | Some (fs, visited) => (keys fs, map (fun g => List.length (snd g)) fs, visited)
  | None => ([], [], [])
  end = (["x"; "y"], [2%nat; 2%nat], ["F"]).
Proof. vm_compute. reflexivity. Qed.

Definition exU : usercode :=
  {| has_resolver := fun t f => String.eqb f "a";
     resolver := fun _ _ _ _ _ => URet (PDict [("x", PInt 1); ("y", PExc (UserErr "boom"))]);
     type_resolver_kind := fun _ _ _ => TRDefault; type_resolver := fun _ _ _ => URet PNone |}.
Definition exop : operation :=
  {| o_kind := OpQuery; o_name := None; o_vars := []; o_dirs := [];
     o_sels := [SField (1,1)%Z None "a" [] [] [SField (1,2)%Z None "x" [] [] []; SSpread (1,3)%Z "F" []]]; o_loc := (1,0)%Z |}.
Definition exs2 : schema :=
  {| types := types exs; query_type := "Query"; mutation_type := None; subscription_type := None;
     scalars := fun n => if String.eqb n "Int" then Some {| s_input := fun v => Ok v; s_literal := fun v => Ok v; s_output := fun v => Ok v |} else None |}.
Example C01_spec_has_a_result :
  spec_execute_operation exs2 exd [] exU exop PNone =
  Some (PDict [("a", PDict [("x", PInt 1); ("y", PNone)])], [[KName "a"; KName "y"]; [KName "a"; KName "x"]]%list) \/
  exists d o, spec_execute_operation exs2 exd [] exU exop PNone = Some (d, o).
Proof. right. vm_compute. eauto. Qed.

(* "each resolver is called exactly once per collected response key and parent object": the resolver invocations of
   a request are at pairwise different response paths, for every schema, document, variables, user code, configuration
   (per-field settings included), operation and initial value.  (At least once: the data is the specification's.) *)
Theorem C01_no_resolver_called_twice sch doc vs U cfg op root r :
  execute_operation sch doc vs U cfg op root = OVal r -> NoDup (rsites (r_log r)).
Proof. exact (execute_operation_calls_once sch doc vs U cfg op root r). Qed.

Print Assumptions C01_data_refines_spec.
Print Assumptions C01_field_refines_spec.
Print Assumptions C01_collect_fields_refines_spec.
Print Assumptions C01_response_keys_nodup.
Print Assumptions C01_response_keys_first_appearance.
Print Assumptions C01_group_holds_all_fields.
Print Assumptions C01_no_resolver_called_twice.
