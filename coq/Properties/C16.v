(* C16 — the query cache and request history never change a response.
   Statements only.  Model/Cache.v: lru_cache semantics (disabled / unbounded / capacity n) in
   front of parse_and_validate_query, for EVERY finite request history and every configuration.
   Hypothesis keq_sound: cache keys that compare equal denote the same (query, schema) -- this is
   where a key that is too coarse breaks the theorem; that the code's key has this property, and
   that execution does not mutate the cached document, is established by the correspondence check
   (position-by-position comparison with an uncached engine + fingerprint of the cached document). *)
From Coq Require Import List Bool Arith.
From TV Require Import Model.Cache Proofs.CacheRegistry.
Import ListNotations.

Section C16.
Variable K V : Type.
Variable keq : K -> K -> bool.
Variable f : K -> V.
Hypothesis keq_sound : forall a b, keq a b = true -> f a = f b.

(* from the empty cache, any history gets exactly what the uncached function gives *)
Theorem C16_cache_transparent cfg (history : list K) :
  fst (cache_run K V keq f cfg history []) = map f history.
Proof. apply (cache_run_transparent K V keq f keq_sound cfg history []). constructor. Qed.

(* ... and so does any later history: earlier requests leave no trace *)
Theorem C16_history_leaves_no_trace cfg (earlier later : list K) :
  fst (cache_run K V keq f cfg later (snd (cache_run K V keq f cfg earlier []))) = map f later.
Proof.
  apply (cache_run_transparent K V keq f keq_sound cfg later).
  apply (cache_run_transparent K V keq f keq_sound cfg earlier []). constructor.
Qed.

(* responses are a function of what parsing returned: caching is invisible in them *)
Theorem C16_responses_transparent {Req Resp} (key : Req -> K) (exec : V -> Req -> Resp) cfg (history : list Req) :
  map (fun p => exec (fst p) (snd p))
      (combine (fst (cache_run K V keq f cfg (map key history) [])) history) =
  map (fun r => exec (f (key r)) r) history.
Proof.
  rewrite C16_cache_transparent. induction history as [|r rs IH]; cbn; [reflexivity|]. now rewrite IH.
Qed.

Theorem C16_lru_bounded cap k c :
  List.length c <= cap -> List.length (snd (cache_call K V keq f (CacheLru cap) k c)) <= cap.
Proof. apply lru_bounded. Qed.

End C16.

Example C16_nonvacuous :
  fst (cache_run nat nat Nat.eqb (fun k => k * k) (CacheLru 1) [3; 3; 4; 3; 4; 4] []) = [9; 9; 16; 9; 16; 16].
Proof. reflexivity. Qed.

Print Assumptions C16_cache_transparent.
Print Assumptions C16_history_leaves_no_trace.
Print Assumptions C16_responses_transparent.
Print Assumptions C16_lru_bounded.
