(* C07 — the two RECORDED FINDINGS as theorems about the faithful implementation model (known_findings.json):
   the full statement "a document violating a supported rule is refused" is FALSE of the model -- and of the engine,
   where the same requests are the replays -- in exactly two regions.  Witnesses evaluated by vm_compute. *)
From Coq Require Import ZArith List String Bool.
From TV Require Import Py.Prelude Model.Schema Model.ImplInput Model.ImplValidate Model.SpecValidate Model.RunValidate.
Import ListNotations.
Open Scope string_scope.
Open Scope list_scope.

Definition no_scalars : string -> option scalar_ops := fun _ => None.
Definition L0 : loc := (1, 1)%Z.

(* schema: input In { a: Int }   interface Named { name: String }   type Dog implements Named { name: String }
           type Query { echo(i: In): Int  named: Named } *)
Definition f_schema : schema :=
  {| types := [("Int", DScalar); ("String", DScalar); ("Boolean", DScalar);
               ("In", DInput [{| in_name := "a"; in_type := TNamed "Int"; in_default := None |}]);
               ("Named", DInterface [{| fd_name := "name"; fd_type := TNamed "String"; fd_args := [] |}]);
               ("Dog", DObject ["Named"] [{| fd_name := "name"; fd_type := TNamed "String"; fd_args := [] |}]);
               ("Query", DObject [] [{| fd_name := "echo"; fd_type := TNamed "Int";
                                        fd_args := [{| in_name := "i"; in_type := TNamed "In"; in_default := None |}] |};
                                     {| fd_name := "named"; fd_type := TNamed "Named"; fd_args := [] |}])];
     query_type := "Query"; mutation_type := None; subscription_type := None; scalars := no_scalars |}.
Definition f_V : vschema := {| vs := f_schema; vs_dirs := [] |}.

(* query ($s: String) { echo(i: {a: $s}) } *)
Definition doc_nested : document :=
  {| operations := [{| o_kind := OpQuery; o_name := None;
                       o_vars := [{| v_name := "s"; v_type := TNamed "String"; v_default := None; v_loc := L0 |}];
                       o_dirs := [];
                       o_sels := [SField L0 None "echo" [{| a_name := "i"; a_value := LObj L0 [("a", LVar L0 "s")]; a_loc := L0 |}] [] []];
                       o_loc := L0 |}];
     fragments := [] |}.

(* { named { __typename(x: 1) } } *)
Definition doc_typename : document :=
  {| operations := [{| o_kind := OpQuery; o_name := None; o_vars := []; o_dirs := [];
                       o_sels := [SField L0 None "named" [] []
                                    [SField L0 None "__typename" [{| a_name := "x"; a_value := LInt L0 (PStr "1"); a_loc := L0 |}] [] []]];
                       o_loc := L0 |}];
     fragments := [] |}.

(* C07-nested-variable-usage: a String variable nested in an object literal at an Int position breaks rule 5.8.5
   (the specification's predicate is false) yet the document is accepted *)
Theorem C07_nested_variable_usage_refuted :
  r_usages_allowed f_V doc_nested = false /\ accepted f_V doc_nested = true /\
  (* the rule restricted to directly used variables -- the region of the finding -- holds *)
  r_usages_allowed_direct f_V doc_nested = true.
Proof. vm_compute. repeat split; reflexivity. Qed.

(* C07-interface-typename-arguments: an unknown argument on `__typename` in an interface scope breaks argument-names
   (the specification's predicate is false) yet the document is accepted *)
Theorem C07_interface_typename_arguments_refuted :
  r_argument_names f_V doc_typename = false /\ accepted f_V doc_typename = true /\
  r_argument_names_engine_lookup f_V doc_typename = true.
Proof. vm_compute. repeat split; reflexivity. Qed.

Print Assumptions C07_nested_variable_usage_refuted.
Print Assumptions C07_interface_typename_arguments_refuted.
