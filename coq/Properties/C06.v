(* C06 — valid documents are never refused by validation.
   Statements only.  Model/ImplValidate.v transcribes the walk of transformers.py with its shared
   context and the 26 rules; Model/SpecValidate.v states the rules after the specification.
   Proved here (for every schema and document): the soundness of the rules the property singles
   out -- an acyclic fragment graph (sharing, repeated spreads, any definition order) is never
   reported as a cycle; the six uniqueness rules report nothing when the names are distinct -- and
   that a document without validation error is handed to execution unchanged.
   PARTIAL: `spec_validb V doc = true -> impl_validate V doc = VErrors []` for ALL rules together is
   not proved; the check decides it per document (specification verdict inside Coq vs the real
   engine) and ties the implementation model to the engine by comparing error sets. *)
From Coq Require Import ZArith List String Bool.
From TV Require Import Py.Prelude Model.Schema Model.ImplInput Model.ImplExec Model.Envelope
     Model.ImplValidate Model.SpecValidate Model.RunValidate Proofs.ValidateProofs Proofs.ValidateRules Proofs.ValidateValues Proofs.ValidateSites Proofs.ValidateWalk Proofs.ValidateTree Proofs.SingleRoot Proofs.ValidateSpreads Proofs.ValidateScopes Proofs.ValidatePure.
Import ListNotations.
Open Scope string_scope.
Open Scope list_scope.

(* fragments may share sub-fragments, be spread any number of times, be defined in any order:
   whenever no fragment reaches itself (a rank decreases along every spread edge between defined
   fragments) the cycle rule reports nothing and does not run out of fuel *)
Theorem C06_acyclic_fragments_accepted frs : acyclic frs -> cycle_rule frs = Some [].
Proof. exact (cycle_rule_sound frs). Qed.

(* the uniqueness rules never fire on distinct names *)
Theorem C06_distinct_operation_names_accepted doc :
  r_operation_names doc = true -> operation_name_errors (operations doc) = [].
Proof. apply operation_names_rule. Qed.
Theorem C06_distinct_fragment_names_accepted doc :
  r_fragment_names doc = true -> fragment_name_errors (fragments doc) = [].
Proof. apply fragment_names_rule. Qed.
Theorem C06_distinct_variables_accepted vds :
  nodupb (map v_name vds) = true -> uniq_errors "variable-uniqueness" v_name v_loc None vds = [].
Proof. apply variable_uniqueness_rule. Qed.
Theorem C06_distinct_arguments_accepted path args :
  nodupb (map a_name args) = true -> uniq_errors "argument-uniqueness" a_name a_loc path args = [].
Proof. apply argument_uniqueness_rule. Qed.
Theorem C06_distinct_directives_accepted path ds :
  nodupb (map d_name ds) = true -> uniq_errors "directives-are-unique-per-location" d_name d_loc path ds = [].
Proof. apply directive_uniqueness_rule. Qed.
Theorem C06_distinct_input_fields_accepted path (fields : list (string * lit)) :
  nodupb (map fst fields) = true ->
  uniq_errors "input-object-field-uniqueness" fst (fun kv => lit_loc (snd kv)) path fields = [].
Proof. apply input_field_uniqueness_rule. Qed.

(* three more rules proved exact for every schema and document (Proofs/ValidateRules.v); here the
   direction C06 needs: what the specification allows is not reported.  The last two read the list
   of spreads the walk accumulates in its shared context: that list is exactly the document's. *)
Theorem C06_lone_anonymous_accepted doc :
  r_lone_anonymous doc = true -> lone_anonymous_errors (operations doc) = [].
Proof. apply lone_anonymous_exact_doc. Qed.
Theorem C06_used_fragments_accepted V doc :
  r_fragments_used V doc = true -> must_be_used_errors (fragments doc) (frag_spreads (walked V doc)) = [].
Proof. apply must_be_used_exact. Qed.
Theorem C06_defined_spread_targets_accepted V doc :
  r_spread_targets V doc = true -> spread_target_errors (fragments doc) (frag_spreads (walked V doc)) = [].
Proof. apply spread_targets_exact. Qed.
Theorem C06_walk_records_exactly_the_documents_spreads V doc :
  map fst (frag_spreads (walked V doc)) = spread_names V doc.
Proof. symmetry. apply spread_names_are_the_walks. Qed.
Theorem C06_rules_read_the_documents_spreads V doc :
  frag_spreads (walked V doc) = doc_spreads doc.
Proof. apply walked_spreads. Qed.

(* THE WALK IS A PURE FUNCTION OF THE TYPE SCOPE (Proofs/ValidateWalk.v): from EVERY state of the shared
   context, walking a selection appends exactly sel_errs -- defined by recursion on the selection with the
   scope handed down as the parent_type bookkeeping does -- or ends crashed when a rule raises, and restores
   the scope.  A state already refused stays as it is. *)
Theorem C06_walk_is_a_function_of_the_scope V path s st :
  obs st (walk_selection V path s st) (sel_errs V (parent_type st) path s) /\
  parent_type (walk_selection V path s st) = parent_type st.
Proof. exact (walk_selection_obs V path s st). Qed.

(* ACCEPTANCE DECOMPOSED: a document reaches the executor exactly when the walk phase and every
   document-level rule report nothing and none raises *)
Theorem C06_acceptance_decomposed V doc :
  accepted V doc = true <->
  quiet (walk_phase_errs V doc) /\
  (quiet (cycle_rule (fragments doc)) /\ operation_name_errors (operations doc) = [] /\
   lone_anonymous_errors (operations doc) = [] /\
   quiet (single_root_rule doc) /\ fragment_name_errors (fragments doc) = [] /\
   spread_target_errors (fragments doc) (frag_spreads (ValidateWalk.walked V doc)) = [] /\
   must_be_used_errors (fragments doc) (frag_spreads (ValidateWalk.walked V doc)) = [] /\
   inline_possible_errors V (inlined_in (ValidateWalk.walked V doc)) ++
     spread_possible_errors V (fragments doc) (spreaded_in (ValidateWalk.walked V doc)) = [] /\
   quiet (uses_defined_rule (ValidateWalk.walked V doc) (operations doc)) /\
   quiet (variables_used_rule (ValidateWalk.walked V doc) (operations doc)) /\
   quiet (usages_allowed_rule V (ValidateWalk.walked V doc) (operations doc))).
Proof. rewrite accepted_iff_clean. apply validate_clean_iff. Qed.

(* 5.6.1 values of correct type, exact at every depth (list items, input-object fields, self-referential input
   types): a literal the specification accepts for its expected type leaves the rule's accumulator untouched.
   Hypotheses: expected types are input types (what C12 guarantees of every schema an engine is built from). *)
Theorem C06_correct_values_accepted V
  (Hin : forall n ifs f, vfind_type V n = Some (DInput ifs) -> In f ifs -> input_ty V (in_type f))
  v path argloc c acc :
  input_ty V c -> value_ok V v c = true -> vct V path argloc v c acc = Some acc.
Proof. intros Hc H. exact (proj1 (vct_exact V Hin v path argloc c acc Hc) H). Qed.

Theorem C06_correct_arguments_accepted V
  (Hin : forall n ifs f, vfind_type V n = Some (DInput ifs) -> In f ifs -> input_ty V (in_type f))
  path ds args :
  (forall d, In d ds -> input_ty V (in_type d)) -> args_ok V ds args = true ->
  vct_arguments V path (Some ds) args = Some [].
Proof. intros Hd H. exact (proj1 (vct_arguments_exact V Hin path ds args Hd) H). Qed.

(* one field node: the six rules run at a field are quiet EXACTLY when the specification's predicates hold at
   that site (directive locations, field exists, leaf selection, values / names / required arguments) *)
Theorem C06_field_node_exact V
  (Hin : forall n ifs f, vfind_type V n = Some (DInput ifs) -> In f ifs -> input_ty V (in_type f))
  scope path l name args dirs hs :
  (forall f d, vfind_field V scope name = Some f -> In d (fd_args f) -> input_ty V (in_type d)) ->
  (field_rules_errs V scope path l name args dirs hs = Some [] <->
   forallb (fun d => match s_directive V (d_name d) with Some dd => mem_str "FIELD" (dd_locs dd) | None => true end) dirs = true /\
   (String.eqb name "__typename" = true \/ field_reduced_type V scope name <> None) /\
   (forall d, field_reduced_type V scope name = Some d -> Bool.eqb hs (is_composite_def d) = true) /\
   (forall f, vfind_field V scope name = Some f ->
      args_ok V (fd_args f) args = true /\
      forallb (fun a => existsb (fun d => String.eqb (in_name d) (a_name a)) (fd_args f)) args = true /\
      forallb (fun d => negb (is_non_null (in_type d)) || match in_default d with Some _ => true | None => false end ||
                        existsb (fun a => String.eqb (a_name a) (in_name d)) args) (fd_args f) = true)).
Proof. exact (field_node_quiet V Hin scope path l name args dirs hs). Qed.

(* ACCEPTANCE CHARACTERISED (Proofs/ValidateTree.v): the engine hands a document to execution EXACTLY when
   every node of every selection tree satisfies the specification's predicates at that node (`doc_walk_ok`:
   argument names / uniqueness / required arguments, values of correct type at every depth, input-field
   uniqueness inside literals, directives defined / unique / in valid locations with their own argument
   rules, field exists, leaf selections, type conditions existing and composite, variable definitions) with
   the scope handed down the tree, the fragment graph is acyclic, operation and fragment names are unique,
   an anonymous operation is alone, every spread names a defined fragment, every fragment is used -- and the
   five rule functions not yet related to the specification (single root field, possible spreads, the three
   variable rules) report nothing.  Hypotheses: expected types of values are input types (C12). *)
Theorem C06_acceptance_characterised V
  (Hin : forall n ifs f, vfind_type V n = Some (DInput ifs) -> In f ifs -> input_ty V (in_type f))
  (Hfields : forall scope name f d, vfind_field V scope name = Some f -> In d (fd_args f) -> input_ty V (in_type d))
  (Hdirs : forall n dd d, vfind_directive V n = Some dd -> In d (dd_args dd) -> input_ty V (in_type d)) doc :
  accepted V doc = true <->
  doc_walk_ok V doc = true /\
  acyclic (fragments doc) /\ r_operation_names doc = true /\ r_lone_anonymous doc = true /\
  r_fragment_names doc = true /\ r_spread_targets V doc = true /\ r_fragments_used V doc = true /\
  quiet (single_root_rule doc) /\
  inline_possible_errors V (inlined_in (ValidateWalk.walked V doc)) ++
    spread_possible_errors V (fragments doc) (spreaded_in (ValidateWalk.walked V doc)) = [] /\
  quiet (uses_defined_rule (ValidateWalk.walked V doc) (operations doc)) /\
  quiet (variables_used_rule (ValidateWalk.walked V doc) (operations doc)) /\
  quiet (usages_allowed_rule V (ValidateWalk.walked V doc) (operations doc)).
Proof. exact (accepted_characterised V Hin Hfields Hdirs doc). Qed.

(* a document the walk accepts is executed: the response is that of the executor on that document *)
Theorem C06_accepted_documents_run {A} (coercer : gerr -> A) V U cfg doc opname raw root :
  impl_validate V doc = VErrors [] ->
  validate_and_execute coercer V U cfg doc opname raw root =
  engine_execute A coercer (vs V) U cfg (PDoc doc) opname raw root.
Proof. intros H. unfold validate_and_execute, parsed_of. now rewrite H. Qed.

(* non-vacuity: a diamond with a repeated spread, defined after use *)
Definition F (n : string) (sels : list selection) : fragment :=
  {| fr_name := n; fr_type := "Query"; fr_dirs := []; fr_sels := sels; fr_loc := (1, 1)%Z |}.
Definition sp (n : string) : selection := SSpread (1, 1)%Z n [].
Definition diamond : list fragment :=
  [F "A" [sp "B"; sp "C"; sp "B"]; F "B" [sp "D"]; F "C" [SField (1, 1)%Z None "x" [] [] [sp "D"]]; F "D" []].
Example C06_diamond_is_acyclic : acyclic diamond.
Proof.
  exists (fun n => if String.eqb n "A" then 3 else if String.eqb n "D" then 1 else 2)%nat.
  intros f n g Hf Hn Hg.
  repeat (destruct Hf as [<-|Hf]; [cbn in Hn; repeat (destruct Hn as [<-|Hn]; [vm_compute in Hg; inversion Hg; subst; vm_compute; auto with arith|]); try contradiction|]).
  contradiction.
Qed.
Example C06_diamond_not_reported : cycle_rule diamond = Some [].
Proof. vm_compute. reflexivity. Qed.

(* 5.2.3.1 single root field: a document whose subscriptions each reach ONE response key at the root --
   however often it is written, directly, through inline fragments and through fragment spreads (shared,
   repeated, nested) -- is not refused by the rule *)
Theorem C06_one_root_key_written_many_times_accepted doc errs :
  (forall o, In o (operations doc) -> o_kind o = OpSubscription ->
             exists k0, forall k, reachable_key (fragments doc) (o_sels o) k -> k = k0) ->
  single_root_rule doc = Some errs -> errs = [].
Proof. exact (single_root_rule_accepts doc errs). Qed.

(* 5.5.2.3: a document whose inline fragments and spreads of defined fragments can all apply where they are written is
   not reported by the rule *)
Theorem C06_possible_spreads_accepted V doc :
  (forall scope tc l, In (scope, (tc, l)) (doc_inl V doc) -> applies_in V scope tc = true) ->
  (forall scope n l p f, In (scope, (n, l, p)) (doc_spr V doc) -> find_fragment (fragments doc) n = Some f ->
                         applies_in V scope (Some (fr_type f)) = true) ->
  inline_possible_errors V (inlined_in (ValidateWalk.walked V doc)) ++
  spread_possible_errors V (fragments doc) (spreaded_in (ValidateWalk.walked V doc)) = [].
Proof. intros H1 H2. apply (possible_spreads_exact V doc). split; assumption. Qed.

(* ACCEPTANCE IS A PREDICATE OF THE DOCUMENT: no conjunct mentions the shared, mutable walk context any more.  The books
   the variable rules read (variables used, arguments whose value is a variable, spreads -- per operation and per fragment)
   are a pure function of the document (`books_ctx`), and so are the recorded inline fragments and spreads. *)
Theorem C06_walk_books_are_a_function_of_the_document V doc :
  per_op (ValidateWalk.walked V doc) = doc_per_op V doc /\ per_frag (ValidateWalk.walked V doc) = doc_per_frag V doc.
Proof. exact (walked_scopes V doc). Qed.

Theorem C06_acceptance_is_a_predicate_of_the_document V
  (Hin : forall n ifs f, vfind_type V n = Some (DInput ifs) -> In f ifs -> input_ty V (in_type f))
  (Hfields : forall scope name f d, vfind_field V scope name = Some f -> In d (fd_args f) -> input_ty V (in_type d))
  (Hdirs : forall n dd d, vfind_directive V n = Some dd -> In d (dd_args dd) -> input_ty V (in_type d)) doc :
  accepted V doc = true <->
  doc_walk_ok V doc = true /\
  acyclic (fragments doc) /\ r_operation_names doc = true /\ r_lone_anonymous doc = true /\
  r_fragment_names doc = true /\ r_spread_targets V doc = true /\ r_fragments_used V doc = true /\
  quiet (single_root_rule doc) /\
  ((forall scope tc l, In (scope, (tc, l)) (doc_inl V doc) -> applies_in V scope tc = true) /\
   (forall scope n l p f, In (scope, (n, l, p)) (doc_spr V doc) -> find_fragment (fragments doc) n = Some f ->
                          applies_in V scope (Some (fr_type f)) = true)) /\
  quiet (uses_defined_rule (books_ctx V doc) (operations doc)) /\
  quiet (variables_used_rule (books_ctx V doc) (operations doc)) /\
  quiet (usages_allowed_rule V (books_ctx V doc) (operations doc)).
Proof. exact (accepted_is_a_predicate_of_the_document V Hin Hfields Hdirs doc). Qed.

Print Assumptions C06_acyclic_fragments_accepted.
Print Assumptions C06_distinct_operation_names_accepted.
Print Assumptions C06_distinct_fragment_names_accepted.
Print Assumptions C06_distinct_variables_accepted.
Print Assumptions C06_distinct_arguments_accepted.
Print Assumptions C06_distinct_directives_accepted.
Print Assumptions C06_distinct_input_fields_accepted.
Print Assumptions C06_accepted_documents_run.
Print Assumptions C06_lone_anonymous_accepted.
Print Assumptions C06_used_fragments_accepted.
Print Assumptions C06_defined_spread_targets_accepted.
Print Assumptions C06_walk_records_exactly_the_documents_spreads.
Print Assumptions C06_rules_read_the_documents_spreads.
Print Assumptions C06_walk_is_a_function_of_the_scope.
Print Assumptions C06_acceptance_decomposed.
Print Assumptions C06_correct_values_accepted.
Print Assumptions C06_correct_arguments_accepted.
Print Assumptions C06_field_node_exact.
Print Assumptions C06_acceptance_characterised.
Print Assumptions C06_one_root_key_written_many_times_accepted.
Print Assumptions C06_possible_spreads_accepted.
Print Assumptions C06_walk_books_are_a_function_of_the_document.
Print Assumptions C06_acceptance_is_a_predicate_of_the_document.
