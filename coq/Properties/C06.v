(* C06 — valid documents are never refused by validation.
   Statements only.  Model/ImplValidate.v transcribes the walk of transformers.py with its shared
   context and the 26 rules; Model/SpecValidate.v states the rules after the specification.
   Proved here (for every schema and document): the soundness of the rules the property singles
   out -- an acyclic fragment graph (sharing, repeated spreads, any definition order) is never
   reported as a cycle; the six uniqueness rules report nothing when the names are distinct -- and
   that a document without validation error is handed to execution unchanged.
   PARTIAL: `spec_validb V doc = true -> impl_validate V doc = VErrors []` for ALL rules together is
   not proved; the check decides it per document (specification verdict inside Coq vs the real
   engine) and ties the implementation model to the engine by comparing error sets. *)
From Coq Require Import ZArith List String Bool.
From TV Require Import Py.Prelude Model.Schema Model.ImplInput Model.ImplExec Model.Envelope
     Model.ImplValidate Model.SpecValidate Model.RunValidate Proofs.ValidateProofs Proofs.ValidateRules.
Import ListNotations.
Open Scope string_scope.
Open Scope list_scope.

(* fragments may share sub-fragments, be spread any number of times, be defined in any order:
   whenever no fragment reaches itself (a rank decreases along every spread edge between defined
   fragments) the cycle rule reports nothing and does not run out of fuel *)
Theorem C06_acyclic_fragments_accepted frs : acyclic frs -> cycle_rule frs = Some [].
Proof. exact (cycle_rule_sound frs). Qed.

(* the uniqueness rules never fire on distinct names *)
Theorem C06_distinct_operation_names_accepted doc :
  r_operation_names doc = true -> operation_name_errors (operations doc) = [].
Proof. apply operation_names_rule. Qed.
Theorem C06_distinct_fragment_names_accepted doc :
  r_fragment_names doc = true -> fragment_name_errors (fragments doc) = [].
Proof. apply fragment_names_rule. Qed.
Theorem C06_distinct_variables_accepted vds :
  nodupb (map v_name vds) = true -> uniq_errors "variable-uniqueness" v_name v_loc None vds = [].
Proof. apply variable_uniqueness_rule. Qed.
Theorem C06_distinct_arguments_accepted path args :
  nodupb (map a_name args) = true -> uniq_errors "argument-uniqueness" a_name a_loc path args = [].
Proof. apply argument_uniqueness_rule. Qed.
Theorem C06_distinct_directives_accepted path ds :
  nodupb (map d_name ds) = true -> uniq_errors "directives-are-unique-per-location" d_name d_loc path ds = [].
Proof. apply directive_uniqueness_rule. Qed.
Theorem C06_distinct_input_fields_accepted path (fields : list (string * lit)) :
  nodupb (map fst fields) = true ->
  uniq_errors "input-object-field-uniqueness" fst (fun kv => lit_loc (snd kv)) path fields = [].
Proof. apply input_field_uniqueness_rule. Qed.

(* three more rules proved exact for every schema and document (Proofs/ValidateRules.v); here the
   direction C06 needs: what the specification allows is not reported.  The last two read the list
   of spreads the walk accumulates in its shared context: that list is exactly the document's. *)
Theorem C06_lone_anonymous_accepted doc :
  r_lone_anonymous doc = true -> lone_anonymous_errors (operations doc) = [].
Proof. apply lone_anonymous_exact_doc. Qed.
Theorem C06_used_fragments_accepted V doc :
  r_fragments_used V doc = true -> must_be_used_errors (fragments doc) (frag_spreads (walked V doc)) = [].
Proof. apply must_be_used_exact. Qed.
Theorem C06_defined_spread_targets_accepted V doc :
  r_spread_targets V doc = true -> spread_target_errors (fragments doc) (frag_spreads (walked V doc)) = [].
Proof. apply spread_targets_exact. Qed.
Theorem C06_walk_records_exactly_the_documents_spreads V doc :
  map fst (frag_spreads (walked V doc)) = spread_names V doc.
Proof. symmetry. apply spread_names_are_the_walks. Qed.
Theorem C06_rules_read_the_documents_spreads V doc :
  frag_spreads (walked V doc) = doc_spreads doc.
Proof. apply walked_spreads. Qed.

(* a document the walk accepts is executed: the response is that of the executor on that document *)
Theorem C06_accepted_documents_run {A} (coercer : gerr -> A) V U cfg doc opname raw root :
  impl_validate V doc = VErrors [] ->
  validate_and_execute coercer V U cfg doc opname raw root =
  engine_execute A coercer (vs V) U cfg (PDoc doc) opname raw root.
Proof. intros H. unfold validate_and_execute, parsed_of. now rewrite H. Qed.

(* non-vacuity: a diamond with a repeated spread, defined after use *)
Definition F (n : string) (sels : list selection) : fragment :=
  {| fr_name := n; fr_type := "Query"; fr_dirs := []; fr_sels := sels; fr_loc := (1, 1)%Z |}.
Definition sp (n : string) : selection := SSpread (1, 1)%Z n [].
Definition diamond : list fragment :=
  [F "A" [sp "B"; sp "C"; sp "B"]; F "B" [sp "D"]; F "C" [SField (1, 1)%Z None "x" [] [] [sp "D"]]; F "D" []].
Example C06_diamond_is_acyclic : acyclic diamond.
Proof.
  exists (fun n => if String.eqb n "A" then 3 else if String.eqb n "D" then 1 else 2)%nat.
  intros f n g Hf Hn Hg.
  repeat (destruct Hf as [<-|Hf]; [cbn in Hn; repeat (destruct Hn as [<-|Hn]; [vm_compute in Hg; inversion Hg; subst; vm_compute; auto with arith|]); try contradiction|]).
  contradiction.
Qed.
Example C06_diamond_not_reported : cycle_rule diamond = Some [].
Proof. vm_compute. reflexivity. Qed.

Print Assumptions C06_acyclic_fragments_accepted.
Print Assumptions C06_distinct_operation_names_accepted.
Print Assumptions C06_distinct_fragment_names_accepted.
Print Assumptions C06_distinct_variables_accepted.
Print Assumptions C06_distinct_arguments_accepted.
Print Assumptions C06_distinct_directives_accepted.
Print Assumptions C06_distinct_input_fields_accepted.
Print Assumptions C06_accepted_documents_run.
Print Assumptions C06_lone_anonymous_accepted.
Print Assumptions C06_used_fragments_accepted.
Print Assumptions C06_defined_spread_targets_accepted.
Print Assumptions C06_walk_records_exactly_the_documents_spreads.
Print Assumptions C06_rules_read_the_documents_spreads.
