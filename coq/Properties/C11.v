(* C11 — introspection describes exactly the schema that was supplied.
   Statements only.  Model/Introspect.v computes, from the schema object the build model
   (Model/SchemaBuild.v: definitions, merged extensions, built-ins) produces, what `__schema` and
   `__type` report.  Proved for every SDL model that builds: the reported type names are exactly
   the declared ones plus the engine's built-in scalars (nothing missing, nothing extra, no meta
   type); `__type(name:)` returns the entry of `__schema.types` and null for unknown names;
   includeDeprecated filters exactly the deprecated members; the possibleTypes of an interface are
   exactly the objects declaring it (extensions included); the reported fields of a type are
   exactly its declared (and extension-added) fields that are neither injected `__` fields nor
   hidden by @nonIntrospectable.
   PARTIAL: the lark grammar, the lark -> AST transformers, file reading / globbing and the
   executor walking the schema objects are exercised by the correspondence check only (model ->
   SDL text supplied four ways -> real engine -> introspection -> compared inside Coq). *)
From Coq Require Import ZArith List String Bool.
From TV Require Import Py.Prelude Model.Schema Model.ImplValidate Model.SchemaBuild Model.Introspect Proofs.IntrospectProofs Proofs.IntrospectExt.
Import ListNotations.
Open Scope string_scope.
Open Scope list_scope.

Theorem C11_types_exact s g :
  impl_build s = Built g ->
  map it_name (is_types (introspect g)) =
  filter (fun n => negb (prefix "__" n)) (map td_name (s_types s ++ builtin_types)).
Proof. exact (built_type_names s g). Qed.

Theorem C11_type_by_name_agrees g n ti :
  introspect_type g n = Some ti -> prefix "__" n = false -> In ti (is_types (introspect g)) /\ it_name ti = n.
Proof. exact (type_by_name_agrees g n ti). Qed.

Theorem C11_type_by_name_unknown g n : g_has_type g n = false -> introspect_type g n = None.
Proof. exact (type_by_name_unknown g n). Qed.

Theorem C11_include_deprecated_filters fs f :
  In f (without_deprecated fs) <-> In f fs /\ if_deprecated f = false.
Proof. exact (include_deprecated_filters fs f). Qed.

Theorem C11_possible_types_exact g i o :
  In o (g_implementers g i) <->
  exists t ifs fs, In t (g_types g) /\ td_name t = o /\ td_def t = DObject ifs fs /\ In i ifs.
Proof. exact (possible_types_exact g i o). Qed.

Theorem C11_reported_fields_exact g tn fs name :
  In name (map if_name (fields_of_type g tn fs)) <->
  exists f, In f fs /\ fd_name f = name /\ prefix "__" name = false /\ hidden g tn name = false.
Proof. exact (reported_fields_exact g tn fs name). Qed.

(* `extend` definitions: after a type extension is merged, __type(name:) describes the definition with the extension's
   members (and directives) added -- enum values, union members and implemented interfaces appended in order *)
Theorem C11_extension_is_reported g n t d dirs :
  find_tdecl (g_types g) n = Some t ->
  introspect_type (apply_ext g (XType n d dirs)) n = Some (type_info (apply_ext g (XType n d dirs)) (extended t d dirs)).
Proof. exact (extension_is_reported g n t d dirs). Qed.

Theorem C11_extended_enum_values_reported g n t vs xs dirs :
  find_tdecl (g_types g) n = Some t -> td_def t = DEnum vs ->
  exists ti, introspect_type (apply_ext g (XType n (DEnum xs) dirs)) n = Some ti /\
             option_map (map fst) (it_enum ti) = Some (vs ++ xs).
Proof. exact (extended_enum_values_reported g n t vs xs dirs). Qed.

Theorem C11_extended_union_members_reported g n t ms xs dirs :
  find_tdecl (g_types g) n = Some t -> td_def t = DUnion ms ->
  exists ti, introspect_type (apply_ext g (XType n (DUnion xs) dirs)) n = Some ti /\ it_possible ti = Some (ms ++ xs).
Proof. exact (extended_union_members_reported g n t ms xs dirs). Qed.

Theorem C11_extended_object_interfaces_reported g n t ifs fs xifs xfs dirs :
  find_tdecl (g_types g) n = Some t -> td_def t = DObject ifs fs ->
  exists ti, introspect_type (apply_ext g (XType n (DObject xifs xfs) dirs)) n = Some ti /\ it_interfaces ti = Some (ifs ++ xifs).
Proof. exact (extended_object_interfaces_reported g n t ifs fs xifs xfs dirs). Qed.

(* non-vacuity: an interface whose implementer is declared BEFORE it and extended afterwards *)
Definition T (n : string) (d : typedef) : tdecl := {| td_name := n; td_def := d; td_dirs := [] |}.
Definition F (n : string) (t : ty) : field_def := {| fd_name := n; fd_type := t; fd_args := [] |}.
Definition demo : sdl :=
  {| s_types := [T "Dog" (DObject ["Named"] [F "name" (TNamed "String")]); T "Named" (DInterface [F "name" (TNamed "String")]);
                 T "Query" (DObject [] [F "pet" (TNamed "Named")])];
     s_dirdefs := []; s_exts := [XType "Dog" (DObject [] [F "age" (TNonNull (TNamed "Int")); F "secret" (TNamed "Int")]) []];
     s_schema := []; s_schema_dirs := []; s_scalar_impls := [];
     s_member_dirs := [("Dog", "secret", ["nonIntrospectable"]); ("Dog", "age", ["deprecated"])] |}.
Example C11_demo :
  match impl_build demo with
  | Built g =>
      g_implementers g "Named" = ["Dog"] /\
      match introspect_type g "Dog" with
      | Some ti => option_map (map (fun f => (if_name f, if_deprecated f))) (it_fields ti) = Some [("name", false); ("age", true)]
      | None => False
      end /\ introspect_type g "Nope" = None
  | _ => False
  end.
Proof. vm_compute. repeat split. Qed.

Print Assumptions C11_types_exact.
Print Assumptions C11_type_by_name_agrees.
Print Assumptions C11_type_by_name_unknown.
Print Assumptions C11_include_deprecated_filters.
Print Assumptions C11_possible_types_exact.
Print Assumptions C11_reported_fields_exact.
Print Assumptions C11_extension_is_reported.
Print Assumptions C11_extended_enum_values_reported.
Print Assumptions C11_extended_union_members_reported.
Print Assumptions C11_extended_object_interfaces_reported.
