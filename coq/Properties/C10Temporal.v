(* C10, Date / Time / DateTime.  Statements are about the definitions of Gen/Temporal_gen.v, whose
   parameters (strptime formats, the part of isoformat() returned) the translator EXTRACTS from
   scalar/builtins/date.py, time.py, datetime.py on every run; the library calls themselves
   (datetime.strptime, isoformat, str.split) are modelled in Model/Temporal.v and tied to the
   interpreter by the C10 correspondence check.  Quantified over ALL dates and times.
   Statements only. *)
From Coq Require Import ZArith List String Bool Lia.
From TV Require Import Py.Prelude Gen.Scalars_gen Model.Temporal Gen.Temporal_gen Proofs.TemporalLaws.
Import ListNotations.
Open Scope string_scope.
Open Scope Z_scope.

(* what the source says now *)
Theorem C10_temporal_parameters :
  date_input_format = "%Y-%m-%d" /\ date_literal_format = "%Y-%m-%d" /\ date_output_sel = Some 0%nat /\
  time_input_format = "%H:%M:%S" /\ time_literal_format = "%H:%M:%S" /\ time_output_sel = Some 1%nat /\
  datetime_input_format = "%Y-%m-%dT%H:%M:%S" /\ datetime_literal_format = "%Y-%m-%dT%H:%M:%S" /\ datetime_output_sel = None.
Proof. do 8 (split; [reflexivity|]). reflexivity. Qed.

Section C10T.
Variable O : oracles.

(* ---- input coercion accepts the canonical spelling of every real date / time, denoting it ---- *)
Theorem C10_date_input_canonical y m d :
  valid_date y m d = true -> date_coerce_input O (PStr (iso_date y m d)) = Ok (mk_datetime y m d 0 0 0 0).
Proof. intros H. unfold date_coerce_input, date_input_format. rewrite input_of_string, (strptime_date y m d H). reflexivity. Qed.

Theorem C10_time_input_canonical h mi s :
  valid_time h mi s = true -> time_coerce_input O (PStr (iso_time h mi s 0)) = Ok (mk_datetime 1900 1 1 h mi s 0).
Proof. intros H. unfold time_coerce_input, time_input_format. rewrite input_of_string, (strptime_time h mi s H). reflexivity. Qed.

Theorem C10_datetime_input_canonical y m d h mi s :
  valid_date y m d = true -> valid_time h mi s = true ->
  datetime_coerce_input O (PStr (iso_date y m d ++ "T" ++ iso_time h mi s 0)) = Ok (mk_datetime y m d h mi s 0).
Proof.
  intros H1 H2. unfold datetime_coerce_input, datetime_input_format.
  rewrite input_of_string, (strptime_datetime y m d h mi s H1 H2). reflexivity.
Qed.

(* ---- ... and nothing but strings denoting real calendar / clock values ---- *)
Theorem C10_date_input_exact v r :
  date_coerce_input O v = Ok r ->
  exists s y m d, v = PStr s /\ r = mk_datetime y m d 0 0 0 0 /\ valid_date y m d = true.
Proof.
  intros H. destruct (input_only_strings _ _ _ _ H) as (s & -> & Hs).
  destruct (strptime_date_sound s r Hs) as (y & m & d & -> & Hv). exists s, y, m, d. repeat split; assumption.
Qed.

Theorem C10_time_input_exact v r :
  time_coerce_input O v = Ok r ->
  exists s h mi sec, v = PStr s /\ r = mk_datetime 1900 1 1 h mi sec 0 /\ valid_time h mi sec = true.
Proof.
  intros H. destruct (input_only_strings _ _ _ _ H) as (s & -> & Hs).
  destruct (strptime_time_sound s r Hs) as (h & mi & sec & -> & Hv). exists s, h, mi, sec. repeat split; assumption.
Qed.

Theorem C10_datetime_input_exact v r :
  datetime_coerce_input O v = Ok r ->
  exists s y m d h mi sec, v = PStr s /\ r = mk_datetime y m d h mi sec 0 /\
                           valid_date y m d = true /\ valid_time h mi sec = true.
Proof.
  intros H. destruct (input_only_strings _ _ _ _ H) as (s & -> & Hs).
  destruct (strptime_sound _ s r Hs) as (y & m & d & h & mi & sec & -> & Hv & Hw).
  exists s, y, m, d, h, mi, sec. repeat split; assumption.
Qed.

(* ---- result coercion of a well-formed datetime renders the canonical text of the same value ---- *)
Theorem C10_date_output y m d h mi s us :
  valid_date y m d = true -> valid_time h mi s = true -> 0 <= us <= 999999 ->
  date_coerce_output O (mk_datetime y m d h mi s us) = Ok (PStr (iso_date y m d)).
Proof. exact (output_part0 O y m d h mi s us). Qed.

Theorem C10_time_output y m d h mi s us :
  valid_date y m d = true -> valid_time h mi s = true -> 0 <= us <= 999999 ->
  time_coerce_output O (mk_datetime y m d h mi s us) = Ok (PStr (iso_time h mi s us)).
Proof. exact (output_part1 O y m d h mi s us). Qed.

Theorem C10_datetime_output y m d h mi s us :
  datetime_coerce_output O (mk_datetime y m d h mi s us) = Ok (PStr (iso_date y m d ++ "T" ++ iso_time h mi s us)).
Proof. exact (output_whole O y m d h mi s us). Qed.

(* ---- idempotence: what input coercion produced is rendered as a text that input coercion maps back to it ---- *)
Theorem C10_date_idempotent v r :
  date_coerce_input O v = Ok r ->
  exists w, date_coerce_output O r = Ok (PStr w) /\ date_coerce_input O (PStr w) = Ok r.
Proof.
  intros H. destruct (C10_date_input_exact v r H) as (s & y & m & d & _ & -> & Hv).
  exists (iso_date y m d). split; [apply C10_date_output; [exact Hv|reflexivity|lia]|now apply C10_date_input_canonical].
Qed.

Theorem C10_time_idempotent v r :
  time_coerce_input O v = Ok r ->
  exists w, time_coerce_output O r = Ok (PStr w) /\ time_coerce_input O (PStr w) = Ok r.
Proof.
  intros H. destruct (C10_time_input_exact v r H) as (s & h & mi & sec & _ & -> & Hv).
  exists (iso_time h mi sec 0). split; [apply C10_time_output; [reflexivity|exact Hv|lia]|now apply C10_time_input_canonical].
Qed.

Theorem C10_datetime_idempotent v r :
  datetime_coerce_input O v = Ok r ->
  exists w, datetime_coerce_output O r = Ok (PStr w) /\ datetime_coerce_input O (PStr w) = Ok r.
Proof.
  intros H. destruct (C10_datetime_input_exact v r H) as (s & y & m & d & h & mi & sec & _ & -> & Hv & Hw).
  exists (iso_date y m d ++ "T" ++ iso_time h mi sec 0). split; [apply C10_datetime_output|now apply C10_datetime_input_canonical].
Qed.

(* ---- a string literal and a variable carrying the same string coerce alike; no other literal kind is accepted ---- *)
Theorem C10_date_literal_eq_variable s :
  date_parse_literal O (PAst KStringValue (PStr s)) =
  match date_coerce_input O (PStr s) with Ok r => Ok r | Raise OutOfFuel => Raise OutOfFuel | Raise _ => Ok PUndef end.
Proof. exact (literal_eq_variable _ O s). Qed.
Theorem C10_time_literal_eq_variable s :
  time_parse_literal O (PAst KStringValue (PStr s)) =
  match time_coerce_input O (PStr s) with Ok r => Ok r | Raise OutOfFuel => Raise OutOfFuel | Raise _ => Ok PUndef end.
Proof. exact (literal_eq_variable _ O s). Qed.
Theorem C10_datetime_literal_eq_variable s :
  datetime_parse_literal O (PAst KStringValue (PStr s)) =
  match datetime_coerce_input O (PStr s) with Ok r => Ok r | Raise OutOfFuel => Raise OutOfFuel | Raise _ => Ok PUndef end.
Proof. exact (literal_eq_variable _ O s). Qed.

Theorem C10_temporal_other_literals_refused fmt k v :
  k <> KStringValue -> temporal_parse_literal fmt O (PAst k v) = Ok PUndef.
Proof. intros H. unfold temporal_parse_literal. destruct k; try reflexivity. contradiction. Qed.

End C10T.

Definition O0 : oracles := {| float_of_string := fun _ => None; str_of_value := fun _ => None |}.
(* non-vacuity: a leap day, the last second of year 9999, and two refusals *)
Example C10T_examples :
  date_coerce_input O0 (PStr "2024-02-29") = Ok (mk_datetime 2024 2 29 0 0 0 0) /\
  datetime_coerce_input O0 (PStr "9999-12-31T23:59:59") = Ok (mk_datetime 9999 12 31 23 59 59 0) /\
  date_coerce_input O0 (PStr "2023-02-29") = Raise TypeError /\
  time_coerce_input O0 (PStr "24:00:00") = Raise TypeError /\
  date_coerce_input O0 (PStr "2024-2-9") = Ok (mk_datetime 2024 2 9 0 0 0 0).
Proof. repeat split; vm_compute; reflexivity. Qed.

Print Assumptions C10_temporal_parameters.
Print Assumptions C10_date_input_canonical.
Print Assumptions C10_time_input_canonical.
Print Assumptions C10_datetime_input_canonical.
Print Assumptions C10_date_input_exact.
Print Assumptions C10_time_input_exact.
Print Assumptions C10_datetime_input_exact.
Print Assumptions C10_date_output.
Print Assumptions C10_time_output.
Print Assumptions C10_datetime_output.
Print Assumptions C10_date_idempotent.
Print Assumptions C10_time_idempotent.
Print Assumptions C10_datetime_idempotent.
Print Assumptions C10_date_literal_eq_variable.
Print Assumptions C10_time_literal_eq_variable.
Print Assumptions C10_datetime_literal_eq_variable.
Print Assumptions C10_temporal_other_literals_refused.
