(* C18 — "... a `locations` list of positive line/column pairs lying inside the query text".
   Statements only.  The executor never invents a location: every location of every entry handed
   to the error coercer is one the PARSER attached to a node of the document (a field node, the
   outermost value node of an argument, a variable definition).  So for ANY predicate P on
   locations -- in particular "a positive pair inside the request text" -- that holds of the
   document's node locations, P holds of every reported location: for every schema, user code,
   configuration, operation name, variables object, initial value and total error coercer.
   Outside the model: which locations the parser attaches (stand-in), and the entries produced by
   validation (an oracle of Model/Envelope.v; checked on the real engine by the C18 harness). *)
From Coq Require Import ZArith List String Bool.
From TV Require Import Py.Prelude Model.Schema Model.ImplInput Model.ImplExec Model.Envelope
                       Proofs.ExecLocations.
Import ListNotations.
Open Scope string_scope.
Open Scope list_scope.

(* every location the executor may report comes from the document *)
Theorem C18_error_locations_come_from_the_document
        (P : loc -> Prop) A (coercer : gerr -> A) sch U cfg d opname raw root :
  doc_good P d ->
  Forall (gerr_good P)
         (e_coercer_calls A (engine_execute A coercer sch U cfg (PDoc d) opname raw root)).
Proof. exact (engine_execute_locations P A coercer sch U cfg d opname raw root). Qed.

(* the same about the state-passing executor: the response's `errors` *)
Theorem C18_response_error_locations_come_from_the_document
        (P : loc -> Prop) sch d U cfg opname raw root r :
  doc_good P d ->
  impl_execute sch d U cfg opname raw root = OVal r -> Forall (gerr_good P) (r_errors r).
Proof. exact (impl_execute_locations P sch d U cfg opname raw root r). Qed.

(* "inside the text": 1-based line within the text, 1-based column at most one past the end of
   that line; `widths` are the lengths of the lines of the request text *)
Definition in_text (widths : list Z) (l : loc) : Prop :=
  (1 <= fst l)%Z /\
  exists w, nth_error widths (Z.to_nat (fst l - 1)) = Some w /\ (1 <= snd l <= w + 1)%Z.

Corollary C18_error_locations_lie_inside_the_text
          widths A (coercer : gerr -> A) sch U cfg d opname raw root :
  doc_good (in_text widths) d ->
  Forall (fun g => Forall (in_text widths) (g_locs g))
         (e_coercer_calls A (engine_execute A coercer sch U cfg (PDoc d) opname raw root)).
Proof. exact (engine_execute_locations (in_text widths) A coercer sch U cfg d opname raw root). Qed.

(* the parser's other verdicts: a syntax error reports the parser's own location, a crash none *)
Theorem C18_syntax_error_reports_the_parsers_location A (coercer : gerr -> A) sch U cfg l opname raw root :
  map g_locs (e_coercer_calls A (engine_execute A coercer sch U cfg (PSyntaxError l) opname raw root)) = [[l]] /\
  map g_locs (e_coercer_calls A (engine_execute A coercer sch U cfg PCrash opname raw root)) = [[]].
Proof. split; reflexivity. Qed.

(* non-vacuity: the request  query($v:Int=1){a(x:$v) b}  (one line of 26 characters) with variables
   {"v": null}: rule 5.8.5 allows $v at the Int! argument because it has a default, the runtime
   null then fails field `a` (location: the argument's value, column 21); `b` resolves to an
   exception object (location: the field, column 25).  Two entries, one location each, both the
   document's own *)
Definition c18_sch : schema :=
  {| types := [("Int", DScalar); ("Query", DObject [] [ {| fd_name := "a"; fd_type := TNamed "Int";
                                          fd_args := [ {| in_name := "x"; in_type := TNonNull (TNamed "Int"); in_default := None |} ] |};
                                       {| fd_name := "b"; fd_type := TNamed "Int"; fd_args := [] |} ])];
     query_type := "Query"; mutation_type := None; subscription_type := None;
     scalars := fun n => if String.eqb n "Int" then Some {| s_input := fun v => Ok v; s_literal := fun v => Ok v; s_output := fun v => Ok v |} else None |}.
Definition c18_op : operation :=
  {| o_kind := OpQuery; o_name := None;
     o_vars := [ {| v_name := "v"; v_type := TNamed "Int"; v_default := Some (LInt (1,14)%Z (PStr "1")); v_loc := (1, 7)%Z |} ];
     o_dirs := [];
     o_sels := [SField (1,17)%Z None "a" [ {| a_name := "x"; a_value := LVar (1,21)%Z "v"; a_loc := (1,19)%Z |} ] [] [];
                SField (1,25)%Z None "b" [] [] []];
     o_loc := (1,1)%Z |}.
Definition c18_doc : document := {| operations := [c18_op]; fragments := [] |}.
Definition c18_U : usercode :=
  {| has_resolver := fun t f => String.eqb f "b";
     resolver := fun _ _ _ _ _ => URet (PExc (UserErr "boom"));
     type_resolver_kind := fun _ _ _ => TRDefault; type_resolver := fun _ _ _ => URet PNone |}.

Example C18_locations_nonvacuous :
  doc_good (in_text [26%Z]) c18_doc /\
  map g_locs (e_coercer_calls gerr (engine_execute gerr (fun g => g) c18_sch c18_U (uniform_cfg true true)
                                                   (PDoc c18_doc) None [("v", PNone)] PNone))
  = [[(1, 21)%Z]; [(1, 25)%Z]].
Proof.
  split; [|vm_compute; reflexivity].
  assert (H : forall c, (1 <= c <= 27)%Z -> in_text [26%Z] (1, c)%Z).
  { intros c Hc. split; [cbn; apply Z.le_refl|]. exists 26%Z. split; [reflexivity|exact Hc]. }
  split.
  - constructor; [|constructor]. split.
    + constructor; [|constructor]. apply H. split; discriminate.
    + cbn. repeat split; try (apply H; split; discriminate).
      * constructor; [|constructor]. apply H. split; discriminate.
      * constructor.
  - constructor.
Qed.

Print Assumptions C18_error_locations_come_from_the_document.
Print Assumptions C18_response_error_locations_come_from_the_document.
Print Assumptions C18_error_locations_lie_inside_the_text.
Print Assumptions C18_syntax_error_reports_the_parsers_location.
Print Assumptions C18_locations_nonvacuous.
