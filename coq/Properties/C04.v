(* C04 — variable values are coerced exactly as the specification prescribes.
   Statements only; proofs are in Proofs/InputRefine.v and Proofs/InputFacts.v.
   `coerce_variables` is the implementation model (coercer chains, accumulator merge loops,
   transcribed from coercers/variables.py and coercers/inputs), `spec_coerce_variables` the
   specification model (CoerceVariableValues by recursion on the declared type).  All
   statements hold for every schema (incl. ill-formed ones and arbitrary custom scalars),
   every list of variable definitions, every raw variables object and every fuel. *)
From Coq Require Import ZArith List String Bool.
From TV Require Import Py.Prelude Model.Schema Model.ImplInput Model.SpecInput
  Proofs.InputRefine Proofs.InputFacts.
Import ListNotations.
Open Scope string_scope.

Section C04.
Variable sch : schema.

(* the engine's coercer chain is CoerceValue *)
Theorem C04_input_coercer_refines_spec fuel t path v :
  get_input_coercer sch fuel t path v = spec_coerce sch fuel t path v.
Proof. exact (input_coercer_refines_spec sch fuel t path v). Qed.

(* same coerced map (absent <> null, defaults, wrapping, unknown/missing fields) or the same
   offending variables with the same errors *)
Theorem C04_coerce_variables_refines_spec fuel vds raw :
  coerce_variables sch fuel vds raw = spec_coerce_variables sch fuel vds raw.
Proof. exact (coerce_variables_refines_spec sch fuel vds raw). Qed.

(* every offending variable is reported by at least one error ... *)
Theorem C04_errors_complete fuel raw vds vals errs vd v e es :
  coerce_variables sch fuel vds raw = Ok (vals, errs) ->
  In vd vds -> spec_variable sch fuel vd raw = Ok (Some (v, e :: es)) ->
  In (v_name vd, e) errs.
Proof. rewrite C04_coerce_variables_refines_spec. apply errors_complete. Qed.

(* ... and no error is reported for a variable that did not fail *)
Theorem C04_errors_sound fuel raw vds vals errs n e :
  coerce_variables sch fuel vds raw = Ok (vals, errs) -> In (n, e) errs ->
  exists vd v es, In vd vds /\ v_name vd = n /\
                  spec_variable sch fuel vd raw = Ok (Some (v, es)) /\ In e es.
Proof. rewrite C04_coerce_variables_refines_spec. apply errors_sound. Qed.

(* a value is never delivered together with errors (per value, at every depth) *)
Theorem C04_value_xor_errors fuel t p v r :
  get_input_coercer sch fuel t p v = Ok r -> snd r <> [] -> fst r = PNone.
Proof. rewrite C04_input_coercer_refines_spec. apply spec_coerce_normal. Qed.

Theorem C04_extra_variables_ignored fuel vds raw raw' :
  (forall vd, In vd vds -> dict_get (v_name vd) raw = dict_get (v_name vd) raw') ->
  coerce_variables sch fuel vds raw = coerce_variables sch fuel vds raw'.
Proof. rewrite !C04_coerce_variables_refines_spec. apply extra_variables_ignored. Qed.

Theorem C04_absent_stays_absent fuel vd raw :
  dict_get (v_name vd) raw = None -> v_default vd = None -> is_non_null (v_type vd) = false ->
  variable_coercer sch fuel vd raw = Ok VUndefined.
Proof.
  intros. rewrite variable_coercer_refines, absent_stays_absent by assumption. reflexivity.
Qed.

Theorem C04_non_null_missing_or_null_refused fuel vd raw :
  is_non_null (v_type vd) = true -> v_default vd = None ->
  (dict_get (v_name vd) raw = None \/ dict_get (v_name vd) raw = Some PNone) ->
  exists e, variable_coercer sch fuel vd raw = Ok (VRes (PNone, [e])).
Proof.
  intros Hn Hd Hr. destruct (non_null_missing_or_null_refused sch fuel vd raw Hn Hd Hr) as [e He].
  exists e. rewrite variable_coercer_refines, He. reflexivity.
Qed.

Theorem C04_single_value_wrapped fuel t p v :
  is_none v = false -> (forall l, v <> PList l) ->
  get_input_coercer sch fuel (TList t) p v =
  bind (get_input_coercer sch fuel t p v) (fun r => Ok (wrap_single r)).
Proof. intros. rewrite !C04_input_coercer_refines_spec. now apply single_value_wrapped. Qed.

End C04.

(* ---- non-vacuity: a schema with a self-recursive input object and defaulted fields ---- *)
Definition ex_scalars (n : string) : option scalar_ops :=
  if String.eqb n "Int" then
    Some {| s_input := fun v => match v with PInt _ => Ok v | _ => Raise TypeError end;
            s_literal := fun a => match a with PAst KIntValue (PInt z) => Ok (PInt z) | _ => Ok PUndef end;
            s_output := fun v => Ok v |}
  else None.
Definition ex_schema : schema :=
  {| types := [("Int", DScalar);
               ("In", DInput [ {| in_name := "a"; in_type := TNonNull (TNamed "Int"); in_default := None |};
                               {| in_name := "b"; in_type := TList (TList (TNamed "Int"));
                                  in_default := Some (LInt (0, 0)%Z (PInt 7)) |};
                               {| in_name := "rec"; in_type := TNamed "In"; in_default := None |} ])];
     query_type := "Query"; mutation_type := None; subscription_type := None; scalars := ex_scalars |}.
Definition ex_vd : var_def := {| v_name := "v"; v_type := TNonNull (TNamed "In"); v_default := None; v_loc := (1, 8)%Z |}.

Example C04_nonvacuous :
  (* accepted: default filled in, single value wrapped twice, recursion through "rec" *)
  coerce_variables ex_schema 10 [ex_vd]
    [("v", PDict [("a", PInt 1); ("rec", PDict [("a", PInt 2); ("b", PInt 3)])]); ("extra", PInt 0)]
  = Ok ([("v", PDict [("a", PInt 1); ("b", PList [PList [PInt 7]]);
                      ("rec", PDict [("a", PInt 2); ("b", PList [PList [PInt 3]])])])], [])
  /\
  (* refused: unknown field and missing required field, both reported against $v *)
  coerce_variables ex_schema 10 [ex_vd] [("v", PDict [("zz", PInt 1)])]
  = Ok ([], [("v", (EFieldRequired, [KName "a"])); ("v", (EUnknownField, []))]).
Proof. vm_compute. split; reflexivity. Qed.

Print Assumptions C04_input_coercer_refines_spec.
Print Assumptions C04_coerce_variables_refines_spec.
Print Assumptions C04_errors_complete.
Print Assumptions C04_errors_sound.
Print Assumptions C04_value_xor_errors.
Print Assumptions C04_extra_variables_ignored.
Print Assumptions C04_absent_stays_absent.
Print Assumptions C04_non_null_missing_or_null_refused.
Print Assumptions C04_single_value_wrapped.
