(* C14 — subscriptions answer every source event once, in order.
   Statements only, about the implementation model of Engine.subscribe (Model/Subscribe.v): for
   every schema, document, user code and EVERY finite event sequence the source produces.
   PARTIAL: the async-generator protocol (aclose, consumer cancellation, interleaving of
   production and consumption) is runtime behaviour outside the model; the correspondence check
   consumes the real stream event by event. *)
From Coq Require Import ZArith List String Bool.
From TV Require Import Py.Prelude Model.Schema Model.ImplInput Model.ImplExec Model.Subscribe Model.ImplValidate Model.SubscribeValidated
     Proofs.ValidateWalk Proofs.SingleRoot Proofs.SingleRootSpreads.
Import ListNotations.
Open Scope string_scope.
Open Scope list_scope.

Section C14.
Variable sch : schema.
Variable doc : document.
Variable U : usercode.
Variable cfg : config.
Variable source : string -> list (string * pyval) -> list pyval.
Variable has_source : string -> bool.

(* one response per event, in order, each being the execution of the request against that
   event as root value (C01/C02 semantics, argument coercion included) *)
Theorem C14_subscribe_is_map opname raw args rs :
  impl_subscribe sch doc U cfg source has_source opname raw = SubStream args rs ->
  exists field, rs = map (fun payload => impl_execute sch doc U cfg opname raw payload) (source field args).
Proof.
  unfold impl_subscribe.
  destruct (select_operation doc opname) as [op|]; [|discriminate].
  destruct (coerce_variables sch 40 (o_vars op) raw) as [[vs [|e es]]|]; try discriminate.
  destruct (root_type_of sch (o_kind op)) as [rt|]; [|discriminate].
  destruct (collect_fields sch doc vs COLLECT_FUEL rt (o_sels op) [] []) as [[[|[key [|node ns]] fs] v]|]; try discriminate.
  destruct (get_field_definition sch rt (fn_name node)) as [fd|]; [|discriminate].
  destruct (negb (has_source (fd_name fd))); [discriminate|].
  destruct (coerce_arguments sch 20 (fd_args fd) (fn_loc node) (fn_args node) vs) as [[a [|e es]]|]; try discriminate.
  intros H; inversion H; subst. eauto.
Qed.

Corollary C14_one_response_per_event opname raw args rs :
  impl_subscribe sch doc U cfg source has_source opname raw = SubStream args rs ->
  exists field, List.length rs = List.length (source field args).
Proof.
  intros H. destruct (C14_subscribe_is_map _ _ _ _ H) as [f ->]. exists f. apply map_length.
Qed.

(* the i-th response depends on the i-th event only: a field failure inside one event's
   response cannot end or alter the rest of the stream *)
Corollary C14_responses_pointwise opname raw args rs :
  impl_subscribe sch doc U cfg source has_source opname raw = SubStream args rs ->
  exists field, forall i d,
    nth i rs d = nth i (map (fun payload => impl_execute sch doc U cfg opname raw payload) (source field args)) d.
Proof.
  intros H. destruct (C14_subscribe_is_map _ _ _ _ H) as [f ->]. exists f. reflexivity.
Qed.

(* a request failing operation selection or variable coercion: a single errors-only response,
   and the source is not started (no SubStream) *)
Theorem C14_refused_request_single_response opname raw r :
  impl_subscribe sch doc U cfg source has_source opname raw = SubRefused r ->
  r_data r = PNone /\ r_errors r <> [] /\ r_log r = [].
Proof.
  unfold impl_subscribe.
  destruct (select_operation doc opname) as [op|].
  - destruct (coerce_variables sch 40 (o_vars op) raw) as [[vs [|e es]]|]; try discriminate.
    + destruct (root_type_of sch (o_kind op)) as [rt|]; [|discriminate].
      destruct (collect_fields sch doc vs COLLECT_FUEL rt (o_sels op) [] []) as [[[|[key [|node ns]] fs] v]|]; try discriminate.
      destruct (get_field_definition sch rt (fn_name node)) as [fd|]; [|discriminate].
      destruct (negb (has_source (fd_name fd))); [discriminate|].
      destruct (coerce_arguments sch 20 (fd_args fd) (fn_loc node) (fn_args node) vs) as [[a [|e es]]|]; discriminate.
    + intros H; inversion H; subst. cbn. repeat split; discriminate.
  - intros H; inversion H; subst. cbn. repeat split; discriminate.
Qed.

End C14.

(* validation in front of the subscription executor (Model/SubscribeValidated.v): a document the validation walk
   refuses is answered with ONE errors-only response and no source stream is created ... *)
Theorem C14_refused_document_never_starts_the_source V U cfg source has_source doc opname raw :
  accepted V doc = false ->
  exists r, validate_and_subscribe V U cfg source has_source doc opname raw = SubRefused r /\
            r_data r = PNone /\ r_errors r <> [] /\ r_log r = [].
Proof. exact (refused_subscription_never_starts V U cfg source has_source doc opname raw). Qed.

(* ... in particular a subscription reaching two different root response keys through fields and inline fragments *)
Theorem C14_two_root_fields_never_start_the_source V U cfg source has_source doc opname raw o :
  In o (operations doc) -> o_kind o = OpSubscription -> two_root_keys (o_sels o) ->
  exists r, validate_and_subscribe V U cfg source has_source doc opname raw = SubRefused r /\ r_data r = PNone /\ r_errors r <> [].
Proof.
  intros Hin Hk Htwo.
  assert (Hacc : accepted V doc = false).
  { destruct (accepted V doc) eqn:E; [|reflexivity]. exfalso.
    apply accepted_iff_clean, validate_clean_iff in E. destruct E as (_ & _ & _ & _ & Hq & _).
    exact (single_root_rule_refuses doc o Hin Hk Htwo Hq). }
  destruct (refused_subscription_never_starts V U cfg source has_source doc opname raw Hacc) as (r & H1 & H2 & H3 & _).
  exists r. auto.
Qed.

(* ... or through any chain of fragment spreads *)
Theorem C14_two_reachable_root_fields_never_start_the_source V U cfg source has_source doc opname raw o :
  In o (operations doc) -> o_kind o = OpSubscription -> two_reachable_keys (fragments doc) (o_sels o) ->
  exists r, validate_and_subscribe V U cfg source has_source doc opname raw = SubRefused r /\ r_data r = PNone /\ r_errors r <> [].
Proof.
  intros Hin Hk Htwo.
  assert (Hacc : accepted V doc = false).
  { destruct (accepted V doc) eqn:E; [|reflexivity]. exfalso.
    apply accepted_iff_clean, validate_clean_iff in E. destruct E as (_ & _ & _ & _ & Hq & _).
    exact (single_root_rule_refuses_reachable doc o Hin Hk Htwo Hq). }
  destruct (refused_subscription_never_starts V U cfg source has_source doc opname raw Hacc) as (r & H1 & H2 & H3 & _).
  exists r. auto.
Qed.

(* an accepted document is executed by the subscription executor unchanged *)
Theorem C14_accepted_document_is_executed V U cfg source has_source doc opname raw :
  accepted V doc = true ->
  validate_and_subscribe V U cfg source has_source doc opname raw = impl_subscribe (vs V) doc U cfg source has_source opname raw.
Proof. exact (accepted_subscription_is_executed V U cfg source has_source doc opname raw). Qed.

Print Assumptions C14_subscribe_is_map.
Print Assumptions C14_one_response_per_event.
Print Assumptions C14_responses_pointwise.
Print Assumptions C14_refused_request_single_response.
Print Assumptions C14_refused_document_never_starts_the_source.
Print Assumptions C14_two_root_fields_never_start_the_source.
Print Assumptions C14_accepted_document_is_executed.
Print Assumptions C14_two_reachable_root_fields_never_start_the_source.
