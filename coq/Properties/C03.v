(* C03 — returned data conforms to schema and selection whatever resolvers return.
   Statements only, about the implementation model of execution, for every schema, document,
   variable map, configuration, fuel and EVERY user code: the resolver and type-resolver oracles
   range over the whole value universe `pyval` (wrong kinds, NaN/inf/huge numbers, strings for
   numbers, opaque objects, exception instances, unknown runtime types) and may raise. *)
From Coq Require Import ZArith List String Bool.
From TV Require Import Py.Prelude Model.Schema Model.ImplInput Model.ImplExec Proofs.ExecConform
  Proofs.ExecErrors Proofs.BuiltinLeaves Proofs.ExecJson.
Import ListNotations.
Open Scope string_scope.
Open Scope list_scope.

Section C03.
Variable sch : schema.
Variable doc : document.
Variable vs : vars.
Variable U : usercode.
Variable cfg : config.

(* a value produced for a field conforms to the field's declared type for the merged field
   nodes: no null at a non-null position, lists where lists are declared, leaves produced by
   the scalar's serialiser / declared enum values, objects holding exactly the collected
   response keys of a possible object type, recursively *)
Theorem C03_field_value_conforms fuel otype value opath k ns s v s' :
  resolve_field sch doc vs U cfg fuel otype value opath k ns s = (OVal (Some v), s') ->
  exists node rest fd, ns = node :: rest /\
    get_field_definition sch otype (fn_name node) = Some fd /\
    conf_ty sch doc vs (fd_type fd) ns v.
Proof.
  intros H. destruct (resolve_field_ok sch doc vs U cfg fuel _ _ _ _ _ _ _ _ H) as (node & rest & -> & fd & Hfd & Hc).
  exists node, rest, fd. auto.
Qed.

(* the whole response: data is null or an object with exactly the collected root keys whose
   values conform *)
Theorem C03_data_conforms op root r :
  execute_operation sch doc vs U cfg op root = OVal r ->
  r_data r = PNone \/
  exists rt fs v kv, root_type_of sch (o_kind op) = Some rt /\
    collect_fields sch doc vs COLLECT_FUEL rt (o_sels op) [] [] = Some (fs, v) /\
    r_data r = PDict kv /\ conf_fields sch doc vs rt fs kv.
Proof. apply execute_operation_conforms. Qed.

(* execute never raises *)
Theorem C03_never_raises op root l : execute_operation sch doc vs U cfg op root <> OExc l.
Proof. apply execute_operation_never_raises. Qed.

End C03.

(* "the response is JSON-serialisable": the data of every response is a JSON value (null, booleans, integers, finite
   floats, text, lists and string-keyed objects of such) as soon as every scalar's serialiser produces JSON values ... *)
Theorem C03_data_is_json sch doc vs U cfg op root r :
  (forall n ops v r0, find_type sch n = Some DScalar -> scalars sch n = Some ops -> s_output ops v = Ok r0 -> is_undef r0 = false ->
                      json_val r0 = true) ->
  execute_operation sch doc vs U cfg op root = OVal r -> json_val (r_data r) = true.
Proof. exact (data_is_json sch doc vs U cfg op root r). Qed.

(* ... which the five built-in scalars, as regenerated from /repo, do *)
Theorem C03_builtin_schema_data_is_json O sch doc vs U cfg op root r :
  (forall n, scalars sch n = builtin_scalars O n) ->
  execute_operation sch doc vs U cfg op root = OVal r -> json_val (r_data r) = true.
Proof. exact (builtin_schema_data_is_json O sch doc vs U cfg op root r). Qed.

(* leaves of the built-in scalars at conforming positions: Int an integer within signed 32 bits, Float a finite number,
   String / ID a string, Boolean a boolean (or null where the position is nullable) *)
Theorem C03_builtin_leaves_have_their_wire_type O sch doc vs n nodes v :
  (forall m, scalars sch m = builtin_scalars O m) -> find_type sch n = Some DScalar ->
  conf_ty sch doc vs (TNamed n) nodes v -> v = PNone \/ builtin_leaf n v = true.
Proof. exact (builtin_leaf_conforms O sch doc vs n nodes v). Qed.

(* Leaves of the built-in scalars: with the translated coerce_output functions a conforming
   Int leaf is an integer within 32 bits, a Float leaf a finite double, String/ID text, Boolean a
   boolean (theorems C10_*_output_wire about Gen/Scalars_gen.v). *)

Print Assumptions C03_field_value_conforms.
Print Assumptions C03_data_conforms.
Print Assumptions C03_never_raises.
Print Assumptions C03_data_is_json.
Print Assumptions C03_builtin_schema_data_is_json.
Print Assumptions C03_builtin_leaves_have_their_wire_type.
