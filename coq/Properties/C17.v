(* C17 — engines registered under different schema names are independent.
   Statements only.  Model/Registry.v: the process-global SchemaRegistry keyed by schema name,
   for EVERY finite sequence of registrations / SDL registrations / cooks in any interleaving.
   PARTIAL: Python module import caching and what user modules do at import time are runtime; the
   check compares co-resident engines with the same bundle built alone in a fresh process. *)
From Coq Require Import List String Bool.
From TV Require Import Model.Registry Proofs.CacheRegistry.
Import ListNotations.

Section C17.
Variable Impl Sdl : Type.

(* what the operations about schema name n observe (registration errors, and what cook reads:
   the implementations and the SDL) is what they observe when the other names' operations are
   removed from the history *)
Theorem C17_projection n (ops : list (reg_op Impl Sdl)) :
  outs_of Impl Sdl n ops (snd (reg_run Impl Sdl [] ops)) =
  snd (reg_run Impl Sdl [] (filter (fun o => String.eqb (op_schema Impl Sdl o) n) ops)).
Proof. now apply registry_projection. Qed.

(* in particular two histories with the same operations about n give n the same engine *)
Corollary C17_independent_of_other_names n (ops ops' : list (reg_op Impl Sdl)) :
  filter (fun o => String.eqb (op_schema Impl Sdl o) n) ops =
  filter (fun o => String.eqb (op_schema Impl Sdl o) n) ops' ->
  outs_of Impl Sdl n ops (snd (reg_run Impl Sdl [] ops)) =
  outs_of Impl Sdl n ops' (snd (reg_run Impl Sdl [] ops')).
Proof. intros H. now rewrite !C17_projection, H. Qed.

End C17.

Open Scope string_scope.
Example C17_nonvacuous :
  let it k nm i := {| ri_kind := k; ri_name := nm; ri_impl := i |} in
  outs_of nat nat "a"
    [OpRegister nat nat "a" (it RResolver "Query.x" 1); OpRegister nat nat "b" (it RResolver "Query.x" 2);
     OpSdl nat nat "b" 20; OpSdl nat nat "a" 10; OpCook nat nat "b"; OpCook nat nat "a"]
    (snd (reg_run nat nat []
      [OpRegister nat nat "a" (it RResolver "Query.x" 1); OpRegister nat nat "b" (it RResolver "Query.x" 2);
       OpSdl nat nat "b" 20; OpSdl nat nat "a" 10; OpCook nat nat "b"; OpCook nat nat "a"]))
  = [RegOk nat nat; RegOk nat nat; Cooked nat nat [it RResolver "Query.x" 1] (Some 10)].
Proof. reflexivity. Qed.

Print Assumptions C17_projection.
Print Assumptions C17_independent_of_other_names.
