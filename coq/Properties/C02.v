(* C02 — field failures are contained: null propagation and error accounting.
   Statements only, about the implementation model of execution (Model/ImplExec.v), for every
   schema, document, variable map, user code (resolver / type-resolver oracles over the whole
   value universe, raising or returning anything), configuration and fuel.
   PARTIAL: the global statement "data(R_F) = data(R) with exactly the nearest nullable
   ancestors of the faults nulled" is not proved; it is decided per run by the check
   (fault enumeration against the specification executor, predicate spec_verdict).  Proved:
   the local laws from which it follows and the accounting of errors. *)
From Coq Require Import ZArith List String Bool.
From TV Require Import Py.Prelude Model.Schema Model.ImplInput Model.ImplExec Proofs.ExecErrors.
Import ListNotations.
Open Scope string_scope.
Open Scope list_scope.

Section C02.
Variable sch : schema.
Variable doc : document.
Variable vs : vars.
Variable U : usercode.
Variable cfg : config.

(* errors is append-only; everything recorded while the field at path p is resolved and
   completed is located at or below p (list indices included); whatever it raises is a
   non-empty list of exceptions located at or below p *)
Theorem C02_errors_located_below_field fuel otype value opath k ns s r s' :
  resolve_field sch doc vs U cfg fuel otype value opath k ns s = (r, s') ->
  grows_below (opath ++ [KName k]) s s' /\
  match r with
  | OExc l => l <> [] /\ Forall (exn_located_below (opath ++ [KName k])) l
  | _ => True
  end.
Proof. apply (resolve_field_err_ok sch doc vs U cfg fuel). Qed.

(* a field of nullable type never raises: the failure stops there *)
Theorem C02_nullable_field_contains rf ptype fd nodes path raw s r s' :
  is_non_null (fd_type fd) = false ->
  complete_field sch doc vs U cfg rf ptype fd nodes path raw s = (r, s') ->
  forall l, r <> OExc l.
Proof. apply nullable_field_contains. Qed.

(* ... it becomes null and at least one error is recorded *)
Theorem C02_failed_nullable_field_is_null_with_error rf ptype fd nodes path l s r s' :
  is_non_null (fd_type fd) = false -> l <> [] ->
  complete_field sch doc vs U cfg rf ptype fd nodes path (OExc l) s = (r, s') ->
  r = OVal (Some PNone) /\ exists e es, s_errors s' = s_errors s ++ e :: es.
Proof. apply failed_nullable_field_is_null_with_error. Qed.

(* a failed field of non-null type propagates to its parent without recording anything yet *)
Theorem C02_failed_non_null_field_raises rf ptype fd nodes path l s r s' :
  is_non_null (fd_type fd) = true ->
  complete_field sch doc vs U cfg rf ptype fd nodes path (OExc l) s = (r, s') ->
  exists l', r = OExc l' /\ s' = s.
Proof. apply failed_non_null_field_raises. Qed.

(* execute never lets an exception escape *)
Theorem C02_execute_never_raises op root l :
  execute_operation sch doc vs U cfg op root <> OExc l.
Proof. apply execute_operation_never_raises. Qed.

(* data: null is always explained by at least one error *)
Theorem C02_null_data_has_error op root r :
  execute_operation sch doc vs U cfg op root = OVal r -> r_data r = PNone -> r_errors r <> [].
Proof. apply root_failure_nulls_data. Qed.

End C02.

Print Assumptions C02_errors_located_below_field.
Print Assumptions C02_nullable_field_contains.
Print Assumptions C02_failed_nullable_field_is_null_with_error.
Print Assumptions C02_failed_non_null_field_raises.
Print Assumptions C02_execute_never_raises.
Print Assumptions C02_null_data_has_error.
