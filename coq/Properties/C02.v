(* C02 — field failures are contained: null propagation and error accounting.
   Statements only, about the implementation model of execution (Model/ImplExec.v), for every
   schema, document, variable map, user code (resolver / type-resolver oracles over the whole
   value universe, raising or returning anything), configuration and fuel.
   PARTIAL: the global statement "data(R_F) = data(R) with exactly the nearest nullable
   ancestors of the faults nulled" is not proved; it is decided per run by the check
   (fault enumeration against the specification executor, predicate spec_verdict).  Proved:
   the local laws from which it follows and the accounting of errors. *)
From Coq Require Import ZArith List String Bool.
From TV Require Import Py.Prelude Model.Schema Model.ImplInput Model.ImplExec Model.SpecExec Proofs.ExecErrors
     Proofs.ExecOrigins.
Import ListNotations.
Open Scope string_scope.
Open Scope list_scope.

Section C02.
Variable sch : schema.
Variable doc : document.
Variable vs : vars.
Variable U : usercode.
Variable cfg : config.

(* errors is append-only; everything recorded while the field at path p is resolved and
   completed is located at or below p (list indices included); whatever it raises is a
   non-empty list of exceptions located at or below p *)
Theorem C02_errors_located_below_field fuel otype value opath k ns s r s' :
  resolve_field sch doc vs U cfg fuel otype value opath k ns s = (r, s') ->
  grows_below (opath ++ [KName k]) s s' /\
  match r with
  | OExc l => l <> [] /\ Forall (exn_located_below (opath ++ [KName k])) l
  | _ => True
  end.
Proof. apply (resolve_field_err_ok sch doc vs U cfg fuel). Qed.

(* a field of nullable type never raises: the failure stops there *)
Theorem C02_nullable_field_contains rf ptype fd nodes path raw s r s' :
  is_non_null (fd_type fd) = false ->
  complete_field sch doc vs U cfg rf ptype fd nodes path raw s = (r, s') ->
  forall l, r <> OExc l.
Proof. apply nullable_field_contains. Qed.

(* ... it becomes null and at least one error is recorded *)
Theorem C02_failed_nullable_field_is_null_with_error rf ptype fd nodes path l s r s' :
  is_non_null (fd_type fd) = false -> l <> [] ->
  complete_field sch doc vs U cfg rf ptype fd nodes path (OExc l) s = (r, s') ->
  r = OVal (Some PNone) /\ exists e es, s_errors s' = s_errors s ++ e :: es.
Proof. apply failed_nullable_field_is_null_with_error. Qed.

(* a failed field of non-null type propagates to its parent without recording anything yet *)
Theorem C02_failed_non_null_field_raises rf ptype fd nodes path l s r s' :
  is_non_null (fd_type fd) = true ->
  complete_field sch doc vs U cfg rf ptype fd nodes path (OExc l) s = (r, s') ->
  exists l', r = OExc l' /\ s' = s.
Proof. apply failed_non_null_field_raises. Qed.

(* execute never lets an exception escape *)
Theorem C02_execute_never_raises op root l :
  execute_operation sch doc vs U cfg op root <> OExc l.
Proof. apply execute_operation_never_raises. Qed.

(* data: null is always explained by at least one error *)
Theorem C02_null_data_has_error op root r :
  execute_operation sch doc vs U cfg op root = OVal r -> r_data r = PNone -> r_errors r <> [].
Proof. apply root_failure_nulls_data. Qed.

(* error accounting against the specification's algorithm (queries and subscriptions' source
   selection, sibling fields all executed): whenever ExecuteQuery as written in the GraphQL
   specification (Model/SpecExec.v) yields (data, origins) -- origins = the response paths where a
   field error ORIGINATED: a raising resolver or type resolver, an error object returned as a value
   or list item, null at non-null, an unserialisable leaf, a non-list for a list type, an unknown /
   foreign runtime type, failing arguments -- the implementation model returns that data, every
   origin is the path of some entry of `errors`, and every entry of `errors` carries a path which
   is one of the origins: nothing unexplained is nulled, no entry points elsewhere. *)
Theorem C02_errors_are_exactly_the_specified_origins op root d o :
  (forall t k ns, field_conc cfg t k ns = true) -> o_kind op <> OpMutation ->
  spec_execute_operation sch doc vs U op root = Some (d, o) ->
  exists r, execute_operation sch doc vs U cfg op root = OVal r /\ r_data r = d /\
            (forall p, In p o -> exists e, In e (r_errors r) /\ g_path e = Some p) /\
            (forall e, In e (r_errors r) -> exists p, g_path e = Some p /\ In p o).
Proof.
  intros Hc Hk Hs. destruct (execute_operation_accounts_exact sch doc vs U cfg op root d o Hc Hk Hs) as (r & Hr & Hd & Hp).
  exists r. split; [exact Hr|]. split; [exact Hd|]. split.
  - intros p Hin. pose proof (proj2 (Hp (Some p)) (in_map Some _ _ Hin)) as Hm.
    apply in_map_iff in Hm. destruct Hm as (e & He & Hine). exists e. split; assumption.
  - intros e Hin. pose proof (proj1 (Hp (g_path e)) (in_map g_path _ _ Hin)) as Hm.
    apply in_map_iff in Hm. destruct Hm as (p & Hpe & Hinp). exists p. split; [now symmetry|assumption].
Qed.

(* mutations and sequentially awaited siblings included (every operation kind, every configuration):
   the data is the specification's and no entry of `errors` points anywhere but at one of the
   specification's failure origins.  (The converse is not claimed there: once a non-null field of a
   serial chain has failed the later fields are never started, so their would-be origins are absent.) *)
Theorem C02_no_error_points_elsewhere op root d o :
  spec_execute_operation sch doc vs U op root = Some (d, o) ->
  exists r, execute_operation sch doc vs U cfg op root = OVal r /\ r_data r = d /\
            forall e, In e (r_errors r) -> exists p, g_path e = Some p /\ In p o.
Proof. exact (execute_operation_accounts_incl sch doc vs U cfg op root d o). Qed.

End C02.

(* non-vacuity: a resolver returning an error object for two merged response keys of a nullable
   object: the specification yields data with both nulled and two origins, and the model's errors
   are located at exactly those two paths *)
Definition c02_sch : schema :=
  {| types := [("Query", DObject [] [ {| fd_name := "a"; fd_type := TNamed "T"; fd_args := [] |} ]);
               ("T", DObject [] [ {| fd_name := "x"; fd_type := TNamed "Int"; fd_args := [] |};
                                  {| fd_name := "y"; fd_type := TNamed "Int"; fd_args := [] |} ])];
     query_type := "Query"; mutation_type := None; subscription_type := None;
     scalars := fun n => if String.eqb n "Int" then Some {| s_input := fun v => Ok v; s_literal := fun v => Ok v; s_output := fun v => Ok v |} else None |}.
Definition c02_doc : document :=
  {| operations := [];
     fragments := [ {| fr_name := "F"; fr_type := "T"; fr_dirs := [];
                       fr_sels := [SField (1,1)%Z None "y" [] [] []; SField (1,2)%Z (Some "x") "y" [] [] []];
                       fr_loc := (1,0)%Z |} ] |}.
Definition c02_U : usercode :=
  {| has_resolver := fun t f => String.eqb f "a";
     resolver := fun _ _ _ _ _ => URet (PDict [("x", PInt 1); ("y", PExc (UserErr "boom"))]);
     type_resolver_kind := fun _ _ _ => TRDefault; type_resolver := fun _ _ _ => URet PNone |}.
Definition c02_op : operation :=
  {| o_kind := OpQuery; o_name := None; o_vars := []; o_dirs := [];
     o_sels := [SField (1,1)%Z None "a" [] [] [SField (1,2)%Z None "x" [] [] []; SSpread (1,3)%Z "F" []]]; o_loc := (1,0)%Z |}.
Example C02_nonvacuous :
  spec_execute_operation c02_sch c02_doc [] c02_U c02_op PNone =
    Some (PDict [("a", PDict [("x", PNone); ("y", PNone)])], [[KName "a"; KName "x"]; [KName "a"; KName "y"]]%list) /\
  match execute_operation c02_sch c02_doc [] c02_U (uniform_cfg true true) c02_op PNone with
  | OVal r => map g_path (r_errors r) = [Some [KName "a"; KName "x"]; Some [KName "a"; KName "y"]]%list
  | _ => False
  end.
Proof. split; vm_compute; reflexivity. Qed.

Print Assumptions C02_errors_located_below_field.
Print Assumptions C02_nullable_field_contains.
Print Assumptions C02_failed_nullable_field_is_null_with_error.
Print Assumptions C02_failed_non_null_field_raises.
Print Assumptions C02_execute_never_raises.
Print Assumptions C02_null_data_has_error.
Print Assumptions C02_errors_are_exactly_the_specified_origins.
Print Assumptions C02_no_error_points_elsewhere.
