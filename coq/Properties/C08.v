(* C08 — results do not depend on resolver scheduling or concurrency settings.
   Statements only.  Model/Async.v: the engine's fork/join/merge logic as programs of a small
   calculus (Call = await a user coroutine, Gather = asyncio.gather with results merged by index,
   Emit = append to the request's write-only state), with the scheduler semantics of the gated
   driver (start every child, release one blocked coroutine at a time).  The theorems hold for
   EVERY program of the calculus and every pick sequence, hence for the executor written in it
   (a_execute_operation), which the check runs against the real engine under enumerated schedules.
   PARTIAL (runtime, outside the model): asyncio's task wake-up order beyond FIFO start, gather
   internals, cancellation, timeouts, thread-pool resolvers.  Identical data across the sibling and
   list strategies (engine-wide or per field: `field_parent` / `field_list` of the configuration) is
   C08_config_data_eq (from the C01 refinement, which holds for every configuration); PARTIAL (decided
   per run): the argument-coercion option (gather / one by one), which the models do not distinguish. *)
From Coq Require Import ZArith List String Bool Permutation.
From TV Require Import Py.Prelude Model.Schema Model.ImplInput Model.ImplExec Model.SpecExec Model.Async Proofs.AsyncProofs
     Proofs.ExecRefine Proofs.AsyncBridge Proofs.ExecCalls.
Import ListNotations.
Open Scope list_scope.

Section C08.
Variable oracle : site -> string -> string -> pyval -> list (string * pyval) -> uret.  (* pure resolvers *)

(* whatever order the pending resolvers complete in, the result is the same and the same things
   are appended to the request's state (errors, invocations), up to their order *)
Theorem C08_schedule_independence picks p r evs :
  run_sched oracle picks p = Some (PDone r, evs) ->
  r = fst (run_seq oracle p) /\ Permutation evs (snd (run_seq oracle p)).
Proof. apply schedule_independence. Qed.

Theorem C08_any_two_schedules_agree picks1 picks2 p r1 r2 evs1 evs2 :
  run_sched oracle picks1 p = Some (PDone r1, evs1) ->
  run_sched oracle picks2 p = Some (PDone r2, evs2) ->
  r1 = r2 /\ Permutation evs1 evs2.
Proof. apply any_two_schedules_agree. Qed.

(* every resolver that was started has finished when the run ends; none is started more often
   than in the sequential run *)
Theorem C08_every_started_finishes picks p r evs :
  run_sched oracle picks p = Some (PDone r, evs) ->
  Permutation (starts_of evs) (finishes_of evs) /\
  Permutation (starts_of evs) (starts_of (snd (run_seq oracle p))).
Proof. apply every_started_finishes. Qed.

(* termination under every schedule: no deadlock (a state that is not final has a blocked
   resolver whose release succeeds; states reached by start/release are normal) ... *)
Theorem C08_no_deadlock p : normal (fst (start p)) /\
  forall q, normal q -> (exists r, q = PDone r) \/
    (exists s, In s (blocked q) /\ exists q' ev, release oracle s q = Some (q', ev) /\ normal q').
Proof.
  split; [apply start_normal|]. intros q Hn.
  destruct (progress oracle q Hn) as [H|(s & Hs & q' & ev & Hr)]; [now left|right].
  exists s. split; [exact Hs|]. exists q', ev. split; [exact Hr|]. eapply release_normal; eauto.
Qed.

(* ... and every release strictly decreases the number of resolvers still to finish, so no
   schedule is longer than the number of resolver calls of the sequential run *)
Theorem C08_every_release_decreases s q q' ev :
  release oracle s q = Some (q', ev) -> (pending oracle q' < pending oracle q)%nat.
Proof. apply release_decreases. Qed.

Theorem C08_schedules_are_bounded picks q acc q' evs :
  run_picks oracle picks q acc = Some (q', evs) ->
  (List.length picks + pending oracle q' <= pending oracle q)%nat.
Proof. apply schedules_are_bounded. Qed.

End C08.

(* instantiated at the executor: same data, same errors and same resolver invocations (as
   multisets) under every schedule of every request, schema and configuration *)
Lemma flat_map_perm' {A B} (f : A -> list B) l l' : Permutation l l' -> Permutation (flat_map f l) (flat_map f l').
Proof. apply flat_map_perm. Qed.

Theorem C08_execute_schedule_independent sch doc vs (U : usercode) cfg op root picks1 picks2 r1 r2 evs1 evs2 :
  run_sched (resolver U) picks1 (a_execute_operation sch doc vs U cfg op root) = Some (PDone r1, evs1) ->
  run_sched (resolver U) picks2 (a_execute_operation sch doc vs U cfg op root) = Some (PDone r2, evs2) ->
  r1 = r2 /\ Permutation (errors_of evs1) (errors_of evs2) /\ Permutation (calls_of evs1) (calls_of evs2).
Proof.
  intros H1 H2. destruct (any_two_schedules_agree _ _ _ _ _ _ _ _ H1 H2) as [Hr Hp].
  split; [exact Hr|]. split; apply flat_map_perm'; exact Hp.
Qed.

(* whichever sibling strategy is configured (fields of one object coerced concurrently or one after
   the other), the data is the same: both are the specification's (C01_data_refines_spec) *)
Theorem C08_config_data_eq sch doc vs U cfg1 cfg2 op root d o :
  spec_execute_operation sch doc vs U op root = Some (d, o) ->
  exists r1 r2, execute_operation sch doc vs U cfg1 op root = OVal r1 /\
                execute_operation sch doc vs U cfg2 op root = OVal r2 /\ r_data r1 = r_data r2.
Proof.
  intros H.
  destruct (execute_operation_refines_spec sch doc vs U cfg1 op root d o H) as (r1 & E1 & D1).
  destruct (execute_operation_refines_spec sch doc vs U cfg2 op root d o H) as (r2 & E2 & D2).
  exists r1, r2. repeat split; congruence.
Qed.

(* the executor written in the calculus, run with every coroutine completing at once, IS the
   state-passing executor C01-C03 are proved about: same data, same errors, same invocations *)
Theorem C08_calculus_executor_is_the_executor sch doc vs U cfg op root :
  response_of (fst (run_seq (resolver U) (a_execute_operation sch doc vs U cfg op root)))
              (snd (run_seq (resolver U) (a_execute_operation sch doc vs U cfg op root))) =
  execute_operation sch doc vs U cfg op root.
Proof. exact (execute_operation_bridge sch doc vs U cfg op root). Qed.

(* hence, under EVERY schedule of the resolver completions and EVERY configuration, a request for
   which the specification's algorithm has a result is answered with exactly that data, and with
   the errors and invocations of the sequential run up to their order *)
Theorem C08_every_schedule_and_configuration_gives_the_specified_data sch doc vs U cfg op root picks r evs d o :
  spec_execute_operation sch doc vs U op root = Some (d, o) ->
  run_sched (resolver U) picks (a_execute_operation sch doc vs U cfg op root) = Some (PDone r, evs) ->
  r = RVal d /\
  exists resp, execute_operation sch doc vs U cfg op root = OVal resp /\
               Permutation (errors_of evs) (r_errors resp) /\ Permutation (calls_of evs) (r_log resp).
Proof.
  intros Hspec Hrun.
  destruct (schedule_independence _ _ _ _ _ Hrun) as [Hr Hp].
  destruct (execute_operation_refines_spec sch doc vs U cfg op root d o Hspec) as (resp & Eresp & Hd).
  pose proof (execute_operation_bridge sch doc vs U cfg op root) as Hb. rewrite Eresp in Hb.
  destruct (run_seq (resolver U) (a_execute_operation sch doc vs U cfg op root)) as [r0 ev0]. cbn [fst snd] in *. subst r.
  destruct r0; cbn [response_of] in Hb; try discriminate. inversion Hb as [Hresp]. subst resp. cbn [r_data] in Hd. subst v.
  split; [reflexivity|]. eexists. split; [exact Eresp|]. cbn [r_errors r_log].
  split; apply flat_map_perm'; exact Hp.
Qed.

(* "none is started twice": under EVERY schedule of the resolver completions and every configuration, the resolver
   invocations of a request are at pairwise different response paths *)
Lemma rsites_perm a b : Permutation a b -> Permutation (rsites a) (rsites b).
Proof. unfold rsites. apply flat_map_perm. Qed.

Theorem C08_no_resolver_called_twice sch doc vs U cfg op root picks d evs :
  run_sched (resolver U) picks (a_execute_operation sch doc vs U cfg op root) = Some (PDone (RVal d), evs) ->
  NoDup (rsites (calls_of evs)).
Proof.
  intros Hrun.
  destruct (schedule_independence _ _ _ _ _ Hrun) as [Hr Hp].
  pose proof (execute_operation_bridge sch doc vs U cfg op root) as Hb.
  destruct (run_seq (resolver U) (a_execute_operation sch doc vs U cfg op root)) as [r0 ev0]. cbn [fst snd] in *. subst r0.
  cbn [response_of] in Hb. symmetry in Hb.
  pose proof (execute_operation_calls_once sch doc vs U cfg op root _ Hb) as Hn. cbn [r_log] in Hn.
  eapply Permutation_NoDup; [|exact Hn]. apply Permutation_sym, rsites_perm.
  unfold calls_of. apply flat_map_perm. exact Hp.
Qed.

Print Assumptions C08_calculus_executor_is_the_executor.
Print Assumptions C08_every_schedule_and_configuration_gives_the_specified_data.
Print Assumptions C08_config_data_eq.
Print Assumptions C08_schedule_independence.
Print Assumptions C08_any_two_schedules_agree.
Print Assumptions C08_every_started_finishes.
Print Assumptions C08_no_deadlock.
Print Assumptions C08_every_release_decreases.
Print Assumptions C08_schedules_are_bounded.
Print Assumptions C08_execute_schedule_independent.
Print Assumptions C08_no_resolver_called_twice.
