(* C13 — directive hooks wrap their target exactly once, nested in declaration order.
   Statements only.  Model/Directives.v: wraps_with_directives as written (a reversed loop building
   partial applications), for ARBITRARY hook implementations taking the next stage as a
   continuation; then the tagging hooks of the check over a universe of input types annotated with
   the directive instances attached to scalars, input objects, input fields and arguments.
   PARTIAL: the wiring of each type's bake() (which hook list is attached to which coercer) is
   transcribed, and tied to the code by the correspondence check on generated schemas; enum-value /
   enum-type and abstract-type output hooks are exercised by the check only.
   Output side (Model/DirectivesOut.v, Proofs/DirectiveOutProofs.v): object / list / leaf positions annotated with
   their directive instances; what is executed (hooks logging in order) equals the pure view for every annotated
   type and value, and a type's on_pre_output_coercion hooks meet EVERY value at a position of that type, null
   results and null list items included. *)
From Coq Require Import ZArith List String Bool.
From TV Require Import Py.Prelude Model.Schema Model.Directives Model.DirectivesOut Proofs.DirectiveProofs Proofs.DirectiveOutProofs Proofs.DirectiveAbstract.
Import ListNotations.
Open Scope string_scope.
Open Scope list_scope.

(* several directives on one element nest in declaration order, first declared outermost; a
   directive without the hook is skipped; this holds for every hook implementation *)
Theorem C13_first_declared_outermost V E (impl : dinst -> string -> stage V E -> stage V E) ds h base :
  wraps_with_directives V E impl ds h base =
  fold_right (fun d f => impl d h f) base (filter (has_hook h) ds).
Proof. exact (wraps_eq_nest V E impl ds h base). Qed.

(* query-side field directives wrap the schema-side ones, which wrap the resolver *)
Theorem C13_query_wraps_schema V E (impl : dinst -> string -> stage V E -> stage V E) query_dirs schema_dirs h resolver :
  wraps_with_directives V E impl query_dirs h (wraps_with_directives V E impl schema_dirs h resolver) =
  fold_right (fun d f => impl d h f) resolver (filter (has_hook h) (query_dirs ++ schema_dirs)).
Proof. exact (wraps_twice V E impl query_dirs schema_dirs h resolver). Qed.

(* each applicable hook of each instance is invoked exactly once per value, in declaration order,
   with that instance's argument; what a hook returns is what the next one sees *)
Theorem C13_each_hook_once_in_order ds h v log :
  run_hooks ds h v log =
  (fold_left (fun v d => tag (di_name d) v) (filter (has_hook h) ds) v,
   log ++ map (fun d => (di_name d, h, di_arg d)) (filter (has_hook h) ds)).
Proof. exact (run_hooks_spec ds h v log). Qed.

(* the same hooks run identically whether an input arrives as a literal or through variables (at
   any depth: whole argument, list item, input field), including the one asymmetry of the code:
   type-level hooks are skipped on the literal path for variable nodes because they ran when the
   variable was coerced, while input-field hooks are not *)
Theorem C13_literal_eq_variable_hooks raw vars arg_dirs t q :
  well_placed raw vars t q ->
  argument_value vars arg_dirs t q = apply_tags arg_dirs ARG_EXEC (input_coerce t (subst raw q)).
Proof. intros H. unfold argument_value. now rewrite (literal_eq_variable raw vars q t H). Qed.

(* non-vacuity *)
Definition D (n : string) (hs : list string) : dinst := {| di_name := n; di_hooks := hs; di_arg := 0 |}.
Definition T0 := IScalar [D "t1" [POST_INPUT]; D "t2" [PRE_OUTPUT]; D "t3" [POST_INPUT]].
Definition In0 := IObj [D "o" [POST_INPUT]] [("f", [D "i" [POST_INPUT]], T0); ("g", [], IList T0)].
Example C13_example :
  let raw := fun n => if String.eqb n "v" then TLeaf "w" else TLst [TLeaf "x"] in
  let vars := fun n => if String.eqb n "v" then input_coerce T0 (raw n) else input_coerce (IList T0) (raw n) in
  well_placed raw vars In0 (QObj [("f", QVar "v"); ("g", QVar "l")]) /\
  argument_value vars [D "a" [ARG_EXEC]] In0 (QObj [("f", QVar "v"); ("g", QVar "l")]) =
  TObj [("f", TLeaf "a(o(i(t3(t1(w)))))"); ("g", TLst [TLeaf "a(o(t3(t1(x))))"])].
Proof. vm_compute. repeat split. Qed.

(* output side: executing the coercers of an annotated output type, hooks logging their invocations, gives the
   value with the applicable tags and exactly the invocations of the pure view, in order *)
Theorem C13_output_hooks_as_executed t v log :
  output_run t v log = (output_coerce t v, log ++ output_log t v).
Proof. exact (output_run_spec t v log). Qed.

(* each applicable instance of the item type is invoked once per list item, null items included *)
Theorem C13_list_items_each_once ds xs :
  output_log (OListOf (OScalar ds)) (TLst xs) = flat_map (fun _ => events ds PRE_OUTPUT) xs.
Proof. exact (list_items_each_once ds xs). Qed.

Theorem C13_list_items_invocation_count ds xs :
  List.length (output_log (OListOf (OScalar ds)) (TLst xs)) =
  (List.length xs * List.length (filter (has_hook PRE_OUTPUT) ds))%nat.
Proof. exact (list_items_invocation_count ds xs). Qed.

Theorem C13_null_meets_the_type_hooks ds fields :
  output_log (OScalar ds) TNull = events ds PRE_OUTPUT /\
  output_log (OObject ds fields) TNull = events ds PRE_OUTPUT /\
  output_coerce (OObject ds fields) TNull = TNull /\ output_coerce (OScalar ds) TNull = TNull.
Proof. exact (null_meets_the_type_hooks ds fields). Qed.

Example C13_output_example :
  let Tg := OScalar [D "t1" [PRE_OUTPUT]; D "t2" [POST_INPUT]] in
  let Out := OObject [D "o" [PRE_OUTPUT]] [("v", [D "f" [FIELD_EXEC]], Tg); ("vs", [], OListOf Tg)] in
  output_run (OListOf Out) (TLst [TObj [("v", TLeaf "s"); ("vs", TLst [TLeaf "a"; TNull])]; TNull]) [] =
  (TLst [TObj [("v", TLeaf "t1(f(o(s)))"); ("vs", TLst [TLeaf "t1(o(a))"; TNull])]; TNull],
   [("o", PRE_OUTPUT, 0%Z); ("t1", PRE_OUTPUT, 0%Z); ("t1", PRE_OUTPUT, 0%Z); ("t1", PRE_OUTPUT, 0%Z); ("o", PRE_OUTPUT, 0%Z)]).
Proof. vm_compute. reflexivity. Qed.

(* ABSTRACT output positions (interface / union): the abstract type's hooks, then the runtime object
   type's hooks, then the object's fields -- exactly the object run over the concatenated instances;
   each applicable instance of either type is invoked once for the value, the abstract type's first *)
Theorem C13_abstract_position_is_object_run ads ods fields v log :
  abstract_run ads ods fields v log = output_run (OObject (ads ++ ods) fields) v log.
Proof. exact (abstract_run_is_object_run ads ods fields v log). Qed.

Theorem C13_abstract_position_hooks_once_in_order ads ods fields v log :
  exists rest, snd (abstract_run ads ods fields v log) = log ++ events ads PRE_OUTPUT ++ events ods PRE_OUTPUT ++ rest.
Proof. exact (abstract_position_log ads ods fields v log). Qed.

Print Assumptions C13_first_declared_outermost.
Print Assumptions C13_query_wraps_schema.
Print Assumptions C13_each_hook_once_in_order.
Print Assumptions C13_literal_eq_variable_hooks.
Print Assumptions C13_output_hooks_as_executed.
Print Assumptions C13_list_items_each_once.
Print Assumptions C13_list_items_invocation_count.
Print Assumptions C13_null_meets_the_type_hooks.
Print Assumptions C13_abstract_position_is_object_run.
Print Assumptions C13_abstract_position_hooks_once_in_order.
