(* C09 — mutation root fields run serially, in document order.
   Statements only, over the async calculus (Model/Async.v) and the executor written in it: the
   root fields of a mutation are a chain of sequential compositions (`sequence_abort`, the
   transcription of execute_fields_serially), selected by the operation type. *)
From Coq Require Import ZArith List String Bool Permutation.
From TV Require Import Py.Prelude Model.Schema Model.ImplInput Model.ImplExec Model.Async Proofs.AsyncProofs.
Import ListNotations.
Open Scope list_scope.

Section C09.
Variable oracle : site -> string -> string -> pyval -> list (string * pyval) -> uret.

(* under EVERY schedule of the nested resolvers, a complete run of `first; then` is a complete run
   of `first` followed by a complete run of what follows: the whole log of the first root field,
   with the finishes of its entire sub-selection, precedes the first start of the next one *)
Theorem C09_sequential_composition_is_serial f p picks r evs :
  run_sched oracle picks (bind p f) = Some (PDone r, evs) ->
  exists picks1 picks2 r1 evs1,
    picks = picks1 ++ picks2 /\
    run_sched oracle picks1 p = Some (PDone r1, evs1) /\
    exists q2 ev2, start (f r1) = (q2, ev2) /\ run_picks oracle picks2 q2 (evs1 ++ ev2) = Some (PDone r, evs).
Proof. apply bind_is_sequential. Qed.

(* for the chain of root fields: the log starts with the complete log of the first root field *)
Theorem C09_root_field_completes_before_next_starts key p rest picks r evs :
  run_sched oracle picks (sequence_abort ((key, p) :: rest)) = Some (PDone r, evs) ->
  exists picks1 r1 evs1 tail,
    run_sched oracle picks1 p = Some (PDone r1, evs1) /\ evs = evs1 ++ tail.
Proof. cbn [sequence_abort]. apply bind_log_is_prefixed. Qed.

(* a root field that completed (a contained failure included: null with its error recorded) does
   not prevent the following ones from running; one that raises (non-null failure) stops the chain *)
Theorem C09_chain_continues_or_stops key p rest :
  fst (run_seq oracle (sequence_abort ((key, p) :: rest))) =
  match fst (run_seq oracle p) with
  | ROpt o =>
      match fst (run_seq oracle (sequence_abort rest)) with
      | RKVs kv => RKVs (match o with Some v => (key, v) :: kv | None => kv end)
      | other => other
      end
  | other => other
  end.
Proof.
  cbn [sequence_abort]. rewrite run_seq_bind.
  destruct (run_seq oracle p) as [r ev]. cbn [fst].
  destruct r; try reflexivity.
  rewrite run_seq_bind. destruct (run_seq oracle (sequence_abort rest)) as [r' ev']. cbn [fst].
  destruct r'; reflexivity.
Qed.

End C09.

(* the operation type selects the serial chain: a mutation never fans its root fields out *)
Theorem C09_mutation_uses_the_serial_chain sch doc vs U cfg op root rt fs v :
  o_kind op = OpMutation -> root_type_of sch OpMutation = Some rt ->
  collect_fields sch doc vs COLLECT_FUEL rt (o_sels op) [] [] = Some (fs, v) ->
  exists finish,
    a_execute_operation sch doc vs U cfg op root =
    bind (sequence_abort (map (fun kn => (fst kn, a_resolve_field sch doc vs U cfg EXEC_FUEL rt root [] (fst kn) (snd kn))) fs))
         finish.
Proof.
  intros Hk Hrt Hc. unfold a_execute_operation. rewrite Hk, Hrt, Hc. eexists. reflexivity.
Qed.

Print Assumptions C09_sequential_composition_is_serial.
Print Assumptions C09_root_field_completes_before_next_starts.
Print Assumptions C09_chain_continues_or_stops.
Print Assumptions C09_mutation_uses_the_serial_chain.
