(* C09 — mutation root fields run serially, in document order.
   Statements only, over the async calculus (Model/Async.v) and the executor written in it: the
   root fields of a mutation are a chain of sequential compositions (`sequence_abort`, the
   transcription of execute_fields_serially), selected by the operation type. *)
From Coq Require Import ZArith List String Bool Permutation.
From TV Require Import Py.Prelude Model.Schema Model.ImplInput Model.ImplExec Model.Async Proofs.AsyncProofs Proofs.SerialChain.
Import ListNotations.
Open Scope list_scope.

Section C09.
Variable oracle : site -> string -> string -> pyval -> list (string * pyval) -> uret.

(* under EVERY schedule of the nested resolvers, a complete run of `first; then` is a complete run
   of `first` followed by a complete run of what follows: the whole log of the first root field,
   with the finishes of its entire sub-selection, precedes the first start of the next one *)
Theorem C09_sequential_composition_is_serial f p picks r evs :
  run_sched oracle picks (bind p f) = Some (PDone r, evs) ->
  exists picks1 picks2 r1 evs1,
    picks = picks1 ++ picks2 /\
    run_sched oracle picks1 p = Some (PDone r1, evs1) /\
    exists q2 ev2, start (f r1) = (q2, ev2) /\ run_picks oracle picks2 q2 (evs1 ++ ev2) = Some (PDone r, evs).
Proof. apply bind_is_sequential. Qed.

(* for the chain of root fields: the log starts with the complete log of the first root field *)
Theorem C09_root_field_completes_before_next_starts key p rest picks r evs :
  run_sched oracle picks (sequence_abort ((key, p) :: rest)) = Some (PDone r, evs) ->
  exists picks1 r1 evs1 tail,
    run_sched oracle picks1 p = Some (PDone r1, evs1) /\ evs = evs1 ++ tail.
Proof. cbn [sequence_abort]. apply bind_log_is_prefixed. Qed.

(* a root field that completed (a contained failure included: null with its error recorded) does
   not prevent the following ones from running; one that raises (non-null failure) stops the chain *)
Theorem C09_chain_continues_or_stops key p rest :
  fst (run_seq oracle (sequence_abort ((key, p) :: rest))) =
  match fst (run_seq oracle p) with
  | ROpt o =>
      match fst (run_seq oracle (sequence_abort rest)) with
      | RKVs kv => RKVs (match o with Some v => (key, v) :: kv | None => kv end)
      | other => other
      end
  | other => other
  end.
Proof.
  cbn [sequence_abort]. rewrite run_seq_bind.
  destruct (run_seq oracle p) as [r ev]. cbn [fst].
  destruct r; try reflexivity.
  rewrite run_seq_bind. destruct (run_seq oracle (sequence_abort rest)) as [r' ev']. cbn [fst].
  destruct r'; reflexivity.
Qed.

(* ---------- the WHOLE chain, any number of root fields (Proofs/SerialChain.v) ---------- *)

(* under EVERY schedule, a complete run of the chain of root fields is a SERIAL run: one entry per
   root field that ran -- key, result, and a complete log under a schedule of its own --, the
   result of the chain is computed from the entries front to back and the log of the chain is the
   concatenation of the entries' logs in document order: no event of a root field, the finishes
   of its whole sub-selection included, is separated from the others by an event of another one *)
Theorem C09_whole_chain_is_serial kps picks r evs :
  run_sched oracle picks (sequence_abort kps) = Some (PDone r, evs) ->
  exists outs, serial_run oracle kps outs /\ r = chain_value outs /\ evs = chain_log outs.
Proof. exact (chain_is_serial oracle kps picks r evs). Qed.

(* the root fields that ran are an initial segment of the collected ones, in document order *)
Theorem C09_ran_fields_are_a_document_order_prefix kps outs :
  serial_run oracle kps outs -> exists later, map fst kps = map out_key outs ++ later.
Proof. exact (serial_run_is_a_prefix oracle kps outs). Qed.

(* each entry is a complete run of the root field at its position *)
Theorem C09_entries_are_complete_runs kps outs :
  serial_run oracle kps outs ->
  Forall2 (fun kp o => fst kp = out_key o /\
             exists picks, run_sched oracle picks (snd kp) = Some (PDone (out_res o), snd o))
          (firstn (List.length outs) kps) outs.
Proof. exact (serial_run_entries oracle kps outs). Qed.

(* a contained failure does not stop the chain: either EVERY root field ran and completed, or the
   last one that ran raised (and all before it completed) *)
Theorem C09_chain_stops_only_on_raise kps outs :
  serial_run oracle kps outs ->
  (Forall (fun o => exists v, out_res o = ROpt v) outs /\ List.length outs = List.length kps) \/
  (exists front last, outs = front ++ [last] /\
     Forall (fun o => exists v, out_res o = ROpt v) front /\ (forall v, out_res last <> ROpt v)).
Proof. exact (serial_run_stops_only_on_raise oracle kps outs). Qed.

(* the object built when every root field completed lists the keys in document order *)
Theorem C09_completed_chain_lists_keys_in_document_order (outs : list outcome1) :
  Forall (fun o => exists v, out_res o = ROpt v) outs ->
  chain_value outs =
  RKVs (flat_map (fun o => match out_res o with ROpt (Some v) => [(out_key o, v)] | _ => [] end) outs).
Proof. exact (all_completed_value outs). Qed.

(* a raising root field is what the chain returns (execute_operation turns it into data: null) *)
Theorem C09_raise_is_the_chain_result front (last : outcome1) :
  Forall (fun o => exists v, out_res o = ROpt v) front -> (forall v, out_res last <> ROpt v) ->
  (forall kv, out_res last <> RKVs kv) ->
  chain_value (front ++ [last]) = out_res last.
Proof. exact (raised_value front last). Qed.

End C09.

(* the operation type selects the serial chain: a mutation never fans its root fields out *)
Theorem C09_mutation_uses_the_serial_chain sch doc vs U cfg op root rt fs v :
  o_kind op = OpMutation -> root_type_of sch OpMutation = Some rt ->
  collect_fields sch doc vs COLLECT_FUEL rt (o_sels op) [] [] = Some (fs, v) ->
  exists finish,
    a_execute_operation sch doc vs U cfg op root =
    bind (sequence_abort (map (fun kn => (fst kn, a_resolve_field sch doc vs U cfg EXEC_FUEL rt root [] (fst kn) (snd kn))) fs))
         finish.
Proof.
  intros Hk Hrt Hc. unfold a_execute_operation. rewrite Hk, Hrt, Hc. eexists. reflexivity.
Qed.

(* ... hence, under EVERY schedule, the log of a mutation begins with a serial run of its root
   fields in document order (what follows is the assembly of the response: no resolver call) *)
Theorem C09_mutation_log_is_serial oracle sch doc vs U cfg op root rt fs v picks r evs :
  o_kind op = OpMutation -> root_type_of sch OpMutation = Some rt ->
  collect_fields sch doc vs COLLECT_FUEL rt (o_sels op) [] [] = Some (fs, v) ->
  run_sched oracle picks (a_execute_operation sch doc vs U cfg op root) = Some (PDone r, evs) ->
  exists outs tail,
    serial_run oracle
      (map (fun kn => (fst kn, a_resolve_field sch doc vs U cfg EXEC_FUEL rt root [] (fst kn) (snd kn))) fs) outs /\
    evs = chain_log outs ++ tail.
Proof.
  intros Hk Hrt Hc H.
  destruct (C09_mutation_uses_the_serial_chain sch doc vs U cfg op root rt fs v Hk Hrt Hc) as [finish E].
  rewrite E in H. exact (chain_then_is_serial oracle _ finish picks r evs H).
Qed.

(* non-vacuity: two root fields, each awaiting one resolver; the only complete schedule releases
   them in document order and the log is the two complete logs one after the other *)
Example C09_nonvacuous :
  let orc : site -> string -> string -> pyval -> list (string * pyval) -> uret := fun _ _ _ _ _ => URet PNone in
  let f (k : string) (v : option pyval) := Call [KName k] "Mutation" k PNone [] (fun _ => Ret (ROpt v)) in
  let chain := [("a"%string, f "a"%string None); ("b"%string, f "b"%string (Some (PInt 1)))] in
  run_sched orc [[KName "a"%string]; [KName "b"%string]] (sequence_abort chain)
    = Some (PDone (RKVs [("b"%string, PInt 1)]),
            [EStart [KName "a"%string]; EFinish [KName "a"%string]; EStart [KName "b"%string]; EFinish [KName "b"%string]]) /\
  run_sched orc [[KName "b"%string]; [KName "a"%string]] (sequence_abort chain) = None.
Proof. vm_compute. split; reflexivity. Qed.

Print Assumptions C09_sequential_composition_is_serial.
Print Assumptions C09_root_field_completes_before_next_starts.
Print Assumptions C09_chain_continues_or_stops.
Print Assumptions C09_mutation_uses_the_serial_chain.
Print Assumptions C09_whole_chain_is_serial.
Print Assumptions C09_ran_fields_are_a_document_order_prefix.
Print Assumptions C09_entries_are_complete_runs.
Print Assumptions C09_chain_stops_only_on_raise.
Print Assumptions C09_completed_chain_lists_keys_in_document_order.
Print Assumptions C09_raise_is_the_chain_result.
Print Assumptions C09_mutation_log_is_serial.
