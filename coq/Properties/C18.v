(* C18 — execute always answers with a well-formed GraphQL response.
   Statements only, about the implementation model of Engine.execute (Model/Envelope.v) with the
   parser + validation as an oracle: for EVERY parser verdict, operation name, variables object,
   user code and total error coercer.  `engine_execute` is a total function into `envelope`:
   nothing can escape it (the catch-all of Engine.execute is the last branch).
   Outside the model: which texts are syntax errors and the locations the parser reports
   (libgraphqlparser is absent; its stand-in is trusted); the check validates on the real engine
   that locations lie inside the request text. *)
From Coq Require Import ZArith List String Bool.
From TV Require Import Py.Prelude Model.Schema Model.ImplInput Model.ImplExec Model.Envelope.
Import ListNotations.
Open Scope string_scope.
Open Scope list_scope.

Section C18.
Variable A : Type.
Variable coercer : gerr -> A.
Variable sch : schema.
Variable U : usercode.
Variable cfg : config.

(* `errors` is present exactly when something went wrong, and is then non-empty *)
Theorem C18_errors_key_iff_nonempty p opname raw root :
  match e_errors A (engine_execute A coercer sch U cfg p opname raw root) with
  | None => e_coercer_calls A (engine_execute A coercer sch U cfg p opname raw root) = []
  | Some l => l <> []
  end.
Proof.
  unfold engine_execute.
  destruct p as [l| |errs|d]; cbn; try discriminate.
  - destruct errs; cbn; [reflexivity|discriminate].
  - destruct (impl_execute sch d U cfg opname raw root) as [r|l|e]; cbn; try discriminate.
    destruct (r_errors r); cbn; [reflexivity|discriminate].
Qed.

(* the error coercer is awaited exactly once per reported error, in order, and what it returns
   is what appears in `errors` *)
Theorem C18_error_coercer_once p opname raw root :
  let e := engine_execute A coercer sch U cfg p opname raw root in
  match e_errors A e with
  | Some l => l = map coercer (e_coercer_calls A e)
  | None => e_coercer_calls A e = []
  end.
Proof.
  unfold engine_execute.
  destruct p as [l| |errs|d]; cbn; try reflexivity.
  - destruct errs; reflexivity.
  - destruct (impl_execute sch d U cfg opname raw root) as [r|l|e]; cbn; try reflexivity.
    destruct (r_errors r); reflexivity.
Qed.

(* syntax errors (and any other parsing failure) give data: null without running anything *)
Theorem C18_parse_failure_runs_nothing p opname raw root :
  (forall d, p <> PDoc d) ->
  let e := engine_execute A coercer sch U cfg p opname raw root in
  e_data A e = PNone /\ e_log A e = [].
Proof.
  intros Hp. destruct p as [l| |errs|d]; cbn; auto. exfalso. eapply Hp. reflexivity.
Qed.

(* failed operation selection (unknown name, ambiguous anonymous) likewise *)
Theorem C18_failed_selection_runs_nothing d opname raw root :
  select_operation d opname = None ->
  let e := engine_execute A coercer sch U cfg (PDoc d) opname raw root in
  e_data A e = PNone /\ e_log A e = [] /\ e_errors A e <> None.
Proof.
  intros Hs. unfold engine_execute, impl_execute. rewrite Hs. cbn. repeat split. discriminate.
Qed.

(* refused variables likewise *)
Theorem C18_refused_variables_run_nothing d opname raw root op vs e es :
  select_operation d opname = Some op ->
  coerce_variables sch 40 (o_vars op) raw = Ok (vs, e :: es) ->
  let env := engine_execute A coercer sch U cfg (PDoc d) opname raw root in
  e_data A env = PNone /\ e_log A env = [].
Proof.
  intros Hs Hv. unfold engine_execute, impl_execute. rewrite Hs, Hv. cbn. auto.
Qed.

End C18.

Print Assumptions C18_errors_key_iff_nonempty.
Print Assumptions C18_error_coercer_once.
Print Assumptions C18_parse_failure_runs_nothing.
Print Assumptions C18_failed_selection_runs_nothing.
Print Assumptions C18_refused_variables_run_nothing.
