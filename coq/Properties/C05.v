(* C05 — field and directive arguments reach resolvers spec-coerced; literal = variable.
   Statements only.  The implementation model is Model/ImplInput.v (argument_coercer,
   coerce_arguments, the literal coercer chains with variables substituted inside literals),
   tied to /repo by the C05 correspondence check; the leaf laws "a literal of the natural kind
   and a variable carrying the same JSON value coerce to the same result" are the C10 theorems
   about the translated scalars.  PARTIAL: the statement "no value of a type other than the
   declared one is ever delivered" is NOT proved here: it depends on the variable-usage
   validation rule (C07) -- see C05_variable_substituted_everywhere, which shows the literal
   path performs no type check of its own. *)
From Coq Require Import ZArith List String Bool.
From TV Require Import Py.Prelude Model.Schema Model.ImplInput Model.SpecArgs Model.SpecLiteral Proofs.LiteralFacts Proofs.ArgsRefine Proofs.LiteralRefine.
Import ListNotations.
Open Scope string_scope.

Section C05.
Variable sch : schema.

Theorem C05_variable_substituted_everywhere fuel t vs nn l x :
  input_leaf_ok sch (named_of t) = true ->
  get_literal_coercer sch (S fuel) t vs nn (LVar l x) =
  Ok (subst_var vs (nn || is_non_null t) x).
Proof. exact (variable_substituted_everywhere sch fuel t vs nn l x). Qed.

Theorem C05_argument_variable_passthrough fuel ad floc a vs x l v :
  a_value a = LVar l x -> dict_get x vs = Some v ->
  (is_none v = false \/ is_non_null (in_type ad) = false) -> is_undef v = false ->
  argument_coercer sch fuel ad floc (Some a) vs = Ok (AVal v).
Proof. exact (argument_variable_passthrough sch fuel ad floc a vs x l v). Qed.

(* Refinement to the specification's CoerceArgumentValues (Model/SpecArgs.v, written from the
   specification text with the literal coercion of a non-variable value as its only parameter):
   for EVERY argument definition, argument node (present with any value, a variable, or absent),
   variable map and fuel, the implementation model gives the specification's outcome: no entry,
   this value, or a field error. *)
Theorem C05_argument_coercion_refines_the_specification fuel ad floc anode vs :
  res_matches (argument_coercer sch fuel ad floc anode vs)
              (spec_argument (impl_coerce_literal sch fuel vs) ad anode vs).
Proof. exact (argument_coercer_refines sch fuel ad floc anode vs). Qed.

(* ... and for the whole argument map of a field or directive: the same dictionary reaches the
   resolver, and argument errors are raised exactly when the specification throws a field error *)
Theorem C05_argument_map_refines_the_specification fuel ads floc anodes vs :
  map_matches (coerce_arguments_aux sch fuel ads floc anodes vs)
              (spec_arguments (impl_coerce_literal sch fuel vs) ads anodes vs).
Proof. exact (coerce_arguments_refines sch fuel ads floc anodes vs). Qed.

(* The literal coercer chain (wrappers folded around a leaf, the non-null flag threaded through)
   IS the coercion of a literal by recursion on the declared type (Model/SpecLiteral.v): equal
   results -- value, invalid, or the same exception -- for every schema (ill-formed ones
   included), type, literal with variables anywhere inside, variable map and fuel. *)
Theorem C05_literal_coercer_refines_the_specification fuel t vs nn l :
  get_literal_coercer sch fuel t vs nn l = spec_literal sch fuel t vs nn l.
Proof. exact (literal_coercer_refines_spec sch fuel t vs nn l). Qed.

(* ... so what reaches the resolver is CoerceArgumentValues with literals coerced by the
   specification's rules, with no parameter left *)
Theorem C05_arguments_are_CoerceArgumentValues fuel ads floc anodes vs :
  map_matches (coerce_arguments_aux sch fuel ads floc anodes vs)
              (spec_arguments (spec_coerce_literal sch fuel vs) ads anodes vs).
Proof. exact (coerce_arguments_refines_spec sch fuel ads floc anodes vs). Qed.

Theorem C05_argument_omitted fuel ad floc vs :
  in_default ad = None ->
  argument_coercer sch fuel ad floc None vs =
  if is_non_null (in_type ad) then Ok (AErr (in_name ad, ARequired, floc)) else Ok AUndefined.
Proof. exact (argument_omitted sch fuel ad floc vs). Qed.

Theorem C05_argument_explicit_null fuel ad floc a vs l :
  a_value a = LNull l ->
  argument_coercer sch fuel ad floc (Some a) vs =
  if is_non_null (in_type ad) then Ok (AErr (in_name ad, ANonNullNull, l)) else Ok (AVal PNone).
Proof. exact (argument_explicit_null sch fuel ad floc a vs l). Qed.

Theorem C05_argument_unprovided_variable fuel ad floc a vs l x :
  a_value a = LVar l x -> dict_get x vs = None -> in_default ad = None ->
  argument_coercer sch fuel ad floc (Some a) vs =
  if is_non_null (in_type ad) then Ok (AErr (in_name ad, AVarNotProvided, l)) else Ok AUndefined.
Proof. exact (argument_unprovided_variable sch fuel ad floc a vs l x). Qed.

Theorem C05_default_eq_literal fuel ad floc vs d n :
  in_default ad = Some d -> plain_literal d = true ->
  bind (argument_coercer sch fuel ad floc None vs) (fun o => Ok (strip_loc o)) =
  bind (argument_coercer sch fuel ad floc (Some (mk_arg n d)) vs) (fun o => Ok (strip_loc o)).
Proof. exact (argument_default_eq_literal sch fuel ad floc vs d n). Qed.

Theorem C05_failure_is_local fuel floc anodes vs ads vals errs :
  coerce_arguments_aux sch fuel ads floc anodes vs = Ok (vals, errs) ->
  (forall k v, In (k, v) vals -> exists ad, In ad ads /\ in_name ad = k) /\
  (forall e, In e errs -> exists ad, In ad ads /\ in_name ad = fst (fst e)).
Proof. exact (coerce_arguments_keys sch fuel floc anodes vs ads vals errs). Qed.

End C05.

(* non-vacuity *)
Definition ex5_scalars (n : string) : option scalar_ops :=
  if String.eqb n "Int" then
    Some {| s_input := fun v => Ok v;
            s_literal := fun a => match a with PAst KIntValue (PStr "5") => Ok (PInt 5) | _ => Ok PUndef end;
            s_output := fun v => Ok v |}
  else None.
Definition ex5_schema : schema :=
  {| types := [("Int", DScalar)]; query_type := "Query"; mutation_type := None;
     subscription_type := None; scalars := ex5_scalars |}.
Example C05_nonvacuous :
  (* [5, $w] for [Int!] with w = 7: the variable is substituted inside the list literal *)
  get_literal_coercer ex5_schema 5 (TList (TNonNull (TNamed "Int"))) [("w", PInt 7)] false
    (LList (1,1)%Z [LInt (1,2)%Z (PStr "5"); LVar (1,5)%Z "w"]) = Ok (PList [PInt 5; PInt 7])
  /\ (* a null runtime value at the non-null item position invalidates the whole literal *)
  get_literal_coercer ex5_schema 5 (TList (TNonNull (TNamed "Int"))) [("w", PNone)] false
    (LList (1,1)%Z [LInt (1,2)%Z (PStr "5"); LVar (1,5)%Z "w"]) = Ok PUndef.
Proof. vm_compute. split; reflexivity. Qed.

Print Assumptions C05_variable_substituted_everywhere.
Print Assumptions C05_argument_variable_passthrough.
Print Assumptions C05_argument_omitted.
Print Assumptions C05_argument_explicit_null.
Print Assumptions C05_argument_unprovided_variable.
Print Assumptions C05_default_eq_literal.
Print Assumptions C05_failure_is_local.
Print Assumptions C05_argument_coercion_refines_the_specification.
Print Assumptions C05_argument_map_refines_the_specification.
Print Assumptions C05_literal_coercer_refines_the_specification.
Print Assumptions C05_arguments_are_CoerceArgumentValues.
