(* C05 — "no value of a type other than the declared one is ever delivered".
   Statements only; proofs in Proofs/InputTyping.v.  `has_type sch leaf v t` (Model/InputTyping.v)
   is the typing judgment for coerced input values: null only at nullable positions, lists of
   well-typed items, enum values among the declared ones, input objects with declared keys only,
   every entry well-typed and every required field present; what a scalar's internal values look
   like is the parameter `leaf`.

   Assumed of the schema (premises of every theorem, named so that they can be audited):
     leaf_input / leaf_literal  a scalar's coerce_input / parse_literal (on well-formed AST nodes) returns a value `leaf`
                                accepts (or "invalid");
     leaf_not_none              ... never None;
     input_fields_unique        input object field names are unique (the engine keeps fields in a dict: the last wins);
     defaults_wf                default values written in the schema are well-formed AST values (what the SDL parser builds).
   For the five BUILT-IN scalars as regenerated from /repo the first three are PROVED (Proofs/BuiltinLeaves.v), see
   C05_builtin_scalars_meet_the_assumptions and C05_builtin_schema_delivers_declared_types below.
   Nothing is assumed of the DEFAULTS of input fields: a default that is not a valid literal of the field's type is a
   coercion error (since the repair recorded in known_findings.json; before it, the engine delivered its "undefined"
   sentinel inside the object when the object came through a variable).
   Assumed of the document: `lit_vars_typed` / `arg_vars_typed`: a variable written at a position carries a value of
   that position's type.  For a variable that is directly the value of an argument this is what rule 5.8.5
   (all-variable-usages-are-allowed) establishes: C05_usage_rule_is_subtyping + C05_coerced_variables_are_typed; for
   variables NESTED in list / object literals the engine does not apply the rule (known finding
   C07-nested-variable-usage), which is why it stays a premise there. *)
From Coq Require Import ZArith List String Bool.
From TV Require Import Py.Prelude Model.Schema Model.ScalarSpec Model.StdScalars Model.ImplInput Model.ImplValidate Model.SpecInput Model.SpecLiteral Model.SpecArgs
     Model.InputTyping Proofs.InputRefine Proofs.InputTyping Proofs.BuiltinLeaves.
Import ListNotations.
Open Scope string_scope.

Section C05Typing.
Variable sch : schema.
Variable leaf : string -> pyval -> bool.
Hypothesis leaf_input : forall n ops v r, scalars sch n = Some ops -> s_input ops v = Ok r -> is_undef r = false -> leaf n r = true.
Hypothesis leaf_literal : forall n ops a r, scalars sch n = Some ops -> wf_node a = true -> s_literal ops a = Ok r -> is_undef r = false -> leaf n r = true.
Hypothesis leaf_not_none : forall n, leaf n PNone = false.
Hypothesis input_fields_unique : forall n fields, find_type sch n = Some (DInput fields) -> NoDup (map in_name fields).
Hypothesis defaults_wf : forall n fields f d, find_type sch n = Some (DInput fields) -> In f fields -> in_default f = Some d -> wf_lit d = true.

(* a literal coerces to a value of the declared type, or to "invalid" *)
Theorem C05_literal_result_is_typed fuel t vs l r :
  get_literal_coercer sch fuel t vs false l = Ok r -> is_undef r = false ->
  lit_vars_typed sch leaf fuel vs t l = true -> wf_lit l = true ->
  has_type sch leaf r t = true.
Proof.
  intros H Hu Hv Hw. rewrite Proofs.LiteralRefine.literal_coercer_refines_spec in H.
  exact (literal_sound sch leaf leaf_literal leaf_not_none input_fields_unique defaults_wf fuel t vs false l r H Hu Hv Hw (fun E => ltac:(discriminate))).
Qed.

(* the coerced value of a variable is a value of the variable's declared type *)
Theorem C05_coerced_variables_are_typed fuel vds raw vals errs :
  coerce_variables sch fuel vds raw = Ok (vals, errs) ->
  (forall vd d, In vd vds -> v_default vd = Some d -> wf_lit d = true) ->
  forall x v, In (x, v) vals -> exists vd, In vd vds /\ v_name vd = x /\ has_type sch leaf v (v_type vd) = true.
Proof.
  rewrite coerce_variables_refines_spec.
  exact (variables_typed sch leaf leaf_input leaf_literal leaf_not_none input_fields_unique defaults_wf fuel vds raw vals errs).
Qed.

(* rule 5.8.5 as the engine implements it is a sub-typing check *)
Theorem C05_usage_rule_is_subtyping ad vd v :
  usage_ok ad vd = true -> has_type sch leaf v (v_type vd) = true -> has_type sch leaf v (nullable (in_type ad)) = true.
Proof. exact (usage_ok_typed sch leaf ad vd v). Qed.

(* what one argument delivers *)
Theorem C05_delivered_argument_is_typed fuel ad floc anode vs w :
  argument_coercer sch fuel ad floc anode vs = Ok (AVal w) ->
  arg_vars_typed sch leaf fuel ad anode vs -> arg_lit_wf anode = true ->
  (forall d, in_default ad = Some d -> lit_vars_typed sch leaf fuel vs (in_type ad) d = true /\ wf_lit d = true) ->
  has_type sch leaf w (in_type ad) = true.
Proof. exact (delivered_argument_typed sch leaf leaf_literal leaf_not_none input_fields_unique defaults_wf fuel ad floc anode vs w). Qed.

(* a variable that is directly the value of an argument and passes the usage rule *)
Theorem C05_direct_variable_delivers_declared_type fuel ad floc a vs lo x vd w :
  a_value a = LVar lo x -> usage_ok ad vd = true ->
  (forall v, dict_get x vs = Some v -> is_undef v = false -> has_type sch leaf v (v_type vd) = true) ->
  (forall d, in_default ad = Some d -> lit_vars_typed sch leaf fuel vs (in_type ad) d = true /\ wf_lit d = true) ->
  argument_coercer sch fuel ad floc (Some a) vs = Ok (AVal w) ->
  has_type sch leaf w (in_type ad) = true.
Proof. exact (direct_variable_delivers_declared_type sch leaf leaf_literal leaf_not_none input_fields_unique defaults_wf fuel ad floc a vs lo x vd w). Qed.

(* the whole dictionary a resolver (or directive hook) receives *)
Theorem C05_no_value_of_another_type_is_delivered fuel floc anodes vs ads vals errs :
  coerce_arguments_aux sch fuel ads floc anodes vs = Ok (vals, errs) ->
  (forall ad, In ad ads -> arg_vars_typed sch leaf fuel ad (find_arg (in_name ad) anodes) vs /\
                           arg_lit_wf (find_arg (in_name ad) anodes) = true) ->
  (forall ad d, In ad ads -> in_default ad = Some d -> lit_vars_typed sch leaf fuel vs (in_type ad) d = true /\ wf_lit d = true) ->
  forall k w, In (k, w) vals -> exists ad, In ad ads /\ in_name ad = k /\ has_type sch leaf w (in_type ad) = true.
Proof. exact (delivered_arguments_typed sch leaf leaf_literal leaf_not_none input_fields_unique defaults_wf fuel floc anodes vs ads vals errs). Qed.
End C05Typing.

(* The five built-in scalars, as regenerated from /repo, meet the assumptions made of scalars ... *)
Theorem C05_builtin_scalars_meet_the_assumptions O :
  (forall n ops v r, builtin_scalars O n = Some ops -> s_input ops v = Ok r -> is_undef r = false -> builtin_leaf n r = true) /\
  (forall n ops a r, builtin_scalars O n = Some ops -> wf_node a = true -> s_literal ops a = Ok r -> is_undef r = false -> builtin_leaf n r = true) /\
  (forall n, builtin_leaf n PNone = false).
Proof. exact (conj (builtin_leaf_input O) (conj (builtin_leaf_literal O) builtin_leaf_not_none)). Qed.

(* ... so for a schema whose scalars are the built-in ones every entry of the argument dictionary is an in-range Int, a
   finite Float, text, a boolean, a declared enum value, a list or an input object of such -- of the declared type *)
Theorem C05_builtin_schema_delivers_declared_types O sch
  (Hsc : forall n, scalars sch n = builtin_scalars O n)
  (Huniq : forall n fields, find_type sch n = Some (DInput fields) -> NoDup (map in_name fields))
  (Hwf : forall n fields f d, find_type sch n = Some (DInput fields) -> In f fields -> in_default f = Some d -> wf_lit d = true)
  fuel floc anodes vs ads vals errs :
  coerce_arguments_aux sch fuel ads floc anodes vs = Ok (vals, errs) ->
  (forall ad, In ad ads -> arg_vars_typed sch builtin_leaf fuel ad (find_arg (in_name ad) anodes) vs /\
                           arg_lit_wf (find_arg (in_name ad) anodes) = true) ->
  (forall ad d, In ad ads -> in_default ad = Some d -> lit_vars_typed sch builtin_leaf fuel vs (in_type ad) d = true /\ wf_lit d = true) ->
  forall k w, In (k, w) vals -> exists ad, In ad ads /\ in_name ad = k /\ has_type sch builtin_leaf w (in_type ad) = true.
Proof.
  apply (delivered_arguments_typed sch builtin_leaf); auto using builtin_leaf_not_none.
  intros n ops a r H. rewrite Hsc in H. exact (builtin_leaf_literal O n ops a r H).
Qed.

(* non-vacuity: a schema and a leaf predicate meeting every assumption, an argument list whose
   variables meet the premises, and the delivered (well-typed) dictionary *)
Definition t_scalars (n : string) : option scalar_ops :=
  if String.eqb n "Int" then
    Some {| s_input := fun v => match v with PInt _ => Ok v | _ => Ok PUndef end;
            s_literal := fun a => match a with PAst KIntValue (PStr "5") => Ok (PInt 5) | _ => Ok PUndef end;
            s_output := fun v => Ok v |}
  else None.
Definition t_schema : schema :=
  {| types := [("Int", DScalar);
               ("Box", DInput [{| in_name := "n"; in_type := TNonNull (TNamed "Int"); in_default := Some (LInt (0,0)%Z (PStr "5")) |};
                               {| in_name := "tags"; in_type := TList (TNamed "Int"); in_default := None |}])];
     query_type := "Query"; mutation_type := None; subscription_type := None; scalars := t_scalars |}.
Definition t_leaf (n : string) (v : pyval) : bool := match v with PInt _ => String.eqb n "Int" | _ => false end.

Example C05_typing_assumptions_hold :
  (forall n ops v r, scalars t_schema n = Some ops -> s_input ops v = Ok r -> is_undef r = false -> t_leaf n r = true) /\
  (forall n ops a r, scalars t_schema n = Some ops -> s_literal ops a = Ok r -> is_undef r = false -> t_leaf n r = true) /\
  (forall n, t_leaf n PNone = false) /\
  (forall n fields, find_type t_schema n = Some (DInput fields) -> NoDup (map in_name fields)) /\
  (forall n fields f d, find_type t_schema n = Some (DInput fields) -> In f fields -> in_default f = Some d -> wf_lit d = true).
Proof.
  repeat split.
  - intros n ops v r H. cbn in H. unfold t_scalars in H. destruct (String.eqb n "Int") eqn:E; [|discriminate].
    injection H as <-. cbn. destruct v; intros H; injection H as <-; try discriminate. intros _. cbn. exact E.
  - intros n ops a r H. cbn in H. unfold t_scalars in H. destruct (String.eqb n "Int") eqn:E; [|discriminate].
    injection H as <-. cbn. intros H Hu.
    assert (r = PInt 5) as ->.
    { destruct a as [ | | | | | | | | | | |k x]; try (injection H as <-; discriminate).
      destruct k; try (injection H as <-; discriminate).
      destruct x; try (injection H as <-; discriminate).
      destruct (String.eqb s "5") eqn:E5.
      - apply String.eqb_eq in E5. subst s. now injection H as <-.
      - exfalso. revert H Hu E5. clear. intros H Hu E5.
        assert (r = PUndef); [|subst r; discriminate].
        destruct s as [|c s]; [now injection H as <-|].
        destruct c as [[] [] [] [] [] [] [] []]; try (now injection H as <-).
        destruct s; [cbn in E5; discriminate|now injection H as <-]. }
    cbn. exact E.
  - intros n fields H. unfold find_type in H. cbn in H.
    destruct (String.eqb n "Int"); [discriminate|]. destruct (String.eqb n "Box"); [|discriminate].
    injection H as <-. cbn. repeat constructor; cbn; intuition discriminate.
  - intros n fields f d H. unfold find_type in H. cbn in H.
    destruct (String.eqb n "Int"); [discriminate|]. destruct (String.eqb n "Box"); [|discriminate].
    injection H as <-. intros [<-|[<-|[]]]; cbn; intros E; [injection E as <-; reflexivity|discriminate].
Qed.

Example C05_typing_nonvacuous :
  let ads := [{| in_name := "box"; in_type := TNonNull (TNamed "Box"); in_default := None |};
              {| in_name := "k"; in_type := TList (TNonNull (TNamed "Int")); in_default := None |}] in
  let anodes := [{| a_name := "box"; a_value := LObj (1,1)%Z [("tags", LList (1,2)%Z [LVar (1,3)%Z "w"; LNull (1,4)%Z])]; a_loc := (1,1)%Z |};
                 {| a_name := "k"; a_value := LVar (1,5)%Z "ks"; a_loc := (1,5)%Z |}] in
  let vs := [("w", PInt 7); ("ks", PList [PInt 1; PInt 2])] in
  coerce_arguments_aux t_schema 5 ads (0,0)%Z anodes vs =
    Ok ([("box", PDict [("n", PInt 5); ("tags", PList [PInt 7; PNone])]); ("k", PList [PInt 1; PInt 2])], [])
  /\ (forall ad, In ad ads -> arg_vars_typed t_schema t_leaf 5 ad (find_arg (in_name ad) anodes) vs)
  /\ has_type t_schema t_leaf (PDict [("n", PInt 5); ("tags", PList [PInt 7; PNone])]) (TNonNull (TNamed "Box")) = true
  /\ has_type t_schema t_leaf (PDict [("tags", PList [PInt 7])]) (TNonNull (TNamed "Box")) = false      (* required field missing *)
  /\ has_type t_schema t_leaf (PList [PInt 1; PNone]) (TList (TNonNull (TNamed "Int"))) = false.
Proof.
  cbv zeta. split; [vm_compute; reflexivity|]. split.
  - intros ad [<-|[<-|[]]]; vm_compute; [reflexivity|]. intros v H Hu. injection H as <-. reflexivity.
  - vm_compute. repeat split; reflexivity.
Qed.

(* REFUTED without the premise on nested variables (the recorded finding C07-nested-variable-usage, as a theorem about
   the faithful model): a String variable written inside a list literal at an Int position is delivered as it is --
   the dictionary the resolver receives is NOT of the declared type.  The engine's validation accepts such documents
   (rule 5.8.5 is applied to directly used variables only), so this is what the real engine does:
   query ($w: String) { f(box: {tags: [$w]}) } with {"w": "abc"}. *)
Example C05_nested_variable_usage_refuted :
  let ads := [{| in_name := "box"; in_type := TNonNull (TNamed "Box"); in_default := None |}] in
  let anodes := [{| a_name := "box"; a_value := LObj (1,1)%Z [("tags", LList (1,2)%Z [LVar (1,3)%Z "w"])]; a_loc := (1,1)%Z |}] in
  let vs := [("w", PStr "abc")] in
  coerce_arguments_aux t_schema 5 ads (0,0)%Z anodes vs = Ok ([("box", PDict [("n", PInt 5); ("tags", PList [PStr "abc"])])], [])
  /\ has_type t_schema t_leaf (PDict [("n", PInt 5); ("tags", PList [PStr "abc"])]) (TNonNull (TNamed "Box")) = false
  /\ lit_vars_typed t_schema t_leaf 5 vs (TNonNull (TNamed "Box")) (LObj (1,1)%Z [("tags", LList (1,2)%Z [LVar (1,3)%Z "w"])]) = false.
Proof. cbv zeta. vm_compute. repeat split; reflexivity. Qed.

Print Assumptions C05_literal_result_is_typed.
Print Assumptions C05_coerced_variables_are_typed.
Print Assumptions C05_usage_rule_is_subtyping.
Print Assumptions C05_delivered_argument_is_typed.
Print Assumptions C05_direct_variable_delivers_declared_type.
Print Assumptions C05_no_value_of_another_type_is_delivered.
Print Assumptions C05_builtin_scalars_meet_the_assumptions.
Print Assumptions C05_builtin_schema_delivers_declared_types.
