(* C12 — an engine is never built from an SDL that breaks a checked schema rule.
   Statements only.  Model/SchemaBuild.v transcribes schema_from_document (redefinitions refused),
   _validate_extensions, the extension merge and the ten validators of _validate in the order
   GraphQLSchema.bake runs them; Model/SpecSchema.v states the rules of the property.
   Proved for every SDL model: duplicate type / directive definitions (built-ins included) are
   refused; after the extensions are merged, a field of an undefined type, an argument or input
   field whose type is undefined or not an input type (field or directive, behind any wrappers,
   also when added by an extension), a missing or undefined root type, an object without fields, a
   union containing itself (also through an extension), a repeated enum value, a scalar without
   implementation and a non-awaitable directive hook each make the build fail; the engine's
   interface field-type check is exactly the specification's covariance rule (IsValidImplementationFieldType).
   Also proved (Proofs/SchemaInterfaces.v): an object that does not honour an interface it declares (missing
   field, field type not a valid implementation type, interface argument missing or of another type, an
   additional required argument, `implements` naming an undefined type or a non-interface) is refused, for
   every schema whose interface fields do not use the reserved meta-field names.
   Also proved (Proofs/SchemaExtensions.v): an extension the specification predicate refuses (unknown target,
   another kind, a member -- enum value, field, input field, interface, union member -- that exists already, a
   directive the target already carries, a schema directive already there) makes the build fail.
   `extend schema` naming an operation whose root type is already defined is refused (C12_schema_operation_redefinition_refused);
   an operation extended a second time is reported by the extension validator (schema_ext_ops_twice). *)
From Coq Require Import ZArith List String Bool.
From TV Require Import Py.Prelude Model.Schema Model.ImplValidate Model.SchemaBuild Model.SpecSchema Proofs.SchemaProofs Proofs.SchemaInterfaces Proofs.SchemaExtensions Proofs.SchemaRoots
     Gen.Wiring_gen Proofs.Wiring.
Import ListNotations.
Open Scope string_scope.
Open Scope list_scope.

Theorem C12_duplicate_definitions_rejected s : v_duplicate_definitions s = true -> builds s = false.
Proof. exact (duplicate_definitions_rejected s). Qed.

Theorem C12_defective_schema_rejected s g0 :
  initial s = inl g0 -> defect_after_merge (fold_left apply_ext (s_exts s) g0) = true -> builds s = false.
Proof. exact (build_rejects_defects s g0). Qed.

Theorem C12_validators_report_defects g : defect_after_merge g = true -> validate g <> Some [].
Proof. exact (defect_rejected g). Qed.

Theorem C12_interface_type_check_exact g ft it :
  same_as_interface_type g ft it = Some (valid_impl_type g ft it).
Proof. exact (interface_type_check_exact g ft it). Qed.

(* the interface clauses: whatever the specification's "object honours its interfaces" rejects, the build refuses *)
Theorem C12_unhonoured_interface_rejected s g0 :
  initial s = inl g0 ->
  (forall i, iface_fields_plain (fold_left apply_ext (s_exts s) g0) i) ->
  v_interface_not_honoured (fold_left apply_ext (s_exts s) g0) = true -> builds s = false.
Proof. exact (build_rejects_unhonoured_interfaces s g0). Qed.

Theorem C12_validator_reports_unhonoured_interfaces g :
  (forall i, iface_fields_plain g i) -> v_interface_not_honoured g = true -> v_follow_interfaces g <> Some [].
Proof. exact (interfaces_not_honoured_reported g). Qed.

(* invalid extensions: whatever the specification's `ext_ok` refuses, the build refuses *)
Theorem C12_invalid_extension_rejected s : v_invalid_extension s = true -> builds s = false.
Proof. exact (build_rejects_invalid_extensions s). Qed.

Theorem C12_extension_validators_report_invalid_extensions s g0 :
  initial s = inl g0 -> v_invalid_extension s = true -> validate_extensions g0 (s_exts s) <> [].
Proof. exact (invalid_extension_reported s g0). Qed.

(* `extend schema { mutation: M }` while the mutation root type is already defined: refused *)
Theorem C12_schema_operation_redefinition_refused s g0 ops dirs k v :
  initial s = inl g0 -> In (XSchema ops dirs) (s_exts s) -> In (k, v) ops -> g_has_type g0 (op_name_of g0 k) = true ->
  builds s = false.
Proof. exact (schema_operation_redefinition_refused s g0 ops dirs k v). Qed.

(* root operation types are checked on the MERGED schema: whichever definition or extension named them, an
   undefined query root, or a mutation / subscription root that is not the default name and is undefined,
   never yields an engine; in particular when the last extension is `extend schema { mutation: V }`, V undefined *)
Theorem C12_undefined_root_after_merge_refused s g0 :
  initial s = inl g0 ->
  let g := fold_left apply_ext (s_exts s) g0 in
  (defined g (g_query g) = false \/
   (g_mutation g <> "Mutation"%string /\ defined g (g_mutation g) = false) \/
   (g_subscription g <> "Subscription"%string /\ defined g (g_subscription g) = false)) ->
  builds s = false.
Proof. exact (undefined_root_after_merge_refused s g0). Qed.

Theorem C12_extension_naming_undefined_mutation_root_refused s g0 front ops dirs v :
  initial s = inl g0 -> s_exts s = (front ++ [XSchema ops dirs])%list ->
  op_lookup "mutation" (g_mutation (fold_left apply_ext front g0)) ops = v -> v <> "Mutation"%string ->
  defined (fold_left apply_ext (s_exts s) g0) v = false ->
  builds s = false.
Proof. exact (last_extension_undefined_mutation_root_refused s g0 front ops dirs v). Qed.

(* tie to the current source (regenerated on every run): the validator lists and the order of the
   steps of GraphQLSchema.bake are the ones the build model transcribes *)
Theorem C12_source_runs_the_modelled_validators :
  src_schema_validators = model_schema_validators /\ src_extension_validators = model_extension_validators /\
  src_bake_steps = model_bake_steps.
Proof. exact (conj schema_validators_are_the_models (conj extension_validators_are_the_models bake_steps_are_the_models)). Qed.

(* non-vacuity *)
Definition T (n : string) (d : typedef) : tdecl := {| td_name := n; td_def := d; td_dirs := [] |}.
Definition bad : sdl :=
  {| s_types := [T "Query" (DObject [] [{| fd_name := "a"; fd_type := TList (TNonNull (TNamed "Nope")); fd_args := [] |}]);
                 T "U" (DUnion ["Query"])];
     s_dirdefs := []; s_exts := [XType "U" (DUnion ["U"]) []]; s_schema := []; s_schema_dirs := []; s_scalar_impls := []; s_member_dirs := [] |}.
Example C12_bad_has_defects :
  exists g0, initial bad = inl g0 /\ defect_after_merge (fold_left apply_ext (s_exts bad) g0) = true.
Proof. vm_compute. eexists. split; reflexivity. Qed.
Example C12_bad_not_built : builds bad = false.
Proof. vm_compute. reflexivity. Qed.

Print Assumptions C12_source_runs_the_modelled_validators.
Print Assumptions C12_duplicate_definitions_rejected.
Print Assumptions C12_defective_schema_rejected.
Print Assumptions C12_validators_report_defects.
Print Assumptions C12_interface_type_check_exact.
Print Assumptions C12_unhonoured_interface_rejected.
Print Assumptions C12_validator_reports_unhonoured_interfaces.
Print Assumptions C12_invalid_extension_rejected.
Print Assumptions C12_extension_validators_report_invalid_extensions.
Print Assumptions C12_schema_operation_redefinition_refused.
Print Assumptions C12_undefined_root_after_merge_refused.
Print Assumptions C12_extension_naming_undefined_mutation_root_refused.
