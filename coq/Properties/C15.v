(* C15 — concurrent requests on one engine do not influence each other.
   Statements only.  Requests in flight together are the children of one top-level fan-out over
   request programs of the async calculus; the only per-request mutable state (ExecutionContext:
   errors, variable values, operation, context) lives inside each program.
   PARTIAL: that the engine shares no OTHER mutable state between requests (the baked schema, the
   parse cache and the parsed documents are shared and must stay read-only) is not a theorem about
   20k lines of Python: it is established by the correspondence check (interleaved requests vs
   each request run alone, fingerprint of the cached document, requests issued afterwards). *)
From Coq Require Import ZArith List String Bool Permutation.
From TV Require Import Py.Prelude Model.Schema Model.ImplInput Model.ImplExec Model.Async Proofs.AsyncProofs Proofs.AsyncBridge.
Import ListNotations.
Open Scope list_scope.

Section C15.
Variable oracle : site -> string -> string -> pyval -> list (string * pyval) -> uret.

(* under every interleaving of the resolver completions of all requests, what is handed on is the
   list of the responses each request has when run alone with every resolver returning at once *)
Theorem C15_isolation reqs k picks r evs :
  run_sched oracle picks (Gather reqs k) = Some (PDone r, evs) ->
  r = fst (run_seq oracle (k (map (fun q => fst (run_seq oracle q)) reqs))).
Proof.
  intros H. destruct (schedule_independence oracle _ _ _ _ H) as [-> _].
  rewrite run_seq_gather, run_seqs_fst.
  now destruct (run_seq oracle (k (map (fun c => fst (run_seq oracle c)) reqs))).
Qed.

(* and a request run alone under any schedule has that same response *)
Theorem C15_alone_any_schedule q picks r evs :
  run_sched oracle picks q = Some (PDone r, evs) -> r = fst (run_seq oracle q).
Proof. intros H. now destruct (schedule_independence oracle _ _ _ _ H). Qed.

(* the events of all requests together are those of the requests run alone (nothing extra, nothing
   lost): errors of one request cannot appear in another *)
Theorem C15_events_are_the_union reqs picks r evs :
  run_sched oracle picks (Gather reqs (fun rs => Ret (RKVs []))) = Some (PDone r, evs) ->
  Permutation evs (snd (run_seqs oracle reqs)).
Proof.
  intros H. destruct (schedule_independence oracle _ _ _ _ H) as [_ Hp].
  rewrite run_seq_gather in Hp. cbn in Hp. now rewrite app_nil_r in Hp.
Qed.

End C15.

(* each request program of the fan-out is the engine's executor for that request (its own document,
   variables, operation, root value, configuration): the response a request has "when run alone" in
   C15_isolation is the response of the state-passing executor C01-C03 are proved about *)
Theorem C15_alone_is_the_executor sch doc vs U cfg op root :
  response_of (fst (run_seq (resolver U) (a_execute_operation sch doc vs U cfg op root)))
              (snd (run_seq (resolver U) (a_execute_operation sch doc vs U cfg op root))) =
  execute_operation sch doc vs U cfg op root.
Proof. exact (execute_operation_bridge sch doc vs U cfg op root). Qed.

Print Assumptions C15_alone_is_the_executor.
Print Assumptions C15_isolation.
Print Assumptions C15_alone_any_schedule.
Print Assumptions C15_events_are_the_union.
