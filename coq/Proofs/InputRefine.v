(* The implementation model of variable coercion (coercer chains folded from the peeled
   wrapper list, accumulator-style merge loops) equals the specification model (direct
   recursion on the type, declarative error collection). *)
From Coq Require Import ZArith List String Bool Lia.
From TV Require Import Py.Prelude Model.Schema Model.ImplInput Model.SpecInput.
Import ListNotations.
Open Scope string_scope.
Open Scope list_scope.

Section Refine.
Variable sch : schema.

(* ---------- merge loops ---------- *)
Lemma merge_list_errs rs : forall vals errs,
  snd (merge_list rs vals errs) = errs ++ all_errors rs.
Proof.
  induction rs as [|[v es] rs IH]; intros vals errs; cbn [merge_list all_errors flat_map snd].
  - now rewrite app_nil_r.
  - destruct es as [|e es].
    + destruct errs; rewrite IH; reflexivity.
    + rewrite IH. cbn [snd]. now rewrite <- app_assoc.
Qed.

Lemma merge_list_vals rs : forall vals,
  all_errors rs = [] -> fst (merge_list rs vals []) = vals ++ map fst rs.
Proof.
  induction rs as [|[v es] rs IH]; intros vals H; cbn [merge_list map fst].
  - now rewrite app_nil_r.
  - cbn [all_errors flat_map snd] in H. apply app_eq_nil in H. destruct H as [-> H].
    rewrite IH by exact H. now rewrite <- app_assoc.
Qed.

Lemma merge_list_collect rs :
  (let (vals, errs) := merge_list rs [] [] in @Ok cres (mk_cres (PList vals) errs)) = Ok (collect rs PList).
Proof.
  pose proof (merge_list_errs rs [] []) as He.
  pose proof (merge_list_vals rs []) as Hv.
  destruct (merge_list rs [] []) as [vals errs]. cbn [fst snd app] in *.
  unfold collect. subst errs.
  destruct (all_errors rs) as [|e es] eqn:E.
  - rewrite Hv by reflexivity. reflexivity.
  - reflexivity.
Qed.

(* ---------- unfolding equations of the specification ---------- *)
Lemma spec_coerce_nonnull fuel t p v :
  spec_coerce sch fuel (TNonNull t) p v =
  if is_none v then Ok (PNone, [(ENonNullNull, p)]) else spec_coerce sch fuel t p v.
Proof. destruct fuel; reflexivity. Qed.

Lemma spec_coerce_list fuel t p v :
  spec_coerce sch fuel (TList t) p v =
  if is_none v then Ok (PNone, [])
  else match v with
       | PList items => bind (coerce_items (spec_coerce sch fuel t) p 0%Z items)
                             (fun rs => Ok (collect rs PList))
       | _ => bind (spec_coerce sch fuel t p v) (fun r => Ok (wrap_single r))
       end.
Proof. destruct fuel; reflexivity. Qed.

Lemma spec_coerce_named_O n p v : spec_coerce sch 0 (TNamed n) p v = Raise OutOfFuel.
Proof. reflexivity. Qed.

(* ---------- map_res ---------- *)
Lemma map_res_ext {A B} (f g : A -> res B) l :
  (forall x, In x l -> f x = g x) -> map_res f l = map_res g l.
Proof.
  induction l as [|x xs IH]; intros H; cbn [map_res]; [reflexivity|].
  rewrite H by (left; reflexivity). rewrite IH; [reflexivity|].
  intros y Hy. apply H. now right.
Qed.

Lemma map_res_enumerate (f : list pkey -> pyval -> res cres) path items : forall i,
  map_res (fun ix => f (path ++ [KIdx (fst ix)]) (snd ix)) (enumerate_from i items) =
  coerce_items f path i items.
Proof.
  induction items as [|x xs IH]; intros i; cbn [enumerate_from map_res coerce_items fst snd]; [reflexivity|].
  now rewrite IH.
Qed.

Lemma coerce_items_ext f g path : (forall p v, f p v = g p v) ->
  forall items i, coerce_items f path i items = coerce_items g path i items.
Proof.
  intros H. induction items as [|x xs IH]; intros i; cbn [coerce_items]; [reflexivity|].
  now rewrite H, IH.
Qed.

(* ---------- wrappers: fold over the peeled list = recursion on the type ---------- *)
Lemma peel_fst_snd t : peel t = (fst (peel t), snd (peel t)).
Proof. now destruct (peel t). Qed.

Lemma mk_cres_wrap_single r : mk_cres (PList [fst r]) (snd r) = wrap_single r.
Proof. unfold wrap_single, mk_cres. now destruct (snd r). Qed.

Definition leaf_agrees (fuel : nat) : Prop :=
  forall n p v, input_leaf sch fuel n p v = spec_coerce sch fuel (TNamed n) p v.

Lemma wrap_input_cons_list ws leaf :
  wrap_input (WList :: ws) leaf = in_list_coercer (wrap_input ws leaf).
Proof. reflexivity. Qed.
Lemma wrap_input_cons_nonnull ws leaf :
  wrap_input (WNonNull :: ws) leaf = in_non_null_coercer (wrap_input ws leaf).
Proof. reflexivity. Qed.

Lemma chain_eq_recursion fuel :
  leaf_agrees fuel ->
  forall t p v, get_input_coercer sch fuel t p v = spec_coerce sch fuel t p v.
Proof.
  intros Hleaf t. unfold get_input_coercer.
  induction t as [n|t IH|t IH]; intros p v.
  - cbn [peel wrap_input fold_right]. apply Hleaf.
  - cbn [peel]. rewrite (peel_fst_snd t) in *. cbn [fst snd] in *.
    rewrite wrap_input_cons_list, spec_coerce_list.
    set (inner := wrap_input _ _) in *.
    unfold in_list_coercer, null_wrap.
    destruct v; cbn [is_none]; try reflexivity;
      try (rewrite IH; destruct (spec_coerce sch fuel t p _); cbn [bind];
           [now rewrite mk_cres_wrap_single | reflexivity]).
    rewrite map_res_enumerate.
    rewrite (coerce_items_ext _ (spec_coerce sch fuel t) p IH).
    destruct (coerce_items _ _ _ _); cbn [bind]; [|reflexivity].
    now rewrite merge_list_collect.
  - cbn [peel]. rewrite (peel_fst_snd t) in *. cbn [fst snd] in *.
    rewrite wrap_input_cons_nonnull, spec_coerce_nonnull. unfold in_non_null_coercer.
    destruct (is_none v); [reflexivity | apply IH].
Qed.


(* ---------- input objects ---------- *)
Definition conv (o : option cres) : in_field_outcome :=
  match o with Some r => IRes r | None => IUndef end.

Lemma obj_merge_errs rs : forall vals errs,
  snd (obj_merge_in (map (fun p => (fst p, conv (snd p))) rs) vals errs) =
  errs ++ all_errors (map snd (present_of rs)).
Proof.
  induction rs as [|[n o] rs IH]; intros vals errs; cbn [map obj_merge_in fst snd conv present_of flat_map].
  - cbn. now rewrite app_nil_r.
  - destruct o as [[v es]|]; cbn [conv].
    + cbn [app map snd all_errors flat_map]. fold (present_of rs).
      destruct es as [|e es].
      * destruct errs; rewrite IH; reflexivity.
      * rewrite IH. cbn [snd]. unfold all_errors. now rewrite <- app_assoc.
    + cbn [app]. apply IH.
Qed.

Lemma obj_merge_vals rs : forall vals,
  all_errors (map snd (present_of rs)) = [] ->
  fst (obj_merge_in (map (fun p => (fst p, conv (snd p))) rs) vals []) =
  vals ++ map (fun r => (fst r, fst (snd r))) (present_of rs).
Proof.
  induction rs as [|[n o] rs IH]; intros vals H; cbn [map obj_merge_in fst snd conv present_of flat_map].
  - cbn. now rewrite app_nil_r.
  - destruct o as [[v es]|]; cbn [conv].
    + cbn [app map snd fst all_errors flat_map present_of] in *. fold (present_of rs) in *.
      apply app_eq_nil in H. destruct H as [-> H].
      rewrite IH by exact H. now rewrite <- app_assoc.
    + cbn [app] in *. apply IH. exact H.
Qed.

Lemma obj_merge_finish fields path kv rs :
  (let (vals, errs) := obj_merge_in (map (fun p => (fst p, conv (snd p))) rs) [] [] in
   mk_cres (PDict vals) (errs ++ unknown_of fields path kv)) = finish_object fields path kv rs.
Proof.
  pose proof (obj_merge_errs rs [] []) as He.
  pose proof (obj_merge_vals rs []) as Hv.
  destruct (obj_merge_in _ [] []) as [vals errs]. cbn [fst snd app] in *.
  unfold finish_object. subst errs.
  destruct (all_errors (map snd (present_of rs))) as [|e es] eqn:E.
  - rewrite Hv by reflexivity. cbn [app]. unfold mk_cres.
    destruct (unknown_of fields path kv); reflexivity.
  - reflexivity.
Qed.

Lemma map_res_fields (cf : input_def -> res (option cres)) fields :
  map_res (fun f => bind (cf f) (fun o => Ok (in_name f, conv o))) fields =
  bind (coerce_fields cf fields) (fun rs => Ok (map (fun p => (fst p, conv (snd p))) rs)).
Proof.
  induction fields as [|f fs IH]; cbn [map_res coerce_fields bind]; [reflexivity|].
  destruct (cf f) as [o|e]; cbn [bind]; [|reflexivity].
  rewrite IH. destruct (coerce_fields cf fs); reflexivity.
Qed.

Theorem leaf_agrees_all : forall fuel, leaf_agrees fuel.
Proof.
  induction fuel as [|fuel IH]; intros n p v; [reflexivity|].
  pose proof (chain_eq_recursion fuel IH) as Hty.
  cbn [input_leaf spec_coerce].
  destruct (find_type sch n) as [[ |values|fields|ifs fs|fs|ms]|]; try reflexivity.
  - (* scalar *)
    destruct (scalars sch n) as [ops|]; [|reflexivity].
    unfold in_scalar_coercer, null_wrap. destruct (is_none v); [reflexivity|].
    destruct (s_input ops v) as [r|e]; cbn [bind catch_exception]; [reflexivity|].
    destruct e; reflexivity.
  - (* input object *)
    unfold null_wrap. destruct (is_none v); [reflexivity|].
    destruct v; try reflexivity.
    erewrite map_res_ext.
    + rewrite (map_res_fields (coerce_field (spec_coerce sch fuel)
                 (fun ft d => get_literal_coercer sch fuel ft [] false d) p kv) fields).
      destruct (coerce_fields _ fields) as [rs|e]; cbn [bind]; [|reflexivity].
      fold (unknown_of fields p kv).
      pose proof (obj_merge_finish fields p kv rs) as Hf.
      destruct (obj_merge_in _ [] []) as [vals errs]. now rewrite Hf.
    + intros f _. unfold coerce_field.
      pose proof (Hty (in_type f)) as Hf. unfold get_input_coercer in Hf.
      unfold get_literal_coercer.
      destruct (peel (in_type f)) as [ws leafn].
      destruct (dict_get (in_name f) kv) as [fv|].
      * rewrite Hf. destruct (spec_coerce sch fuel (in_type f) _ fv); reflexivity.
      * destruct (in_default f) as [d|].
        -- destruct (wrap_literal ws _ [] false d) as [dv|]; cbn [bind]; [destruct (is_undef dv)|]; reflexivity.
        -- destruct (is_non_null (in_type f)); reflexivity.
Qed.

(* the coercer chain built by get_input_coercer is CoerceValue *)
Theorem input_coercer_refines_spec fuel t p v :
  get_input_coercer sch fuel t p v = spec_coerce sch fuel t p v.
Proof. apply chain_eq_recursion, leaf_agrees_all. Qed.

Lemma mk_cres_id (r : cres) :
  (snd r <> [] -> fst r = PNone) -> mk_cres (fst r) (snd r) = r.
Proof. destruct r as [v [|e es]]; cbn; intros H; [reflexivity|]. now rewrite H. Qed.

(* a CoercionResult never carries a value together with errors *)
Definition normal (r : cres) : Prop := snd r <> [] -> fst r = PNone.

Lemma collect_normal rs mk : normal (collect rs mk).
Proof. unfold normal, collect. destruct (all_errors rs); cbn; congruence. Qed.
Lemma wrap_single_normal r : normal (wrap_single r).
Proof. unfold normal, wrap_single. destruct (snd r); cbn; congruence. Qed.
Lemma finish_object_normal fields p kv rs : normal (finish_object fields p kv rs).
Proof. unfold normal, finish_object. destruct (_ ++ _); cbn; congruence. Qed.

Lemma spec_coerce_normal : forall fuel t p v r, spec_coerce sch fuel t p v = Ok r -> normal r.
Proof.
  intros fuel t. induction t as [n|t IH|t IH]; intros p v r.
  - destruct fuel as [|fuel]; [discriminate|]. cbn [spec_coerce].
    destruct (find_type sch n) as [[ |values|fields|ifs fs|fs|ms]|]; try discriminate.
    + destruct (scalars sch n) as [ops|]; [|discriminate].
      destruct (is_none v); [intros H; inversion H; unfold normal; cbn; congruence|].
      destruct (s_input ops v) as [x|e].
      * destruct (is_undef x); intros H; inversion H; unfold normal; cbn; congruence.
      * destruct e; intros H; inversion H; unfold normal; cbn; congruence.
    + destruct (is_none v); [intros H; inversion H; unfold normal; cbn; congruence|].
      destruct v; try (intros H; inversion H; unfold normal; cbn; congruence).
      destruct (mem_str s values); intros H; inversion H; unfold normal; cbn; congruence.
    + destruct (is_none v); [intros H; inversion H; unfold normal; cbn; congruence|].
      destruct v; try (intros H; inversion H; unfold normal; cbn; congruence).
      destruct (coerce_fields _ fields); cbn [bind]; [|discriminate].
      intros H; inversion H. apply finish_object_normal.
  - rewrite spec_coerce_list.
    destruct (is_none v); [intros H; inversion H; unfold normal; cbn; congruence|].
    destruct v; try (destruct (spec_coerce sch fuel t p _); cbn [bind]; [|discriminate];
                     intros H; inversion H; apply wrap_single_normal).
    destruct (coerce_items _ _ _ _); cbn [bind]; [|discriminate].
    intros H; inversion H. apply collect_normal.
  - rewrite spec_coerce_nonnull.
    destruct (is_none v); [intros H; inversion H; unfold normal; cbn; congruence|].
    apply IH.
Qed.

Definition vconv (o : option cres) : var_outcome :=
  match o with Some r => VRes r | None => VUndefined end.

Lemma variable_coercer_refines fuel vd raw :
  variable_coercer sch fuel vd raw =
  bind (spec_variable sch fuel vd raw) (fun o => Ok (vconv o)).
Proof.
  unfold variable_coercer, spec_variable, var_lookup.
  destruct (dict_get (v_name vd) raw) as [value|].
  - destruct (v_default vd); cbn [negb orb];
      (destruct (is_none value && is_non_null (v_type vd)); [reflexivity|]);
      rewrite input_coercer_refines_spec;
      (destruct (spec_coerce sch fuel (v_type vd) [] value) as [r|e] eqn:E; cbn [bind]; [|reflexivity]);
      rewrite mk_cres_id by (eapply spec_coerce_normal; eauto); reflexivity.
  - destruct (v_default vd) as [d|].
    + destruct (get_literal_coercer sch fuel (v_type vd) [] false d) as [x|e]; cbn [bind]; [|reflexivity].
      destruct (is_undef x); reflexivity.
    + cbn [negb orb andb is_none]. destruct (is_non_null (v_type vd)); reflexivity.
Qed.

Theorem coerce_variables_refines_spec fuel vds raw :
  coerce_variables sch fuel vds raw = spec_coerce_variables sch fuel vds raw.
Proof.
  induction vds as [|vd vds IH]; cbn [coerce_variables spec_coerce_variables]; [reflexivity|].
  rewrite variable_coercer_refines, IH.
  destruct (spec_variable sch fuel vd raw) as [o|e]; cbn [bind]; [|reflexivity].
  destruct (spec_coerce_variables sch fuel vds raw) as [[vals errs]|e]; cbn [bind]; [|reflexivity].
  destruct o as [[v es]|]; reflexivity.
Qed.

End Refine.
