(* The validation walk as a PURE function of the document: whatever the shared context holds, the errors
   the walk appends below a selection (and whether a rule raises) depend only on the type scope the
   selection is written in.  `sel_errs scope path s` is that function, defined by recursion on the
   selection with the scope handed down exactly as the walk's parent_type bookkeeping does; the theorem
   `walk_selection_obs` shows the walk computes it from EVERY state: a state already refused by an
   aborting rule or a raising rule stays as it is, a live state gets exactly these errors appended, in
   this order, or ends crashed when one of the rules raises. *)
From Coq Require Import ZArith List String Bool Lia.
From TV Require Import Py.Prelude Model.Schema Model.ImplValidate Model.SpecValidate Proofs.ValidateProofs
     Proofs.ValidateValues Proofs.ValidateSites.
From RecordUpdate Require Import RecordSet.
Import ListNotations.
Import RecordSetNotations.
Open Scope list_scope.

Section Walk.
Variable V : vschema.

(* sequencing of outcomes: None = a rule raised *)
Definition seq2 (a b : option (list verror)) : option (list verror) :=
  match a, b with Some x, Some y => Some (x ++ y) | _, _ => None end.
Fixpoint seqs (l : list (option (list verror))) : option (list verror) :=
  match l with [] => Some [] | a :: r => seq2 a (seqs r) end.

(* what one step does to the part of the context the verdict is read from *)
Definition obs (st st' : vctx) (F : option (list verror)) : Prop :=
  aborted st' = aborted st /\
  (if aborted st || crashed st then crashed st' = crashed st /\ errs st' = errs st
   else match F with
        | Some E => crashed st' = false /\ errs st' = errs st ++ E
        | None => crashed st' = true
        end).

Lemma obs_refl st : obs st st (Some []).
Proof. split; [reflexivity|]. destruct (aborted st || crashed st) eqn:E; [split; reflexivity|].
       apply orb_false_elim in E. destruct E as [_ E]. split; [exact E|now rewrite app_nil_r]. Qed.

Lemma obs_trans st st1 st2 F1 F2 : obs st st1 F1 -> obs st1 st2 F2 -> obs st st2 (seq2 F1 F2).
Proof.
  intros [A1 H1] [A2 H2]. split; [congruence|]. rewrite A1 in H2.
  destruct (aborted st) eqn:Ea; cbn [orb] in *.
  - destruct H1 as [C1 E1]. destruct H2 as [C2 E2]. split; congruence.
  - destruct (crashed st) eqn:Ec; cbn [orb] in *.
    + destruct H1 as [C1 E1]. rewrite C1 in H2. destruct H2 as [C2 E2]. split; congruence.
    + destruct F1 as [x|]; cbn [seq2].
      * destruct H1 as [C1 E1]. rewrite C1 in H2. destruct F2 as [y|].
        -- destruct H2 as [C2 E2]. split; [exact C2|]. now rewrite E2, E1, app_assoc.
        -- exact H2.
      * rewrite H1 in H2. destruct H2 as [C2 _]. destruct F2; congruence.
Qed.

Lemma obs_ext st st' F G : F = G -> obs st st' F -> obs st st' G.
Proof. now intros ->. Qed.

Lemma emit_obs r st : obs st (emit false r st) r.
Proof.
  unfold obs, emit. destruct (aborted st || crashed st) eqn:E; [repeat split; reflexivity|].
  apply orb_false_elim in E. destruct E as [Ea Ec].
  destruct r as [es|]; cbn; [split; [reflexivity|split; [exact Ec|reflexivity]]|split; reflexivity].
Qed.
Lemma emit_ok_obs es st : obs st (emit_ok es st) (Some es).
Proof. apply emit_obs. Qed.

(* steps that only touch the bookkeeping *)
Definition same_verdict (st st' : vctx) : Prop :=
  aborted st' = aborted st /\ crashed st' = crashed st /\ errs st' = errs st.
Lemma same_obs st st' : same_verdict st st' -> obs st st' (Some []).
Proof.
  intros (A & C & E). split; [exact A|]. destruct (aborted st || crashed st) eqn:Ef; [split; assumption|].
  apply orb_false_elim in Ef. destruct Ef as [_ Ec]. split; [congruence|now rewrite E, app_nil_r].
Qed.
Lemma upd_scope_same f st : same_verdict st (upd_scope f st).
Proof. unfold upd_scope, same_verdict. destruct (in_operation st); repeat split; reflexivity. Qed.
Lemma record_var_same n l st : same_verdict st (record_var n l st).
Proof. unfold record_var. destruct (in_vardefs st); [repeat split; reflexivity|apply upd_scope_same]. Qed.

(* parent_type is only changed by walk_selection / walk_fragment / walk_operation themselves *)
Lemma emit_pt b r st : parent_type (emit b r st) = parent_type st.
Proof. unfold emit. destruct (aborted st || crashed st); [reflexivity|]. destruct r as [es|]; [|reflexivity].
       destruct (b && negb match es with [] => true | _ :: _ => false end); reflexivity. Qed.
Lemma emit_ok_pt es st : parent_type (emit_ok es st) = parent_type st.
Proof. apply emit_pt. Qed.
Ltac pts := repeat (rewrite emit_ok_pt || rewrite emit_pt).
Lemma upd_scope_pt f st : parent_type (upd_scope f st) = parent_type st.
Proof. unfold upd_scope. destruct (in_operation st); reflexivity. Qed.
Lemma record_var_pt n l st : parent_type (record_var n l st) = parent_type st.
Proof. unfold record_var. destruct (in_vardefs st); [reflexivity|apply upd_scope_pt]. Qed.

(* ---------- values: rule 5.6.3 (input object field uniqueness) fires inside literals ---------- *)
Fixpoint value_errs (path : opath) (v : lit) {struct v} : list verror :=
  match v with
  | LList _ items => (fix go (xs : list lit) : list verror := match xs with [] => [] | x :: r => value_errs path x ++ go r end) items
  | LObj _ fields =>
      (fix go (xs : list (string * lit)) : list verror :=
         match xs with [] => [] | (_, x) :: r => value_errs path x ++ go r end) fields ++
      match fields with
      | [] => []
      | _ => uniq_errors "input-object-field-uniqueness" fst (fun kv => lit_loc (snd kv)) path fields
      end
  | _ => []
  end.

Fixpoint walk_value_obs path v {struct v} : forall st,
  obs st (walk_value path v st) (Some (value_errs path v)) /\ parent_type (walk_value path v st) = parent_type st.
Proof.
  destruct v; intros st; cbn [walk_value value_errs]; try (split; [apply obs_refl|reflexivity]).
  - split; [apply same_obs, record_var_same|apply record_var_pt].
  - revert st. induction items as [|x r IH]; intros st; [split; [apply obs_refl|reflexivity]|].
    destruct (walk_value_obs path x st) as [O1 P1]. destruct (IH (walk_value path x st)) as [O2 P2].
    split; [exact (obs_trans _ _ _ _ _ O1 O2)|congruence].
  - assert (H : forall st, obs st ((fix go (xs : list (string * lit)) (st : vctx) : vctx :=
                  match xs with [] => st | (_, x) :: r => go r (walk_value path x st) end) fields st)
                  (Some ((fix go (xs : list (string * lit)) : list verror :=
                     match xs with [] => [] | (_, x) :: r => value_errs path x ++ go r end) fields)) /\
                parent_type ((fix go (xs : list (string * lit)) (st : vctx) : vctx :=
                  match xs with [] => st | (_, x) :: r => go r (walk_value path x st) end) fields st) = parent_type st).
    { induction fields as [|[k x] r IH]; intros st0; [split; [apply obs_refl|reflexivity]|].
      destruct (walk_value_obs path x st0) as [O1 P1]. destruct (IH (walk_value path x st0)) as [O2 P2].
      split; [exact (obs_trans _ _ _ _ _ O1 O2)|congruence]. }
    destruct (H st) as [O P]. destruct fields as [|kv r].
    + split; [now rewrite app_nil_r|exact P].
    + split; [exact (obs_trans _ _ _ _ _ O (emit_ok_obs _ _))|now pts].
Qed.

(* ---------- arguments ---------- *)
Definition arguments_errs (path : opath) (args : list argument) : list verror :=
  match args with
  | [] => []
  | _ => flat_map (fun a => value_errs path (a_value a)) args ++ uniq_errors "argument-uniqueness" a_name a_loc path args
  end.

Lemma walk_argument_obs path a st :
  obs st (walk_argument path a st) (Some (value_errs path (a_value a))) /\ parent_type (walk_argument path a st) = parent_type st.
Proof.
  unfold walk_argument. destruct (walk_value_obs path (a_value a) st) as [O P].
  destruct (a_value a); try (split; assumption).
  split.
  - eapply obs_ext; [|exact (obs_trans _ _ _ _ _ O (same_obs _ _ (upd_scope_same _ _)))]. cbn. rewrite ?app_nil_r. reflexivity.
  - now rewrite upd_scope_pt.
Qed.

Lemma fold_arguments_obs path args : forall st,
  obs st (fold_left (fun st a => walk_argument path a st) args st) (Some (flat_map (fun a => value_errs path (a_value a)) args)) /\
  parent_type (fold_left (fun st a => walk_argument path a st) args st) = parent_type st.
Proof.
  induction args as [|a r IH]; intros st; [split; [apply obs_refl|reflexivity]|]. cbn [fold_left flat_map].
  destruct (walk_argument_obs path a st) as [O1 P1]. destruct (IH (walk_argument path a st)) as [O2 P2].
  split; [exact (obs_trans _ _ _ _ _ O1 O2)|congruence].
Qed.

Lemma walk_arguments_obs path args st :
  obs st (walk_arguments path args st) (Some (arguments_errs path args)) /\ parent_type (walk_arguments path args st) = parent_type st.
Proof.
  unfold walk_arguments, arguments_errs. destruct args as [|a r]; [split; [apply obs_refl|reflexivity]|].
  destruct (fold_arguments_obs path (a :: r) st) as [O P].
  split; [exact (obs_trans _ _ _ _ _ O (emit_ok_obs _ _))|now pts].
Qed.

(* ---------- directives ---------- *)
Definition directive_errs (path : opath) (d : directive) : option (list verror) :=
  let defs := match vfind_directive V (d_name d) with Some dd => Some (dd_args dd) | None => None end in
  seqs [Some (arguments_errs path (dir_args d));
        vct_arguments V path defs (dir_args d);
        Some (argument_names_errors path defs (dir_args d));
        Some (required_arguments_errors path defs (d_loc d) (dir_args d));
        Some (match defs with None => [mkerr "directives-are-defined" path [d_loc d]] | Some _ => [] end)].

Lemma set_same_in_directive b st : same_verdict st (st <| in_directive := b |>).
Proof. repeat split; reflexivity. Qed.

Lemma walk_directive_obs path d st :
  obs st (walk_directive V path d st) (directive_errs path d) /\ parent_type (walk_directive V path d st) = parent_type st.
Proof.
  unfold walk_directive, directive_errs. cbn [seqs].
  set (st1 := st <| in_directive := true |> <| cur_directive := d_name d |>).
  assert (S1 : same_verdict st st1) by (repeat split; reflexivity).
  destruct (walk_arguments_obs path (dir_args d) st1) as [O2 P2].
  set (st2 := walk_arguments path (dir_args d) st1) in *.
  set (st3 := st2 <| in_directive := false |>).
  assert (S3 : same_verdict st2 st3) by (repeat split; reflexivity).
  split.
  - eapply obs_ext; [|refine (obs_trans _ _ _ _ _ (same_obs _ _ S1) (obs_trans _ _ _ _ _ O2 (obs_trans _ _ _ _ _ (same_obs _ _ S3)
        (obs_trans _ _ _ _ _ (emit_obs _ _) (obs_trans _ _ _ _ _ (emit_ok_obs _ _) (obs_trans _ _ _ _ _ (emit_ok_obs _ _) (emit_ok_obs _ _)))))))].
    cbn [seq2 app]. destruct (vct_arguments V path _ (dir_args d)); cbn [seq2 app]; [|reflexivity]. rewrite ?app_nil_r. reflexivity.
  - pts. unfold st3. cbn. rewrite P2. reflexivity.
Qed.

Definition directives_errs (path : opath) (ds : list directive) : option (list verror) :=
  match ds with
  | [] => Some []
  | _ => seq2 (seqs (map (directive_errs path) ds))
              (Some (uniq_errors "directives-are-unique-per-location" d_name d_loc path ds))
  end.

Lemma fold_directives_obs path ds : forall st,
  obs st (fold_left (fun st d => walk_directive V path d st) ds st) (seqs (map (directive_errs path) ds)) /\
  parent_type (fold_left (fun st d => walk_directive V path d st) ds st) = parent_type st.
Proof.
  induction ds as [|d r IH]; intros st; [split; [apply obs_refl|reflexivity]|]. cbn [fold_left map seqs].
  destruct (walk_directive_obs path d st) as [O1 P1]. destruct (IH (walk_directive V path d st)) as [O2 P2].
  split; [exact (obs_trans _ _ _ _ _ O1 O2)|congruence].
Qed.

Lemma walk_directives_obs path ds st :
  obs st (walk_directives V path ds st) (directives_errs path ds) /\ parent_type (walk_directives V path ds st) = parent_type st.
Proof.
  unfold walk_directives, directives_errs. destruct ds as [|d r]; [split; [apply obs_refl|reflexivity]|].
  destruct (fold_directives_obs path (d :: r) st) as [O P].
  split; [exact (obs_trans _ _ _ _ _ O (emit_ok_obs _ _))|now pts].
Qed.

(* ---------- the rules of one field, given the scope it is selected in ---------- *)
Definition field_rules_errs (scope : option string) (path : opath) (l : loc) (name : string) (args : list argument)
           (dirs : list directive) (has_sels : bool) : option (list verror) :=
  let rt := field_reduced_type V scope name in
  let defs := match vfind_field V scope name with Some f => Some (fd_args f) | None => None end in
  seqs [Some (valid_locations_errors V path "FIELD" l dirs);
        Some (if String.eqb name "__typename" then [] else
              match rt with None => [mkerr "field-selections-on-objects-interfaces-and-unions-types" path [l]] | Some _ => [] end);
        Some (match rt with
              | None => []
              | Some d => if negb has_sels && is_composite_def d then [mkerr "leaf-field-selections" path [l]]
                          else if has_sels && negb (is_composite_def d) then [mkerr "leaf-field-selections" path [l]]
                          else []
              end);
        vct_arguments V path defs args;
        Some (argument_names_errors path defs args);
        Some (required_arguments_errors path defs l args)].

Lemma field_rules_obs path l name args dirs hs st :
  obs st (field_rules V path l name args dirs hs st) (field_rules_errs (parent_type st) path l name args dirs hs) /\
  parent_type (field_rules V path l name args dirs hs st) = parent_type st.
Proof.
  unfold field_rules, field_rules_errs. cbn [seqs]. split.
  - refine (obs_trans _ _ _ _ _ (emit_ok_obs _ _) (obs_trans _ _ _ _ _ (emit_ok_obs _ _) (obs_trans _ _ _ _ _ (emit_ok_obs _ _)
             (obs_trans _ _ _ _ _ (emit_obs _ _) (obs_trans _ _ _ _ _ (emit_ok_obs _ _) _))))).
    eapply obs_ext; [|apply emit_ok_obs]. cbn. now rewrite app_nil_r.
  - now pts.
Qed.

(* ---------- selections ---------- *)
Definition type_condition_errs (path : opath) (l : loc) (tc : option string) : list verror :=
  (match tc with
   | Some t => if has_type V t then [] else [mkerr "fragment-spread-type-existence" path [l]]
   | None => [] end) ++
  (match tc with
   | Some t => match vfind_type V t with
               | Some d => if is_composite_def d then [] else [mkerr "fragments-on-composite-types" path [l]]
               | None => [] end
   | None => [] end).

Fixpoint sel_errs (scope : option string) (path : opath) (s : selection) {struct s} : option (list verror) :=
  match s with
  | SField l alias name args dirs sels =>
      let path' := path_push path name in
      let inner := field_type_name V scope name in
      seq2 (Some (arguments_errs path' args))
        (seq2 (directives_errs path' dirs)
           (seq2 ((fix go (xs : list selection) : option (list verror) :=
                     match xs with [] => Some [] | x :: r => seq2 (sel_errs inner path' x) (go r) end) sels)
                 (field_rules_errs scope path' l name args dirs (match sels with [] => false | _ => true end))))
  | SSpread l name dirs =>
      seq2 (directives_errs path dirs) (Some (valid_locations_errors V path "FRAGMENT_SPREAD" l dirs))
  | SInline l tc dirs sels =>
      let inner := match tc with Some t => Some t | None => scope end in
      seq2 (directives_errs path dirs)
        (seq2 ((fix go (xs : list selection) : option (list verror) :=
                  match xs with [] => Some [] | x :: r => seq2 (sel_errs inner path x) (go r) end) sels)
              (Some (valid_locations_errors V path "INLINE_FRAGMENT" l dirs ++ type_condition_errs path l tc)))
  end.

Definition sels_errs (scope : option string) (path : opath) (sels : list selection) : option (list verror) :=
  (fix go (xs : list selection) : option (list verror) :=
     match xs with [] => Some [] | x :: r => seq2 (sel_errs scope path x) (go r) end) sels.

Lemma set_pt_same p st : same_verdict st (st <| parent_type := p |>).
Proof. repeat split; reflexivity. Qed.

Fixpoint walk_selection_obs path s {struct s} : forall st,
  obs st (walk_selection V path s st) (sel_errs (parent_type st) path s) /\
  parent_type (walk_selection V path s st) = parent_type st.
Proof.
  destruct s as [l alias name args dirs sels|l name dirs|l tc dirs sels]; intros st; cbn [walk_selection sel_errs].
  - (* field *)
    set (saved := parent_type st). set (path' := path_push path name). set (inner := field_type_name V saved name).
    set (st1 := st <| parent_type := inner |> <| in_directive := false |>
                   <| cur_field := (show_opt saved ++ "." ++ name)%string |>).
    assert (S1 : same_verdict st st1) by (repeat split; reflexivity).
    assert (P1 : parent_type st1 = inner) by reflexivity.
    destruct (walk_arguments_obs path' args st1) as [O2 P2]. set (st2 := walk_arguments path' args st1) in *.
    destruct (walk_directives_obs path' dirs st2) as [O3 P3]. set (st3 := walk_directives V path' dirs st2) in *.
    assert (P3' : parent_type st3 = inner) by congruence.
    assert (Hsub : forall sels st0, parent_type st0 = inner ->
              obs st0 ((fix go (xs : list selection) (st : vctx) : vctx :=
                          match xs with [] => st | x :: r => go r (walk_selection V path' x st) end) sels st0)
                      ((fix go (xs : list selection) : option (list verror) :=
                          match xs with [] => Some [] | x :: r => seq2 (sel_errs inner path' x) (go r) end) sels) /\
              parent_type ((fix go (xs : list selection) (st : vctx) : vctx :=
                          match xs with [] => st | x :: r => go r (walk_selection V path' x st) end) sels st0) = inner).
    { clear - walk_selection_obs. induction sels as [|x r IH]; intros st0 Hp; [split; [apply obs_refl|exact Hp]|].
      destruct (walk_selection_obs path' x st0) as [Ox Px]. rewrite Hp in Ox.
      destruct (IH (walk_selection V path' x st0) ltac:(congruence)) as [Or Pr].
      split; [exact (obs_trans _ _ _ _ _ Ox Or)|exact Pr]. }
    destruct (Hsub sels st3 P3') as [O4 P4].
    set (st4 := (fix go (xs : list selection) (st : vctx) : vctx :=
                   match xs with [] => st | x :: r => go r (walk_selection V path' x st) end) sels st3) in *.
    set (st5 := st4 <| parent_type := saved |>).
    assert (S5 : same_verdict st4 st5) by (repeat split; reflexivity).
    destruct (field_rules_obs path' l name args dirs (match sels with [] => false | _ :: _ => true end) st5) as [O6 P6].
    change (parent_type st5) with saved in O6.
    split.
    + eapply obs_ext; [|refine (obs_trans _ _ _ _ _ (same_obs _ _ S1) (obs_trans _ _ _ _ _ O2 (obs_trans _ _ _ _ _ O3
                                  (obs_trans _ _ _ _ _ O4 (obs_trans _ _ _ _ _ (same_obs _ _ S5) O6)))))].
      cbn [seq2 app]. destruct (directives_errs path' dirs); [|reflexivity]. cbn [seq2].
      match goal with |- context [seq2 ?g ?f] => destruct g; cbn [seq2 app]; [|reflexivity] end.
      destruct (field_rules_errs saved path' l name args dirs _); reflexivity.
    + rewrite P6. reflexivity.
  - (* spread *)
    destruct (walk_directives_obs path dirs st) as [O1 P1]. set (st1 := walk_directives V path dirs st) in *.
    pose proof (emit_ok_obs (valid_locations_errors V path "FRAGMENT_SPREAD" l dirs) st1) as O2.
    set (st2 := emit_ok (valid_locations_errors V path "FRAGMENT_SPREAD" l dirs) st1) in *.
    set (st3 := st2 <| frag_spreads ::= fun x => x ++ [(name, l)] |>
                    <| spreaded_in ::= upd_assoc opt_str_eqb (parent_type st2) [] (fun x => x ++ [(name, l, path)]) |>).
    assert (S3 : same_verdict st2 st3) by (repeat split; reflexivity).
    split.
    + eapply obs_ext; [|exact (obs_trans _ _ _ _ _ O1 (obs_trans _ _ _ _ _ O2
          (obs_trans _ _ _ _ _ (same_obs _ _ S3) (same_obs _ _ (upd_scope_same _ st3)))))].
      destruct (directives_errs path dirs); cbn [seq2 app]; [|reflexivity]. now rewrite !app_nil_r.
    + rewrite upd_scope_pt. unfold st3. cbn. unfold st2. pts. exact P1.
  - (* inline fragment *)
    set (saved := parent_type st). set (inner := match tc with Some t => Some t | None => saved end).
    set (st1 := match tc with Some t => st <| parent_type := Some t |> | None => st end).
    assert (S1 : same_verdict st st1) by (unfold st1; destruct tc; repeat split; reflexivity).
    assert (P1 : parent_type st1 = inner) by (unfold st1, inner; destruct tc; reflexivity).
    destruct (walk_directives_obs path dirs st1) as [O2 P2]. set (st2 := walk_directives V path dirs st1) in *.
    assert (P2' : parent_type st2 = inner) by congruence.
    assert (Hsub : forall sels st0, parent_type st0 = inner ->
              obs st0 ((fix go (xs : list selection) (st : vctx) : vctx :=
                          match xs with [] => st | x :: r => go r (walk_selection V path x st) end) sels st0)
                      ((fix go (xs : list selection) : option (list verror) :=
                          match xs with [] => Some [] | x :: r => seq2 (sel_errs inner path x) (go r) end) sels) /\
              parent_type ((fix go (xs : list selection) (st : vctx) : vctx :=
                          match xs with [] => st | x :: r => go r (walk_selection V path x st) end) sels st0) = inner).
    { clear - walk_selection_obs. induction sels as [|x r IH]; intros st0 Hp; [split; [apply obs_refl|exact Hp]|].
      destruct (walk_selection_obs path x st0) as [Ox Px]. rewrite Hp in Ox.
      destruct (IH (walk_selection V path x st0) ltac:(congruence)) as [Or Pr].
      split; [exact (obs_trans _ _ _ _ _ Ox Or)|exact Pr]. }
    destruct (Hsub sels st2 P2') as [O3 P3].
    set (st3 := (fix go (xs : list selection) (st : vctx) : vctx :=
                   match xs with [] => st | x :: r => go r (walk_selection V path x st) end) sels st2) in *.
    set (e1 := valid_locations_errors V path "INLINE_FRAGMENT" l dirs).
    set (e2 := match tc with
               | Some t => if has_type V t then [] else [mkerr "fragment-spread-type-existence" path [l]]
               | None => [] end).
    set (e3 := match tc with
               | Some t => match vfind_type V t with
                           | Some d => if is_composite_def d then [] else [mkerr "fragments-on-composite-types" path [l]]
                           | None => [] end
               | None => [] end).
    set (st4 := emit_ok e1 st3). set (st5 := emit_ok e2 st4). set (st6 := emit_ok e3 st5).
    set (st7 := st6 <| inlined_in ::= upd_assoc opt_str_eqb saved [] (fun x => x ++ [(tc, l)]) |>).
    set (st8 := st7 <| parent_type := saved |>).
    assert (S78 : same_verdict st6 st8) by (repeat split; reflexivity).
    split.
    + eapply obs_ext; [|exact (obs_trans _ _ _ _ _ (same_obs _ _ S1) (obs_trans _ _ _ _ _ O2 (obs_trans _ _ _ _ _ O3
          (obs_trans _ _ _ _ _ (emit_ok_obs e1 st3) (obs_trans _ _ _ _ _ (emit_ok_obs e2 st4) (obs_trans _ _ _ _ _ (emit_ok_obs e3 st5)
             (same_obs _ _ S78)))))))].
      cbn [seq2 app]. destruct (directives_errs path dirs); [|reflexivity]. cbn [seq2].
      match goal with |- context [seq2 ?g ?f] => destruct g; cbn [seq2 app]; [|reflexivity] end.
      unfold type_condition_errs. fold e2 e3. now rewrite !app_nil_r.
    + reflexivity.
Qed.

Lemma walk_selections_obs path sels : forall st,
  obs st (walk_selections V path sels st) (sels_errs (parent_type st) path sels) /\
  parent_type (walk_selections V path sels st) = parent_type st.
Proof.
  unfold walk_selections, sels_errs. induction sels as [|x r IH]; intros st; [split; [apply obs_refl|reflexivity]|].
  cbn [fold_left]. destruct (walk_selection_obs path x st) as [Ox Px]. destruct (IH (walk_selection V path x st)) as [Or Pr].
  rewrite Px in Or. split; [exact (obs_trans _ _ _ _ _ Ox Or)|congruence].
Qed.

(* ---------- definitions ---------- *)
Definition vardef_errs (vd : var_def) : list verror :=
  (match v_default vd with Some d => value_errs None d | None => [] end) ++
  (match vfind_type V (named_of (v_type vd)) with
   | Some d => if is_input_def d then [] else [mkerr "variables-are-input-types" None [v_loc vd]]
   | None => [] end).
Definition vardefs_errs (vds : list var_def) : list verror :=
  match vds with
  | [] => []
  | _ => flat_map vardef_errs vds ++ uniq_errors "variable-uniqueness" v_name v_loc None vds
  end.

Lemma walk_vardef_obs vd st :
  obs st (walk_vardef V vd st) (Some (vardef_errs vd)) /\ parent_type (walk_vardef V vd st) = parent_type st.
Proof.
  unfold walk_vardef, vardef_errs. destruct (v_default vd) as [d|].
  - destruct (walk_value_obs None d st) as [O P]. split; [exact (obs_trans _ _ _ _ _ O (emit_ok_obs _ _))|now pts].
  - split; [apply emit_ok_obs|now pts].
Qed.

Lemma walk_vardefs_obs vds st :
  obs st (walk_vardefs V vds st) (Some (vardefs_errs vds)) /\ parent_type (walk_vardefs V vds st) = parent_type st.
Proof.
  unfold walk_vardefs, vardefs_errs. destruct vds as [|vd0 r0]; [split; [apply obs_refl|reflexivity]|].
  remember (vd0 :: r0) as vds eqn:E. clear E.
  set (st1 := st <| in_vardefs := true |>).
  assert (S1 : same_verdict st st1) by (repeat split; reflexivity).
  assert (Hf : forall vds st0, obs st0 (fold_left (fun st vd => walk_vardef V vd st) vds st0) (Some (flat_map vardef_errs vds)) /\
                               parent_type (fold_left (fun st vd => walk_vardef V vd st) vds st0) = parent_type st0).
  { clear. induction vds as [|vd r IH]; intros st0; [split; [apply obs_refl|reflexivity]|]. cbn [fold_left flat_map].
    destruct (walk_vardef_obs vd st0) as [O1 P1]. destruct (IH (walk_vardef V vd st0)) as [O2 P2].
    split; [exact (obs_trans _ _ _ _ _ O1 O2)|congruence]. }
  destruct (Hf vds st1) as [O2 P2]. set (st2 := fold_left (fun st vd => walk_vardef V vd st) vds st1) in *.
  set (st3 := st2 <| in_vardefs := false |>).
  assert (S3 : same_verdict st2 st3) by (repeat split; reflexivity).
  split.
  - eapply obs_ext; [|exact (obs_trans _ _ _ _ _ (same_obs _ _ S1) (obs_trans _ _ _ _ _ O2 (obs_trans _ _ _ _ _ (same_obs _ _ S3)
        (emit_ok_obs (uniq_errors "variable-uniqueness" v_name v_loc None vds) st3))))].
    cbn [seq2 app]. reflexivity.
  - pts. unfold st3. cbn. rewrite P2. reflexivity.
Qed.

Definition operation_errs (o : operation) : option (list verror) :=
  seq2 (Some (vardefs_errs (o_vars o)))
    (seq2 (directives_errs None (o_dirs o))
       (seq2 (sels_errs (op_root V (o_kind o)) None (o_sels o))
             (Some (valid_locations_errors V None (op_loc_name (o_kind o)) (o_loc o) (o_dirs o))))).

Lemma walk_operation_obs o st : obs st (walk_operation V o st) (operation_errs o).
Proof.
  unfold walk_operation, operation_errs.
  set (st1 := st <| parent_type := op_root V (o_kind o) |> <| in_operation := true |> <| cur_op := op_key o |>
                 <| per_op ::= upd_assoc String.eqb (op_key o) empty_si (fun x => x) |>).
  assert (S1 : same_verdict st st1) by (repeat split; reflexivity).
  assert (P1 : parent_type st1 = op_root V (o_kind o)) by reflexivity.
  destruct (walk_vardefs_obs (o_vars o) st1) as [O2 P2]. set (st2 := walk_vardefs V (o_vars o) st1) in *.
  destruct (walk_directives_obs None (o_dirs o) st2) as [O3 P3]. set (st3 := walk_directives V None (o_dirs o) st2) in *.
  destruct (walk_selections_obs None (o_sels o) st3) as [O4 P4].
  replace (parent_type st3) with (op_root V (o_kind o)) in O4 by congruence.
  eapply obs_ext; [|exact (obs_trans _ _ _ _ _ (same_obs _ _ S1) (obs_trans _ _ _ _ _ O2 (obs_trans _ _ _ _ _ O3
      (obs_trans _ _ _ _ _ O4 (emit_ok_obs _ _)))))].
  cbn [seq2 app]. destruct (directives_errs None (o_dirs o)); [|reflexivity]. cbn [seq2].
  destruct (sels_errs (op_root V (o_kind o)) None (o_sels o)); reflexivity.
Qed.

Definition fragment_errs (f : fragment) : option (list verror) :=
  seq2 (directives_errs None (fr_dirs f))
    (seq2 (sels_errs (Some (fr_type f)) None (fr_sels f))
          (Some (valid_locations_errors V None "FRAGMENT_DEFINITION" (fr_loc f) (fr_dirs f) ++
                 type_condition_errs None (fr_loc f) (Some (fr_type f))))).

Lemma walk_fragment_obs f st : obs st (walk_fragment V f st) (fragment_errs f).
Proof.
  unfold walk_fragment, fragment_errs.
  set (st1 := st <| parent_type := Some (fr_type f) |> <| in_operation := false |> <| cur_frag := fr_name f |>
                 <| per_frag ::= upd_assoc String.eqb (fr_name f) empty_si (fun x => x) |>).
  assert (S1 : same_verdict st st1) by (repeat split; reflexivity).
  assert (P1 : parent_type st1 = Some (fr_type f)) by reflexivity.
  destruct (walk_directives_obs None (fr_dirs f) st1) as [O2 P2]. set (st2 := walk_directives V None (fr_dirs f) st1) in *.
  destruct (walk_selections_obs None (fr_sels f) st2) as [O3 P3].
  replace (parent_type st2) with (Some (fr_type f)) in O3 by congruence.
  set (st3 := walk_selections V None (fr_sels f) st2) in *.
  set (e1 := valid_locations_errors V None "FRAGMENT_DEFINITION" (fr_loc f) (fr_dirs f)).
  set (e2 := if has_type V (fr_type f) then [] else [mkerr "fragment-spread-type-existence" None [fr_loc f]]).
  set (e3 := match vfind_type V (fr_type f) with
             | Some d => if is_composite_def d then [] else [mkerr "fragments-on-composite-types" None [fr_loc f]]
             | None => [] end).
  set (st4 := emit_ok e1 st3). set (st5 := emit_ok e2 st4). set (st6 := emit_ok e3 st5).
  assert (S7 : same_verdict st6 (st6 <| parent_type := parent_type st |>)) by (repeat split; reflexivity).
  eapply obs_ext; [|exact (obs_trans _ _ _ _ _ (same_obs _ _ S1) (obs_trans _ _ _ _ _ O2 (obs_trans _ _ _ _ _ O3
      (obs_trans _ _ _ _ _ (emit_ok_obs e1 st3) (obs_trans _ _ _ _ _ (emit_ok_obs e2 st4) (obs_trans _ _ _ _ _ (emit_ok_obs e3 st5)
         (same_obs _ _ S7)))))))].
  cbn [seq2 app]. destruct (directives_errs None (fr_dirs f)); [|reflexivity]. cbn [seq2].
  destruct (sels_errs (Some (fr_type f)) None (fr_sels f)); cbn [seq2 app]; [|reflexivity].
  unfold type_condition_errs. fold e2 e3. now rewrite !app_nil_r.
Qed.

(* ---------- the walk phase of a document ---------- *)
Definition walk_phase_errs (doc : document) : option (list verror) :=
  seq2 (seqs (map operation_errs (operations doc))) (seqs (map fragment_errs (fragments doc))).

Definition walked (doc : document) : vctx :=
  fold_left (fun st f => walk_fragment V f st) (fragments doc)
    (fold_left (fun st o => walk_operation V o st) (operations doc) init_ctx).

Theorem walked_obs doc : obs init_ctx (walked doc) (walk_phase_errs doc).
Proof.
  unfold walked, walk_phase_errs.
  assert (Ho : forall ops st, obs st (fold_left (fun st o => walk_operation V o st) ops st) (seqs (map operation_errs ops))).
  { induction ops as [|o r IH]; intros st; [apply obs_refl|]. cbn [fold_left map seqs].
    exact (obs_trans _ _ _ _ _ (walk_operation_obs o st) (IH _)). }
  assert (Hf : forall frs st, obs st (fold_left (fun st f => walk_fragment V f st) frs st) (seqs (map fragment_errs frs))).
  { induction frs as [|f r IH]; intros st; [apply obs_refl|]. cbn [fold_left map seqs].
    exact (obs_trans _ _ _ _ _ (walk_fragment_obs f st) (IH _)). }
  exact (obs_trans _ _ _ _ _ (Ho _ _) (Hf _ _)).
Qed.

(* a state nothing has been held against yet *)
Definition clean (st : vctx) : Prop := aborted st = false /\ crashed st = false /\ errs st = [].
Definition quiet (r : option (list verror)) : Prop := r = Some [].

Lemma clean_init : clean init_ctx.
Proof. repeat split. Qed.

Theorem walked_clean_iff doc : clean (walked doc) <-> quiet (walk_phase_errs doc).
Proof.
  destruct (walked_obs doc) as [A H]. change (aborted init_ctx) with false in A.
  change (aborted init_ctx || crashed init_ctx) with false in H. cbv iota in H. unfold clean, quiet.
  destruct (walk_phase_errs doc) as [E|].
  - destruct H as [C HE]. change (errs init_ctx) with (@nil verror) in HE. cbn [app] in HE. split.
    + intros (_ & _ & He). rewrite HE in He. now rewrite He.
    + intros HQ. inversion HQ; subst E. repeat split; assumption.
  - split; [intros (_ & Hc & _); congruence|discriminate].
Qed.

(* every later emit keeps a clean state clean exactly when its rule is quiet; a state that is not clean never becomes clean *)
Lemma emit_clean_iff b r st : clean (emit b r st) <-> clean st /\ quiet r.
Proof.
  unfold clean, quiet, emit. destruct (aborted st) eqn:Ea; cbn [orb].
  - rewrite Ea. split; [intros (H & _); discriminate|intros ((H & _) & _); discriminate].
  - destruct (crashed st) eqn:Ec; cbn [orb].
    + rewrite Ea, Ec. split; [intros (_ & H & _); discriminate|intros ((_ & H & _) & _); discriminate].
    + destruct r as [[|e es]|].
      * assert (Hb : b && negb true = false) by (destruct b; reflexivity). rewrite Hb. cbn. rewrite Ea, Ec, app_nil_r.
        split; [intros (_ & _ & H); repeat split; auto|intros ((_ & _ & H) & _); repeat split; auto].
      * split.
        -- intros (_ & _ & H). destruct b; cbn in H; apply app_eq_nil in H; destruct H as [_ H]; discriminate.
        -- intros (_ & H). discriminate.
      * split; [intros (_ & H & _); cbn in H; discriminate|intros (_ & H); discriminate].
Qed.
Lemma emit_ok_clean_iff es st : clean (emit_ok es st) <-> clean st /\ es = [].
Proof. unfold emit_ok. rewrite emit_clean_iff. unfold quiet. split; intros [H1 H2]; split; auto; [now inversion H2|now subst]. Qed.

(* the emits do not touch the bookkeeping the document-level rules read *)
Lemma emit_books b r st :
  frag_spreads (emit b r st) = frag_spreads st /\ inlined_in (emit b r st) = inlined_in st /\
  spreaded_in (emit b r st) = spreaded_in st /\ per_op (emit b r st) = per_op st /\ per_frag (emit b r st) = per_frag st.
Proof.
  unfold emit. destruct (aborted st || crashed st); [repeat split|]. destruct r as [es|]; [|repeat split].
  destruct (b && negb match es with [] => true | _ :: _ => false end); repeat split.
Qed.

Lemma fold_left_ext {A B} (f g : A -> B -> A) l : (forall a x, f a x = g a x) -> forall a, fold_left f l a = fold_left g l a.
Proof. intros H. induction l as [|x l IH]; intros a; [reflexivity|]. cbn. rewrite H. apply IH. Qed.

Lemma scope_collect_emit {A} b r st (get : scope_info -> list A) o :
  scope_collect (emit b r st) get o = scope_collect st get o.
Proof. unfold scope_collect. destruct (emit_books b r st) as (_ & _ & _ & -> & ->). reflexivity. Qed.

Lemma var_rules_emit b r st ops :
  uses_defined_rule (emit b r st) ops = uses_defined_rule st ops /\
  variables_used_rule (emit b r st) ops = variables_used_rule st ops /\
  usages_allowed_rule V (emit b r st) ops = usages_allowed_rule V st ops.
Proof.
  unfold uses_defined_rule, variables_used_rule, usages_allowed_rule.
  repeat split; apply fold_left_ext; intros acc o; now rewrite scope_collect_emit.
Qed.

(* ACCEPTANCE DECOMPOSED: a document is handed to execution exactly when the walk phase and every
   document-level rule are quiet *)
Theorem validate_clean_iff doc :
  clean (validate_ctx V doc) <->
  quiet (walk_phase_errs doc) /\
  (quiet (cycle_rule (fragments doc)) /\ operation_name_errors (operations doc) = [] /\
   lone_anonymous_errors (operations doc) = [] /\
   quiet (single_root_rule doc) /\ fragment_name_errors (fragments doc) = [] /\
   spread_target_errors (fragments doc) (frag_spreads (walked doc)) = [] /\
   must_be_used_errors (fragments doc) (frag_spreads (walked doc)) = [] /\
   inline_possible_errors V (inlined_in (walked doc)) ++ spread_possible_errors V (fragments doc) (spreaded_in (walked doc)) = [] /\
   quiet (uses_defined_rule (walked doc) (operations doc)) /\ quiet (variables_used_rule (walked doc) (operations doc)) /\
   quiet (usages_allowed_rule V (walked doc) (operations doc))).
Proof.
  rewrite <- walked_clean_iff. unfold validate_ctx. fold (walked doc). cbv zeta. unfold emit_ok.
  repeat rewrite emit_clean_iff.
  repeat match goal with
         | |- context [uses_defined_rule (emit ?b ?r ?st) ?ops] => rewrite (proj1 (var_rules_emit b r st ops))
         | |- context [variables_used_rule (emit ?b ?r ?st) ?ops] => rewrite (proj1 (proj2 (var_rules_emit b r st ops)))
         | |- context [usages_allowed_rule V (emit ?b ?r ?st) ?ops] => rewrite (proj2 (proj2 (var_rules_emit b r st ops)))
         | |- context [frag_spreads (emit ?b ?r ?st)] => rewrite (proj1 (emit_books b r st))
         | |- context [inlined_in (emit ?b ?r ?st)] => rewrite (proj1 (proj2 (emit_books b r st)))
         | |- context [spreaded_in (emit ?b ?r ?st)] => rewrite (proj1 (proj2 (proj2 (emit_books b r st))))
         end.
  unfold quiet.
  assert (Hq : forall es : list verror, Some es = Some [] <-> es = []) by (intros es; split; [intros H; now inversion H|intros ->; reflexivity]).
  rewrite !Hq. tauto.
Qed.

(* the aborted flag is only ever set together with an error *)
Definition abort_inv (st : vctx) : Prop := aborted st = true -> errs st <> [].
Lemma emit_abort_inv b r st : abort_inv st -> abort_inv (emit b r st).
Proof.
  unfold abort_inv, emit. intros H. destruct (aborted st) eqn:Ea; cbn [orb]; [rewrite Ea; exact H|].
  destruct (crashed st); cbn [orb]; [rewrite Ea; discriminate|].
  destruct r as [[|e es]|]; cbn.
  - destruct b; cbn; rewrite Ea; discriminate.
  - intros _ E. destruct b; cbn in E; apply app_eq_nil in E; destruct E as [_ E]; discriminate.
  - rewrite Ea. discriminate.
Qed.

Lemma walked_not_aborted doc : aborted (walked doc) = false.
Proof. destruct (walked_obs doc) as [A _]. exact A. Qed.

Lemma validate_abort_inv doc : abort_inv (validate_ctx V doc).
Proof.
  unfold validate_ctx. fold (walked doc). cbv zeta. unfold emit_ok.
  repeat apply emit_abort_inv. unfold abort_inv. rewrite walked_not_aborted. discriminate.
Qed.

Theorem accepted_iff_clean doc : accepted V doc = true <-> clean (validate_ctx V doc).
Proof.
  unfold accepted, impl_validate, clean. pose proof (validate_abort_inv doc) as Hi. unfold abort_inv in Hi.
  destruct (crashed (validate_ctx V doc)).
  - split; [discriminate|intros (_ & H & _); discriminate].
  - destruct (errs (validate_ctx V doc)) as [|e es] eqn:Ee.
    + split; [intros _|reflexivity]. destruct (aborted (validate_ctx V doc)); [exfalso; now apply Hi|repeat split].
    + split; [discriminate|intros (_ & _ & H); discriminate].
Qed.

(* ---------- one field node: quiet exactly when the specification's predicates hold at that site ---------- *)
Lemma seq2_quiet a b : seq2 a b = Some [] <-> a = Some [] /\ b = Some [].
Proof.
  destruct a as [x|], b as [y|]; cbn; split; try (intros [H1 H2]; discriminate); try discriminate.
  - intros H. inversion H as [H']. apply app_eq_nil in H'. destruct H' as [-> ->]. split; reflexivity.
  - intros [H1 H2]. inversion H1; inversion H2; subst. reflexivity.
Qed.
Lemma some_quiet (es : list verror) : Some es = Some [] <-> es = [].
Proof. split; [intros H; now inversion H|intros ->; reflexivity]. Qed.

Theorem field_node_quiet
  (Hin : forall n ifs f, vfind_type V n = Some (DInput ifs) -> In f ifs -> input_ty V (in_type f))
  scope path l name args dirs hs :
  (forall f d, vfind_field V scope name = Some f -> In d (fd_args f) -> input_ty V (in_type d)) ->
  (field_rules_errs scope path l name args dirs hs = Some [] <->
   forallb (fun d => match s_directive V (d_name d) with Some dd => mem_str "FIELD" (dd_locs dd) | None => true end) dirs = true /\
   (String.eqb name "__typename" = true \/ field_reduced_type V scope name <> None) /\
   (forall d, field_reduced_type V scope name = Some d -> Bool.eqb hs (is_composite_def d) = true) /\
   (forall f, vfind_field V scope name = Some f ->
      args_ok V (fd_args f) args = true /\
      forallb (fun a => existsb (fun d => String.eqb (in_name d) (a_name a)) (fd_args f)) args = true /\
      forallb (fun d => negb (is_non_null (in_type d)) || match in_default d with Some _ => true | None => false end ||
                        existsb (fun a => String.eqb (a_name a) (in_name d)) args) (fd_args f) = true)).
Proof.
  intros Hargs. unfold field_rules_errs. cbn [seqs].
  rewrite !seq2_quiet, !some_quiet, valid_locations_exact, field_exists_exact.
  destruct (vfind_field V scope name) as [f|] eqn:Ef.
  - specialize (Hargs f). rewrite argument_names_exact, required_arguments_exact.
    destruct (vct_arguments_exact V Hin path (fd_args f) args (fun d Hd => Hargs d eq_refl Hd)) as [Hv1 Hv2].
    assert (Hv : vct_arguments V path (Some (fd_args f)) args = Some [] <-> args_ok V (fd_args f) args = true).
    { split; [|exact Hv1]. intros E. destruct (args_ok V (fd_args f) args) eqn:Ea; [reflexivity|].
      destruct (Hv2 eq_refl) as [H|(e & es & H)]; rewrite E in H; discriminate. }
    rewrite Hv.
    destruct (field_reduced_type V scope name) as [d|].
    + rewrite leaf_selection_exact. split.
      * intros (H1 & H2 & H3 & H4 & H5 & H6 & _). repeat split; auto; try (intros ? E; inversion E; subst; auto); try (match goal with H : Some _ = Some _ |- _ => inversion H; subst; auto end).
      * intros (H1 & H2 & H3 & H4). destruct (H4 f eq_refl) as (H5 & H6 & H7). repeat split; auto.
    + split.
      * intros (H1 & H2 & _ & H4 & H5 & H6 & _). repeat split; auto; try discriminate; try (intros ? E; inversion E; subst; auto); try (match goal with H : Some _ = Some _ |- _ => inversion H; subst; auto end).
      * intros (H1 & H2 & H3 & H4). destruct (H4 f eq_refl) as (H5 & H6 & H7). repeat split; auto.
  - cbn [vct_arguments argument_names_errors required_arguments_errors].
    assert (Hr : field_reduced_type V scope name = None) by (unfold field_reduced_type, field_type_name; now rewrite Ef).
    rewrite Hr. split.
    + intros (H1 & H2 & _). repeat split; auto; try discriminate.
    + intros (H1 & H2 & _). repeat split; auto.
Qed.

End Walk.
