(* ACCEPTANCE IS A PREDICATE OF THE DOCUMENT.  Every conjunct of the characterisation of `accepted` is now free of
   the shared, mutable walk context: node predicates with the scope handed down the tree, graph and name conditions,
   the single-root rule, the recorded inline fragments / spreads (Proofs/ValidateSpreads.v) and the three variable
   rules evaluated on books that are a pure function of the document (Proofs/ValidateScopes.v). *)
From Coq Require Import ZArith List String Bool Lia.
From TV Require Import Py.Prelude Model.Schema Model.ImplValidate Model.SpecValidate Proofs.ValidateProofs Proofs.ValidateRules
     Proofs.ValidateValues Proofs.ValidateSites Proofs.ValidateWalk Proofs.ValidateTree Proofs.ValidateSpreads Proofs.ValidateScopes Proofs.ValidateVars.
Import ListNotations.
Open Scope list_scope.

Theorem accepted_is_a_predicate_of_the_document V
  (Hin : forall n ifs f, vfind_type V n = Some (DInput ifs) -> In f ifs -> input_ty V (in_type f))
  (Hfields : forall scope name f d, vfind_field V scope name = Some f -> In d (fd_args f) -> input_ty V (in_type d))
  (Hdirs : forall n dd d, vfind_directive V n = Some dd -> In d (dd_args dd) -> input_ty V (in_type d)) doc :
  accepted V doc = true <->
  doc_walk_ok V doc = true /\
  acyclic (fragments doc) /\ r_operation_names doc = true /\ r_lone_anonymous doc = true /\
  r_fragment_names doc = true /\ r_spread_targets V doc = true /\ r_fragments_used V doc = true /\
  quiet (single_root_rule doc) /\
  ((forall scope tc l, In (scope, (tc, l)) (doc_inl V doc) -> applies_in V scope tc = true) /\
   (forall scope n l p f, In (scope, (n, l, p)) (doc_spr V doc) -> find_fragment (fragments doc) n = Some f ->
                          applies_in V scope (Some (fr_type f)) = true)) /\
  quiet (uses_defined_rule (books_ctx V doc) (operations doc)) /\
  quiet (variables_used_rule (books_ctx V doc) (operations doc)) /\
  quiet (usages_allowed_rule V (books_ctx V doc) (operations doc)).
Proof.
  rewrite (accepted_characterised V Hin Hfields Hdirs doc).
  rewrite (possible_spreads_exact V doc).
  destruct (variable_rules_pure V doc) as (E1 & E2 & E3). rewrite E1, E2, E3. reflexivity.
Qed.

(* the three variable rules refuse, wherever the use sits (operation, nested selection, fragment reached through spreads,
   directive argument, nested input value) *)
Section Refusals.
Variable V : vschema.
Hypothesis Hin : forall n ifs f, vfind_type V n = Some (DInput ifs) -> In f ifs -> input_ty V (in_type f).
Hypothesis Hfields : forall scope name f d, vfind_field V scope name = Some f -> In d (fd_args f) -> input_ty V (in_type d).
Hypothesis Hdirs : forall n dd d, vfind_directive V n = Some dd -> In d (dd_args dd) -> input_ty V (in_type d).

Theorem undeclared_variable_refused doc o n l :
  In o (operations doc) -> op_sees (books_ctx V doc) si_used o (n, l) ->
  (forall vd, In vd (o_vars o) -> v_name vd <> n) -> accepted V doc = false.
Proof.
  intros Ho Hs Hno. destruct (accepted V doc) eqn:E; [|reflexivity]. exfalso.
  apply (accepted_is_a_predicate_of_the_document V Hin Hfields Hdirs doc) in E.
  destruct E as (_ & _ & _ & _ & _ & _ & _ & _ & _ & Hq & _).
  destruct (proj1 (uses_defined_exact (books_ctx V doc) (operations doc)) Hq o Ho) as [_ Hd].
  destruct (Hd n l Hs) as (vd & Hvd & Hn). exact (Hno vd Hvd Hn).
Qed.

Theorem unused_variable_refused doc o vd :
  In o (operations doc) -> In vd (o_vars o) ->
  (forall l, ~ op_sees (books_ctx V doc) si_used o (v_name vd, l)) -> accepted V doc = false.
Proof.
  intros Ho Hvd Hno. destruct (accepted V doc) eqn:E; [|reflexivity]. exfalso.
  apply (accepted_is_a_predicate_of_the_document V Hin Hfields Hdirs doc) in E.
  destruct E as (_ & _ & _ & _ & _ & _ & _ & _ & _ & _ & Hq & _).
  destruct (proj1 (variables_used_exact (books_ctx V doc) (operations doc)) Hq o Ho) as [_ Hd].
  destruct (Hd vd Hvd) as (l & Hs). exact (Hno l Hs).
Qed.

Theorem disallowed_usage_refused doc o u a vd :
  In o (operations doc) -> op_sees (books_ctx V doc) si_args o u -> schema_argument V u = Some a ->
  find (fun vd0 => String.eqb (v_name vd0) (au_var u)) (o_vars o) = Some vd -> usage_ok a vd = false ->
  accepted V doc = false.
Proof.
  intros Ho Hs Ha Hvd Hno. destruct (accepted V doc) eqn:E; [|reflexivity]. exfalso.
  apply (accepted_is_a_predicate_of_the_document V Hin Hfields Hdirs doc) in E.
  destruct E as (_ & _ & _ & _ & _ & _ & _ & _ & _ & _ & _ & Hq).
  destruct (proj1 (usages_allowed_exact V (books_ctx V doc) (operations doc)) Hq o Ho) as [_ Hd].
  rewrite (Hd u a vd Hs Ha Hvd) in Hno. discriminate.
Qed.
End Refusals.
