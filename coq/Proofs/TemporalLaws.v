(* Laws of the Date / Time / DateTime scalars over Model/Temporal.v, for ALL dates and times:
   canonical strings of real calendar / clock values are accepted and denote that value; whatever is
   accepted is a real calendar / clock value; result coercion renders the canonical string; input and
   output are mutually inverse on what input produces (idempotence); literal = variable. *)
From Coq Require Import ZArith List String Ascii Bool Lia.
From TV Require Import Py.Prelude Gen.Scalars_gen Model.Temporal.
Import ListNotations.
Open Scope string_scope.
Open Scope Z_scope.

(* ---------- digits ---------- *)
Lemma digit_cases d : 0 <= d <= 9 -> d = 0 \/ d = 1 \/ d = 2 \/ d = 3 \/ d = 4 \/ d = 5 \/ d = 6 \/ d = 7 \/ d = 8 \/ d = 9.
Proof. lia. Qed.

Lemma digit_of_ascii_of_digit d : 0 <= d <= 9 -> digit_of (ascii_of_digit d) = Some d.
Proof. intros H. destruct (digit_cases d H) as [->|[->|[->|[->|[->|[->|[->|[->|[->| ->]]]]]]]]]; reflexivity. Qed.

Lemma ascii_of_digit_not_T d : 0 <= d <= 9 -> Ascii.eqb (ascii_of_digit d) "T"%char = false.
Proof. intros H. destruct (digit_cases d H) as [->|[->|[->|[->|[->|[->|[->|[->|[->| ->]]]]]]]]]; reflexivity. Qed.

Lemma append_empty_r s : (s ++ "")%string = s.
Proof. induction s as [|c s IH]; [reflexivity|]. cbn. now rewrite IH. Qed.
Lemma append_assoc a b c : ((a ++ b) ++ c)%string = (a ++ (b ++ c))%string.
Proof. induction a as [|x a IH]; [reflexivity|]. cbn. now rewrite IH. Qed.

(* ---------- %Y ---------- *)
Lemma four_pad4 y rest : 0 <= y <= 9999 -> four (pad4 y ++ rest) = Some (y, rest).
Proof.
  intros H. unfold pad4. cbn [append]. unfold four.
  rewrite !digit_of_ascii_of_digit.
  - f_equal. f_equal.
    pose proof (Z.div_mod y 1000 ltac:(lia)). pose proof (Z.div_mod y 100 ltac:(lia)). pose proof (Z.div_mod y 10 ltac:(lia)).
    pose proof (Z.mod_pos_bound y 1000 ltac:(lia)). pose proof (Z.mod_pos_bound y 100 ltac:(lia)). pose proof (Z.mod_pos_bound y 10 ltac:(lia)).
    pose proof (Z.div_mod (y / 100) 10 ltac:(lia)). pose proof (Z.div_mod (y / 10) 10 ltac:(lia)).
    pose proof (Z.mod_pos_bound (y / 100) 10 ltac:(lia)). pose proof (Z.mod_pos_bound (y / 10) 10 ltac:(lia)).
    assert (y / 10 / 10 = y / 100) by (rewrite Z.div_div by lia; reflexivity).
    assert (y / 100 / 10 = y / 1000) by (rewrite Z.div_div by lia; reflexivity).
    lia.
  - pose proof (Z.mod_pos_bound y 10 ltac:(lia)). lia.
  - pose proof (Z.mod_pos_bound (y / 10) 10 ltac:(lia)). lia.
  - pose proof (Z.mod_pos_bound (y / 100) 10 ltac:(lia)). lia.
  - split; [apply Z.div_pos; lia|]. assert (y / 1000 < 10) by (apply Z.div_lt_upper_bound; lia). lia.
Qed.

(* ---------- two-digit directives: enumeration of the canonical spellings ---------- *)
Definition canon_ok (d : directive) (v : Z) : Prop :=
  forall R (k : Z -> string -> option R) rest x,
    k v rest = Some x -> try_alts (alts_of d) k (pad2 v ++ rest) = Some x.

Ltac canon_case := let R := fresh in let k := fresh "k" in let rest := fresh in let x := fresh in let Hk := fresh "Hk" in
  intros R k rest x Hk; cbv; rewrite Hk; reflexivity.

Fixpoint range (lo : Z) (n : nat) : list Z := match n with O => [] | S n' => lo :: range (lo + 1) n' end.
Lemma in_range lo n v : lo <= v < lo + Z.of_nat n -> In v (range lo n).
Proof.
  revert lo. induction n as [|n IH]; intros lo H; [lia|]. cbn [range].
  destruct (Z.eq_dec v lo) as [->|Hne]; [now left|]. right. apply IH. lia.
Qed.

Lemma Dm_canon v : 1 <= v <= 12 -> canon_ok Dm v.
Proof.
  intros H. assert (Hin : In v (range 1 12)) by (apply in_range; lia).
  cbv [range Z.add Pos.add Pos.succ Pos.add_carry In] in Hin.
  repeat (destruct Hin as [<-|Hin]; [canon_case|]). contradiction.
Qed.
Lemma Dd_canon v : 1 <= v <= 31 -> canon_ok Dd v.
Proof.
  intros H. assert (Hin : In v (range 1 31)) by (apply in_range; lia).
  cbv [range Z.add Pos.add Pos.succ Pos.add_carry In] in Hin.
  repeat (destruct Hin as [<-|Hin]; [canon_case|]). contradiction.
Qed.
Lemma DH_canon v : 0 <= v <= 23 -> canon_ok DH v.
Proof.
  intros H. assert (Hin : In v (range 0 24)) by (apply in_range; lia).
  cbv [range Z.add Pos.add Pos.succ Pos.add_carry In] in Hin.
  repeat (destruct Hin as [<-|Hin]; [canon_case|]). contradiction.
Qed.
Lemma DM_canon v : 0 <= v <= 59 -> canon_ok DM v.
Proof.
  intros H. assert (Hin : In v (range 0 60)) by (apply in_range; lia).
  cbv [range Z.add Pos.add Pos.succ Pos.add_carry In] in Hin.
  repeat (destruct Hin as [<-|Hin]; [canon_case|]). contradiction.
Qed.
Lemma DS_canon v : 0 <= v <= 59 -> canon_ok DS v.
Proof.
  intros H. assert (Hin : In v (range 0 60)) by (apply in_range; lia).
  cbv [range Z.add Pos.add Pos.succ Pos.add_carry In] in Hin.
  repeat (destruct Hin as [<-|Hin]; [canon_case|]). contradiction.
Qed.
Lemma DY_canon v : 0 <= v <= 9999 ->
  forall R (k : Z -> string -> option R) rest x, k v rest = Some x -> try_alts (alts_of DY) k (pad4 v ++ rest) = Some x.
Proof. intros H R k rest x Hk. cbn [alts_of try_alts]. rewrite (four_pad4 v rest H), Hk. reflexivity. Qed.

(* ---------- validity in arithmetic form ---------- *)
Lemma valid_date_range y m d : valid_date y m d = true -> 1 <= y <= 9999 /\ 1 <= m <= 12 /\ 1 <= d <= 31.
Proof.
  unfold valid_date, days_in_month. intros H. repeat (apply andb_prop in H; destruct H as [H ?]).
  repeat match goal with H : (_ <=? _) = true |- _ => apply Z.leb_le in H end.
  destruct (m =? 2); [destruct (leap y)|destruct ((m =? 4) || (m =? 6) || (m =? 9) || (m =? 11))%bool]; lia.
Qed.
Lemma valid_time_range h mi s : valid_time h mi s = true -> 0 <= h <= 23 /\ 0 <= mi <= 59 /\ 0 <= s <= 59.
Proof.
  unfold valid_time. intros H. repeat (apply andb_prop in H; destruct H as [H ?]).
  repeat match goal with H : (_ <=? _) = true |- _ => apply Z.leb_le in H end. lia.
Qed.

(* ---------- canonical strings are accepted and denote their value ---------- *)
Local Arguments pad2 : simpl never.
Local Arguments pad4 : simpl never.
Local Arguments try_alts : simpl never.
Theorem strptime_date y m d :
  valid_date y m d = true -> strptime "%Y-%m-%d" (iso_date y m d) = Ok (mk_datetime y m d 0 0 0 0).
Proof.
  intros Hv. destruct (valid_date_range _ _ _ Hv) as (Hy & Hm & Hd).
  unfold strptime. change (parse_format "%Y-%m-%d") with (Some [FDir DY; FLit "-"; FDir Dm; FLit "-"; FDir Dd]).
  unfold iso_date.
  assert (E : match_format [FDir DY; FLit "-"; FDir Dm; FLit "-"; FDir Dd] fields0
                (pad4 y ++ "-" ++ pad2 m ++ "-" ++ pad2 d) =
              Some (set_field Dd d (set_field Dm m (set_field DY y fields0)), "")).
  { cbn [match_format]. apply DY_canon; [lia|]. cbn [append match_format]. cbn [ci_eqb lower N_of_ascii]. cbn.
    apply Dm_canon; [lia|]. cbn. rewrite <- (append_empty_r (pad2 d)). apply Dd_canon; [lia|]. reflexivity. }
  rewrite E. cbn [set_field fields0 fY fm fd fH fM fS]. rewrite Hv. reflexivity.
Qed.

Theorem strptime_time h mi s :
  valid_time h mi s = true -> strptime "%H:%M:%S" (iso_time h mi s 0) = Ok (mk_datetime 1900 1 1 h mi s 0).
Proof.
  intros Hv. destruct (valid_time_range _ _ _ Hv) as (Hh & Hmi & Hs).
  unfold strptime. change (parse_format "%H:%M:%S") with (Some [FDir DH; FLit ":"; FDir DM; FLit ":"; FDir DS]).
  unfold iso_time. change (0 =? 0) with true. cbv iota.
  assert (E : match_format [FDir DH; FLit ":"; FDir DM; FLit ":"; FDir DS] fields0
                (pad2 h ++ ":" ++ pad2 mi ++ ":" ++ pad2 s ++ "") =
              Some (set_field DS s (set_field DM mi (set_field DH h fields0)), "")).
  { cbn [match_format]. apply DH_canon; [lia|]. cbn. apply DM_canon; [lia|]. cbn. apply DS_canon; [lia|]. reflexivity. }
  rewrite E. cbn [set_field fields0 fY fm fd fH fM fS]. rewrite Hv. reflexivity.
Qed.

Theorem strptime_datetime y m d h mi s :
  valid_date y m d = true -> valid_time h mi s = true ->
  strptime "%Y-%m-%dT%H:%M:%S" (iso_date y m d ++ "T" ++ iso_time h mi s 0) = Ok (mk_datetime y m d h mi s 0).
Proof.
  intros Hv Hw. destruct (valid_date_range _ _ _ Hv) as (Hy & Hm & Hd). destruct (valid_time_range _ _ _ Hw) as (Hh & Hmi & Hs).
  unfold strptime.
  change (parse_format "%Y-%m-%dT%H:%M:%S") with
    (Some [FDir DY; FLit "-"; FDir Dm; FLit "-"; FDir Dd; FLit "T"; FDir DH; FLit ":"; FDir DM; FLit ":"; FDir DS]).
  unfold iso_date, iso_time. change (0 =? 0) with true. cbv iota.
  rewrite !append_assoc.
  assert (E : match_format [FDir DY; FLit "-"; FDir Dm; FLit "-"; FDir Dd; FLit "T"; FDir DH; FLit ":"; FDir DM; FLit ":"; FDir DS] fields0
                (pad4 y ++ "-" ++ pad2 m ++ "-" ++ pad2 d ++ "T" ++ pad2 h ++ ":" ++ pad2 mi ++ ":" ++ pad2 s ++ "") =
              Some (set_field DS s (set_field DM mi (set_field DH h (set_field Dd d (set_field Dm m (set_field DY y fields0))))), "")).
  { cbn [match_format]. apply DY_canon; [lia|]. cbn. apply Dm_canon; [lia|]. cbn. apply Dd_canon; [lia|]. cbn.
    apply DH_canon; [lia|]. cbn. apply DM_canon; [lia|]. cbn. apply DS_canon; [lia|]. reflexivity. }
  rewrite E. cbn [set_field fields0 fY fm fd fH fM fS]. rewrite Hv, Hw. reflexivity.
Qed.

(* ---------- whatever is accepted is a real calendar / clock value ---------- *)
Theorem strptime_sound fmt s r :
  strptime fmt s = Ok r ->
  exists y m d h mi sec, r = mk_datetime y m d h mi sec 0 /\ valid_date y m d = true /\ valid_time h mi sec = true.
Proof.
  unfold strptime. destruct (parse_format fmt) as [items|]; [|discriminate].
  destruct (match_format items fields0 s) as [[f [|c rest]]|]; try discriminate.
  destruct (valid_date (fY f) (fm f) (fd f)) eqn:E1; [|discriminate].
  destruct (valid_time (fH f) (fM f) (fS f)) eqn:E2; [|discriminate].
  cbn [andb]. intros H. inversion H. exists (fY f), (fm f), (fd f), (fH f), (fM f), (fS f). repeat split; assumption.
Qed.

(* fields the format does not mention keep their defaults *)
Local Arguments try_alts : simpl nomatch.
Lemma try_alts_some {R} alts (k : Z -> string -> option R) s x :
  try_alts alts k s = Some x -> exists v r, k v r = Some x.
Proof.
  induction alts as [|a alts IH]; [discriminate|].
  change (try_alts (a :: alts) k s) with
    (match a s with
     | Some (v, r) => match k v r with Some x => Some x | None => try_alts alts k s end
     | None => try_alts alts k s
     end).
  destruct (a s) as [[v r]|]; [|exact IH].
  destruct (k v r) as [y|] eqn:E; [|exact IH]. intros H. inversion H; subst. exists v, r. exact E.
Qed.

Definition untouched (items : list fitem) (d : directive) : Prop := ~ In (FDir d) items.
Definition get_field (d : directive) (f : fields) : Z :=
  match d with DY => fY f | Dm => fm f | Dd => fd f | DH => fH f | DM => fM f | DS => fS f end.
Lemma get_set_other d d' v f : d <> d' -> get_field d (set_field d' v f) = get_field d f.
Proof. destruct d, d'; intros H; try reflexivity; contradiction. Qed.

Lemma match_format_untouched d items : untouched items d -> forall f s f' r,
  match_format items f s = Some (f', r) -> get_field d f' = get_field d f.
Proof.
  induction items as [|it items IH]; intros Hu f s f' r; cbn [match_format].
  - intros H. inversion H. reflexivity.
  - assert (Hu' : untouched items d) by (intros Hin; apply Hu; now right).
    destruct it as [d'|c].
    + intros H. apply try_alts_some in H. destruct H as (v & r' & H). rewrite (IH Hu' _ _ _ _ H).
      apply get_set_other. intros ->. apply Hu. now left.
    + destruct s as [|c' s]; [discriminate|]. destruct (ci_eqb c c'); [|discriminate]. apply IH. exact Hu'.
Qed.

Ltac not_in := let H := fresh in intros H;
  match goal with it := _ : list fitem |- _ => unfold it in H end; cbn [In] in H;
  repeat match type of H with _ \/ _ => destruct H as [H|H] end; try discriminate H; try contradiction.

Theorem strptime_date_sound s r :
  strptime "%Y-%m-%d" s = Ok r -> exists y m d, r = mk_datetime y m d 0 0 0 0 /\ valid_date y m d = true.
Proof.
  unfold strptime. change (parse_format "%Y-%m-%d") with (Some [FDir DY; FLit "-"%char; FDir Dm; FLit "-"%char; FDir Dd]).
  set (items := [FDir DY; FLit "-"%char; FDir Dm; FLit "-"%char; FDir Dd]). cbv beta iota.
  remember (match_format items fields0 s) as mf eqn:E. symmetry in E.
  destruct mf as [[f [|c rest]]|]; try discriminate.
  assert (HH : get_field DH f = 0) by (apply (match_format_untouched DH items ltac:(not_in) _ _ _ _ E)).
  assert (HM : get_field DM f = 0) by (apply (match_format_untouched DM items ltac:(not_in) _ _ _ _ E)).
  assert (HS : get_field DS f = 0) by (apply (match_format_untouched DS items ltac:(not_in) _ _ _ _ E)).
  cbn [get_field] in HH, HM, HS.
  destruct (valid_date (fY f) (fm f) (fd f)) eqn:E1; [|cbn [andb]; discriminate].
  destruct (valid_time (fH f) (fM f) (fS f)); [|cbn [andb]; discriminate]. cbn [andb]. intros H. inversion H.
  rewrite HH, HM, HS. exists (fY f), (fm f), (fd f). split; [reflexivity|assumption].
Qed.

Theorem strptime_time_sound s r :
  strptime "%H:%M:%S" s = Ok r -> exists h mi sec, r = mk_datetime 1900 1 1 h mi sec 0 /\ valid_time h mi sec = true.
Proof.
  unfold strptime. change (parse_format "%H:%M:%S") with (Some [FDir DH; FLit ":"%char; FDir DM; FLit ":"%char; FDir DS]).
  set (items := [FDir DH; FLit ":"%char; FDir DM; FLit ":"%char; FDir DS]). cbv beta iota.
  remember (match_format items fields0 s) as mf eqn:E. symmetry in E.
  destruct mf as [[f [|c rest]]|]; try discriminate.
  assert (HY : get_field DY f = 1900) by (apply (match_format_untouched DY items ltac:(not_in) _ _ _ _ E)).
  assert (Hm : get_field Dm f = 1) by (apply (match_format_untouched Dm items ltac:(not_in) _ _ _ _ E)).
  assert (Hd : get_field Dd f = 1) by (apply (match_format_untouched Dd items ltac:(not_in) _ _ _ _ E)).
  cbn [get_field] in HY, Hm, Hd.
  destruct (valid_date (fY f) (fm f) (fd f)); [|cbn [andb]; discriminate].
  destruct (valid_time (fH f) (fM f) (fS f)) eqn:E2; [|cbn [andb]; discriminate]. cbn [andb]. intros H. inversion H.
  rewrite HY, Hm, Hd. exists (fH f), (fM f), (fS f). split; [reflexivity|assumption].
Qed.

(* ---------- isoformat and split("T") ---------- *)
Fixpoint no_T (s : string) : Prop :=
  match s with EmptyString => True | String c r => Ascii.eqb c "T"%char = false /\ no_T r end.
Lemma no_T_app a b : no_T a -> no_T b -> no_T (a ++ b).
Proof. induction a as [|c a IH]; cbn; [tauto|]. intros [H1 H2] Hb. split; [exact H1|now apply IH]. Qed.

Lemma split_T_no_T a : no_T a -> forall cur, split_T a cur = [(cur ++ a)%string].
Proof.
  induction a as [|c a IH]; cbn [split_T no_T]; intros H cur; [now rewrite append_empty_r|].
  destruct H as [Hc Ha]. rewrite Hc, (IH Ha). f_equal. now rewrite append_assoc.
Qed.
Lemma split_T_app a b : no_T a -> forall cur, split_T (a ++ String "T" b) cur = (cur ++ a)%string :: split_T b "".
Proof.
  induction a as [|c a IH]; cbn [split_T no_T append]; intros H cur.
  - change (Ascii.eqb "T" "T") with true. cbv iota. now rewrite append_empty_r.
  - destruct H as [Hc Ha]. rewrite Hc, (IH Ha). f_equal. now rewrite append_assoc.
Qed.

Lemma pad2_no_T v : 0 <= v <= 99 -> no_T (pad2 v).
Proof.
  intros H. unfold pad2. cbn [no_T]. repeat split; apply ascii_of_digit_not_T.
  - split; [apply Z.div_pos; lia|]. assert (v / 10 < 10) by (apply Z.div_lt_upper_bound; lia). lia.
  - pose proof (Z.mod_pos_bound v 10 ltac:(lia)). lia.
Qed.
Lemma pad4_no_T v : 0 <= v <= 9999 -> no_T (pad4 v).
Proof.
  intros H. unfold pad4. cbn [no_T]. repeat split; apply ascii_of_digit_not_T.
  - split; [apply Z.div_pos; lia|]. assert (v / 1000 < 10) by (apply Z.div_lt_upper_bound; lia). lia.
  - pose proof (Z.mod_pos_bound (v / 100) 10 ltac:(lia)). lia.
  - pose proof (Z.mod_pos_bound (v / 10) 10 ltac:(lia)). lia.
  - pose proof (Z.mod_pos_bound v 10 ltac:(lia)). lia.
Qed.
Lemma pad6_no_T v : 0 <= v <= 999999 -> no_T (pad6 v).
Proof.
  intros H. unfold pad6. repeat apply no_T_app; apply pad2_no_T.
  - split; [apply Z.div_pos; lia|]. assert (v / 10000 < 100) by (apply Z.div_lt_upper_bound; lia). lia.
  - pose proof (Z.mod_pos_bound (v / 100) 100 ltac:(lia)). lia.
  - pose proof (Z.mod_pos_bound v 100 ltac:(lia)). lia.
Qed.
Lemma iso_date_no_T y m d : valid_date y m d = true -> no_T (iso_date y m d).
Proof.
  intros Hv. destruct (valid_date_range _ _ _ Hv) as (Hy & Hm & Hd). unfold iso_date.
  repeat apply no_T_app; try (cbn; tauto); [apply pad4_no_T|apply pad2_no_T|apply pad2_no_T]; lia.
Qed.
Lemma iso_time_no_T h mi s us : valid_time h mi s = true -> 0 <= us <= 999999 -> no_T (iso_time h mi s us).
Proof.
  intros Hv Hus. destruct (valid_time_range _ _ _ Hv) as (Hh & Hmi & Hs). unfold iso_time.
  repeat apply no_T_app; try (cbn; tauto); try (apply pad2_no_T; lia).
  destruct (us =? 0); [exact I|]. apply no_T_app; [cbn; tauto|apply pad6_no_T; lia].
Qed.

(* result coercion of a well-formed datetime *)
Theorem output_part0 O y m d h mi s us :
  valid_date y m d = true -> valid_time h mi s = true -> 0 <= us <= 999999 ->
  temporal_coerce_output (Some 0%nat) O (mk_datetime y m d h mi s us) = Ok (PStr (iso_date y m d)).
Proof.
  intros Hd Ht Hus. unfold temporal_coerce_output, mk_datetime. cbn [isoformat].
  change (iso_date y m d ++ "T" ++ iso_time h mi s us)%string with (iso_date y m d ++ String "T" (iso_time h mi s us))%string.
  rewrite (split_T_app _ _ (iso_date_no_T _ _ _ Hd)). reflexivity.
Qed.
Theorem output_part1 O y m d h mi s us :
  valid_date y m d = true -> valid_time h mi s = true -> 0 <= us <= 999999 ->
  temporal_coerce_output (Some 1%nat) O (mk_datetime y m d h mi s us) = Ok (PStr (iso_time h mi s us)).
Proof.
  intros Hd Ht Hus. unfold temporal_coerce_output, mk_datetime. cbn [isoformat].
  change (iso_date y m d ++ "T" ++ iso_time h mi s us)%string with (iso_date y m d ++ String "T" (iso_time h mi s us))%string.
  rewrite (split_T_app _ _ (iso_date_no_T _ _ _ Hd)), (split_T_no_T _ (iso_time_no_T _ _ _ _ Ht Hus)). reflexivity.
Qed.
Theorem output_whole O y m d h mi s us :
  temporal_coerce_output None O (mk_datetime y m d h mi s us) = Ok (PStr (iso_date y m d ++ "T" ++ iso_time h mi s us)).
Proof. reflexivity. Qed.

(* ---------- the scalar methods ---------- *)
Lemma input_of_string fmt O s : temporal_coerce_input fmt O (PStr s) =
  match strptime fmt s with Ok r => Ok r | Raise OutOfFuel => Raise OutOfFuel | Raise _ => Raise TypeError end.
Proof. unfold temporal_coerce_input, string_coerce_input. cbn. destruct (strptime fmt s) as [r|[]]; reflexivity. Qed.

Lemma strptime_no_fuel fmt s : strptime fmt s <> Raise OutOfFuel.
Proof.
  unfold strptime. destruct (parse_format fmt); [|discriminate].
  destruct (match_format l fields0 s) as [[f [|c r]]|]; try discriminate.
  destruct (valid_date _ _ _ && valid_time _ _ _); discriminate.
Qed.

(* input accepts strings only *)
Theorem input_only_strings fmt O v r : temporal_coerce_input fmt O v = Ok r -> exists s, v = PStr s /\ strptime fmt s = Ok r.
Proof.
  unfold temporal_coerce_input, string_coerce_input.
  destruct v; try (cbn; discriminate); try (destruct k; cbn; discriminate). cbn. intros H. exists s. split; [reflexivity|].
  destruct (strptime fmt s) as [x|[]]; cbn in H; try discriminate H; try exact H.
Qed.

(* literal = variable: a string literal is coerced exactly like the same string in a variable;
   any other literal kind is not a value of the scalar *)
Theorem literal_eq_variable fmt O s :
  temporal_parse_literal fmt O (PAst KStringValue (PStr s)) =
  match temporal_coerce_input fmt O (PStr s) with Ok r => Ok r | Raise OutOfFuel => Raise OutOfFuel | Raise _ => Ok PUndef end.
Proof.
  rewrite input_of_string. unfold temporal_parse_literal. cbn.
  destruct (strptime fmt s) as [r|[]]; reflexivity.
Qed.
