(* Lemmas about the build model (Model/SchemaBuild.v) against the specification predicates
   (Model/SpecSchema.v). *)
From Coq Require Import ZArith List String Bool Lia.
From TV Require Import Py.Prelude Model.Schema Model.ImplValidate Model.SpecValidate Model.SchemaBuild Model.SpecSchema
     Proofs.ValidateProofs.
Import ListNotations.
Open Scope string_scope.
Open Scope list_scope.

Lemma flat_map_nonnil {A B} (f : A -> list B) l x : In x l -> f x <> [] -> flat_map f l <> [].
Proof.
  induction l as [|y l IH]; [intros []|]. intros [->|Hi] Hf; cbn [flat_map].
  - destruct (f x); [congruence|discriminate].
  - intros E. apply app_eq_nil in E. destruct E as [_ E]. now apply IH.
Qed.

Lemma existsb_In {A} (p : A -> bool) l : existsb p l = true -> exists x, In x l /\ p x = true.
Proof. apply existsb_exists. Qed.

(* ---------- duplicate definitions ---------- *)
Lemma first_dup_none l seen :
  first_dup l seen = None <-> NoDup l /\ (forall x, In x l -> ~ In x seen).
Proof.
  revert seen; induction l as [|x l IH]; intros seen; cbn [first_dup].
  - split; [intros _; split; [constructor|intros ? []]|reflexivity].
  - destruct (mem_str x seen) eqn:E.
    + split; [discriminate|]. intros [_ H]. apply mem_str_iff in E. exfalso. apply (H x); [now left|exact E].
    + apply mem_str_false in E. rewrite IH. split.
      * intros [Hn H]. split.
        -- constructor; [|exact Hn]. intros Hi. apply (H x Hi). now left.
        -- intros y [<-|Hy]; [exact E|]. intros Hs. apply (H y Hy). now right.
      * intros [Hn H]. inversion Hn; subst. split; [assumption|].
        intros y Hy [<-|Hs]; [contradiction|]. apply (H y); [now right|exact Hs].
Qed.

Lemma first_dup_nodupb l : first_dup l [] = None <-> nodupb l = true.
Proof.
  rewrite first_dup_none, nodupb_iff. split; [intros [H _]; exact H|intros H; split; [exact H|intros ? _ []]].
Qed.

Theorem duplicate_definitions_rejected s : v_duplicate_definitions s = true -> builds s = false.
Proof.
  unfold v_duplicate_definitions, builds, impl_build, initial, all_decls, all_ddecls. intros H.
  destruct (first_dup (map td_name (s_types s ++ builtin_types)) []) eqn:E1; [reflexivity|].
  destruct (first_dup (map (fun d => dd_name (dd_def d)) (s_dirdefs s ++ builtin_ddecls)) []) eqn:E2; [reflexivity|].
  apply first_dup_nodupb in E1. apply first_dup_nodupb in E2. rewrite E1, E2 in H. discriminate.
Qed.

(* ---------- the validators after the merge ---------- *)
Lemma validate_errors g errs : validate g = Some errs ->
  errs = v_named_types g ++ match v_follow_interfaces g with Some f => f | None => [] end ++ SchemaBuild.v_roots g ++
         v_non_empty g ++ v_unions g ++ v_scalars g ++ v_enums g ++ v_arguments g ++ v_input_fields g ++ v_directives g.
Proof. unfold validate. destruct (v_follow_interfaces g); [intros H; now inversion H|discriminate]. Qed.

Lemma app_nonnil_l {A} (a b : list A) : a <> [] -> a ++ b <> [].
Proof. destruct a; [congruence|discriminate]. Qed.
Lemma app_nonnil_r {A} (a b : list A) : b <> [] -> a ++ b <> [].
Proof. intros H E. apply app_eq_nil in E. now destruct E. Qed.

Lemma union_self_reported g : v_union_self g = true -> v_unions g <> [].
Proof.
  unfold v_union_self, v_unions. intros H. apply existsb_exists in H. destruct H as (t & Ht & Hp).
  apply (flat_map_nonnil _ _ t Ht). destruct (td_def t); try discriminate.
  apply mem_str_iff in Hp. apply (flat_map_nonnil _ _ (td_name t) Hp). rewrite String.eqb_refl. discriminate.
Qed.

Lemma empty_object_reported g : v_empty_object g = true -> v_non_empty g <> [].
Proof.
  unfold v_empty_object, v_non_empty. intros H. apply existsb_exists in H. destruct H as (t & Ht & Hp).
  apply (flat_map_nonnil _ _ t Ht). destruct (td_def t) as [| | |ifs fs| |]; try discriminate.
  destruct fs; [cbn; discriminate|discriminate].
Qed.

Lemma scalar_impl_reported g : v_scalar_impl g = true -> v_scalars g <> [].
Proof.
  unfold v_scalar_impl, v_scalars. intros H. apply existsb_exists in H. destruct H as (t & Ht & Hp).
  apply (flat_map_nonnil _ _ t Ht). destruct (td_def t); try discriminate.
  apply negb_true_iff in Hp. rewrite Hp. discriminate.
Qed.

Lemma hooks_reported g : v_hooks g = true -> v_directives g <> [].
Proof.
  unfold v_hooks, v_directives. intros H. apply existsb_exists in H. destruct H as (d & Hd & Hp).
  apply (flat_map_nonnil _ _ d Hd). apply negb_true_iff in Hp. rewrite Hp. discriminate.
Qed.

Lemma roots_reported g : SpecSchema.v_roots g = true -> SchemaBuild.v_roots g <> [].
Proof.
  unfold SpecSchema.v_roots, SchemaBuild.v_roots, defined. intros H.
  destruct (g_has_type g (g_query g)); cbn [negb] in *; [|discriminate].
  cbn [orb app] in H.
  destruct (negb (String.eqb (g_mutation g) "Mutation") && negb (g_has_type g (g_mutation g))); [discriminate|].
  cbn [orb app] in H. rewrite H. discriminate.
Qed.

Lemma doubles_grows l seen double : double <> [] -> doubles l seen double <> [].
Proof.
  revert seen double; induction l as [|x l IH]; intros seen double H; cbn [doubles]; [exact H|].
  apply IH. destruct (mem_str x seen && negb (mem_str x double)); [now apply app_nonnil_l|exact H].
Qed.

Lemma doubles_seen l seen double : (exists x, In x l /\ In x seen) -> doubles l seen double <> [].
Proof.
  revert seen double; induction l as [|y l IH]; intros seen double (x & Hx & Hs); [destruct Hx|].
  cbn [doubles]. destruct Hx as [<-|Hx].
  - apply mem_str_iff in Hs. rewrite Hs. cbn [andb].
    destruct (mem_str y double) eqn:E; cbn [negb].
    + apply doubles_grows. apply mem_str_iff in E. intros ->. destruct E.
    + apply doubles_grows. now apply app_nonnil_r.
  - apply IH. exists x. split; [exact Hx|now right].
Qed.

Lemma doubles_dup l seen double : ~ NoDup l -> doubles l seen double <> [].
Proof.
  revert seen double; induction l as [|y l IH]; intros seen double H; [exfalso; apply H; constructor|].
  cbn [doubles]. destruct (in_dec string_dec y l) as [Hi|Hi].
  - apply doubles_seen. exists y. split; [exact Hi|now left].
  - apply IH. intros Hn. apply H. now constructor.
Qed.

Lemma enum_duplicates_reported g : v_enum_duplicates g = true -> v_enums g <> [].
Proof.
  unfold v_enum_duplicates, v_enums. intros H. apply existsb_exists in H. destruct H as (t & Ht & Hp).
  apply (flat_map_nonnil _ _ t Ht). destruct (td_def t) as [|vs| | | |]; try discriminate.
  apply negb_true_iff in Hp.
  assert (Hd : doubles vs [] [] <> []).
  { apply doubles_dup. intros Hn. apply nodupb_iff in Hn. congruence. }
  destruct (doubles vs [] []); [congruence|discriminate].
Qed.

Lemma undefined_output_type_reported g :
  existsb (fun f => negb (defined g (named_of (fd_type f)))) (all_out_fields g) = true -> v_named_types g <> [].
Proof.
  unfold all_out_fields, v_named_types, defined. intros H. apply existsb_exists in H. destruct H as (f & Hf & Hp).
  apply in_flat_map in Hf. destruct Hf as (t & Ht & Hf).
  apply (flat_map_nonnil _ _ t Ht). destruct (out_fields (td_def t)) as [fs|]; [|destruct Hf].
  apply (flat_map_nonnil _ _ f Hf). apply negb_true_iff in Hp. rewrite Hp. discriminate.
Qed.

Lemma non_input_argument_reported g :
  existsb (fun a => negb (is_input_name g (named_of (in_type a)))) (all_args g) = true -> v_arguments g <> [].
Proof.
  unfold all_args, v_arguments. intros H. apply existsb_exists in H. destruct H as (a & Ha & Hp).
  apply negb_true_iff in Hp. apply in_app_or in Ha. destruct Ha as [Ha|Ha].
  - apply app_nonnil_l. apply in_flat_map in Ha. destruct Ha as (f & Hf & Ha).
    unfold all_out_fields in Hf. apply in_flat_map in Hf. destruct Hf as (t & Ht & Hf).
    apply (flat_map_nonnil _ _ t Ht). destruct (out_fields (td_def t)) as [fs|]; [|destruct Hf].
    apply (flat_map_nonnil _ _ f Hf).
    destruct (String.eqb (td_name t) (g_query g)); cbn [app]; apply (flat_map_nonnil _ _ a Ha); rewrite Hp; discriminate.
  - apply app_nonnil_r. apply in_flat_map in Ha. destruct Ha as (d & Hd & Ha).
    apply (flat_map_nonnil _ _ d Hd). apply (flat_map_nonnil _ _ a Ha). rewrite Hp. discriminate.
Qed.

Lemma non_input_field_reported g :
  existsb (fun a => negb (is_input_name g (named_of (in_type a)))) (all_input_fields g) = true -> v_input_fields g <> [].
Proof.
  unfold all_input_fields, v_input_fields. intros H. apply existsb_exists in H. destruct H as (a & Ha & Hp).
  apply negb_true_iff in Hp. apply in_flat_map in Ha. destruct Ha as (t & Ht & Ha).
  apply (flat_map_nonnil _ _ t Ht). destruct (td_def t); try destruct Ha.
  apply (flat_map_nonnil _ _ a (or_introl eq_refl)) || idtac.
  all: try (apply (flat_map_nonnil _ _ a); [assumption|rewrite Hp; discriminate]).
Qed.

(* a validated schema with one of these defects is never built *)
Definition defect_after_merge (g : gschema) : bool :=
  existsb (fun f => negb (defined g (named_of (fd_type f)))) (all_out_fields g) ||
  existsb (fun a => negb (is_input_name g (named_of (in_type a)))) (all_args g) ||
  existsb (fun a => negb (is_input_name g (named_of (in_type a)))) (all_input_fields g) ||
  SpecSchema.v_roots g || v_empty_object g || v_union_self g || v_enum_duplicates g || v_scalar_impl g || v_hooks g.

Theorem defect_rejected g : defect_after_merge g = true -> validate g <> Some [].
Proof.
  unfold defect_after_merge. intros H E. apply validate_errors in E. symmetry in E.
  repeat (apply app_eq_nil in E; let E1 := fresh in destruct E as [E1 E]).
  repeat rewrite orb_true_iff in H.
  destruct H as [[[[[[[[H|H]|H]|H]|H]|H]|H]|H]|H].
  - now apply undefined_output_type_reported in H.
  - now apply non_input_argument_reported in H.
  - now apply non_input_field_reported in H.
  - now apply roots_reported in H.
  - now apply empty_object_reported in H.
  - now apply union_self_reported in H.
  - now apply enum_duplicates_reported in H.
  - now apply scalar_impl_reported in H.
  - now apply hooks_reported in H.
Qed.

Theorem build_rejects_defects s g0 :
  initial s = inl g0 -> defect_after_merge (fold_left apply_ext (s_exts s) g0) = true -> builds s = false.
Proof.
  intros Hi Hd. unfold builds, impl_build. rewrite Hi.
  destruct (validate_extensions g0 (s_exts s)); [|reflexivity].
  pose proof (defect_rejected _ Hd) as Hv.
  destruct (validate (fold_left apply_ext (s_exts s) g0)) as [[|e es]|]; [congruence|reflexivity|reflexivity].
Qed.

(* the engine's interface field-type check is at least as strict as the specification's covariance rule *)
Lemma ty_eqb_valid g t : forall u, ty_eqb t u = true -> valid_impl_type g t u = true.
Proof.
  induction t as [n|t IH|t IH]; intros u; destruct u as [m|u|u]; cbn [ty_eqb valid_impl_type]; try discriminate.
  - intros H. now rewrite H.
  - apply IH.
  - apply IH.
Qed.

(* the engine's interface field-type check IS the specification's covariance rule *)
Theorem interface_type_check_exact g ft : forall it,
  same_as_interface_type g ft it = Some (valid_impl_type g ft it).
Proof.
  induction ft as [n|ft IH|ft IH]; intros it; cbn [same_as_interface_type].
  - destruct (ty_eqb (TNamed n) it) eqn:E; [now rewrite (ty_eqb_valid g _ _ E)|].
    destruct it as [i|it|it]; try reflexivity. cbn [ty_eqb] in E. cbn [valid_impl_type]. rewrite E. cbn [orb].
    destruct (g_find g i) as [[| | | | |]|]; reflexivity.
  - destruct (ty_eqb (TList ft) it) eqn:E; [now rewrite (ty_eqb_valid g _ _ E)|].
    destruct it as [i|it|it]; try reflexivity. cbn [valid_impl_type]. apply IH.
  - destruct (ty_eqb (TNonNull ft) it) eqn:E; [now rewrite (ty_eqb_valid g _ _ E)|].
    cbn [valid_impl_type]. destruct it as [i|it|it]; apply IH.
Qed.
