(* Facts about the implementation model of literal / argument coercion (property C05). *)
From Coq Require Import ZArith List String Bool Lia.
From TV Require Import Py.Prelude Model.Schema Model.ImplInput.
Import ListNotations.
Open Scope string_scope.
Open Scope list_scope.

Section Facts.
Variable sch : schema.

(* what a variable node evaluates to at a position (nn: the position is non-null) *)
Definition subst_var (vs : vars) (nn : bool) (x : string) : pyval :=
  let v := var_lookup vs x in
  if is_undef v || (is_none v && nn) then PUndef else v.

(* a named type usable at input positions, with an implementation when it is a scalar *)
Definition input_leaf_ok (n : string) : bool :=
  match find_type sch n with
  | Some DScalar => match scalars sch n with Some _ => true | None => false end
  | Some (DEnum _) | Some (DInput _) => true
  | _ => false
  end.

Lemma leaf_on_variable fuel n vs nn l x :
  input_leaf_ok n = true ->
  literal_leaf sch (S fuel) n vs nn (LVar l x) = Ok (subst_var vs nn x).
Proof.
  unfold input_leaf_ok. cbn [literal_leaf].
  destruct (find_type sch n) as [[ |values|fields|ifs fs|fs|ms]|]; try discriminate.
  - destruct (scalars sch n); [|discriminate]. intros _.
    unfold lit_scalar_coercer, nv_wrap, subst_var. now destruct (_ || _).
  - intros _. unfold lit_enum_coercer, nv_wrap, subst_var. now destruct (_ || _).
  - intros _. unfold nv_wrap, subst_var. now destruct (_ || _).
Qed.

(* Variables are substituted as they are at EVERY position of every type: the runtime value
   of the variable, or invalid when it is missing / null at a non-null position.  (No check
   of the variable's type happens here: that is the validation rule's business.) *)
Theorem variable_substituted_everywhere fuel t vs nn l x :
  input_leaf_ok (named_of t) = true ->
  get_literal_coercer sch (S fuel) t vs nn (LVar l x) =
  Ok (subst_var vs (nn || is_non_null t) x).
Proof.
  intros Hok. unfold get_literal_coercer.
  revert nn. induction t as [n|t IH|t IH]; intros nn.
  - cbn [peel wrap_literal is_non_null]. rewrite orb_false_r. now apply leaf_on_variable.
  - cbn [peel]. destruct (peel t) as [ws leafn] eqn:E. cbn [wrap_literal is_non_null].
    rewrite orb_false_r. unfold lit_list_coercer, nv_wrap, subst_var. now destruct (_ || _).
  - cbn [peel]. destruct (peel t) as [ws leafn] eqn:E. cbn [wrap_literal is_non_null named_of] in *.
    unfold lit_non_null_coercer. rewrite IH by exact Hok.
    rewrite orb_true_r. unfold subst_var.
    destruct (is_undef _); cbn [orb]; [reflexivity|].
    destruct (is_none _); cbn [andb orb]; reflexivity.
Qed.

(* ---------- argument_coercer ---------- *)
Definition mk_arg (n : string) (v : lit) : argument := {| a_name := n; a_value := v; a_loc := (0, 0)%Z |}.

(* a variable supplied directly as the argument value contributes its coerced runtime value *)
Theorem argument_variable_passthrough fuel ad floc a vs x l v :
  a_value a = LVar l x -> dict_get x vs = Some v -> (is_none v = false \/ is_non_null (in_type ad) = false) ->
  is_undef v = false ->
  argument_coercer sch fuel ad floc (Some a) vs = Ok (AVal v).
Proof.
  intros Ha Hv Hn Hu. unfold argument_coercer. rewrite Ha. unfold var_lookup. rewrite Hv.
  cbn [andb negb orb].
  destruct (in_default ad);
  destruct Hn as [Hn | Hn]; rewrite Hn; cbn [andb orb negb];
    try rewrite andb_false_r; cbn [orb]; rewrite ?Hu; try reflexivity;
    destruct (is_none v); cbn; rewrite ?Hu; reflexivity.
Qed.

(* omitted, no default: absent for a nullable type, an error for a non-null type *)
Theorem argument_omitted fuel ad floc vs :
  in_default ad = None ->
  argument_coercer sch fuel ad floc None vs =
  if is_non_null (in_type ad) then Ok (AErr (in_name ad, ARequired, floc)) else Ok AUndefined.
Proof.
  intros Hd. unfold argument_coercer. rewrite Hd. cbn [negb orb andb].
  destruct (is_non_null (in_type ad)); reflexivity.
Qed.

(* explicit null: delivered as null for a nullable type (distinct from absent), an error for
   a non-null type *)
Theorem argument_explicit_null fuel ad floc a vs l :
  a_value a = LNull l ->
  argument_coercer sch fuel ad floc (Some a) vs =
  if is_non_null (in_type ad) then Ok (AErr (in_name ad, ANonNullNull, l)) else Ok (AVal PNone).
Proof.
  intros Ha. unfold argument_coercer. rewrite Ha. cbn [negb orb andb lit_loc].
  destruct (in_default ad); destruct (is_non_null (in_type ad)); reflexivity.
Qed.

(* a variable that was given no runtime value behaves as an omitted argument *)
Theorem argument_unprovided_variable fuel ad floc a vs l x :
  a_value a = LVar l x -> dict_get x vs = None -> in_default ad = None ->
  argument_coercer sch fuel ad floc (Some a) vs =
  if is_non_null (in_type ad) then Ok (AErr (in_name ad, AVarNotProvided, l)) else Ok AUndefined.
Proof.
  intros Ha Hv Hd. unfold argument_coercer. rewrite Ha, Hv, Hd. cbn [negb orb andb lit_loc].
  destruct (is_non_null (in_type ad)); reflexivity.
Qed.

(* relying on the schema default = writing the same literal explicitly *)
Definition plain_literal (d : lit) : bool :=
  match d with LVar _ _ | LNull _ => false | _ => true end.

Definition strip_loc (o : arg_outcome) : arg_outcome :=
  match o with AErr (n, k, _) => AErr (n, k, (0, 0)%Z) | _ => o end.

Theorem argument_default_eq_literal fuel ad floc vs d n :
  in_default ad = Some d -> plain_literal d = true ->
  bind (argument_coercer sch fuel ad floc None vs) (fun o => Ok (strip_loc o)) =
  bind (argument_coercer sch fuel ad floc (Some (mk_arg n d)) vs) (fun o => Ok (strip_loc o)).
Proof.
  intros Hd Hp. unfold argument_coercer, mk_arg. rewrite Hd. cbn [a_value].
  destruct d; try discriminate; cbn [negb orb andb];
    (destruct (get_literal_coercer sch fuel (in_type ad) vs false _) as [cv|e]; cbn [bind]; [|reflexivity]);
    destruct (is_undef cv); reflexivity.
Qed.

Ltac split_hyp H :=
  repeat (cbn [bind fst snd negb andb orb lit_loc] in H;
    match type of H with
    | context [match ?x with _ => _ end] =>
        lazymatch x with
        | context [match _ with _ => _ end] => fail
        | _ => destruct x eqn:?
        end
    end); cbn [bind fst snd] in H.

Lemma argument_error_names_argument fuel ad floc anode vs e :
  argument_coercer sch fuel ad floc anode vs = Ok (AErr e) -> fst (fst e) = in_name ad.
Proof.
  unfold argument_coercer, bind. intros H.
  split_hyp H; try discriminate H; inversion H; reflexivity.
Qed.

(* errors stay local to the argument that caused them; delivered keys are declared argument
   names *)
Theorem coerce_arguments_keys fuel floc anodes vs : forall ads vals errs,
  coerce_arguments_aux sch fuel ads floc anodes vs = Ok (vals, errs) ->
  (forall k v, In (k, v) vals -> exists ad, In ad ads /\ in_name ad = k) /\
  (forall e, In e errs -> exists ad, In ad ads /\ in_name ad = fst (fst e)).
Proof.
  induction ads as [|ad ads IH]; intros vals errs; cbn [coerce_arguments_aux].
  - intros H; inversion H. split; intros; contradiction.
  - destruct (argument_coercer sch fuel ad floc _ vs) as [o|e] eqn:Ea; cbn [bind]; [|discriminate].
    destruct (coerce_arguments_aux sch fuel ads floc anodes vs) as [[vals' errs']|e] eqn:Er; cbn [bind]; [|discriminate].
    destruct (IH vals' errs' eq_refl) as [Hv He].
    assert (Hv' : forall k v, In (k, v) vals' -> exists ad0, In ad0 (ad :: ads) /\ in_name ad0 = k).
    { intros k v Hin. destruct (Hv k v Hin) as (ad' & ? & ?). exists ad'; split; [now right|assumption]. }
    assert (He' : forall e, In e errs' -> exists ad0, In ad0 (ad :: ads) /\ in_name ad0 = fst (fst e)).
    { intros e Hin. destruct (He e Hin) as (ad' & ? & ?). exists ad'; split; [now right|assumption]. }
    destruct o as [ |v|e]; intros H; inversion H; subst vals errs; split; auto.
    + intros k v' [Hin | Hin]; [|now apply (Hv' k v')].
      inversion Hin. exists ad; split; [now left|reflexivity].
    + intros e' [Hin | Hin]; [|now apply He'].
      subst e'. exists ad; split; [now left|].
      symmetry. eapply argument_error_names_argument; eauto.
Qed.

End Facts.
