(* C03: "the response is JSON-serialisable".  A value that conforms to its declared type (Proofs/ExecConform.v
   conf_ty: what C03_data_conforms establishes of every non-null data) is a JSON value -- null, booleans, integers,
   finite floats, text, lists and string-keyed objects of such -- as soon as every scalar's serialiser produces JSON
   values; the five built-in scalars, as regenerated from /repo, do. *)
From Coq Require Import ZArith List String Bool SpecFloat.
From TV Require Import Py.Prelude Model.Schema Model.ScalarSpec Model.StdScalars Model.ImplInput Model.ImplExec
     Proofs.PreludeFacts Proofs.ScalarLaws Proofs.ScalarRefine Proofs.ExecConform Proofs.BuiltinLeaves Gen.Scalars_gen.
Import ListNotations.
Open Scope string_scope.
Open Scope list_scope.

Fixpoint json_val (v : pyval) : bool :=
  match v with
  | PNone | PBool _ | PInt _ | PStr _ => true
  | PFloat f => sf_finite f
  | PList l => (fix all (xs : list pyval) : bool := match xs with [] => true | x :: r => json_val x && all r end) l
  | PDict kv => (fix all (xs : list (string * pyval)) : bool := match xs with [] => true | (_, x) :: r => json_val x && all r end) kv
  | _ => false
  end.

Lemma json_list l : json_val (PList l) = forallb json_val l.
Proof. cbn [json_val]. induction l as [|x r IH]; [reflexivity|]. cbn [forallb]. now rewrite IH. Qed.
Lemma json_dict kv : json_val (PDict kv) = forallb (fun e => json_val (snd e)) kv.
Proof. cbn [json_val]. induction kv as [|[k x] r IH]; [reflexivity|]. cbn [forallb snd]. now rewrite IH. Qed.

Section Json.
Variable sch : schema.
Variable doc : document.
Variable vs : vars.
Hypothesis scalars_serialise_json : forall n ops v r,
  find_type sch n = Some DScalar -> scalars sch n = Some ops -> s_output ops v = Ok r -> is_undef r = false -> json_val r = true.

Fixpoint conf_json t nodes v (H : conf_ty sch doc vs t nodes v) {struct H} : json_val v = true :=
  match H in conf_ty _ _ _ t0 nodes0 v0 return json_val v0 = true with
  | CNull _ _ _ _ _ _ => eq_refl
  | CNonNull _ _ _ _ _ _ _ H' => conf_json _ _ _ H'
  | CList _ _ _ t' nodes' l HF =>
      eq_trans (json_list l)
        ((fix go (xs : list pyval) (F : Forall (conf_ty sch doc vs t' nodes') xs) {struct F} : forallb json_val xs = true :=
            match F in Forall _ xs0 return forallb json_val xs0 = true with
            | Forall_nil _ => eq_refl
            | Forall_cons x Hx Fr => proj2 (andb_true_iff _ _) (conj (conf_json _ _ _ Hx) (go _ Fr))
            end) l HF)
  | CScalar _ _ _ n _ ops v1 r Hn Hops Ho Hu => scalars_serialise_json n ops v1 r Hn Hops Ho Hu
  | CEnum _ _ _ _ _ _ _ _ _ => eq_refl
  | CObject _ _ _ _ _ rt sub kv _ _ _ Hf => eq_trans (json_dict kv) (fields_json rt sub kv Hf)
  end
with fields_json rt sub kv (H : conf_fields sch doc vs rt sub kv) {struct H} : forallb (fun e => json_val (snd e)) kv = true :=
  match H in conf_fields _ _ _ rt0 sub0 kv0 return forallb (fun e => json_val (snd e)) kv0 = true with
  | CFNil _ _ _ _ => eq_refl
  | CFSkip _ _ _ _ _ _ _ _ _ _ H' => fields_json _ _ _ H'
  | CFCons _ _ _ _ _ _ _ _ _ _ _ _ Hv H' => proj2 (andb_true_iff _ _) (conj (conf_json _ _ _ Hv) (fields_json _ _ _ H'))
  end.
End Json.

(* the whole response *)
Theorem data_is_json sch doc vs U cfg op root r :
  (forall n ops v r0, find_type sch n = Some DScalar -> scalars sch n = Some ops -> s_output ops v = Ok r0 -> is_undef r0 = false ->
                      json_val r0 = true) ->
  execute_operation sch doc vs U cfg op root = OVal r -> json_val (r_data r) = true.
Proof.
  intros Hsc H. destruct (execute_operation_conforms sch doc vs U cfg op root r H) as [->|(rt & fs & v & kv & _ & _ & -> & Hf)]; [reflexivity|].
  rewrite json_dict. exact (fields_json sch doc vs Hsc rt fs kv Hf).
Qed.

(* the five built-in scalars serialise to JSON values *)
Theorem builtin_scalars_serialise_json O n ops v r :
  builtin_scalars O n = Some ops -> s_output ops v = Ok r -> json_val r = true.
Proof.
  intros H Ho. unfold builtin_scalars, std_scalars in H.
  destruct (String.eqb n "Int") eqn:E1; [apply String.eqb_eq in E1; subst n; cbn in H; injection H as <-; cbn [s_output] in Ho;
    rewrite int_coerce_output_refines in Ho; destruct (int_output_wire O v r Ho) as (z & -> & _); reflexivity|].
  destruct (String.eqb n "Float") eqn:E2; [apply String.eqb_eq in E2; subst n; cbn in H; injection H as <-; cbn [s_output] in Ho;
    rewrite float_coerce_output_refines in Ho; destruct (float_output_wire O v r Ho) as (f & -> & Hf & _); exact Hf|].
  destruct (String.eqb n "String") eqn:E3; [apply String.eqb_eq in E3; subst n; cbn in H; injection H as <-; cbn [s_output] in Ho;
    rewrite string_coerce_output_refines in Ho; destruct (string_output_wire O v r Ho) as (s0 & -> & _); reflexivity|].
  destruct (String.eqb n "Boolean") eqn:E4; [apply String.eqb_eq in E4; subst n; cbn in H; injection H as <-; cbn [s_output] in Ho;
    rewrite boolean_coerce_output_refines in Ho; destruct (boolean_output_wire O v r Ho) as (b & -> & _); reflexivity|].
  destruct (String.eqb n "ID") eqn:E5; [apply String.eqb_eq in E5; subst n; cbn in H; injection H as <-; cbn [s_output] in Ho;
    rewrite id_coerce_output_refines in Ho; destruct (id_output_wire O v r Ho) as (s0 & -> & _); reflexivity|].
  cbn in H. discriminate.
Qed.

Theorem builtin_schema_data_is_json O sch doc vs U cfg op root r :
  (forall n, scalars sch n = builtin_scalars O n) ->
  execute_operation sch doc vs U cfg op root = OVal r -> json_val (r_data r) = true.
Proof.
  intros Hsc. apply data_is_json. intros n ops v r0 _ Hops Ho _. rewrite Hsc in Hops.
  exact (builtin_scalars_serialise_json O n ops v r0 Hops Ho).
Qed.

(* the leaves of the built-in scalars have their wire type: Int an integer within 32 bits, Float a finite double,
   String / ID text, Boolean a boolean *)
Theorem builtin_scalars_output_leaf O n ops v r :
  builtin_scalars O n = Some ops -> s_output ops v = Ok r -> builtin_leaf n r = true.
Proof.
  intros H Ho. unfold builtin_scalars, std_scalars in H.
  destruct (String.eqb n "Int") eqn:E1; [apply String.eqb_eq in E1; subst n; cbn in H; injection H as <-; cbn [s_output] in Ho;
    rewrite int_coerce_output_refines in Ho; destruct (int_output_wire O v r Ho) as (z & -> & Hz & _); cbn; now apply in32b_spec|].
  destruct (String.eqb n "Float") eqn:E2; [apply String.eqb_eq in E2; subst n; cbn in H; injection H as <-; cbn [s_output] in Ho;
    rewrite float_coerce_output_refines in Ho; destruct (float_output_wire O v r Ho) as (f & -> & Hf & _); exact Hf|].
  destruct (String.eqb n "String") eqn:E3; [apply String.eqb_eq in E3; subst n; cbn in H; injection H as <-; cbn [s_output] in Ho;
    rewrite string_coerce_output_refines in Ho; destruct (string_output_wire O v r Ho) as (s0 & -> & _); reflexivity|].
  destruct (String.eqb n "Boolean") eqn:E4; [apply String.eqb_eq in E4; subst n; cbn in H; injection H as <-; cbn [s_output] in Ho;
    rewrite boolean_coerce_output_refines in Ho; destruct (boolean_output_wire O v r Ho) as (b & -> & _); reflexivity|].
  destruct (String.eqb n "ID") eqn:E5; [apply String.eqb_eq in E5; subst n; cbn in H; injection H as <-; cbn [s_output] in Ho;
    rewrite id_coerce_output_refines in Ho; destruct (id_output_wire O v r Ho) as (s0 & -> & _); reflexivity|].
  cbn in H. discriminate.
Qed.

Theorem builtin_leaf_conforms O sch doc vs n nodes v :
  (forall m, scalars sch m = builtin_scalars O m) -> find_type sch n = Some DScalar ->
  conf_ty sch doc vs (TNamed n) nodes v -> v = PNone \/ builtin_leaf n v = true.
Proof.
  intros Hsc Hn H. inversion H as [| | |n0 nd ops v0 r Hf Hops Ho Hu|n0 nd values x Hf|n0 nd rt sub kv Hp Hex Hc Hfs]; subst.
  - now left.
  - right. rewrite Hsc in Hops. exact (builtin_scalars_output_leaf O n ops v0 v Hops Ho).
  - congruence.
  - destruct Hp as [->|Hp]; destruct Hex as (ifs & fs & Hex).
    + congruence.
    + unfold possible_types in Hp. rewrite Hn in Hp. discriminate.
Qed.
