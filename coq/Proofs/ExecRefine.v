(* C01: whenever the specification's execution algorithm (Model/SpecExec.v: CollectFields,
   ExecuteSelectionSet, ExecuteField, CompleteValue with the error rule of 6.4.4) yields a result,
   the implementation model (Model/ImplExec.v: accumulator-passing collection, state-passing
   execute_fields, the output coercer chain, raise / catch / MultipleException) yields the same
   data -- for every schema, document, variables, user code and both sibling configurations. *)
From Coq Require Import ZArith List String Bool Lia.
From TV Require Import Py.Prelude Model.Schema Model.ImplInput Model.ImplExec Model.SpecExec Proofs.CollectRefine.
Import ListNotations.
Open Scope string_scope.
Open Scope list_scope.

Section Refine.
Variable sch : schema.
Variable doc : document.
Variable vs : vars.
Variable U : usercode.
Variable cfg : config.

(* ---------- collect_subfields = CollectFields(MergeSelectionSets(fields)) ---------- *)
Lemma spec_collect_app fuel rt a : forall b v,
  spec_collect sch doc vs (S fuel) rt (a ++ b) v =
  match spec_collect sch doc vs (S fuel) rt a v with
  | Some (f1, v1) =>
      match spec_collect sch doc vs (S fuel) rt b v1 with
      | Some (f2, v2) => Some (f1 ++ f2, v2)
      | None => None
      end
  | None => None
  end.
Proof.
  cbn [spec_collect].
  induction a as [|sel rest IH]; intros b v.
  - simpl. match goal with |- ?x = _ => destruct x as [[f2 v2]|] end; reflexivity.
  - cbn [app]. destruct sel as [l alias name args dirs sub | l name dirs | l tc dirs sub].
    + destruct (should_include sch vs dirs); [|apply IH].
      rewrite IH.
      match goal with |- context [match (?f rest v) with _ => _ end] => destruct (f rest v) as [[f1 v1]|] end; [|reflexivity].
      match goal with |- context [match (?f b v1) with _ => _ end] => destruct (f b v1) as [[f2 v2]|] end; reflexivity.
    + destruct (mem_str name v || negb (should_include sch vs dirs)); [apply IH|].
      destruct (find_fragment (fragments doc) name) as [fr|]; [|reflexivity].
      destruct (condition_matches sch (Some (fr_type fr)) rt); [|apply IH].
      destruct (spec_collect sch doc vs fuel rt (fr_sels fr) (name :: v)) as [[g1 w1]|]; [|reflexivity].
      rewrite IH.
      match goal with |- context [match (?f rest w1) with _ => _ end] => destruct (f rest w1) as [[f1 v1]|] end; [|reflexivity].
      match goal with |- context [match (?f b v1) with _ => _ end] => destruct (f b v1) as [[f2 v2]|] end; [|reflexivity].
      now rewrite app_assoc.
    + destruct (should_include sch vs dirs && condition_matches sch tc rt); [|apply IH].
      destruct (spec_collect sch doc vs fuel rt sub v) as [[g1 w1]|]; [|reflexivity].
      rewrite IH.
      match goal with |- context [match (?f rest w1) with _ => _ end] => destruct (f rest w1) as [[f1 v1]|] end; [|reflexivity].
      match goal with |- context [match (?f b v1) with _ => _ end] => destruct (f b v1) as [[f2 v2]|] end; [|reflexivity].
      now rewrite app_assoc.
Qed.

Lemma collect_subfields_refines_spec fuel rt nodes : forall acc visited,
  collect_subfields sch doc vs (S fuel) rt nodes acc visited =
  match spec_collect sch doc vs (S fuel) rt (flat_map (fun n => fn_sels n) nodes) visited with
  | Some (flat, _) => Some (group_fields flat acc)
  | None => None
  end.
Proof.
  induction nodes as [|n rest IH]; intros acc visited; [reflexivity|].
  cbn [collect_subfields flat_map]. rewrite spec_collect_app.
  destruct (fn_sels n) as [|sel sels] eqn:En.
  - rewrite IH. cbn [spec_collect].
    match goal with |- context [match ?g with Some _ => _ | None => _ end] => destruct g as [[f2 v2]|] end; reflexivity.
  - rewrite collect_fields_refines_spec.
    destruct (spec_collect sch doc vs (S fuel) rt (sel :: sels) visited) as [[f1 v1]|]; [|reflexivity].
    rewrite IH.
    match goal with |- context [match ?g with Some _ => _ | None => _ end] => destruct g as [[f2 v2]|] end; [|reflexivity].
    now rewrite group_fields_app.
Qed.

Lemma collect_subfields_is_spec rt nodes :
  collect_subfields sch doc vs COLLECT_FUEL rt nodes [] [] =
  spec_collect_fields sch doc vs COLLECT_FUEL rt (flat_map (fun n => fn_sels n) nodes).
Proof. unfold COLLECT_FUEL, spec_collect_fields. now rewrite collect_subfields_refines_spec. Qed.

(* ---------- the refinement relation (data only) ----------
   An implementation computation refines a specification result when, from EVERY state, it returns
   the specification's value (SVal), raises (SFail); nothing is claimed when the specification
   itself has no result (SCrash: out of fuel / missing fragment). *)
Definition R (m : M pyval) (r : sres) : Prop :=
  forall s, match r with
            | SVal v _ => fst (m s) = OVal v
            | SFail _ => exists l, fst (m s) = OExc l
            | SCrash => True
            end.

Definition Rf (m : M (option pyval)) (r : option sres) : Prop :=
  forall s, match r with
            | None => fst (m s) = OVal None
            | Some (SVal v _) => fst (m s) = OVal (Some v)
            | Some (SFail _) => exists l, fst (m s) = OExc l
            | Some SCrash => True
            end.

Definition rf_refines (rf : rfun) (sf : sfun) : Prop :=
  forall otype value opath k ns, Rf (rf otype value opath k ns) (sf otype value opath k ns).

(* ExecuteSelectionSet: both sibling strategies *)
Lemma exec_fields_conc_refines (rf : string -> list fnode -> M (option pyval)) sf :
  (forall k ns, Rf (rf k ns) (sf k ns)) -> forall fs s rkv ro,
  spec_fields sf fs = (rkv, ro, false) ->
  match rkv with
  | Some kv => fst (exec_fields_conc rf fs s) = OVal kv
  | None => exists l, fst (exec_fields_conc rf fs s) = OExc l
  end.
Proof.
  intros H. induction fs as [|[k nodes] rest IH]; intros s rkv ro; cbn [spec_fields exec_fields_conc].
  - intros E. inversion E. reflexivity.
  - destruct (spec_fields sf rest) as [[rkv0 ro0] rc0] eqn:Er.
    destruct (rf k nodes s) as [r s1] eqn:E1. pose proof (H k nodes s) as Hk. rewrite E1 in Hk. cbn [fst] in Hk.
    destruct (exec_fields_conc rf rest s1) as [rs s2] eqn:E2.
    destruct (sf k nodes) as [[v o|o|]|]; intros E; inversion E; subst; clear E.
    + pose proof (IH s1 _ _ eq_refl) as Hr. rewrite E2 in Hr. cbn [fst] in Hr.
      destruct rkv0 as [kv|]; [subst rs; reflexivity|destruct Hr as [l ->]; eexists; reflexivity].
    + pose proof (IH s1 _ _ eq_refl) as Hr. rewrite E2 in Hr. cbn [fst] in Hr. destruct Hk as [l ->].
      destruct rkv0 as [kv|]; [subst rs; eexists; reflexivity|destruct Hr as [l' ->]; eexists; reflexivity].
    + pose proof (IH s1 _ _ eq_refl) as Hr. rewrite E2 in Hr. cbn [fst] in Hr.
      destruct rkv as [kv|]; [subst rs; reflexivity|destruct Hr as [l ->]; eexists; reflexivity].
Qed.

Lemma exec_fields_seq_refines (rf : string -> list fnode -> M (option pyval)) sf :
  (forall k ns, Rf (rf k ns) (sf k ns)) -> forall fs s rkv ro,
  spec_fields sf fs = (rkv, ro, false) ->
  match rkv with
  | Some kv => fst (exec_fields_seq rf fs s) = OVal kv
  | None => exists l, fst (exec_fields_seq rf fs s) = OExc l
  end.
Proof.
  intros H. induction fs as [|[k nodes] rest IH]; intros s rkv ro; cbn [spec_fields exec_fields_seq].
  - intros E. inversion E. reflexivity.
  - destruct (spec_fields sf rest) as [[rkv0 ro0] rc0] eqn:Er.
    destruct (rf k nodes s) as [r s1] eqn:E1. pose proof (H k nodes s) as Hk. rewrite E1 in Hk. cbn [fst] in Hk.
    destruct (sf k nodes) as [[v o|o|]|]; intros E; inversion E; subst; clear E.
    + pose proof (IH s1 _ _ eq_refl) as Hr.
      destruct (exec_fields_seq rf rest s1) as [rs s2]. cbn [fst] in Hr.
      destruct rkv0 as [kv|]; [subst rs; reflexivity|destruct Hr as [l ->]; eexists; reflexivity].
    + destruct Hk as [l ->]. eexists. reflexivity.
    + pose proof (IH s1 _ _ eq_refl) as Hr.
      destruct (exec_fields_seq rf rest s1) as [rs s2]. cbn [fst] in Hr.
      destruct rkv as [kv|]; [subst rs; reflexivity|destruct Hr as [l ->]; eexists; reflexivity].
Qed.

(* per-field settings: the two passes of exec_fields_mixed *)
Definition slot_ok (isc : string -> list fnode -> bool) (sf : string -> list fnode -> option sres)
           (kn : string * list fnode) (slot : option (option pyval)) : Prop :=
  match slot with
  | None => isc (fst kn) (snd kn) = true
  | Some o => isc (fst kn) (snd kn) = false /\
              match sf (fst kn) (snd kn) with
              | None => o = None
              | Some (SVal v _) => o = Some v
              | _ => False
              end
  end.

Lemma mixed_pass1_refines isc (rf : string -> list fnode -> M (option pyval)) sf :
  (forall k ns, Rf (rf k ns) (sf k ns)) -> forall fs s rkv ro,
  spec_fields sf fs = (rkv, ro, false) ->
  match fst (mixed_pass1 isc rf fs s) with
  | OVal slots => Forall2 (slot_ok isc sf) fs slots
  | OExc _ => rkv = None
  | OCrash _ => False
  end.
Proof.
  intros H. induction fs as [|[k nodes] rest IH]; intros s rkv ro; cbn [spec_fields mixed_pass1].
  - intros E. cbn. constructor.
  - destruct (spec_fields sf rest) as [[rkv0 ro0] rc0] eqn:Er.
    destruct (isc k nodes) eqn:Ec.
    + assert (Hrc : forall x y, (match sf k nodes with
                                 | None => (rkv0, ro0, rc0)
                                 | Some SCrash => (None, ro0, true)
                                 | Some (SFail o) => (None, o ++ ro0, rc0)
                                 | Some (SVal v o) => (match rkv0 with Some kv => Some ((k, v) :: kv) | None => None end, o ++ ro0, rc0)
                                 end) = (x, y, false) -> rc0 = false /\ (rkv0 = None -> x = None)).
      { intros x y. destruct (sf k nodes) as [[v o|o|]|]; intros E; inversion E; subst; split; auto; intros ->; reflexivity. }
      intros E. destruct (Hrc _ _ E) as [-> Hn].
      pose proof (IH s _ _ eq_refl) as Hr.
      destruct (mixed_pass1 isc rf rest s) as [[slots|l|e] s1]; cbn [fst] in *.
      * constructor; [exact Ec|exact Hr].
      * now apply Hn.
      * exact Hr.
    + pose proof (H k nodes s) as Hk.
      destruct (rf k nodes s) as [r s1]. cbn [fst] in Hk.
      destruct (sf k nodes) as [[v o|o|]|] eqn:Esf; intros E; inversion E; subst; clear E.
      * pose proof (IH s1 _ _ eq_refl) as Hr.
        destruct (mixed_pass1 isc rf rest s1) as [[slots|l|e] s2]; cbn [fst] in *.
        -- constructor; [|exact Hr]. split; [exact Ec|]. cbn [fst snd]. now rewrite Esf.
        -- now rewrite Hr.
        -- exact Hr.
      * destruct Hk as [l ->]. reflexivity.
      * pose proof (IH s1 _ _ eq_refl) as Hr.
        destruct (mixed_pass1 isc rf rest s1) as [[slots|l|e] s2]; cbn [fst] in *.
        -- constructor; [|exact Hr]. split; [exact Ec|]. cbn [fst snd]. now rewrite Esf.
        -- exact Hr.
        -- exact Hr.
Qed.

Lemma mixed_pass2_refines isc (rf : string -> list fnode -> M (option pyval)) sf :
  (forall k ns, Rf (rf k ns) (sf k ns)) -> forall fs slots, Forall2 (slot_ok isc sf) fs slots -> forall s rkv ro,
  spec_fields sf fs = (rkv, ro, false) ->
  match rkv with
  | Some kv => fst (mixed_pass2 rf fs slots s) = OVal kv
  | None => exists l, fst (mixed_pass2 rf fs slots s) = OExc l
  end.
Proof.
  intros H fs slots HF. induction HF as [|[k nodes] slot rest srest Hs HF IH]; intros s rkv ro; cbn [spec_fields mixed_pass2].
  - intros E. inversion E. reflexivity.
  - destruct (spec_fields sf rest) as [[rkv0 ro0] rc0] eqn:Er.
    destruct slot as [o|].
    + destruct Hs as [_ Hs]. cbn [fst snd] in Hs.
      destruct (sf k nodes) as [[v ov|ov|]|]; try contradiction; intros E; inversion E; subst; clear E.
      * pose proof (IH s _ _ eq_refl) as Hr. destruct (mixed_pass2 rf rest srest s) as [rs s2]. cbn [fst] in Hr.
        destruct rkv0 as [kv|]; [subst rs; reflexivity|destruct Hr as [l ->]; eexists; reflexivity].
      * pose proof (IH s _ _ eq_refl) as Hr. destruct (mixed_pass2 rf rest srest s) as [rs s2]. cbn [fst] in Hr.
        destruct rkv as [kv|]; [subst rs; reflexivity|destruct Hr as [l ->]; eexists; reflexivity].
    + pose proof (H k nodes s) as Hk. destruct (rf k nodes s) as [r s1]. cbn [fst] in Hk.
      destruct (mixed_pass2 rf rest srest s1) as [rs s2] eqn:E2.
      destruct (sf k nodes) as [[v o|o|]|]; intros E; inversion E; subst; clear E.
      * pose proof (IH s1 _ _ eq_refl) as Hr. rewrite E2 in Hr. cbn [fst] in Hr.
        destruct rkv0 as [kv|]; [subst rs; reflexivity|destruct Hr as [l ->]; eexists; reflexivity].
      * pose proof (IH s1 _ _ eq_refl) as Hr. rewrite E2 in Hr. cbn [fst] in Hr. destruct Hk as [l ->].
        destruct rkv0 as [kv|]; [subst rs; eexists; reflexivity|destruct Hr as [l' ->]; eexists; reflexivity].
      * pose proof (IH s1 _ _ eq_refl) as Hr. rewrite E2 in Hr. cbn [fst] in Hr.
        destruct rkv as [kv|]; [subst rs; reflexivity|destruct Hr as [l ->]; eexists; reflexivity].
Qed.

Lemma exec_fields_mixed_refines isc (rf : string -> list fnode -> M (option pyval)) sf :
  (forall k ns, Rf (rf k ns) (sf k ns)) -> forall fs s rkv ro,
  spec_fields sf fs = (rkv, ro, false) ->
  match rkv with
  | Some kv => fst (exec_fields_mixed isc rf fs s) = OVal kv
  | None => exists l, fst (exec_fields_mixed isc rf fs s) = OExc l
  end.
Proof.
  intros H fs s rkv ro Es. unfold exec_fields_mixed.
  pose proof (mixed_pass1_refines isc rf sf H fs s _ _ Es) as H1.
  destruct (mixed_pass1 isc rf fs s) as [[slots|l|e] s1]; cbn [fst] in H1.
  - exact (mixed_pass2_refines isc rf sf H fs slots H1 s1 _ _ Es).
  - subst rkv. eexists. reflexivity.
  - contradiction.
Qed.

(* complete_object_value = ExecuteSelectionSet on the merged selection sets *)
Lemma exec_sub_refines rf sf nodes otype value opath :
  rf_refines rf sf -> R (exec_sub sch doc vs cfg rf nodes otype value opath) (spec_object sch doc vs sf nodes otype value opath).
Proof.
  intros H s. unfold spec_object, exec_sub. rewrite collect_subfields_is_spec.
  destruct (spec_collect_fields sch doc vs COLLECT_FUEL otype (flat_map (fun n => fn_sels n) nodes)) as [sub|]; [|exact I].
  destruct (spec_fields (fun k ns => sf otype value opath k ns) sub) as [[rkv ro] rc] eqn:Es.
  destruct rc; [destruct rkv; exact I|].
  pose proof (exec_fields_mixed_refines (field_conc cfg otype) _ _ (fun k ns => H otype value opath k ns) sub s _ _ Es) as Hf.
  destruct (exec_fields_mixed _ _ sub s) as [r s1]. cbn [fst] in Hf.
  destruct rkv as [kv|]; [subst r; reflexivity|destruct Hf as [l ->]; eexists; reflexivity].
Qed.

(* ---------- list items ---------- *)
Lemma complete_items_refines (ci : pyval -> list pkey -> M pyval) sci path :
  (forall x p, R (ci x p) (sci x p)) -> forall items i s rl ro,
  spec_items sci path i items = (rl, ro, false) ->
  match rl with
  | Some l => fst (complete_items ci path i items s) = OVal l
  | None => exists l, fst (complete_items ci path i items s) = OExc l
  end.
Proof.
  intros H. induction items as [|x xs IH]; intros i s rl ro; cbn [spec_items complete_items].
  - intros E. inversion E. reflexivity.
  - destruct (spec_items sci path (i + 1)%Z xs) as [[rl0 ro0] rc0] eqn:Er.
    destruct (ci x (path ++ [KIdx i]) s) as [r s1] eqn:E1.
    pose proof (H x (path ++ [KIdx i]) s) as Hx. rewrite E1 in Hx. cbn [fst] in Hx.
    destruct (complete_items ci path (i + 1)%Z xs s1) as [rs s2] eqn:E2.
    destruct (sci x (path ++ [KIdx i])) as [v o|o|]; intros E; inversion E; subst; clear E.
    + pose proof (IH _ s1 _ _ Er) as Hr. rewrite E2 in Hr. cbn [fst] in Hr.
      destruct rl0 as [l|]; [subst rs; reflexivity|destruct Hr as [l ->]; eexists; reflexivity].
    + pose proof (IH _ s1 _ _ Er) as Hr. rewrite E2 in Hr. cbn [fst] in Hr. destruct Hx as [l ->].
      destruct rl0 as [l0|]; [subst rs; eexists; reflexivity|destruct Hr as [l' ->]; eexists; reflexivity].
Qed.

(* handle_field_error = the specification's "absorb" at a nullable position *)
Lemma handle_field_error_absorbs l nodes path t s :
  fst (handle_field_error l nodes path t s) =
  if is_non_null t then OExc (map (locate (locs_of nodes) path) l) else OVal PNone.
Proof. unfold handle_field_error. destruct (is_non_null t); reflexivity. Qed.

Section Chain.
Variable rf : rfun.
Variable sf : sfun.
Hypothesis Hrf : rf_refines rf sf.
Variable ptype : string.
Variable fd : field_def.
Variable nodes : list fnode.
Variable fpath : list pkey.

(* the leaf output coercers = CompleteValue at a named type *)
Lemma leaf_refines n v lp :
  R (leaf_coercer sch doc vs U cfg rf ptype fd nodes fpath n v lp)
    (spec_complete sch doc vs U sf ptype fd nodes fpath (TNamed n) v lp).
Proof.
  intros s. cbn [spec_complete]. unfold leaf_coercer, fail_here.
  destruct (find_type sch n) as [[|values|ifs|ifaces fs|fs|ms]|] eqn:Et.
  - (* scalar *)
    destruct v; try reflexivity;
      (destruct (scalars sch n) as [ops|]; [|eexists; reflexivity]);
      match goal with |- context [s_output ops ?x] => destruct (s_output ops x) as [r|ex] end;
      try (destruct (is_undef r); [eexists; reflexivity|reflexivity]);
      destruct ex; try exact I; eexists; reflexivity.
  - (* enum *)
    destruct v; try reflexivity; try (eexists; reflexivity).
    destruct (mem_str s0 values); [reflexivity|eexists; reflexivity].
  - (* input object: no output coercer *)
    destruct v; eexists; reflexivity.
  - (* object *)
    destruct v; try reflexivity; apply (exec_sub_refines rf sf nodes n _ lp Hrf s).
  - (* interface *)
    destruct v; try reflexivity;
      unfold spec_runtime_type;
      (destruct (type_resolver_kind U n ptype (fd_name fd));
       [|match goal with |- context [type_resolver U fpath n ?x] => destruct (type_resolver U fpath n x) as [t|msg g ext] end;
         [|eexists; reflexivity]]);
      match goal with |- context [resolve_runtime_type sch n ?t nodes] =>
        unfold resolve_runtime_type; destruct t; try (eexists; reflexivity) end;
      match goal with |- context [find_type sch ?x] => destruct (find_type sch x) as [[| | |ifs' fs'| |]|]; try (eexists; reflexivity) end;
      match goal with |- context [mem_str ?x (possible_types sch n)] => destruct (mem_str x (possible_types sch n)); [|eexists; reflexivity] end;
      apply (exec_sub_refines rf sf nodes _ _ lp Hrf).
  - (* union *)
    destruct v; try reflexivity;
      unfold spec_runtime_type;
      (destruct (type_resolver_kind U n ptype (fd_name fd));
       [|match goal with |- context [type_resolver U fpath n ?x] => destruct (type_resolver U fpath n x) as [t|msg g ext] end;
         [|eexists; reflexivity]]);
      match goal with |- context [resolve_runtime_type sch n ?t nodes] =>
        unfold resolve_runtime_type; destruct t; try (eexists; reflexivity) end;
      match goal with |- context [find_type sch ?x] => destruct (find_type sch x) as [[| | |ifs' fs'| |]|]; try (eexists; reflexivity) end;
      match goal with |- context [mem_str ?x (possible_types sch n)] => destruct (mem_str x (possible_types sch n)); [|eexists; reflexivity] end;
      apply (exec_sub_refines rf sf nodes _ _ lp Hrf).
  - destruct v; eexists; reflexivity.
Qed.
End Chain.

Section Chain2.
Variable rf : rfun.
Variable sf : sfun.
Hypothesis Hrf : rf_refines rf sf.
Variable ptype : string.
Variable fd : field_def.
Variable nodes : list fnode.
Variable fpath : list pkey.

(* the output coercer chain (folded wrappers) = CompleteValue by recursion on the type *)
Lemma coerce_output_refines t : forall v p,
  R (coerce_output nodes (leaf_coercer sch doc vs U cfg rf ptype fd nodes fpath) t v p)
    (spec_complete sch doc vs U sf ptype fd nodes fpath t v p).
Proof.
  induction t as [n|t IH|t IH]; intros v p.
  - apply leaf_refines. exact Hrf.
  - (* list *)
    intros s. cbn [coerce_output spec_complete]. destruct v; try reflexivity; try (eexists; reflexivity).
    match goal with |- context [spec_items ?sci p 0%Z l] => destruct (spec_items sci p 0%Z l) as [[rl ro] rc] eqn:Es end.
    destruct rc; [destruct rl; exact I|].
    match goal with |- context [complete_items ?ci p 0%Z l s] =>
      match type of Es with spec_items ?sci _ _ _ = _ => pose proof (complete_items_refines ci sci p) as Hi end end.
    match type of Hi with (?P -> _) => assert (Hitem : P) end.
    { intros x ip s0. unfold absorb, fail_here.
      destruct (is_exc_value x) as [e|].
      - rewrite handle_field_error_absorbs. destruct (is_non_null t); [eexists|]; reflexivity.
      - pose proof (IH x ip s0) as Hx.
        destruct (coerce_output nodes _ t x ip s0) as [r s1]. cbn [fst] in Hx.
        destruct (spec_complete sch doc vs U sf ptype fd nodes fpath t x ip) as [v' o|o|]; [subst r; reflexivity| |exact I].
        destruct Hx as [l' ->]. rewrite handle_field_error_absorbs. destruct (is_non_null t); [eexists|]; reflexivity. }
    specialize (Hi Hitem l 0%Z s _ _ Es).
    match goal with |- context [complete_items ?ci p 0%Z l s] => destruct (complete_items ci p 0%Z l s) as [r s1] end.
    cbn [fst] in Hi. destruct rl as [l0|]; [subst r; reflexivity|destruct Hi as [l' ->]; eexists; reflexivity].
  - (* non-null *)
    intros s. cbn [coerce_output spec_complete]. pose proof (IH v p s) as Hx.
    destruct (coerce_output nodes _ t v p s) as [r s1]. cbn [fst] in Hx.
    destruct (spec_complete sch doc vs U sf ptype fd nodes fpath t v p) as [v' o|o|]; [| |exact I].
    + subst r. destruct v'; try reflexivity. eexists. reflexivity.
    + destruct Hx as [l' ->]. eexists. reflexivity.
Qed.
End Chain2.

(* ---------- ExecuteField ---------- *)
Lemma resolve_field_body_refines rf sf :
  rf_refines rf sf -> rf_refines (resolve_field_body sch doc vs U cfg rf) (spec_field_body sch doc vs U sf).
Proof.
  intros Hrf ptype source ppath key nodes s. unfold resolve_field_body, spec_field_body.
  destruct nodes as [|node rest]; [exact I|].
  destruct (get_field_definition sch ptype (fn_name node)) as [fd|]; [|reflexivity].
  unfold resolve_value, fail_here.
  set (path := ppath ++ [KName key]).
  assert (Hcomplete : forall v s1,
    match absorb (fd_type fd)
            match is_exc_value v with
            | Some _ => SFail [path]
            | None => spec_complete sch doc vs U sf ptype fd (node :: rest) path (fd_type fd) v path
            end with
    | SVal v' _ => fst (complete_field sch doc vs U cfg rf ptype fd (node :: rest) path (OVal v) s1) = OVal (Some v')
    | SFail _ => exists l, fst (complete_field sch doc vs U cfg rf ptype fd (node :: rest) path (OVal v) s1) = OExc l
    | SCrash => True
    end).
  { intros v s1. unfold complete_field, absorb.
    destruct (is_exc_value v) as [e|].
    - pose proof (handle_field_error_absorbs [e] (node :: rest) path (fd_type fd) s1) as Hh.
      destruct (handle_field_error [e] (node :: rest) path (fd_type fd) s1) as [r s2]. cbn [fst] in Hh. subst r.
      destruct (is_non_null (fd_type fd)); [eexists|]; reflexivity.
    - pose proof (coerce_output_refines rf sf Hrf ptype fd (node :: rest) path (fd_type fd) v path s1) as Hx.
      destruct (coerce_output (node :: rest) _ (fd_type fd) v path s1) as [r s2]. cbn [fst] in Hx.
      destruct (spec_complete sch doc vs U sf ptype fd (node :: rest) path (fd_type fd) v path) as [v' o|o|]; [subst r; reflexivity| |exact I].
      destruct Hx as [l ->].
      pose proof (handle_field_error_absorbs l (node :: rest) path (fd_type fd) s2) as Hh.
      destruct (handle_field_error l (node :: rest) path (fd_type fd) s2) as [r s3]. cbn [fst] in Hh. subst r.
      destruct (is_non_null (fd_type fd)); [eexists|]; reflexivity. }
  assert (Hfail : forall l s1,
    match absorb (fd_type fd) (SFail [path]) with
    | SVal v' _ => fst (complete_field sch doc vs U cfg rf ptype fd (node :: rest) path (OExc l) s1) = OVal (Some v')
    | SFail _ => exists l', fst (complete_field sch doc vs U cfg rf ptype fd (node :: rest) path (OExc l) s1) = OExc l'
    | SCrash => True
    end).
  { intros l s1. unfold complete_field, absorb.
    pose proof (handle_field_error_absorbs l (node :: rest) path (fd_type fd) s1) as Hh.
    destruct (handle_field_error l (node :: rest) path (fd_type fd) s1) as [r s2]. cbn [fst] in Hh. subst r.
    destruct (is_non_null (fd_type fd)); [eexists|]; reflexivity. }
  destruct (String.eqb (fn_name node) "__typename").
  - apply Hcomplete.
  - destruct (coerce_arguments sch 20 (fd_args fd) (fn_loc node) (fn_args node) vs) as [[args aerrs]|e]; [|exact I].
    destruct aerrs as [|ae aes]; [|apply Hfail].
    destruct (has_resolver U ptype (fd_name fd)); [|apply Hcomplete].
    destruct (resolver U path ptype (fd_name fd) source args) as [v|msg g ext]; [apply Hcomplete|apply Hfail].
Qed.

Theorem resolve_field_refines fuel : rf_refines (resolve_field sch doc vs U cfg fuel) (spec_field sch doc vs U fuel).
Proof.
  induction fuel as [|fuel IH]; cbn [resolve_field spec_field].
  - intros ? ? ? ? ? s. exact I.
  - now apply resolve_field_body_refines.
Qed.

(* ---------- ExecuteQuery / ExecuteMutation ----------
   whenever the specification's algorithm yields a result, the implementation model answers with
   exactly that data -- whichever sibling strategy is configured, mutations included *)
Theorem execute_operation_refines_spec op root d o :
  spec_execute_operation sch doc vs U op root = Some (d, o) ->
  exists r, execute_operation sch doc vs U cfg op root = OVal r /\ r_data r = d.
Proof.
  unfold spec_execute_operation, execute_operation.
  destruct (root_type_of sch (o_kind op)) as [rt|]; [|discriminate].
  unfold spec_collect_fields. rewrite collect_fields_refines_spec.
  destruct (spec_collect sch doc vs COLLECT_FUEL rt (o_sels op) []) as [[flat v]|]; [|discriminate].
  set (rf := fun k ns => resolve_field sch doc vs U cfg EXEC_FUEL rt root [] k ns).
  set (sf := fun k ns => spec_field sch doc vs U EXEC_FUEL rt root [] k ns).
  assert (Hk : forall k ns, Rf (rf k ns) (sf k ns)) by (intros; apply resolve_field_refines).
  destruct (spec_fields sf (group_fields flat [])) as [[rkv ro] rc] eqn:Es.
  destruct rc; [destruct rkv; discriminate|].
  pose proof (exec_fields_mixed_refines (field_conc cfg rt) rf sf Hk (group_fields flat []) st0 _ _ Es) as Hc.
  pose proof (exec_fields_seq_refines rf sf Hk (group_fields flat []) st0 _ _ Es) as Hs.
  intros E.
  assert (Hrun : forall run : M (list (string * pyval)),
            (match rkv with Some kv => fst (run st0) = OVal kv | None => exists l, fst (run st0) = OExc l end) ->
            exists r, match run st0 with
                      | (OVal kv, s) => OVal {| r_data := PDict kv; r_errors := s_errors s; r_log := s_log s |}
                      | (OExc l, s) => OVal {| r_data := PNone; r_errors := s_errors (add_errors l s); r_log := s_log (add_errors l s) |}
                      | (OCrash e, _) => OCrash e
                      end = OVal r /\ r_data r = d).
  { intros run Hr. destruct (run st0) as [x s]. cbn [fst] in Hr.
    destruct rkv as [kv|]; inversion E; subst.
    - eexists. split; reflexivity.
    - destruct Hr as [l ->]. eexists. split; reflexivity. }
  destruct (o_kind op); apply Hrun; assumption.
Qed.

End Refine.
