(* C05: the implementation model of argument coercion (coercers/argument.py argument_coercer,
   coercers/arguments.py coerce_arguments) REFINES the specification's CoerceArgumentValues: for every
   argument definition, node, variable map and fuel, with the engine's literal coercer chain as the
   coercion of literals, the same entry is added (or none), and an argument error is raised exactly
   when the specification throws a field error. *)
From Coq Require Import ZArith List String Bool.
From TV Require Import Py.Prelude Model.Schema Model.ImplInput Model.SpecArgs.
Import ListNotations.
Open Scope string_scope.

Section Refine.
Variable sch : schema.

(* the engine's literal coercion as the specification's "coerce value according to the input coercion rules" *)
Definition impl_coerce_literal (fuel : nat) (vs : vars) (t : ty) (node : lit) : res (option pyval) :=
  bind (get_literal_coercer sch fuel t vs false node) (fun v => if is_undef v then Ok None else Ok (Some v)).

Definition outcome_matches (o : arg_outcome) (s : sarg) : Prop :=
  match o, s with
  | AUndefined, SAbsent => True
  | AVal v, SValue w => v = w
  | AErr _, SFieldError => True
  | _, _ => False
  end.

Definition res_matches (a : res arg_outcome) (b : res sarg) : Prop :=
  match a, b with
  | Ok o, Ok s => outcome_matches o s
  | Raise e, Raise e' => e = e'
  | _, _ => False
  end.

Lemma dict_get_lookup vn vs v : dict_get vn vs = Some v -> var_lookup vs vn = v.
Proof. unfold var_lookup. now intros ->. Qed.
Lemma dict_get_lookup_none vn vs : dict_get vn vs = None -> var_lookup vs vn = PUndef.
Proof. unfold var_lookup. now intros ->. Qed.

Theorem argument_coercer_refines fuel ad floc anode vs :
  res_matches (argument_coercer sch fuel ad floc anode vs) (spec_argument (impl_coerce_literal fuel vs) ad anode vs).
Proof.
  unfold argument_coercer, spec_argument, impl_coerce_literal.
  destruct anode as [a|].
  - destruct (a_value a) as [l vn|l x|l x|l s|l b|l|l s|l items|l fields] eqn:Ea.
    + (* variable *)
      destruct (dict_get vn vs) as [v|] eqn:Ev.
      * rewrite (dict_get_lookup _ _ _ Ev). cbn [andb].
        destruct (in_default ad) as [d|]; destruct v; cbn; destruct (is_non_null (in_type ad)); cbn; try exact I; reflexivity.
      * rewrite (dict_get_lookup_none _ _ Ev). cbn [andb is_none].
        destruct (in_default ad) as [d|].
        -- destruct (get_literal_coercer sch fuel (in_type ad) vs false d) as [v|e]; cbn; [destruct (is_undef v); cbn; exact I || reflexivity|reflexivity].
        -- destruct (is_non_null (in_type ad)); cbn; exact I.
    + cbn. destruct (in_default ad); destruct (is_non_null (in_type ad)); cbn;
        (destruct (get_literal_coercer sch fuel (in_type ad) vs false (LInt l x)) as [v|e]; cbn; [destruct (is_undef v); cbn; exact I || reflexivity|reflexivity]).
    + cbn. destruct (in_default ad); destruct (is_non_null (in_type ad)); cbn;
        (destruct (get_literal_coercer sch fuel (in_type ad) vs false (LFloat l x)) as [v|e]; cbn; [destruct (is_undef v); cbn; exact I || reflexivity|reflexivity]).
    + cbn. destruct (in_default ad); destruct (is_non_null (in_type ad)); cbn;
        (destruct (get_literal_coercer sch fuel (in_type ad) vs false (LStr l s)) as [v|e]; cbn; [destruct (is_undef v); cbn; exact I || reflexivity|reflexivity]).
    + cbn. destruct (in_default ad); destruct (is_non_null (in_type ad)); cbn;
        (destruct (get_literal_coercer sch fuel (in_type ad) vs false (LBool l b)) as [v|e]; cbn; [destruct (is_undef v); cbn; exact I || reflexivity|reflexivity]).
    + cbn. destruct (in_default ad); destruct (is_non_null (in_type ad)); cbn; exact I || reflexivity.
    + cbn. destruct (in_default ad); destruct (is_non_null (in_type ad)); cbn;
        (destruct (get_literal_coercer sch fuel (in_type ad) vs false (LEnum l s)) as [v|e]; cbn; [destruct (is_undef v); cbn; exact I || reflexivity|reflexivity]).
    + cbn. destruct (in_default ad); destruct (is_non_null (in_type ad)); cbn;
        (destruct (get_literal_coercer sch fuel (in_type ad) vs false (LList l items)) as [v|e]; cbn; [destruct (is_undef v); cbn; exact I || reflexivity|reflexivity]).
    + cbn. destruct (in_default ad); destruct (is_non_null (in_type ad)); cbn;
        (destruct (get_literal_coercer sch fuel (in_type ad) vs false (LObj l fields)) as [v|e]; cbn; [destruct (is_undef v); cbn; exact I || reflexivity|reflexivity]).
  - cbn. destruct (in_default ad) as [d|].
    + destruct (get_literal_coercer sch fuel (in_type ad) vs false d) as [v|e]; cbn; [destruct (is_undef v); cbn; exact I || reflexivity|reflexivity].
    + destruct (is_non_null (in_type ad)); cbn; exact I.
Qed.

(* the whole argument map: the same dictionary; argument errors exactly when the specification throws a field error *)
Definition map_matches (a : res (list (string * pyval) * list aerr)) (b : res (list (string * pyval) * bool)) : Prop :=
  match a, b with
  | Ok (vals, errs), Ok (svals, failed) => vals = svals /\ (errs <> [] <-> failed = true)
  | Raise e, Raise e' => e = e'
  | _, _ => False
  end.

Theorem coerce_arguments_refines fuel ads floc anodes vs :
  map_matches (coerce_arguments_aux sch fuel ads floc anodes vs)
              (spec_arguments (impl_coerce_literal fuel vs) ads anodes vs).
Proof.
  induction ads as [|ad ads IH]; cbn [coerce_arguments_aux spec_arguments].
  - cbn. split; [reflexivity|]. split; [intros H; now elim H|discriminate].
  - pose proof (argument_coercer_refines fuel ad floc (find_arg (in_name ad) anodes) vs) as Ha.
    destruct (argument_coercer sch fuel ad floc (find_arg (in_name ad) anodes) vs) as [o|e];
      destruct (spec_argument (impl_coerce_literal fuel vs) ad (find_arg (in_name ad) anodes) vs) as [so|e']; cbn in Ha; try contradiction.
    + cbn [bind].
      destruct (coerce_arguments_aux sch fuel ads floc anodes vs) as [[vals errs]|e2];
        destruct (spec_arguments (impl_coerce_literal fuel vs) ads anodes vs) as [[svals failed]|e2']; cbn in IH; try contradiction.
      * destruct IH as [-> IH]. cbn [bind].
        destruct o as [|v|er]; destruct so as [|w|]; cbn in Ha; try contradiction; cbn.
        -- split; [reflexivity|exact IH].
        -- subst w. split; [reflexivity|exact IH].
        -- split; [reflexivity|]. split; [reflexivity|discriminate].
      * subst e2'. cbn. reflexivity.
    + subst e'. cbn. reflexivity.
Qed.
End Refine.
