(* Lemmas about the implementation model of the validation walk (Model/ImplValidate.v) and its
   relation to the specification predicates (Model/SpecValidate.v). *)
From Coq Require Import ZArith List String Bool Lia Arith.
From TV Require Import Py.Prelude Model.Schema Model.ImplValidate Model.SpecValidate.
Import ListNotations.
Open Scope list_scope.

Lemma mem_str_iff x l : mem_str x l = true <-> In x l.
Proof.
  induction l as [|y l IH]; cbn [mem_str].
  - split; [discriminate|intros []].
  - rewrite orb_true_iff, IH, String.eqb_eq. cbn [In].
    split; intros [H|H]; [left; now symmetry|now right|left; now symmetry|now right].
Qed.

Lemma mem_str_false x l : mem_str x l = false <-> ~ In x l.
Proof. rewrite <- mem_str_iff. destruct (mem_str x l); split; intros; try discriminate; try reflexivity; exfalso; auto. Qed.

Lemma nodupb_iff l : nodupb l = true <-> NoDup l.
Proof.
  induction l as [|x l IH]; cbn [nodupb].
  - split; [constructor|reflexivity].
  - rewrite andb_true_iff, negb_true_iff, mem_str_false, IH. split.
    + intros [H1 H2]. now constructor.
    + intros H. inversion H. auto.
Qed.

(* ------------------------------------------------------------------ the uniqueness loop *)
Section Uniq.
Context {A : Type} (name : A -> string).

Definition same_as (x : A) (all : list A) : list A :=
  filter (fun y => String.eqb (name y) (name x)) all.

Lemma uniq_groups_nil all l tested :
  uniq_groups name all l tested = [] <->
  (forall x, In x l -> ~ In (name x) tested -> (List.length (same_as x all) <= 1)%nat).
Proof.
  revert tested; induction l as [|x r IH]; intros tested; cbn [uniq_groups].
  - split; [intros _ x []|reflexivity].
  - destruct (mem_str (name x) tested) eqn:Hm.
    + rewrite IH. apply mem_str_iff in Hm. split; intros H y Hy Hn.
      * destruct Hy as [->|Hy]; [contradiction|auto].
      * apply H; [now right|auto].
    + change (filter (fun y => String.eqb (name y) (name x)) all) with (same_as x all).
      apply mem_str_false in Hm.
      destruct (1 <? List.length (same_as x all))%nat eqn:Hc.
      * split; [discriminate|]. intros H. apply Nat.ltb_lt in Hc.
        specialize (H x (or_introl eq_refl) Hm). lia.
      * rewrite IH. apply Nat.ltb_ge in Hc. split; intros H y Hy Hn.
        -- destruct Hy as [->|Hy]; [exact Hc|]. apply H; assumption.
        -- apply H; [now right|assumption].
Qed.

Lemma same_as_count x all :
  List.length (same_as x all) = count_occ string_dec (map name all) (name x).
Proof.
  unfold same_as. induction all as [|y all IH]; cbn [filter map count_occ]; [reflexivity|].
  destruct (string_dec (name y) (name x)) as [E|E].
  - rewrite E, String.eqb_refl. cbn [List.length]. now rewrite IH.
  - apply String.eqb_neq in E. rewrite E. exact IH.
Qed.

Lemma uniq_groups_NoDup l : uniq_groups name l l [] = [] <-> NoDup (map name l).
Proof.
  rewrite uniq_groups_nil, (NoDup_count_occ string_dec). split.
  - intros H n. destruct (in_dec string_dec n (map name l)) as [Hi|Hi].
    + apply in_map_iff in Hi. destruct Hi as (x & <- & Hx). rewrite <- same_as_count. apply H; [exact Hx|intros []].
    + apply (count_occ_not_In string_dec) in Hi. lia.
  - intros H x _ _. rewrite same_as_count. apply H.
Qed.

Lemma uniq_errors_NoDup tag where_ path l :
  uniq_errors tag name where_ path l = [] <-> NoDup (map name l).
Proof.
  unfold uniq_errors. rewrite <- uniq_groups_NoDup.
  destruct (uniq_groups name l l []); cbn [map]; split; intros H; try reflexivity; discriminate.
Qed.
End Uniq.

(* the six uniqueness rules, each against the specification's statement *)
Lemma named_ops_names ops :
  map op_key (filter (fun o => match o_name o with Some _ => true | None => false end) ops) =
  flat_map (fun o => match o_name o with Some n => [n] | None => [] end) ops.
Proof.
  induction ops as [|o ops IH]; [reflexivity|]. cbn [filter flat_map].
  destruct (o_name o) eqn:E; cbn [map app].
  - unfold op_key at 1. rewrite E. now rewrite IH.
  - exact IH.
Qed.

Lemma operation_names_rule doc :
  operation_name_errors (operations doc) = [] <-> r_operation_names doc = true.
Proof.
  unfold operation_name_errors, r_operation_names.
  now rewrite uniq_errors_NoDup, named_ops_names, nodupb_iff.
Qed.

Lemma fragment_names_rule doc :
  fragment_name_errors (fragments doc) = [] <-> r_fragment_names doc = true.
Proof. unfold fragment_name_errors, r_fragment_names. now rewrite uniq_errors_NoDup, nodupb_iff. Qed.

Lemma variable_uniqueness_rule vds :
  uniq_errors "variable-uniqueness" v_name v_loc None vds = [] <-> nodupb (map v_name vds) = true.
Proof. now rewrite uniq_errors_NoDup, nodupb_iff. Qed.

Lemma argument_uniqueness_rule path args :
  uniq_errors "argument-uniqueness" a_name a_loc path args = [] <-> nodupb (map a_name args) = true.
Proof. now rewrite uniq_errors_NoDup, nodupb_iff. Qed.

Lemma directive_uniqueness_rule path ds :
  uniq_errors "directives-are-unique-per-location" d_name d_loc path ds = [] <-> nodupb (map d_name ds) = true.
Proof. now rewrite uniq_errors_NoDup, nodupb_iff. Qed.

Lemma input_field_uniqueness_rule path (fields : list (string * lit)) :
  uniq_errors "input-object-field-uniqueness" fst (fun kv => lit_loc (snd kv)) path fields = [] <->
  nodupb (map fst fields) = true.
Proof. now rewrite uniq_errors_NoDup, nodupb_iff. Qed.

(* ------------------------------------------------------------------ fragment cycles *)
Lemma find_fragment_some frs n g : find_fragment frs n = Some g -> In g frs /\ fr_name g = n.
Proof.
  induction frs as [|f frs IH]; cbn [find_fragment]; [discriminate|].
  destruct (String.eqb n (fr_name f)) eqn:E.
  - intros H. inversion H; subst. apply String.eqb_eq in E. split; [now left|now symmetry].
  - intros H. destruct (IH H). split; [now right|assumption].
Qed.

Lemma find_fragment_in_names frs n :
  In n (map fr_name frs) -> exists g, find_fragment frs n = Some g.
Proof.
  induction frs as [|f frs IH]; cbn [map find_fragment]; [intros []|].
  intros [E|Hi].
  - subst. rewrite String.eqb_refl. eauto.
  - destruct (String.eqb n (fr_name f)); eauto.
Qed.

(* declarative acyclicity: a rank that strictly decreases along every spread edge between
   defined fragments *)
Definition ranked (frs : list fragment) (rank : string -> nat) : Prop :=
  forall f n g, In f frs -> In n (spreads_of (fr_sels f)) -> find_fragment frs n = Some g ->
                (rank (fr_name g) < rank (fr_name f))%nat.
Definition acyclic (frs : list fragment) : Prop := exists rank, ranked frs rank.

Lemma NoDup_snoc {A} (l : list A) x : NoDup l -> ~ In x l -> NoDup (l ++ [x]).
Proof.
  intros Hn Hx. induction Hn as [|y l Hy Hn IH]; cbn [app].
  - constructor; [intros []|constructor].
  - constructor.
    + intros Hi. apply in_app_or in Hi. destruct Hi as [Hi|[<-|[]]]; [contradiction|apply Hx; now left].
    + apply IH. intros Hi. apply Hx. now right.
Qed.

Lemma cyc_each_ok rec frs path' self names checked :
  (forall n, In n names -> mem_str n path' = false) ->
  (forall n f c, In n names -> find_fragment frs n = Some f -> exists c', rec f c = Some (inl c')) ->
  exists c', cyc_each rec frs path' self names checked = Some (inl c').
Proof.
  revert checked; induction names as [|n r IH]; intros checked Hp Hr; cbn [cyc_each].
  - eauto.
  - rewrite (Hp n (or_introl eq_refl)).
    destruct (find_fragment frs n) as [f|] eqn:Ef.
    + destruct (Hr n f checked (or_introl eq_refl) Ef) as [c' ->].
      apply IH; intros; [apply Hp|eapply Hr]; eauto; now right.
    + apply IH; intros; [apply Hp|eapply Hr]; eauto; now right.
Qed.

Lemma cyc_fragment_ok rank frs (Hr : ranked frs rank) :
  forall fuel fr path checked,
    In fr frs -> NoDup path -> incl path (map fr_name frs) ->
    (forall p, In p path -> (rank (fr_name fr) < rank p)%nat) ->
    (List.length frs < fuel + List.length path)%nat ->
    exists checked', cyc_fragment fuel frs fr path checked = Some (inl checked').
Proof.
  induction fuel as [|fuel IH]; intros fr path checked Hin Hnd Hincl Hrank Hfuel.
  - (* the path extended with this fragment is duplicate-free and drawn from the fragment names *)
    exfalso.
    assert (Hn : ~ In (fr_name fr) path) by (intros Hi; specialize (Hrank _ Hi); lia).
    assert (Hl : (List.length (fr_name fr :: path) <= List.length (map fr_name frs))%nat).
    { apply NoDup_incl_length; [now constructor|].
      intros x [<-|Hx]; [now apply in_map|auto]. }
    rewrite map_length in Hl. cbn [List.length] in Hl. lia.
  - cbn [cyc_fragment]. destruct (mem_str (fr_name fr) checked); [eauto|].
    assert (Hn : ~ In (fr_name fr) path) by (intros Hi; specialize (Hrank _ Hi); lia).
    apply cyc_each_ok.
    + intros n Hs. apply mem_str_false. intros Hi. apply in_app_or in Hi.
      assert (Hnm : In n (map fr_name frs)).
      { destruct Hi as [Hi|[<-|[]]]; [auto|now apply in_map]. }
      destruct (find_fragment_in_names _ _ Hnm) as [g Eg].
      destruct (find_fragment_some _ _ _ Eg) as [_ En].
      pose proof (Hr fr n g Hin Hs Eg) as Hlt. rewrite En in Hlt.
      destruct Hi as [Hi|[<-|[]]]; [specialize (Hrank _ Hi)|]; lia.
    + intros n f c Hs Ef.
      destruct (find_fragment_some _ _ _ Ef) as [Hf En].
      pose proof (Hr fr n f Hin Hs Ef) as Hlt.
      apply IH.
      * exact Hf.
      * apply NoDup_snoc; assumption.
      * intros x Hx. apply in_app_or in Hx. destruct Hx as [Hx|[<-|[]]]; [auto|now apply in_map].
      * intros p Hp. apply in_app_or in Hp. destruct Hp as [Hp|[<-|[]]]; [specialize (Hrank _ Hp); lia|lia].
      * rewrite app_length. cbn [List.length]. lia.
Qed.

Lemma cyc_all_ok rank frs (Hr : ranked frs rank) todo checked :
  incl todo frs -> cyc_all (S (List.length frs)) frs todo checked = Some false.
Proof.
  revert checked; induction todo as [|fr r IH]; intros checked Hi; cbn [cyc_all]; [reflexivity|].
  destruct (cyc_fragment_ok rank frs Hr (S (List.length frs)) fr [] checked) as [c' E].
  - apply Hi. now left.
  - constructor.
  - intros x [].
  - intros p [].
  - cbn [List.length]. lia.
  - rewrite E. apply IH. intros x Hx. apply Hi. now right.
Qed.

(* soundness of the cycle rule: an acyclic fragment graph (sharing, repeated spreads, any
   definition order) is never reported *)
Theorem cycle_rule_sound frs : acyclic frs -> cycle_rule frs = Some [].
Proof.
  intros [rank Hr]. unfold cycle_rule. rewrite (cyc_all_ok rank frs Hr frs []); [reflexivity|apply incl_refl].
Qed.
