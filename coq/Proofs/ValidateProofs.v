(* Lemmas about the implementation model of the validation walk (Model/ImplValidate.v) and its
   relation to the specification predicates (Model/SpecValidate.v). *)
From Coq Require Import ZArith List String Bool Lia Arith.
From TV Require Import Py.Prelude Model.Schema Model.ImplValidate Model.SpecValidate.
Import ListNotations.
Open Scope list_scope.

Lemma mem_str_iff x l : mem_str x l = true <-> In x l.
Proof.
  induction l as [|y l IH]; cbn [mem_str].
  - split; [discriminate|intros []].
  - rewrite orb_true_iff, IH, String.eqb_eq. cbn [In].
    split; intros [H|H]; [left; now symmetry|now right|left; now symmetry|now right].
Qed.

Lemma mem_str_false x l : mem_str x l = false <-> ~ In x l.
Proof. rewrite <- mem_str_iff. destruct (mem_str x l); split; intros; try discriminate; try reflexivity; exfalso; auto. Qed.

Lemma nodupb_iff l : nodupb l = true <-> NoDup l.
Proof.
  induction l as [|x l IH]; cbn [nodupb].
  - split; [constructor|reflexivity].
  - rewrite andb_true_iff, negb_true_iff, mem_str_false, IH. split.
    + intros [H1 H2]. now constructor.
    + intros H. inversion H. auto.
Qed.

(* ------------------------------------------------------------------ the uniqueness loop *)
Section Uniq.
Context {A : Type} (name : A -> string).

Definition same_as (x : A) (all : list A) : list A :=
  filter (fun y => String.eqb (name y) (name x)) all.

Lemma uniq_groups_nil all l tested :
  uniq_groups name all l tested = [] <->
  (forall x, In x l -> ~ In (name x) tested -> (List.length (same_as x all) <= 1)%nat).
Proof.
  revert tested; induction l as [|x r IH]; intros tested; cbn [uniq_groups].
  - split; [intros _ x []|reflexivity].
  - destruct (mem_str (name x) tested) eqn:Hm.
    + rewrite IH. apply mem_str_iff in Hm. split; intros H y Hy Hn.
      * destruct Hy as [->|Hy]; [contradiction|auto].
      * apply H; [now right|auto].
    + change (filter (fun y => String.eqb (name y) (name x)) all) with (same_as x all).
      apply mem_str_false in Hm.
      destruct (1 <? List.length (same_as x all))%nat eqn:Hc.
      * split; [discriminate|]. intros H. apply Nat.ltb_lt in Hc.
        specialize (H x (or_introl eq_refl) Hm). lia.
      * rewrite IH. apply Nat.ltb_ge in Hc. split; intros H y Hy Hn.
        -- destruct Hy as [->|Hy]; [exact Hc|]. apply H; assumption.
        -- apply H; [now right|assumption].
Qed.

Lemma same_as_count x all :
  List.length (same_as x all) = count_occ string_dec (map name all) (name x).
Proof.
  unfold same_as. induction all as [|y all IH]; cbn [filter map count_occ]; [reflexivity|].
  destruct (string_dec (name y) (name x)) as [E|E].
  - rewrite E, String.eqb_refl. cbn [List.length]. now rewrite IH.
  - apply String.eqb_neq in E. rewrite E. exact IH.
Qed.

Lemma uniq_groups_NoDup l : uniq_groups name l l [] = [] <-> NoDup (map name l).
Proof.
  rewrite uniq_groups_nil, (NoDup_count_occ string_dec). split.
  - intros H n. destruct (in_dec string_dec n (map name l)) as [Hi|Hi].
    + apply in_map_iff in Hi. destruct Hi as (x & <- & Hx). rewrite <- same_as_count. apply H; [exact Hx|intros []].
    + apply (count_occ_not_In string_dec) in Hi. lia.
  - intros H x _ _. rewrite same_as_count. apply H.
Qed.

Lemma uniq_errors_NoDup tag where_ path l :
  uniq_errors tag name where_ path l = [] <-> NoDup (map name l).
Proof.
  unfold uniq_errors. rewrite <- uniq_groups_NoDup.
  destruct (uniq_groups name l l []); cbn [map]; split; intros H; try reflexivity; discriminate.
Qed.
End Uniq.

(* the six uniqueness rules, each against the specification's statement *)
Lemma named_ops_names ops :
  map op_key (filter (fun o => match o_name o with Some _ => true | None => false end) ops) =
  flat_map (fun o => match o_name o with Some n => [n] | None => [] end) ops.
Proof.
  induction ops as [|o ops IH]; [reflexivity|]. cbn [filter flat_map].
  destruct (o_name o) eqn:E; cbn [map app].
  - unfold op_key at 1. rewrite E. now rewrite IH.
  - exact IH.
Qed.

Lemma operation_names_rule doc :
  operation_name_errors (operations doc) = [] <-> r_operation_names doc = true.
Proof.
  unfold operation_name_errors, r_operation_names.
  now rewrite uniq_errors_NoDup, named_ops_names, nodupb_iff.
Qed.

Lemma fragment_names_rule doc :
  fragment_name_errors (fragments doc) = [] <-> r_fragment_names doc = true.
Proof. unfold fragment_name_errors, r_fragment_names. now rewrite uniq_errors_NoDup, nodupb_iff. Qed.

Lemma variable_uniqueness_rule vds :
  uniq_errors "variable-uniqueness" v_name v_loc None vds = [] <-> nodupb (map v_name vds) = true.
Proof. now rewrite uniq_errors_NoDup, nodupb_iff. Qed.

Lemma argument_uniqueness_rule path args :
  uniq_errors "argument-uniqueness" a_name a_loc path args = [] <-> nodupb (map a_name args) = true.
Proof. now rewrite uniq_errors_NoDup, nodupb_iff. Qed.

Lemma directive_uniqueness_rule path ds :
  uniq_errors "directives-are-unique-per-location" d_name d_loc path ds = [] <-> nodupb (map d_name ds) = true.
Proof. now rewrite uniq_errors_NoDup, nodupb_iff. Qed.

Lemma input_field_uniqueness_rule path (fields : list (string * lit)) :
  uniq_errors "input-object-field-uniqueness" fst (fun kv => lit_loc (snd kv)) path fields = [] <->
  nodupb (map fst fields) = true.
Proof. now rewrite uniq_errors_NoDup, nodupb_iff. Qed.

(* ------------------------------------------------------------------ fragment cycles *)
Lemma find_fragment_some frs n g : find_fragment frs n = Some g -> In g frs /\ fr_name g = n.
Proof.
  induction frs as [|f frs IH]; cbn [find_fragment]; [discriminate|].
  destruct (String.eqb n (fr_name f)) eqn:E.
  - intros H. inversion H; subst. apply String.eqb_eq in E. split; [now left|now symmetry].
  - intros H. destruct (IH H). split; [now right|assumption].
Qed.

Lemma find_fragment_in_names frs n :
  In n (map fr_name frs) -> exists g, find_fragment frs n = Some g.
Proof.
  induction frs as [|f frs IH]; cbn [map find_fragment]; [intros []|].
  intros [E|Hi].
  - subst. rewrite String.eqb_refl. eauto.
  - destruct (String.eqb n (fr_name f)); eauto.
Qed.

(* declarative acyclicity: a rank that strictly decreases along every spread edge between
   defined fragments *)
Definition ranked (frs : list fragment) (rank : string -> nat) : Prop :=
  forall f n g, In f frs -> In n (spreads_of (fr_sels f)) -> find_fragment frs n = Some g ->
                (rank (fr_name g) < rank (fr_name f))%nat.
Definition acyclic (frs : list fragment) : Prop := exists rank, ranked frs rank.

Lemma NoDup_snoc {A} (l : list A) x : NoDup l -> ~ In x l -> NoDup (l ++ [x]).
Proof.
  intros Hn Hx. induction Hn as [|y l Hy Hn IH]; cbn [app].
  - constructor; [intros []|constructor].
  - constructor.
    + intros Hi. apply in_app_or in Hi. destruct Hi as [Hi|[<-|[]]]; [contradiction|apply Hx; now left].
    + apply IH. intros Hi. apply Hx. now right.
Qed.

Lemma cyc_each_ok rec frs path' self names checked :
  (forall n, In n names -> mem_str n path' = false) ->
  (forall n f c, In n names -> find_fragment frs n = Some f -> exists c', rec f c = Some (inl c')) ->
  exists c', cyc_each rec frs path' self names checked = Some (inl c').
Proof.
  revert checked; induction names as [|n r IH]; intros checked Hp Hr; cbn [cyc_each].
  - eauto.
  - rewrite (Hp n (or_introl eq_refl)).
    destruct (find_fragment frs n) as [f|] eqn:Ef.
    + destruct (Hr n f checked (or_introl eq_refl) Ef) as [c' ->].
      apply IH; intros; [apply Hp|eapply Hr]; eauto; now right.
    + apply IH; intros; [apply Hp|eapply Hr]; eauto; now right.
Qed.

Lemma cyc_fragment_ok rank frs (Hr : ranked frs rank) :
  forall fuel fr path checked,
    In fr frs -> NoDup path -> incl path (map fr_name frs) ->
    (forall p, In p path -> (rank (fr_name fr) < rank p)%nat) ->
    (List.length frs < fuel + List.length path)%nat ->
    exists checked', cyc_fragment fuel frs fr path checked = Some (inl checked').
Proof.
  induction fuel as [|fuel IH]; intros fr path checked Hin Hnd Hincl Hrank Hfuel.
  - (* the path extended with this fragment is duplicate-free and drawn from the fragment names *)
    exfalso.
    assert (Hn : ~ In (fr_name fr) path) by (intros Hi; specialize (Hrank _ Hi); lia).
    assert (Hl : (List.length (fr_name fr :: path) <= List.length (map fr_name frs))%nat).
    { apply NoDup_incl_length; [now constructor|].
      intros x [<-|Hx]; [now apply in_map|auto]. }
    rewrite map_length in Hl. cbn [List.length] in Hl. lia.
  - cbn [cyc_fragment]. destruct (mem_str (fr_name fr) checked); [eauto|].
    assert (Hn : ~ In (fr_name fr) path) by (intros Hi; specialize (Hrank _ Hi); lia).
    apply cyc_each_ok.
    + intros n Hs. apply mem_str_false. intros Hi. apply in_app_or in Hi.
      assert (Hnm : In n (map fr_name frs)).
      { destruct Hi as [Hi|[<-|[]]]; [auto|now apply in_map]. }
      destruct (find_fragment_in_names _ _ Hnm) as [g Eg].
      destruct (find_fragment_some _ _ _ Eg) as [_ En].
      pose proof (Hr fr n g Hin Hs Eg) as Hlt. rewrite En in Hlt.
      destruct Hi as [Hi|[<-|[]]]; [specialize (Hrank _ Hi)|]; lia.
    + intros n f c Hs Ef.
      destruct (find_fragment_some _ _ _ Ef) as [Hf En].
      pose proof (Hr fr n f Hin Hs Ef) as Hlt.
      apply IH.
      * exact Hf.
      * apply NoDup_snoc; assumption.
      * intros x Hx. apply in_app_or in Hx. destruct Hx as [Hx|[<-|[]]]; [auto|now apply in_map].
      * intros p Hp. apply in_app_or in Hp. destruct Hp as [Hp|[<-|[]]]; [specialize (Hrank _ Hp); lia|lia].
      * rewrite app_length. cbn [List.length]. lia.
Qed.

Lemma cyc_all_ok rank frs (Hr : ranked frs rank) todo checked :
  incl todo frs -> cyc_all (S (List.length frs)) frs todo checked = Some false.
Proof.
  revert checked; induction todo as [|fr r IH]; intros checked Hi; cbn [cyc_all]; [reflexivity|].
  destruct (cyc_fragment_ok rank frs Hr (S (List.length frs)) fr [] checked) as [c' E].
  - apply Hi. now left.
  - constructor.
  - intros x [].
  - intros p [].
  - cbn [List.length]. lia.
  - rewrite E. apply IH. intros x Hx. apply Hi. now right.
Qed.

(* soundness of the cycle rule: an acyclic fragment graph (sharing, repeated spreads, any
   definition order) is never reported *)
Theorem cycle_rule_sound frs : acyclic frs -> cycle_rule frs = Some [].
Proof.
  intros [rank Hr]. unfold cycle_rule. rewrite (cyc_all_ok rank frs Hr frs []); [reflexivity|apply incl_refl].
Qed.

(* ------------------------------------------------------------------ completeness of the cycle rule *)
(* every fragment already checked has all its (defined) spread targets checked BEFORE it: the list
   is built by consing, so "before" is "further down the list" *)
Fixpoint closed (frs : list fragment) (checked : list string) : Prop :=
  match checked with
  | [] => True
  | c :: rest =>
      (forall f n g, find_fragment frs c = Some f -> In n (spreads_of (fr_sels f)) ->
                     find_fragment frs n = Some g -> In (fr_name g) rest) /\ closed frs rest
  end.

Definition suffix_of (a b : list string) : Prop := exists pre, b = pre ++ a.
Lemma suffix_refl a : suffix_of a a. Proof. now exists []. Qed.
Lemma suffix_trans a b c : suffix_of a b -> suffix_of b c -> suffix_of a c.
Proof. intros [p ->] [q ->]. exists (q ++ p). now rewrite app_assoc. Qed.
Lemma suffix_in a b x : suffix_of a b -> In x a -> In x b.
Proof. intros [p ->] H. apply in_or_app. now right. Qed.

Lemma find_fragment_self frs fr :
  NoDup (map fr_name frs) -> In fr frs -> find_fragment frs (fr_name fr) = Some fr.
Proof.
  induction frs as [|f frs IH]; intros Hn Hi; [destruct Hi|]. cbn [find_fragment].
  inversion Hn as [|? ? Hx Hn']; subst. destruct Hi as [->|Hi].
  - now rewrite String.eqb_refl.
  - destruct (String.eqb (fr_name fr) (fr_name f)) eqn:E.
    + apply String.eqb_eq in E. exfalso. apply Hx. rewrite <- E. now apply in_map.
    + now apply IH.
Qed.

Section CycComplete.
Variable frs : list fragment.
Hypothesis Hnd : NoDup (map fr_name frs).

Definition rec_ok (rec : fragment -> list string -> option (list string + unit)) : Prop :=
  forall f c c', In f frs -> closed frs c -> rec f c = Some (inl c') ->
                 closed frs c' /\ In (fr_name f) c' /\ suffix_of c c'.

Lemma cyc_each_closed rec path' self names : rec_ok rec -> forall checked checked',
  closed frs checked ->
  cyc_each rec frs path' self names checked = Some (inl checked') ->
  exists c_final, checked' = self :: c_final /\ closed frs c_final /\ suffix_of checked c_final /\
                  (forall n g, In n names -> find_fragment frs n = Some g -> In (fr_name g) c_final).
Proof.
  intros Hrec. induction names as [|n r IH]; intros checked checked' Hc H; cbn [cyc_each] in H.
  - inversion H; subst. exists checked. repeat split; [exact Hc|apply suffix_refl|intros ? ? []].
  - destruct (mem_str n path'); [discriminate|].
    destruct (find_fragment frs n) as [f|] eqn:Ef.
    + destruct (rec f checked) as [[c1|]|] eqn:Er; try discriminate.
      destruct (find_fragment_some _ _ _ Ef) as [Hf _].
      destruct (Hrec f checked c1 Hf Hc Er) as (Hc1 & Hin1 & Hs1).
      destruct (IH c1 checked' Hc1 H) as (cf & -> & Hcf & Hsf & Hall).
      exists cf. repeat split; [exact Hcf|eapply suffix_trans; eauto|].
      intros m g [<-|Hm] Hg.
      * rewrite Ef in Hg. inversion Hg; subst. eapply suffix_in; eauto.
      * eapply Hall; eauto.
    + destruct (IH checked checked' Hc H) as (cf & -> & Hcf & Hsf & Hall).
      exists cf. repeat split; try assumption.
      intros m g [<-|Hm] Hg; [congruence|eapply Hall; eauto].
Qed.

Lemma cyc_fragment_closed : forall fuel path, rec_ok (fun f c => cyc_fragment fuel frs f path c).
Proof.
  induction fuel as [|fuel IH]; intros path f c c' Hf Hc H; cbn [cyc_fragment] in H; [discriminate|].
  destruct (mem_str (fr_name f) c) eqn:Em.
  - inversion H; subst. repeat split; [exact Hc|now apply mem_str_iff|apply suffix_refl].
  - destruct (cyc_each_closed _ _ _ _ (IH (path ++ [fr_name f])) c c' Hc H) as (cf & -> & Hcf & Hsf & Hall).
    split; [|split].
    + cbn [closed]. split; [|exact Hcf].
      intros f' n g Hself Hn Hg. rewrite (find_fragment_self frs f Hnd Hf) in Hself. inversion Hself; subst.
      eapply Hall; eauto.
    + now left.
    + destruct Hsf as [p ->]. exists (fr_name f :: p). reflexivity.
Qed.

Lemma cyc_all_closed fuel : forall todo checked,
  incl todo frs -> closed frs checked -> cyc_all fuel frs todo checked = Some false ->
  exists checked', closed frs checked' /\ suffix_of checked checked' /\ (forall f, In f todo -> In (fr_name f) checked').
Proof.
  induction todo as [|fr r IH]; intros checked Hi Hc H; cbn [cyc_all] in H.
  - exists checked. repeat split; [exact Hc|apply suffix_refl|intros ? []].
  - destruct (cyc_fragment fuel frs fr [] checked) as [[c1|]|] eqn:E; try discriminate.
    destruct (cyc_fragment_closed fuel [] fr checked c1 (Hi fr (or_introl eq_refl)) Hc E) as (Hc1 & Hin1 & Hs1).
    destruct (IH c1 (fun x Hx => Hi x (or_intror Hx)) Hc1 H) as (cf & Hcf & Hsf & Hall).
    exists cf. repeat split; [exact Hcf|eapply suffix_trans; eauto|].
    intros f [<-|Hf]; [eapply suffix_in; eauto|now apply Hall].
Qed.

(* rank: how many names were checked before the OLDEST occurrence of n *)
Fixpoint rk (l : list string) (n : string) : nat :=
  match l with
  | [] => O
  | _ :: r => if mem_str n r then rk r n else List.length r
  end.

Lemma rk_lt rest m : In m rest -> (rk rest m < List.length rest)%nat.
Proof.
  induction rest as [|x r IH]; [intros []|]. intros Hi. cbn [rk List.length].
  destruct (mem_str m r) eqn:E; [apply mem_str_iff in E; specialize (IH E); lia|lia].
Qed.

Lemma rk_skip pre rest m : In m rest -> rk (pre ++ rest) m = rk rest m.
Proof.
  intros Hi. induction pre as [|p pre IH]; [reflexivity|]. cbn [app rk].
  assert (E : mem_str m (pre ++ rest) = true) by (apply mem_str_iff, in_or_app; now right).
  now rewrite E.
Qed.

Lemma closed_at pre c rest : closed frs (pre ++ c :: rest) ->
  forall f n g, find_fragment frs c = Some f -> In n (spreads_of (fr_sels f)) -> find_fragment frs n = Some g ->
                In (fr_name g) rest.
Proof. induction pre as [|p pre IH]; cbn [app closed]; intros [H1 H2]; [exact H1|now apply IH]. Qed.

Lemma last_occurrence (l : list string) n : In n l -> exists pre rest, l = pre ++ n :: rest /\ ~ In n rest.
Proof.
  induction l as [|x l IH]; [intros []|]. intros Hi.
  destruct (in_dec string_dec n l) as [Hl|Hl].
  - destruct (IH Hl) as (pre & rest & -> & Hr). exists (x :: pre), rest. split; [reflexivity|exact Hr].
  - destruct Hi as [->|Hi]; [|contradiction]. exists [], l. split; [reflexivity|exact Hl].
Qed.

Lemma rk_last pre n rest : ~ In n rest -> rk (pre ++ n :: rest) n = List.length rest.
Proof.
  intros Hr. induction pre as [|p pre IH]; cbn [app rk].
  - apply mem_str_false in Hr. now rewrite Hr.
  - assert (E : mem_str n (pre ++ n :: rest) = true) by (apply mem_str_iff, in_or_app; right; now left).
    now rewrite E.
Qed.

(* a run of the rule that reports nothing certifies acyclicity *)
Theorem cycle_rule_complete : cycle_rule frs = Some [] -> acyclic frs.
Proof.
  unfold cycle_rule. destruct (cyc_all (S (List.length frs)) frs frs []) as [[|]|] eqn:E; try discriminate. intros _.
  destruct (cyc_all_closed _ frs [] (incl_refl _) I E) as (ck & Hck & _ & Hall).
  exists (rk ck). intros f n g Hf Hn Hg.
  destruct (find_fragment_some _ _ _ Hg) as [Hgin _].
  destruct (last_occurrence ck (fr_name f) (Hall f Hf)) as (pre & rest & -> & Hr).
  pose proof (closed_at pre (fr_name f) rest Hck f n g (find_fragment_self frs f Hnd Hf) Hn Hg) as Hin.
  rewrite (rk_last pre (fr_name f) rest Hr).
  replace (pre ++ fr_name f :: rest) with ((pre ++ [fr_name f]) ++ rest) by (now rewrite <- app_assoc).
  rewrite (rk_skip _ rest _ Hin). now apply rk_lt.
Qed.
End CycComplete.

Theorem cycle_rule_exact frs : NoDup (map fr_name frs) -> (cycle_rule frs = Some [] <-> acyclic frs).
Proof. intros Hn. split; [now apply cycle_rule_complete|apply cycle_rule_sound]. Qed.

(* ------------------------------------------------------------------ errors are never lost *)
From RecordUpdate Require Import RecordSet.
Definition refusing (st : vctx) : Prop := crashed st = true \/ errs st <> [].

Lemma emit_keeps b r st : refusing st -> refusing (emit b r st).
Proof.
  unfold refusing, emit. intros H.
  destruct (aborted st || crashed st); [exact H|].
  destruct r as [es|]; [|left; reflexivity].
  destruct (b && negb match es with [] => true | _ :: _ => false end); cbn;
    (destruct H as [H|H]; [left; exact H|right; intros E; apply app_eq_nil in E; now destruct E]).
Qed.

Lemma cycle_emit_refuses frs st :
  NoDup (map fr_name frs) -> ~ acyclic frs -> aborted st = false ->
  refusing (emit true (cycle_rule frs) st).
Proof.
  intros Hn Hc Ha. unfold emit. rewrite Ha. cbn [orb].
  destruct (crashed st) eqn:Ecr; [left; exact Ecr|].
  destruct (cycle_rule frs) as [[|e es]|] eqn:E.
  - exfalso. apply Hc. now apply (cycle_rule_complete frs Hn).
  - right. cbn. intros E'. apply app_eq_nil in E'. destruct E' as [_ E']. discriminate.
  - left. reflexivity.
Qed.
