(* The chain of literal coercers the implementation builds (wrappers folded around a leaf,
   the flag "non-null position" threaded through them) IS the coercion of a literal by
   recursion on the declared type (Model/SpecLiteral.v), for every schema, type, literal,
   variable map and fuel. *)
From Coq Require Import ZArith List String Bool Lia.
From TV Require Import Py.Prelude Model.Schema Model.ImplInput Model.SpecLiteral Proofs.InputRefine.
Import ListNotations.
Open Scope string_scope.
Open Scope list_scope.

Section Refine.
Variable sch : schema.

Lemma var_value_eq vs nn x :
  (if is_undef (var_lookup vs x) || (is_none (var_lookup vs x) && nn) then Ok PUndef else Ok (var_lookup vs x))
  = @Ok pyval (var_value vs nn x).
Proof.
  unfold var_value, var_lookup. destruct (dict_get x vs) as [v|]; [|reflexivity].
  destruct (is_undef v); [reflexivity|]. cbn [orb]. destruct (is_none v && nn); reflexivity.
Qed.

Lemma spec_literal_nonnull fuel t vs nn l :
  spec_literal sch fuel (TNonNull t) vs nn l =
  match l with LNull _ => Ok PUndef | _ => spec_literal sch fuel t vs true l end.
Proof. destruct fuel; destruct l; reflexivity. Qed.

Lemma spec_literal_list fuel t vs nn l :
  spec_literal sch fuel (TList t) vs nn l =
  match l with
  | LNull _ => Ok PNone
  | LVar _ x => Ok (var_value vs nn x)
  | LList _ items =>
      bind (map_res (fun it => if is_missing_variable it vs
                               then (if is_non_null t then Ok PUndef else Ok PNone)
                               else spec_literal sch fuel t vs false it) items)
           (fun rs => if all_defined rs then Ok (PList rs) else Ok PUndef)
  | _ => bind (spec_literal sch fuel t vs false l) (fun v => if is_undef v then Ok PUndef else Ok (PList [v]))
  end.
Proof. destruct fuel; destruct l; reflexivity. Qed.

Lemma item_non_null_peel t : item_is_non_null (fst (peel t)) = is_non_null t.
Proof. destruct t as [n|t|t]; cbn [peel]; try destruct (peel t); reflexivity. Qed.

Definition lleaf_agrees (fuel : nat) : Prop :=
  forall n vs nn l, literal_leaf sch fuel n vs nn l = spec_literal sch fuel (TNamed n) vs nn l.

Lemma lchain_eq_recursion fuel :
  lleaf_agrees fuel ->
  forall t vs nn l, get_literal_coercer sch fuel t vs nn l = spec_literal sch fuel t vs nn l.
Proof.
  intros Hleaf t. unfold get_literal_coercer.
  induction t as [n|t IH|t IH]; intros vs nn l.
  - cbn [peel wrap_literal]. apply Hleaf.
  - cbn [peel]. rewrite (peel_fst_snd t) in *. cbn [fst snd wrap_literal] in *.
    rewrite spec_literal_list, item_non_null_peel.
    unfold lit_list_coercer, nv_wrap.
    destruct l; try (rewrite IH; reflexivity).
    + now rewrite var_value_eq.
    + reflexivity.
    + erewrite map_res_ext; [reflexivity|]. intros it _. cbv beta.
      destruct (is_missing_variable it vs); [reflexivity|apply IH].
  - cbn [peel]. rewrite (peel_fst_snd t) in *. cbn [fst snd wrap_literal] in *.
    rewrite spec_literal_nonnull. unfold lit_non_null_coercer.
    destruct l; try reflexivity; apply IH.
Qed.

(* ---------- input objects ---------- *)
Lemma obj_merge_lit_finish rs : forall acc,
  obj_merge_lit rs acc =
  if existsb field_bad rs then PUndef
  else PDict (acc ++ flat_map (fun r => match snd r with FVal v => [(fst r, v)] | _ => [] end) rs).
Proof.
  induction rs as [|[n o] rs IH]; intros acc; cbn [obj_merge_lit existsb flat_map snd fst].
  - now rewrite app_nil_r.
  - unfold field_bad at 1. destruct o as [| |v]; cbn [snd orb app].
    + apply IH.
    + reflexivity.
    + destruct (is_undef v); cbn [orb]; [reflexivity|].
      rewrite IH. now rewrite <- app_assoc.
Qed.

Theorem lleaf_agrees_all : forall fuel, lleaf_agrees fuel.
Proof.
  induction fuel as [|fuel IH]; intros n vs nn l; [reflexivity|].
  pose proof (lchain_eq_recursion fuel IH) as Hty.
  cbn [literal_leaf spec_literal].
  destruct (find_type sch n) as [[ |values|fields|ifs fs|fs|ms]|]; try reflexivity.
  - (* scalar *)
    destruct (scalars sch n) as [ops|]; [|reflexivity].
    unfold lit_scalar_coercer, nv_wrap.
    destruct l; try (now rewrite var_value_eq); try reflexivity;
      (destruct (s_literal ops _) as [r|e]; cbn [bind catch_exception]; [reflexivity|destruct e; reflexivity]).
  - (* enum *)
    unfold lit_enum_coercer, nv_wrap. destruct l; try (now rewrite var_value_eq); reflexivity.
  - (* input object *)
    unfold nv_wrap.
    destruct l as [lo x|lo v|lo v|lo s|lo b|lo|lo s|lo items|lo fnodes];
      try (now rewrite var_value_eq); try reflexivity.
    rewrite (map_res_ext _ (fun f => bind (spec_obj_field (fun ft x => spec_literal sch fuel ft vs false x) vs fnodes f)
                                          (fun o => Ok (in_name f, o))) fields).
    + destruct (map_res _ fields) as [rs|e]; cbn [bind]; [|reflexivity].
      unfold finish_lit_object. now rewrite obj_merge_lit_finish.
    + intros f _. cbv beta. unfold spec_obj_field.
      pose proof (Hty (in_type f) vs false) as Hf. unfold get_literal_coercer in Hf.
      destruct (peel (in_type f)) as [ws leafn].
      destruct (lit_obj_get (in_name f) fnodes) as [node|].
      * destruct (is_missing_variable node vs).
        -- destruct (in_default f) as [d|].
           ++ rewrite Hf. destruct (spec_literal sch fuel (in_type f) vs false d); reflexivity.
           ++ destruct (is_non_null (in_type f)); reflexivity.
        -- rewrite Hf. destruct (spec_literal sch fuel (in_type f) vs false node); reflexivity.
      * destruct (in_default f) as [d|].
        -- rewrite Hf. destruct (spec_literal sch fuel (in_type f) vs false d); reflexivity.
        -- destruct (is_non_null (in_type f)); reflexivity.
Qed.

(* the literal coercer chain is the coercion by recursion on the type *)
Theorem literal_coercer_refines_spec fuel t vs nn l :
  get_literal_coercer sch fuel t vs nn l = spec_literal sch fuel t vs nn l.
Proof. apply lchain_eq_recursion, lleaf_agrees_all. Qed.

End Refine.

(* ---------- CoerceArgumentValues with the specification's literal coercion ---------- *)
From TV Require Import Model.SpecArgs Proofs.ArgsRefine.

Section Args.
Variable sch : schema.

Definition spec_coerce_literal (fuel : nat) (vs : vars) (t : ty) (node : lit) : res (option pyval) :=
  bind (spec_literal sch fuel t vs false node) (fun v => if is_undef v then Ok None else Ok (Some v)).

Lemma spec_argument_ext (f g : ty -> lit -> res (option pyval)) :
  (forall t l, f t l = g t l) -> forall ad anode vs, spec_argument f ad anode vs = spec_argument g ad anode vs.
Proof.
  intros H ad anode vs. unfold spec_argument.
  destruct anode as [a|].
  - destruct (a_value a); destruct (in_default ad); rewrite ?H; reflexivity.
  - destruct (in_default ad); rewrite ?H; reflexivity.
Qed.

Lemma spec_arguments_ext (f g : ty -> lit -> res (option pyval)) :
  (forall t l, f t l = g t l) -> forall ads anodes vs, spec_arguments f ads anodes vs = spec_arguments g ads anodes vs.
Proof.
  intros H ads anodes vs. induction ads as [|ad ads IH]; cbn [spec_arguments]; [reflexivity|].
  now rewrite (spec_argument_ext f g H), IH.
Qed.

Lemma impl_literal_is_spec fuel vs t l : impl_coerce_literal sch fuel vs t l = spec_coerce_literal fuel vs t l.
Proof. unfold impl_coerce_literal, spec_coerce_literal. now rewrite literal_coercer_refines_spec. Qed.

(* one argument: the implementation model gives the outcome of CoerceArgumentValues in which
   literals are coerced by recursion on the declared type *)
Theorem argument_coercer_refines_spec fuel ad floc anode vs :
  res_matches (argument_coercer sch fuel ad floc anode vs)
              (spec_argument (spec_coerce_literal fuel vs) ad anode vs).
Proof.
  rewrite <- (spec_argument_ext _ _ (impl_literal_is_spec fuel vs)).
  apply argument_coercer_refines.
Qed.

Theorem coerce_arguments_refines_spec fuel ads floc anodes vs :
  map_matches (coerce_arguments_aux sch fuel ads floc anodes vs)
              (spec_arguments (spec_coerce_literal fuel vs) ads anodes vs).
Proof.
  rewrite <- (spec_arguments_ext _ _ (impl_literal_is_spec fuel vs)).
  apply coerce_arguments_refines.
Qed.
End Args.
