(* C12, the interface clauses: an object that does not honour an interface it declares -- a field of the
   interface missing, its type not a valid implementation type (IsValidImplementationFieldType), an argument
   of the interface field missing or of another type, an additional required argument, an `implements` naming
   an undefined type or a type that is not an interface -- makes _validate_object_follow_interfaces report
   (or raise).  For every schema whose interface fields do not use the reserved meta-field names. *)
From Coq Require Import ZArith List String Bool Lia.
From TV Require Import Py.Prelude Model.Schema Model.ImplValidate Model.SchemaBuild Model.SpecSchema Proofs.SchemaProofs.
Import ListNotations.
Open Scope string_scope.
Open Scope list_scope.

Definition flagged (r : option (list string)) : Prop := r <> Some [].

Lemma flagged_app errs es : es <> [] -> flagged (Some (errs ++ es)).
Proof. intros H E. inversion E as [E']. apply app_eq_nil in E'. destruct E' as [_ E']. contradiction. Qed.
Lemma flagged_grow errs es : flagged (Some errs) -> flagged (Some (errs ++ es)).
Proof. intros H E. inversion E as [E']. apply app_eq_nil in E'. destruct E' as [E' _]. apply H. now rewrite E'. Qed.

(* a fold over an option accumulator that only appends: once flagged, always flagged *)
Lemma fold_flagged {A} (F : option (list string) -> A -> option (list string)) l :
  (forall acc x, flagged acc -> flagged (F acc x)) -> forall acc, flagged acc -> flagged (fold_left F l acc).
Proof. intros H. induction l as [|x l IH]; intros acc Ha; [exact Ha|]. cbn. apply IH. now apply H. Qed.

Lemma fold_flagged_at {A} (F : option (list string) -> A -> option (list string)) l x :
  (forall acc y, flagged acc -> flagged (F acc y)) -> (forall acc, flagged (F acc x)) -> In x l ->
  forall acc, flagged (fold_left F l acc).
Proof.
  intros Hm Hx. induction l as [|y l IH]; intros Hin acc; [destruct Hin|]. cbn.
  destruct Hin as [<-|Hin]; [apply fold_flagged; [exact Hm|apply Hx]|now apply IH].
Qed.

Lemma forallb_false_witness {A} (p : A -> bool) l : forallb p l = false -> exists x, In x l /\ p x = false.
Proof.
  induction l as [|a l IH]; cbn; [discriminate|]. destruct (p a) eqn:E; cbn.
  - intros H. destruct (IH H) as (x & Hx & Hp). exists x. split; [now right|exact Hp].
  - intros _. exists a. split; [now left|exact E].
Qed.

Section Interfaces.
Variable g : gschema.

Definition meta_name (n : string) : bool := String.eqb n "__schema" || String.eqb n "__type" || String.eqb n "__typename".

(* the per-interface-field step of the engine's check *)
Definition field_step (tname : string) (fs : list field_def) (acc : option (list string)) (iff : field_def) : option (list string) :=
  match acc with
  | None => None
  | Some errs =>
      match find_field (obj_fields_with_meta g tname fs) (fd_name iff) with
      | None => Some (errs ++ ["interface-field-missing"])
      | Some f =>
          match same_as_interface_type g (fd_type f) (fd_type iff) with
          | None => None
          | Some ok => Some (errs ++ (if ok then [] else ["interface-field-type"]) ++ args_follow (fd_args f) (fd_args iff))
          end
      end
  end.

Lemma field_step_mono tname fs acc iff : flagged acc -> flagged (field_step tname fs acc iff).
Proof.
  unfold field_step. destruct acc as [errs|]; [|intros _; discriminate]. intros H.
  destruct (find_field _ (fd_name iff)) as [f|]; [|now apply flagged_grow].
  destruct (same_as_interface_type g (fd_type f) (fd_type iff)) as [ok|]; [now apply flagged_grow|discriminate].
Qed.

Lemma find_field_app_l fs ms n f : find_field fs n = Some f -> find_field (fs ++ ms) n = Some f.
Proof. induction fs as [|x fs IH]; cbn; [discriminate|]. destruct (String.eqb n (fd_name x)); [trivial|exact IH]. Qed.
Lemma find_field_app_none fs ms n : find_field fs n = None -> find_field (fs ++ ms) n = find_field ms n.
Proof. induction fs as [|x fs IH]; cbn; [reflexivity|]. destruct (String.eqb n (fd_name x)); [discriminate|exact IH]. Qed.

Lemma find_field_metas tname n : meta_name n = false ->
  find_field ((if String.eqb tname (g_query g) then [schema_field; type_field] else []) ++ [typename_field]) n = None.
Proof.
  unfold meta_name. intros H. apply orb_false_elim in H. destruct H as [H H3]. apply orb_false_elim in H. destruct H as [H1 H2].
  destruct (String.eqb tname (g_query g)); cbn; rewrite ?H1, ?H2, ?H3; reflexivity.
Qed.

Lemma args_follow_flagged of_args if_args :
  (forallb (fun ia => match find (fun a => String.eqb (in_name a) (in_name ia)) of_args with
                      | Some a => ty_eqb (in_type a) (in_type ia)
                      | None => false end) if_args &&
   forallb (fun a => mem_str (in_name a) (map in_name if_args) || negb (is_non_null (in_type a)) ||
                     match in_default a with Some _ => true | None => false end) of_args) = false ->
  args_follow of_args if_args <> [].
Proof.
  intros H. unfold args_follow. apply andb_false_iff in H. destruct H as [H|H].
  - apply app_nonnil_l. clear - H. induction if_args as [|ia r IH]; [discriminate|]. cbn [forallb flat_map] in *.
    destruct (find (fun a => String.eqb (in_name a) (in_name ia)) of_args) as [a|].
    + destruct (ty_eqb (in_type a) (in_type ia)); [cbn [andb app] in *; now apply IH|discriminate].
    + discriminate.
  - apply app_nonnil_r. clear - H. unfold input_names. induction of_args as [|a r IH]; [discriminate|]. cbn [forallb flat_map] in *.
    destruct (mem_str (in_name a) (map in_name if_args)); cbn [orb negb andb] in *; [now apply IH|].
    destruct (is_non_null (in_type a)); cbn [orb negb andb app] in *; [discriminate|now apply IH].
Qed.

(* one interface field the object does not honour flags the step, from any accumulator *)
Lemma field_step_flags tname fs iff acc :
  meta_name (fd_name iff) = false -> honours g fs iff = false -> flagged (field_step tname fs acc iff).
Proof.
  intros Hm Hh. unfold field_step. destruct acc as [errs|]; [|discriminate]. unfold obj_fields_with_meta, honours in *.
  destruct (find_field fs (fd_name iff)) as [f|] eqn:Ef.
  - rewrite (find_field_app_l _ _ _ _ Ef). rewrite interface_type_check_exact.
    destruct (valid_impl_type g (fd_type f) (fd_type iff)); cbn [andb] in Hh.
    + cbn [app]. apply flagged_app. apply args_follow_flagged. exact Hh.
    + apply flagged_app. discriminate.
  - rewrite (find_field_app_none _ _ _ Ef), (find_field_metas tname _ Hm). apply flagged_app. discriminate.
Qed.

(* the per-interface step *)
Definition iface_step (tname : string) (fs : list field_def) (acc : option (list string)) (i : string) : option (list string) :=
  match acc with
  | None => None
  | Some errs =>
      match g_find g i with
      | None => Some (errs ++ ["implements-unknown"])
      | Some (DInterface ifields) => fold_left (field_step tname fs) ifields (Some errs)
      | Some _ => Some (errs ++ ["implements-non-interface"])
      end
  end.

Lemma iface_step_mono tname fs acc i : flagged acc -> flagged (iface_step tname fs acc i).
Proof.
  unfold iface_step. destruct acc as [errs|]; [|intros _; discriminate]. intros H.
  destruct (g_find g i) as [[| | | |ifields|]|]; try (now apply flagged_grow).
  apply fold_flagged; [intros; now apply field_step_mono|exact H].
Qed.

Definition iface_fields_plain (i : string) : Prop :=
  forall ifields iff, g_find g i = Some (DInterface ifields) -> In iff ifields -> meta_name (fd_name iff) = false.

Lemma iface_step_flags tname fs i acc :
  iface_fields_plain i ->
  match g_find g i with Some (DInterface ifields) => negb (forallb (honours g fs) ifields) | _ => true end = true ->
  flagged (iface_step tname fs acc i).
Proof.
  intros Hp Hv. unfold iface_step. destruct acc as [errs|]; [|discriminate].
  destruct (g_find g i) as [[| | | |ifields|]|] eqn:Eg; try (apply flagged_app; discriminate).
  apply negb_true_iff in Hv. destruct (forallb_false_witness _ _ Hv) as (iff & Hin & Hh).
  exact (fold_flagged_at (field_step tname fs) ifields iff (fun a y Ha => field_step_mono tname fs a y Ha)
           (fun a => field_step_flags tname fs iff a (Hp ifields iff Eg Hin) Hh) Hin (Some errs)).
Qed.

(* the whole validator *)
Lemma v_follow_interfaces_unfold :
  v_follow_interfaces g =
  fold_left (fun acc t =>
    match acc, td_def t with
    | Some errs, DObject ifs fs => fold_left (iface_step (td_name t) fs) ifs (Some errs)
    | _, _ => acc
    end) (g_types g) (Some []).
Proof. reflexivity. Qed.

Theorem interfaces_not_honoured_reported :
  (forall i, iface_fields_plain i) -> v_interface_not_honoured g = true -> v_follow_interfaces g <> Some [].
Proof.
  intros Hp Hv. rewrite v_follow_interfaces_unfold. unfold v_interface_not_honoured in Hv.
  apply existsb_exists in Hv. destruct Hv as (t & Hin & Ht).
  set (F := fun (acc : option (list string)) (t : tdecl) =>
    match acc, td_def t with
    | Some errs, DObject ifs fs => fold_left (iface_step (td_name t) fs) ifs (Some errs)
    | _, _ => acc
    end).
  assert (Hm : forall acc y, flagged acc -> flagged (F acc y)).
  { intros acc y Ha. unfold F. destruct acc as [errs|]; [|exact Ha]. destruct (td_def y); try exact Ha.
    apply fold_flagged; [intros; now apply iface_step_mono|exact Ha]. }
  apply (fold_flagged_at F (g_types g) t Hm); [|exact Hin].
  intros acc. unfold F. destruct acc as [errs|]; [|discriminate].
  destruct (td_def t) as [| | |ifs fs| |]; try discriminate.
  apply existsb_exists in Ht. destruct Ht as (i & Hi & Hbad).
  apply (fold_flagged_at (iface_step (td_name t) fs) ifs i (fun a y Ha => iface_step_mono (td_name t) fs a y Ha)); [|exact Hi].
  intros acc. apply iface_step_flags; [apply Hp|exact Hbad].
Qed.

End Interfaces.

(* ... and so no engine is built *)
Theorem interface_not_honoured_validate g :
  (forall i, iface_fields_plain g i) -> v_interface_not_honoured g = true -> validate g <> Some [].
Proof.
  intros Hp Hv E. pose proof (interfaces_not_honoured_reported g Hp Hv) as Hf.
  unfold validate in E. destruct (v_follow_interfaces g) as [follow|]; [|discriminate].
  inversion E as [E']. apply app_eq_nil in E'. destruct E' as [_ E']. apply app_eq_nil in E'. destruct E' as [E' _].
  apply Hf. now rewrite E'.
Qed.

Theorem build_rejects_unhonoured_interfaces s g0 :
  initial s = inl g0 ->
  (forall i, iface_fields_plain (fold_left apply_ext (s_exts s) g0) i) ->
  v_interface_not_honoured (fold_left apply_ext (s_exts s) g0) = true -> builds s = false.
Proof.
  intros Hi Hp Hd. unfold builds, impl_build. rewrite Hi.
  destruct (validate_extensions g0 (s_exts s)); [|reflexivity].
  pose proof (interface_not_honoured_validate _ Hp Hd) as Hv.
  destruct (validate (fold_left apply_ext (s_exts s) g0)) as [[|e es]|]; [congruence|reflexivity|reflexivity].
Qed.
