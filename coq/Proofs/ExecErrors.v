(* C02: error accounting of the implementation model.
   - errors is append-only;
   - every error recorded while a field at response path p is resolved/completed has a
     path extending p (list indices included), and every exception it raises is located
     below p;  raised exception lists are never empty;
   - a field of nullable type never raises (the failure is contained: null + >= 1 error);
     a field of non-null type never yields null. *)
From Coq Require Import ZArith List String Bool Lia.
From TV Require Import Py.Prelude Model.Schema Model.ImplInput Model.ImplExec.
Import ListNotations.
Open Scope string_scope.
Open Scope list_scope.

Definition extends (p q : list pkey) : Prop := exists suffix, q = p ++ suffix.

Lemma extends_refl p : extends p p.
Proof. exists []. now rewrite app_nil_r. Qed.
Lemma extends_trans p q r : extends p q -> extends q r -> extends p r.
Proof. intros [a ->] [b ->]. exists (a ++ b). now rewrite app_assoc. Qed.
Lemma extends_app p a : extends p (p ++ a).
Proof. now exists a. Qed.

(* an error entry located at or below p *)
Definition err_below (p : list pkey) (g : gerr) : Prop :=
  exists q, g_path g = Some q /\ extends p q.
(* a travelling exception: not yet located, or located at or below p *)
Definition exn_below (p : list pkey) (e : perr) : Prop :=
  match p_path e with Some q => extends p q | None => True end.
Definition exn_located_below (p : list pkey) (e : perr) : Prop :=
  exists q, p_path e = Some q /\ extends p q.

(* s' is s plus errors all below p *)
Definition grows_below (p : list pkey) (s s' : st) : Prop :=
  exists new, s_errors s' = s_errors s ++ new /\ Forall (err_below p) new.

Lemma grows_refl p s : grows_below p s s.
Proof. exists []. split; [now rewrite app_nil_r|constructor]. Qed.
Lemma grows_trans p s1 s2 s3 : grows_below p s1 s2 -> grows_below p s2 s3 -> grows_below p s1 s3.
Proof.
  intros (n1 & E1 & F1) (n2 & E2 & F2). exists (n1 ++ n2). split.
  - now rewrite E2, E1, app_assoc.
  - apply Forall_app; auto.
Qed.
Lemma err_below_weaken p q g : extends p q -> err_below q g -> err_below p g.
Proof. intros Hpq (r & Hr & Hqr). exists r. split; [exact Hr|]. eapply extends_trans; eauto. Qed.
Lemma grows_weaken p q s s' : extends p q -> grows_below q s s' -> grows_below p s s'.
Proof.
  intros Hpq (n & E & F). exists n. split; [exact E|].
  eapply Forall_impl; [|exact F]. intros g. now apply err_below_weaken.
Qed.
Lemma grows_add_call p c s : grows_below p s (add_call c s).
Proof. exists []. cbn. split; [now rewrite app_nil_r|constructor]. Qed.

Lemma exn_below_weaken p q e : extends p q -> exn_below q e -> exn_below p e.
Proof. unfold exn_below. destruct (p_path e); auto. intros. eapply extends_trans; eauto. Qed.

(* what an M-computation at position p may do *)
Definition ok_at {A} (p : list pkey) (located : bool) (m : M A) : Prop :=
  forall s r s', m s = (r, s') ->
    grows_below p s s' /\
    match r with
    | OExc l => l <> [] /\ Forall (if located then exn_located_below p else exn_below p) l
    | _ => True
    end.

Section Errors.
Variable sch : schema.
Variable doc : document.
Variable vs : vars.
Variable U : usercode.
Variable cfg : config.

Lemma locate_located nodes path e : exn_below path e -> exn_located_below path (locate nodes path e).
Proof.
  unfold exn_below, exn_located_below, locate. cbn [p_path].
  destruct (p_path e) as [q|]; intros H.
  - exists q; auto.
  - exists path; split; [reflexivity|apply extends_refl].
Qed.

Lemma finalize_below path e : exn_located_below path e -> err_below path (finalize e).
Proof. intros (q & Hq & He). exists q. cbn. auto. Qed.

Lemma handle_field_error_ok l nodes path t :
  l <> [] -> Forall (exn_below path) l ->
  ok_at path true (handle_field_error l nodes path t).
Proof.
  intros Hne Hl s r s'. unfold handle_field_error.
  assert (Hloc : Forall (exn_located_below path) (map (locate (locs_of nodes) path) l)).
  { apply Forall_map. eapply Forall_impl; [|exact Hl]. intros e. apply locate_located. }
  destruct (is_non_null t); intros H; inversion H; subst.
  - split; [apply grows_refl|]. split; [|exact Hloc].
    destruct l; [congruence|discriminate].
  - split; [|exact I]. exists (map finalize (map (locate (locs_of nodes) path) l)).
    split; [reflexivity|]. apply Forall_map. eapply Forall_impl; [|exact Hloc].
    intros e. apply finalize_below.
Qed.

(* a nullable type contains the failure; it then records at least one error *)
Lemma handle_field_error_nullable l nodes path t s r s' :
  is_non_null t = false -> l <> [] ->
  handle_field_error l nodes path t s = (r, s') ->
  r = OVal PNone /\ exists e es, s_errors s' = s_errors s ++ e :: es.
Proof.
  unfold handle_field_error. intros -> Hne H. inversion H; subst. split; [reflexivity|].
  destruct l as [|e l]; [congruence|]. cbn. eauto.
Qed.

Lemma handle_field_error_nonnull l nodes path t s r s' :
  is_non_null t = true -> handle_field_error l nodes path t s = (r, s') ->
  exists l', r = OExc l' /\ s' = s.
Proof. unfold handle_field_error. intros -> H. inversion H; eauto. Qed.

Lemma located_is_below p e : exn_located_below p e -> exn_below p e.
Proof. intros (q & Hq & He). unfold exn_below. now rewrite Hq. Qed.

Lemma complete_items_ok ci path :
  (forall x i, ok_at (path ++ [KIdx i]) true (ci x (path ++ [KIdx i]))) ->
  forall items i, ok_at path true (complete_items ci path i items).
Proof.
  intros Hci. induction items as [|x xs IH]; intros i s r s'; cbn [complete_items].
  - intros H; inversion H; subst. split; [apply grows_refl|exact I].
  - destruct (ci x (path ++ [KIdx i]) s) as [r1 s1] eqn:E1.
    destruct (complete_items ci path (i + 1)%Z xs s1) as [rs s2] eqn:E2.
    destruct (Hci x i _ _ _ E1) as [G1 R1]. destruct (IH _ _ _ _ E2) as [G2 R2].
    assert (G : grows_below path s s2).
    { eapply grows_trans; [|exact G2]. eapply grows_weaken; [apply extends_app|exact G1]. }
    assert (W : forall l, Forall (exn_located_below (path ++ [KIdx i])) l -> Forall (exn_located_below path) l).
    { intros l. apply Forall_impl. intros e (q & Hq & He). exists q. split; [exact Hq|].
      eapply extends_trans; [apply extends_app|exact He]. }
    destruct r1 as [v|l|e]; destruct rs as [vs'|l'|e']; intros H; inversion H; subst;
      (split; [exact G|]); try exact I.
    + exact R2.
    + destruct R1 as [Hne Hl]. split; [exact Hne|now apply W].
    + destruct R1 as [Hne Hl]. destruct R2 as [Hne' Hl']. split.
      * destruct l; [congruence|discriminate].
      * apply Forall_app. split; [now apply W|exact Hl'].
Qed.

Lemma coerce_output_ok nodes leaf :
  (forall n v lp, ok_at lp false (leaf n v lp)) ->
  forall t v path, ok_at path false (coerce_output nodes leaf t v path).
Proof.
  intros Hleaf. induction t as [n|t IH|t IH]; intros v path; cbn [coerce_output].
  - apply Hleaf.
  - intros s r s'.
    destruct v as [ | |b|z|f|x|l|kv|c at_|e|tag|k a];
      try (intros H; inversion H; subst; split; [apply grows_refl|];
           first [exact I | split; [discriminate| repeat constructor]]).
    match goal with |- context [complete_items ?ci path 0%Z l s] =>
      pose proof (complete_items_ok ci path) as Hall end.
    cbv beta in Hall.
    assert (Hci : forall (x : pyval) (i : Z), ok_at (path ++ [KIdx i]) true
                (fun s0 => match (match is_exc_value x with
                                  | Some e => (OExc [e], s0)
                                  | None => coerce_output nodes leaf t x (path ++ [KIdx i]) s0
                                  end) with
                           | (OExc l0, s1) => handle_field_error l0 nodes (path ++ [KIdx i]) t s1
                           | r0 => r0
                           end)).
    { intros x i s0 r0 s0'. destruct (is_exc_value x) as [ex|] eqn:Ex.
      - apply handle_field_error_ok; [discriminate|].
        constructor; [|constructor]. unfold exn_below.
        destruct x; try discriminate. destruct e; inversion Ex; exact I.
      - destruct (coerce_output nodes leaf t x (path ++ [KIdx i]) s0) as [[cv|cl|ce] s2] eqn:Eco;
          destruct (IH x (path ++ [KIdx i]) _ _ _ Eco) as [G R].
        + intros H; inversion H; subst; split; [exact G|exact I].
        + intros H. destruct R as [Hne Hl].
          destruct (handle_field_error_ok cl nodes (path ++ [KIdx i]) t Hne Hl _ _ _ H) as [G' R'].
          split; [eapply grows_trans; eauto|exact R'].
        + intros H; inversion H; subst; split; [exact G|exact I]. }
    specialize (Hall Hci l 0%Z).
    match goal with |- context [complete_items ?ci path 0%Z l s] =>
      destruct (complete_items ci path 0%Z l s) as [[lv|le|ce] s1] eqn:Ec end;
      destruct (Hall _ _ _ Ec) as [G R]; intros H; inversion H; subst; split; try exact G; try exact I.
    destruct R as [Hne Hl]. split; [exact Hne|].
    eapply Forall_impl; [|exact Hl]. intros e0. apply located_is_below.
  - intros s r s'.
    destruct (coerce_output nodes leaf t v path s) as [[cv|cl|ce] s1] eqn:Eco;
      destruct (IH v path _ _ _ Eco) as [G R].
    + destruct cv; intros H; inversion H; subst; split; try exact G; try exact I.
      split; [discriminate| repeat constructor].
    + intros H; inversion H; subst. split; [exact G|exact R].
    + intros H; inversion H; subst. split; [exact G|exact I].
Qed.


Definition rf_err_ok (rf : rfun) : Prop :=
  forall otype value opath k ns, ok_at (opath ++ [KName k]) true (rf otype value opath k ns).

Lemma weaken_located p k l :
  Forall (exn_located_below (p ++ [KName k])) l -> Forall (exn_located_below p) l.
Proof.
  apply Forall_impl. intros e (q & Hq & He). exists q. split; [exact Hq|].
  eapply extends_trans; [apply extends_app|exact He].
Qed.

Lemma exec_fields_conc_ok rf otype value opath :
  rf_err_ok rf -> forall sub, ok_at opath true (exec_fields_conc (fun k ns => rf otype value opath k ns) sub).
Proof.
  intros Hrf. induction sub as [|[k ns] rest IH]; intros s r s'; cbn [exec_fields_conc].
  - intros H; inversion H; subst. split; [apply grows_refl|exact I].
  - destruct (rf otype value opath k ns s) as [r1 s1] eqn:E1.
    destruct (exec_fields_conc _ rest s1) as [rs s2] eqn:E2.
    destruct (Hrf _ _ _ _ _ _ _ _ E1) as [G1 R1]. destruct (IH _ _ _ E2) as [G2 R2].
    assert (G : grows_below opath s s2).
    { eapply grows_trans; [|exact G2]. eapply grows_weaken; [apply extends_app|exact G1]. }
    destruct r1 as [[v|]|l|e]; destruct rs as [kv|l'|e']; intros H; inversion H; subst;
      (split; [exact G|]); try exact I; try exact R2.
    + destruct R1 as [Hne Hl]. split; [exact Hne|eapply weaken_located; eauto].
    + destruct R1 as [Hne Hl]. destruct R2 as [Hne' Hl']. split.
      * destruct l; [congruence|discriminate].
      * apply Forall_app. split; [eapply weaken_located; eauto|exact Hl'].
Qed.

Lemma exec_fields_seq_ok rf otype value opath :
  rf_err_ok rf -> forall sub, ok_at opath true (exec_fields_seq (fun k ns => rf otype value opath k ns) sub).
Proof.
  intros Hrf. induction sub as [|[k ns] rest IH]; intros s r s'; cbn [exec_fields_seq].
  - intros H; inversion H; subst. split; [apply grows_refl|exact I].
  - destruct (rf otype value opath k ns s) as [r1 s1] eqn:E1.
    destruct (Hrf _ _ _ _ _ _ _ _ E1) as [G1 R1].
    assert (G1' : grows_below opath s s1) by (eapply grows_weaken; [apply extends_app|exact G1]).
    destruct r1 as [o|l|e].
    + destruct (exec_fields_seq _ rest s1) as [rs s2] eqn:E2.
      destruct (IH _ _ _ E2) as [G2 R2].
      destruct rs as [kv|l'|e']; intros H; inversion H; subst;
        (split; [eapply grows_trans; eauto|]); try exact I; exact R2.
    + intros H; inversion H; subst. split; [exact G1'|].
      destruct R1 as [Hne Hl]. split; [exact Hne|eapply weaken_located; eauto].
    + intros H; inversion H; subst. split; [exact G1'|exact I].
Qed.

(* per-field settings *)
Lemma mixed_pass1_ok isc rf otype value opath :
  rf_err_ok rf -> forall sub, ok_at opath true (mixed_pass1 isc (fun k ns => rf otype value opath k ns) sub).
Proof.
  intros Hrf. induction sub as [|[k ns] rest IH]; intros s r s'; cbn [mixed_pass1].
  - intros H; inversion H; subst. split; [apply grows_refl|exact I].
  - destruct (isc k ns).
    + destruct (mixed_pass1 isc _ rest s) as [[slots|l|e] s1] eqn:E2; destruct (IH _ _ _ E2) as [G2 R2];
        intros H; inversion H; subst; split; try exact G2; try exact I; exact R2.
    + destruct (rf otype value opath k ns s) as [r1 s1] eqn:E1.
      destruct (Hrf _ _ _ _ _ _ _ _ E1) as [G1 R1].
      assert (G1' : grows_below opath s s1) by (eapply grows_weaken; [apply extends_app|exact G1]).
      destruct r1 as [o|l|e].
      * destruct (mixed_pass1 isc _ rest s1) as [[slots|l'|e'] s2] eqn:E2; destruct (IH _ _ _ E2) as [G2 R2];
          intros H; inversion H; subst; (split; [eapply grows_trans; eauto|]); try exact I; exact R2.
      * intros H; inversion H; subst. split; [exact G1'|].
        destruct R1 as [Hne Hl]. split; [exact Hne|eapply weaken_located; eauto].
      * intros H; inversion H; subst. split; [exact G1'|exact I].
Qed.

Lemma mixed_pass2_ok rf otype value opath :
  rf_err_ok rf -> forall sub slots, ok_at opath true (mixed_pass2 (fun k ns => rf otype value opath k ns) sub slots).
Proof.
  intros Hrf. induction sub as [|[k ns] rest IH]; intros slots s r s'; cbn [mixed_pass2].
  - intros H; inversion H; subst. split; [apply grows_refl|exact I].
  - destruct slots as [|[o|] srest].
    + intros H; inversion H; subst. split; [apply grows_refl|exact I].
    + destruct (mixed_pass2 _ rest srest s) as [rs s2] eqn:E2. destruct (IH _ _ _ _ E2) as [G2 R2].
      destruct rs as [kv|l'|e']; intros H; inversion H; subst; split; try exact G2; try exact I; exact R2.
    + destruct (rf otype value opath k ns s) as [r1 s1] eqn:E1.
      destruct (mixed_pass2 _ rest srest s1) as [rs s2] eqn:E2.
      destruct (Hrf _ _ _ _ _ _ _ _ E1) as [G1 R1]. destruct (IH _ _ _ _ E2) as [G2 R2].
      assert (G : grows_below opath s s2).
      { eapply grows_trans; [|exact G2]. eapply grows_weaken; [apply extends_app|exact G1]. }
      destruct r1 as [[v|]|l|e]; destruct rs as [kv|l'|e']; intros H; inversion H; subst;
        (split; [exact G|]); try exact I; try exact R2.
      * destruct R1 as [Hne Hl]. split; [exact Hne|eapply weaken_located; eauto].
      * destruct R1 as [Hne Hl]. destruct R2 as [Hne' Hl']. split.
        -- destruct l; [congruence|discriminate].
        -- apply Forall_app. split; [eapply weaken_located; eauto|exact Hl'].
Qed.

Lemma exec_fields_mixed_ok isc rf otype value opath :
  rf_err_ok rf -> forall sub, ok_at opath true (exec_fields_mixed isc (fun k ns => rf otype value opath k ns) sub).
Proof.
  intros Hrf sub s r s'. unfold exec_fields_mixed.
  destruct (mixed_pass1 isc _ sub s) as [[slots|l|e] s1] eqn:E1;
    destruct (mixed_pass1_ok isc rf otype value opath Hrf sub _ _ _ E1) as [G1 R1].
  - intros H. destruct (mixed_pass2_ok rf otype value opath Hrf sub slots _ _ _ H) as [G2 R2].
    split; [eapply grows_trans; eauto|exact R2].
  - intros H; inversion H; subst. split; [exact G1|exact R1].
  - intros H; inversion H; subst. split; [exact G1|exact I].
Qed.

Lemma exec_sub_ok rf nodes otype value opath :
  rf_err_ok rf -> ok_at opath true (exec_sub sch doc vs cfg rf nodes otype value opath).
Proof.
  intros Hrf s r s'. unfold exec_sub.
  destruct (collect_subfields sch doc vs COLLECT_FUEL otype nodes [] []) as [sub|].
  - destruct (exec_fields_mixed _ _ sub s) as [[kv|l|e] s1] eqn:E;
      destruct (exec_fields_mixed_ok _ rf otype value opath Hrf sub _ _ _ E) as [G R];
      intros H; inversion H; subst; split; auto.
  - intros H; inversion H; subst. split; [apply grows_refl|exact I].
Qed.

Lemma one_unlocated p (e : perr) : p_path e = None -> [e] <> [] /\ Forall (exn_below p) [e].
Proof.
  intros H. split; [discriminate|]. constructor; [|constructor]. unfold exn_below. now rewrite H.
Qed.

Lemma resolve_runtime_type_exn n t nodes l p :
  resolve_runtime_type sch n t nodes = OExc l -> l <> [] /\ Forall (exn_below p) l.
Proof.
  unfold resolve_runtime_type. destruct t; try (intros H; inversion H; now apply one_unlocated).
  destruct (find_type sch s) as [[ | | |ifs fs| | ]|]; try (intros H; inversion H; now apply one_unlocated).
  destruct (mem_str s (possible_types sch n)); [discriminate|].
  intros H; inversion H; now apply one_unlocated.
Qed.

Lemma below_of_located p l : Forall (exn_located_below p) l -> Forall (exn_below p) l.
Proof. apply Forall_impl. intros e. apply located_is_below. Qed.

Lemma leaf_ok rf ptype fd nodes path :
  rf_err_ok rf -> forall n v lp, ok_at lp false (leaf_coercer sch doc vs U cfg rf ptype fd nodes path n v lp).
Proof.
  intros Hrf n v lp s r s'. unfold leaf_coercer.
  assert (Hsub : forall ot s0 r0 s0', exec_sub sch doc vs cfg rf nodes ot v lp s0 = (r0, s0') ->
            grows_below lp s0 s0' /\ match r0 with OExc l => l <> [] /\ Forall (exn_below lp) l | _ => True end).
  { intros ot s0 r0 s0' E. destruct (exec_sub_ok rf nodes ot v lp Hrf _ _ _ E) as [G R].
    split; [exact G|]. destruct r0; auto. destruct R; split; auto using below_of_located. }
  assert (Hplain : forall (r0 : outcome pyval), (r0, s) = (r, s') ->
            match r0 with OExc l => l <> [] /\ Forall (exn_below lp) l | _ => True end ->
            grows_below lp s s' /\ match r with OExc l => l <> [] /\ Forall (exn_below lp) l | _ => True end).
  { intros r0 H Hr. inversion H; subst. split; [apply grows_refl|exact Hr]. }
  destruct (find_type sch n) as [[ |values|ifields|ifs fs|fs|ms]|].
  - (* scalar *)
    destruct v; try (intros H; eapply Hplain; [exact H|exact I]);
      (destruct (scalars sch n) as [ops|]; [|intros H; eapply Hplain; [exact H|now apply one_unlocated]]);
      (match goal with |- context [s_output ops ?x] => destruct (s_output ops x) as [o|xe] end;
       [ destruct (is_undef o); intros H; eapply Hplain; try exact H; first [exact I | now apply one_unlocated]
       | destruct xe; intros H; eapply Hplain; try exact H; first [exact I | now apply one_unlocated] ]).
  - (* enum *)
    destruct v; try (intros H; eapply Hplain; [exact H| first [exact I | now apply one_unlocated]]).
    destruct (mem_str s0 values); intros H; eapply Hplain; try exact H; first [exact I | now apply one_unlocated].
  - intros H; eapply Hplain; [exact H|now apply one_unlocated].
  - (* object *)
    destruct v; try (intros H; eapply Hplain; [exact H|exact I]); apply Hsub.
  - (* interface *)
    destruct v; try (intros H; eapply Hplain; [exact H|exact I]);
      (destruct (type_resolver_kind U n ptype (fd_name fd));
       [ cbv beta iota zeta;
         match goal with |- context [resolve_runtime_type sch n ?t nodes] =>
           destruct (resolve_runtime_type sch n t nodes) as [rt|lx|ex] eqn:Er end;
         [ apply Hsub
         | intros H; eapply Hplain; [exact H|eapply resolve_runtime_type_exn; eauto]
         | intros H; eapply Hplain; [exact H|exact I] ]
       | destruct (type_resolver U path n _) as [t|msg g ext];
         [ match goal with |- context [resolve_runtime_type sch n ?t nodes] =>
             destruct (resolve_runtime_type sch n t nodes) as [rt|lx|ex] eqn:Er end;
           [ intros H; destruct (Hsub _ _ _ _ H) as [G R]; split; [|exact R];
             eapply grows_trans; [apply grows_add_call|exact G]
           | intros H; inversion H; subst; split; [apply grows_add_call|eapply resolve_runtime_type_exn; eauto]
           | intros H; inversion H; subst; split; [apply grows_add_call|exact I] ]
         | intros H; inversion H; subst; split; [apply grows_add_call|now apply one_unlocated] ] ]).
  - (* union *)
    destruct v; try (intros H; eapply Hplain; [exact H|exact I]);
      (destruct (type_resolver_kind U n ptype (fd_name fd));
       [ cbv beta iota zeta;
         match goal with |- context [resolve_runtime_type sch n ?t nodes] =>
           destruct (resolve_runtime_type sch n t nodes) as [rt|lx|ex] eqn:Er end;
         [ apply Hsub
         | intros H; eapply Hplain; [exact H|eapply resolve_runtime_type_exn; eauto]
         | intros H; eapply Hplain; [exact H|exact I] ]
       | destruct (type_resolver U path n _) as [t|msg g ext];
         [ match goal with |- context [resolve_runtime_type sch n ?t nodes] =>
             destruct (resolve_runtime_type sch n t nodes) as [rt|lx|ex] eqn:Er end;
           [ intros H; destruct (Hsub _ _ _ _ H) as [G R]; split; [|exact R];
             eapply grows_trans; [apply grows_add_call|exact G]
           | intros H; inversion H; subst; split; [apply grows_add_call|eapply resolve_runtime_type_exn; eauto]
           | intros H; inversion H; subst; split; [apply grows_add_call|exact I] ]
         | intros H; inversion H; subst; split; [apply grows_add_call|now apply one_unlocated] ] ]).
  - intros H; eapply Hplain; [exact H|now apply one_unlocated].
Qed.


Lemma resolve_value_ok ptype source path fd node :
  ok_at path false (resolve_value sch vs U ptype source path fd node).
Proof.
  intros s r s'. unfold resolve_value.
  destruct (String.eqb (fn_name node) "__typename").
  - intros H; inversion H; subst. split; [apply grows_refl|exact I].
  - destruct (coerce_arguments sch 20 (fd_args fd) (fn_loc node) (fn_args node) vs) as [[args [|e es]]|e].
    + destruct (has_resolver U ptype (fd_name fd)).
      * destruct (resolver U path ptype (fd_name fd) source args); intros H; inversion H; subst;
          (split; [apply grows_add_call|]); [exact I|now apply one_unlocated].
      * intros H; inversion H; subst. split; [apply grows_refl|exact I].
    + intros H; inversion H; subst. split; [apply grows_refl|]. split; [discriminate|].
      constructor; [unfold exn_below; cbn; exact I|].
      apply Forall_map. apply Forall_forall. intros x _. unfold exn_below; cbn; exact I.
    + intros H; inversion H; subst. split; [apply grows_refl|exact I].
Qed.

Lemma is_exc_value_unlocated v e : is_exc_value v = Some e -> p_path e = None.
Proof. destruct v; try discriminate. destruct e0; intros H; inversion H; reflexivity. Qed.

Lemma complete_field_ok rf ptype fd nodes path raw :
  rf_err_ok rf ->
  match raw with OExc l => l <> [] /\ Forall (exn_below path) l | _ => True end ->
  ok_at path true (complete_field sch doc vs U cfg rf ptype fd nodes path raw).
Proof.
  intros Hrf Hraw s r s'. unfold complete_field.
  assert (Hh : forall l s2 (rr : outcome pyval) s3, l <> [] -> Forall (exn_below path) l ->
             grows_below path s s2 ->
             handle_field_error l nodes path (fd_type fd) s2 = (rr, s3) ->
             match rr with
             | OVal v => (OVal (Some v), s3)
             | OExc l' => (OExc l', s3)
             | OCrash e => (OCrash e, s3)
             end = (r, s') ->
             grows_below path s s' /\
             match r with OExc l0 => l0 <> [] /\ Forall (exn_located_below path) l0 | _ => True end).
  { intros l s2 rr s3 Hne Hl G Eh H.
    destruct (handle_field_error_ok l nodes path (fd_type fd) Hne Hl _ _ _ Eh) as [G' R'].
    destruct rr; inversion H; subst; (split; [eapply grows_trans; eauto|]); auto. }
  destruct raw as [v|l|e].
  - destruct (is_exc_value v) as [ex|] eqn:Ex.
    + destruct (handle_field_error [ex] nodes path (fd_type fd) s) as [rr s3] eqn:Eh.
      destruct (one_unlocated path ex (is_exc_value_unlocated _ _ Ex)) as [Hne Hl].
      eapply Hh; eauto using grows_refl.
    + destruct (coerce_output nodes _ (fd_type fd) v path s) as [[cv|cl|ce] s2] eqn:Eco;
        destruct (coerce_output_ok nodes _ (leaf_ok rf ptype fd nodes path Hrf) _ _ _ _ _ _ Eco) as [G R].
      * intros H; inversion H; subst. split; [exact G|exact I].
      * destruct (handle_field_error cl nodes path (fd_type fd) s2) as [rr s3] eqn:Eh.
        destruct R as [Hne Hl]. eapply Hh; eauto.
      * intros H; inversion H; subst. split; [exact G|exact I].
  - destruct (handle_field_error l nodes path (fd_type fd) s) as [rr s3] eqn:Eh.
    destruct Hraw as [Hne Hl]. eapply Hh; eauto using grows_refl.
  - intros H; inversion H; subst. split; [apply grows_refl|exact I].
Qed.

Lemma resolve_field_body_err_ok rf : rf_err_ok rf -> rf_err_ok (resolve_field_body sch doc vs U cfg rf).
Proof.
  intros Hrf otype value opath k ns s r s'. unfold resolve_field_body.
  destruct ns as [|node rest].
  - intros H; inversion H; subst. split; [apply grows_refl|exact I].
  - destruct (get_field_definition sch otype (fn_name node)) as [fd|].
    + destruct (resolve_value sch vs U otype value (opath ++ [KName k]) fd node s) as [raw s1] eqn:Erv.
      destruct (resolve_value_ok _ _ _ _ _ _ _ _ Erv) as [G R].
      destruct raw as [v|l|e].
      * intros H. destruct (complete_field_ok rf otype fd (node :: rest) _ (OVal v) Hrf I _ _ _ H) as [G' R'].
        split; [eapply grows_trans; eauto|exact R'].
      * intros H. destruct (complete_field_ok rf otype fd (node :: rest) _ (OExc l) Hrf R _ _ _ H) as [G' R'].
        split; [eapply grows_trans; eauto|exact R'].
      * intros H; inversion H; subst. split; [exact G|exact I].
    + intros H; inversion H; subst. split; [apply grows_refl|exact I].
Qed.

(* Every error recorded while the field at path p is resolved and completed is located at or
   below p; every exception it raises is non-empty and located at or below p. *)
Theorem resolve_field_err_ok fuel : rf_err_ok (resolve_field sch doc vs U cfg fuel).
Proof.
  induction fuel as [|fuel IH].
  - intros otype value opath k ns s r s'. cbn. intros H; inversion H; subst.
    split; [apply grows_refl|exact I].
  - cbn [resolve_field]. now apply resolve_field_body_err_ok.
Qed.

(* ---------- containment ---------- *)
(* a field of nullable type never raises; when its resolution or completion failed it yields
   null and at least one new error; a field of non-null type never yields null *)
Theorem nullable_field_contains rf ptype fd nodes path raw s r s' :
  is_non_null (fd_type fd) = false ->
  complete_field sch doc vs U cfg rf ptype fd nodes path raw s = (r, s') ->
  forall l, r <> OExc l.
Proof.
  intros Hn. unfold complete_field.
  assert (Hh : forall l s2, exists s3, handle_field_error l nodes path (fd_type fd) s2 = (OVal PNone, s3)).
  { intros l s2. unfold handle_field_error. rewrite Hn. eauto. }
  destruct raw as [v|l|e].
  - destruct (is_exc_value v) as [ex|].
    + destruct (Hh [ex] s) as [s3 ->]. intros H l; inversion H; discriminate.
    + destruct (coerce_output _ _ _ _ _ _) as [[cv|cl|ce] s2].
      * intros H l; inversion H; discriminate.
      * destruct (Hh cl s2) as [s3 ->]. intros H l; inversion H; discriminate.
      * intros H l; inversion H; discriminate.
  - destruct (Hh l s) as [s3 ->]. intros H l0; inversion H; discriminate.
  - intros H l; inversion H; discriminate.
Qed.

Theorem failed_nullable_field_is_null_with_error rf ptype fd nodes path l s r s' :
  is_non_null (fd_type fd) = false -> l <> [] ->
  complete_field sch doc vs U cfg rf ptype fd nodes path (OExc l) s = (r, s') ->
  r = OVal (Some PNone) /\ exists e es, s_errors s' = s_errors s ++ e :: es.
Proof.
  intros Hn Hne. unfold complete_field.
  destruct (handle_field_error l nodes path (fd_type fd) s) as [rr s3] eqn:Eh.
  destruct (handle_field_error_nullable _ _ _ _ _ _ _ Hn Hne Eh) as [-> Hs].
  intros H; inversion H; subst. auto.
Qed.

Theorem failed_non_null_field_raises rf ptype fd nodes path l s r s' :
  is_non_null (fd_type fd) = true ->
  complete_field sch doc vs U cfg rf ptype fd nodes path (OExc l) s = (r, s') ->
  exists l', r = OExc l' /\ s' = s.
Proof.
  intros Hn. unfold complete_field.
  destruct (handle_field_error l nodes path (fd_type fd) s) as [rr s3] eqn:Eh.
  destruct (handle_field_error_nonnull _ _ _ _ _ _ _ Hn Eh) as (l' & -> & ->).
  intros H; inversion H; subst. eauto.
Qed.

(* execute never lets an exception escape: the outcome is a response (or the model ran out of
   fuel / met an ill-formed schema) *)
Theorem execute_operation_never_raises op root l :
  execute_operation sch doc vs U cfg op root <> OExc l.
Proof.
  unfold execute_operation.
  destruct (root_type_of sch (o_kind op)); [|discriminate].
  destruct (collect_fields sch doc vs COLLECT_FUEL s (o_sels op) [] []) as [[fs v]|]; [|discriminate].
  match goal with |- context [match ?run st0 with _ => _ end] => destruct (run st0) as [[kv|lx|e] s1] end;
    discriminate.
Qed.

(* when an exception reaches the root, data is null and every one of its errors is reported *)
Theorem root_failure_nulls_data op root r :
  execute_operation sch doc vs U cfg op root = OVal r -> r_data r = PNone -> r_errors r <> [].
Proof.
  unfold execute_operation.
  destruct (root_type_of sch (o_kind op)) as [rt|]; [|discriminate].
  destruct (collect_fields sch doc vs COLLECT_FUEL rt (o_sels op) [] []) as [[fs v]|]; [|discriminate].
  pose proof (resolve_field_err_ok EXEC_FUEL) as Hrf.
  assert (Hrun : forall run, ok_at [] true run ->
            match run st0 with
            | (OVal kv, s) => OVal {| r_data := PDict kv; r_errors := s_errors s; r_log := s_log s |}
            | (OExc l, s) =>
                let s' := add_errors l s in
                OVal {| r_data := PNone; r_errors := s_errors s'; r_log := s_log s' |}
            | (OCrash e, _) => OCrash e
            end = OVal r -> r_data r = PNone -> r_errors r <> []).
  { intros run Hok. destruct (run st0) as [[kv|l|e] s] eqn:E; try discriminate.
    - intros H; inversion H; subst. cbn. discriminate.
    - destruct (Hok _ _ _ E) as [_ [Hne _]].
      intros H; inversion H; subst. cbn. intros _.
      destruct l; [congruence|]. cbn. destruct (s_errors s); discriminate. }
  destruct (o_kind op); apply Hrun;
    first [apply exec_fields_mixed_ok; exact Hrf | apply exec_fields_seq_ok; exact Hrf].
Qed.

End Errors.
