(* Abstract output positions (coercers/outputs/abstract_coercer.py under output_directives_coercer): the
   abstract type's on_pre_output_coercion hooks run on the resolved value, then -- once the runtime object
   type is known -- that object type's hooks, then the object's fields.  This is the object run of the
   concatenated instance list: what harness/c13.py prints for `iobj: Ifc` / `uobjs: [Un]`. *)
From Coq Require Import ZArith List String Bool Lia.
From TV Require Import Py.Prelude Model.Schema Model.Directives Model.DirectivesOut Proofs.DirectiveProofs Proofs.DirectiveOutProofs.
Import ListNotations.
Open Scope string_scope.
Open Scope list_scope.

Definition abstract_run (ads ods : list dinst) (fields : list (string * list dinst * oty)) : stage tval tag_event :=
  fun v log => let r := run_hooks ads PRE_OUTPUT v log in output_run (OObject ods fields) (fst r) (snd r).

Lemma apply_tags_app a b h v : apply_tags (a ++ b) h v = apply_tags b h (apply_tags a h v).
Proof. unfold apply_tags. now rewrite filter_app, fold_left_app. Qed.

Lemma events_app a b h : events (a ++ b) h = events a h ++ events b h.
Proof. unfold events. now rewrite filter_app, map_app. Qed.

Theorem abstract_run_is_object_run ads ods fields v log :
  abstract_run ads ods fields v log = output_run (OObject (ads ++ ods) fields) v log.
Proof.
  unfold abstract_run. rewrite run_hooks_pure. cbn [fst snd].
  rewrite !output_run_spec. cbn [output_coerce output_log].
  rewrite apply_tags_app, events_app. now rewrite <- !app_assoc.
Qed.

(* hence: each hook of the abstract type and each hook of the runtime object type is invoked exactly once for
   the value, the abstract type's first, in declaration order *)
Corollary abstract_position_log ads ods fields v log :
  exists rest, snd (abstract_run ads ods fields v log) = log ++ events ads PRE_OUTPUT ++ events ods PRE_OUTPUT ++ rest.
Proof.
  rewrite abstract_run_is_object_run, output_run_spec. cbn [snd output_log]. rewrite events_app.
  eexists. now rewrite <- !app_assoc.
Qed.
