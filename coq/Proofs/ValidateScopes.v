(* The per-operation / per-fragment bookkeeping of the validation walk (variables used, arguments whose value is a
   variable, fragments spread: `per_op`, `per_frag` of the shared context) is a PURE function of the document: each
   definition contributes the entries of its own selection tree, in document order, with the scope handed down the tree.
   Consequently the three variable rules (5.8.3 uses defined, 5.8.4 variables used, 5.8.5 usages allowed), which read only
   these books, are functions of the document alone. *)
From Coq Require Import ZArith List String Bool Lia.
From TV Require Import Py.Prelude Model.Schema Model.ImplValidate Model.SpecValidate Proofs.ValidateProofs
     Proofs.ValidateValues Proofs.ValidateSites Proofs.ValidateWalk Proofs.ValidateSpreads.
From RecordUpdate Require Import RecordSet.
Import ListNotations.
Import RecordSetNotations.
Open Scope list_scope.

(* ---------- association lists updated in place ---------- *)
Section Upd.
Context {A : Type}.
Variable d : A.
Lemma upd_assoc_ext (f g : A -> A) k l : (forall x, f x = g x) -> upd_assoc String.eqb k d f l = upd_assoc String.eqb k d g l.
Proof.
  intros H. induction l as [|[k' v] r IH]; cbn [upd_assoc]; [now rewrite H|].
  destruct (String.eqb k k'); [now rewrite H|now rewrite IH].
Qed.
Lemma upd_assoc_comp (f g : A -> A) k l :
  upd_assoc String.eqb k d g (upd_assoc String.eqb k d f l) = upd_assoc String.eqb k d (fun x => g (f x)) l.
Proof.
  induction l as [|[k' v] r IH]; cbn [upd_assoc].
  - now rewrite String.eqb_refl.
  - destruct (String.eqb k k') eqn:E; cbn [upd_assoc]; rewrite E; [reflexivity|now rewrite IH].
Qed.
Lemma upd_assoc_id k l : assoc k l <> None -> upd_assoc String.eqb k d (fun x => x) l = l.
Proof.
  induction l as [|[k' v] r IH]; cbn [assoc upd_assoc]; intros H; [now elim H|].
  destruct (String.eqb k k'); [reflexivity|now rewrite IH].
Qed.
Lemma upd_assoc_present (f : A -> A) k k' l : assoc k' l <> None \/ k' = k -> assoc k' (upd_assoc String.eqb k d f l) <> None.
Proof.
  induction l as [|[k0 v] r IH]; cbn [assoc upd_assoc]; intros H.
  - destruct H as [H| ->]; [now elim H|]. rewrite String.eqb_refl. discriminate.
  - destruct (String.eqb k k0) eqn:E; cbn [assoc].
    + destruct (String.eqb k' k0) eqn:E'; [discriminate|]. destruct H as [H| ->]; [exact H|]. congruence.
    + destruct (String.eqb k' k0); [discriminate|]. apply IH. exact H.
Qed.
End Upd.

Section Scopes.
Variable V : vschema.

(* what a step adds to the current scope *)
Definition delta := (list (string * loc) * list arguse * list string)%type.
Definition dnil : delta := ([], [], []).
Definition dapp (x y : delta) : delta :=
  (fst (fst x) ++ fst (fst y), snd (fst x) ++ snd (fst y), snd x ++ snd y).
Definition app_si (x : delta) (si : scope_info) : scope_info :=
  mk_si (si_used si ++ fst (fst x)) (si_args si ++ snd (fst x)) (si_spreads si ++ snd x).

Lemma app_si_nil si : app_si dnil si = si.
Proof. destruct si. unfold app_si, dnil. cbn. now rewrite !app_nil_r. Qed.
Lemma app_si_app x y si : app_si y (app_si x si) = app_si (dapp x y) si.
Proof. destruct si. unfold app_si, dapp. cbn. now rewrite !app_assoc. Qed.
Lemma dapp_nil_l x : dapp dnil x = x. Proof. destruct x as [[a b] c]. reflexivity. Qed.
Lemma dapp_nil_r x : dapp x dnil = x. Proof. destruct x as [[a b] c]. unfold dapp, dnil. cbn. now rewrite !app_nil_r. Qed.
Lemma dapp_assoc x y z : dapp (dapp x y) z = dapp x (dapp y z).
Proof. destruct x as [[a b] c], y as [[a' b'] c'], z as [[a2 b2] c2]. unfold dapp. cbn. now rewrite !app_assoc. Qed.

Definition sc_present (st : vctx) : Prop :=
  if in_operation st then assoc (cur_op st) (per_op st) <> None else assoc (cur_frag st) (per_frag st) <> None.

Definition tell (x : delta) (st st' : vctx) : Prop :=
  in_operation st' = in_operation st /\ cur_op st' = cur_op st /\ cur_frag st' = cur_frag st /\ in_vardefs st' = in_vardefs st /\
  per_op st' = (if in_operation st then upd_assoc String.eqb (cur_op st) empty_si (app_si x) (per_op st) else per_op st) /\
  per_frag st' = (if in_operation st then per_frag st else upd_assoc String.eqb (cur_frag st) empty_si (app_si x) (per_frag st)).

(* a step that does not touch the scopes *)
Definition frame (st st' : vctx) : Prop :=
  in_operation st' = in_operation st /\ cur_op st' = cur_op st /\ cur_frag st' = cur_frag st /\ in_vardefs st' = in_vardefs st /\
  per_op st' = per_op st /\ per_frag st' = per_frag st.

Lemma tell_of_frame st st' : sc_present st -> frame st st' -> tell dnil st st'.
Proof.
  unfold sc_present, tell. intros Hp (A & B & C & D & E & F). repeat split; try assumption.
  - rewrite E. destruct (in_operation st); [|reflexivity].
    rewrite (upd_assoc_ext empty_si (app_si dnil) (fun x => x) _ _ app_si_nil). now rewrite upd_assoc_id.
  - rewrite F. destruct (in_operation st); [reflexivity|].
    rewrite (upd_assoc_ext empty_si (app_si dnil) (fun x => x) _ _ app_si_nil). now rewrite upd_assoc_id.
Qed.

Lemma tell_trans x y a b c : tell x a b -> tell y b c -> tell (dapp x y) a c.
Proof.
  intros (A1 & B1 & C1 & D1 & E1 & F1) (A2 & B2 & C2 & D2 & E2 & F2). unfold tell.
  rewrite A2, B2, C2, D2, E2, F2, A1, B1, C1, E1, F1. repeat split; try assumption; try reflexivity.
  - destruct (in_operation a); [|reflexivity]. rewrite upd_assoc_comp. apply upd_assoc_ext. intros si. apply app_si_app.
  - destruct (in_operation a); [reflexivity|]. rewrite upd_assoc_comp. apply upd_assoc_ext. intros si. apply app_si_app.
Qed.

Lemma tell_present x a b : sc_present a -> tell x a b -> sc_present b.
Proof.
  unfold sc_present. intros Hp (A & B & C & _ & E & F). rewrite A, B, C, E, F.
  destruct (in_operation a); apply upd_assoc_present; now left.
Qed.

Lemma tell_frame_l x a b c : frame a b -> tell x b c -> tell x a c.
Proof.
  intros (A1 & B1 & C1 & D1 & E1 & F1) (A2 & B2 & C2 & D2 & E2 & F2). unfold tell.
  rewrite A2, B2, C2, D2, E2, F2, A1, B1, C1, D1, E1, F1. repeat split.
Qed.
Lemma tell_frame_r x a b c : tell x a b -> frame b c -> tell x a c.
Proof.
  intros (A1 & B1 & C1 & D1 & E1 & F1) (A2 & B2 & C2 & D2 & E2 & F2). unfold tell.
  rewrite A2, B2, C2, D2, E2, F2. repeat split; assumption.
Qed.
Lemma frame_refl st : frame st st. Proof. repeat split. Qed.
Lemma frame_trans a b c : frame a b -> frame b c -> frame a c.
Proof. intros (A1 & B1 & C1 & D1 & E1 & F1) (A2 & B2 & C2 & D2 & E2 & F2). repeat split; congruence. Qed.

(* the directive / field flags the recorded argument uses are stamped with *)
Definition dflags (st st' : vctx) : Prop :=
  in_directive st' = in_directive st /\ cur_directive st' = cur_directive st /\ cur_field st' = cur_field st.
Lemma dflags_refl st : dflags st st. Proof. repeat split. Qed.
Lemma dflags_trans a b c : dflags a b -> dflags b c -> dflags a c.
Proof. intros (A1 & B1 & C1) (A2 & B2 & C2). repeat split; congruence. Qed.

(* ---------- the steps ---------- *)
Definition T (x : delta) (st st' : vctx) : Prop := tell x st st' /\ dflags st st'.

Lemma T_trans x y a b c : T x a b -> T y b c -> T (dapp x y) a c.
Proof. intros [A1 D1] [A2 D2]. split; [exact (tell_trans _ _ _ _ _ A1 A2)|exact (dflags_trans _ _ _ D1 D2)]. Qed.
Lemma T_frame a b : sc_present a -> frame a b -> dflags a b -> T dnil a b.
Proof. intros Hp Hf Hd. split; [now apply tell_of_frame|exact Hd]. Qed.
Lemma T_present x a b : sc_present a -> T x a b -> sc_present b.
Proof. intros Hp [H _]. exact (tell_present _ _ _ Hp H). Qed.
Lemma T_vardefs x a b : T x a b -> in_vardefs b = in_vardefs a.
Proof. intros [(_ & _ & _ & D & _) _]. exact D. Qed.
Lemma T_cast x y a b : x = y -> T x a b -> T y a b. Proof. now intros ->. Qed.

Lemma emit_frame b r st : frame st (emit b r st) /\ dflags st (emit b r st).
Proof.
  unfold emit. destruct (aborted st || crashed st); [split; [apply frame_refl|apply dflags_refl]|].
  destruct r as [es|]; [|split; repeat split].
  destruct (b && negb match es with [] => true | _ :: _ => false end); split; repeat split.
Qed.
Lemma emit_T b r st : sc_present st -> T dnil st (emit b r st).
Proof. intros Hp. destruct (emit_frame b r st) as [F D]. now apply T_frame. Qed.
Lemma emit_ok_T es st : sc_present st -> T dnil st (emit_ok es st).
Proof. apply emit_T. Qed.

Lemma upd_scope_T f x st : (forall si, f si = app_si x si) -> T x st (upd_scope f st).
Proof.
  intros H. unfold upd_scope, T, tell, dflags. destruct (in_operation st) eqn:E; cbn; rewrite ?E; repeat split;
    apply upd_assoc_ext; exact H.
Qed.

Lemma record_var_T n l st : in_vardefs st = false -> T ([(n, l)], [], []) st (record_var n l st).
Proof.
  intros Hv. unfold record_var. rewrite Hv. apply upd_scope_T. intros [u a sp]. unfold app_si. cbn. now rewrite !app_nil_r.
Qed.

Fixpoint val_used (v : lit) : list (string * loc) :=
  match v with
  | LVar l n => [(n, l)]
  | LList _ items => (fix go (xs : list lit) := match xs with [] => [] | x :: r => val_used x ++ go r end) items
  | LObj _ fields => (fix go (xs : list (string * lit)) := match xs with [] => [] | (_, x) :: r => val_used x ++ go r end) fields
  | _ => []
  end.

Definition used_delta (u : list (string * loc)) : delta := (u, [], []).
Lemma used_delta_app a b : dapp (used_delta a) (used_delta b) = used_delta (a ++ b).
Proof. reflexivity. Qed.

Fixpoint walk_value_T path v {struct v} : forall st, in_vardefs st = false -> sc_present st ->
  T (used_delta (val_used v)) st (walk_value path v st).
Proof.
  destruct v; intros st Hv Hp; cbn [walk_value val_used];
    try (apply T_frame; [exact Hp|apply frame_refl|apply dflags_refl]).
  - now apply record_var_T.
  - revert st Hv Hp. induction items as [|x r IH]; intros st Hv Hp; [apply T_frame; [exact Hp|apply frame_refl|apply dflags_refl]|].
    pose proof (walk_value_T path x st Hv Hp) as H1.
    pose proof (IH (walk_value path x st) (eq_trans (T_vardefs _ _ _ H1) Hv) (T_present _ _ _ Hp H1)) as H2.
    exact (T_cast _ _ _ _ (used_delta_app _ _) (T_trans _ _ _ _ _ H1 H2)).
  - assert (H : forall st0, in_vardefs st0 = false -> sc_present st0 ->
              T (used_delta ((fix go (xs : list (string * lit)) := match xs with [] => [] | (_, x) :: r => val_used x ++ go r end) fields)) st0
                ((fix go (xs : list (string * lit)) (st : vctx) : vctx :=
                    match xs with [] => st | (_, x) :: r => go r (walk_value path x st) end) fields st0)).
    { induction fields as [|[k x] r IH]; intros st0 Hv0 Hp0; [apply T_frame; [exact Hp0|apply frame_refl|apply dflags_refl]|].
      pose proof (walk_value_T path x st0 Hv0 Hp0) as H1.
      pose proof (IH (walk_value path x st0) (eq_trans (T_vardefs _ _ _ H1) Hv0) (T_present _ _ _ Hp0 H1)) as H2.
      exact (T_cast _ _ _ _ (used_delta_app _ _) (T_trans _ _ _ _ _ H1 H2)). }
    pose proof (H st Hv Hp) as H1. destruct fields as [|kv r]; [exact H1|].
    exact (T_cast _ _ _ _ (dapp_nil_r _) (T_trans _ _ _ _ _ H1 (emit_ok_T _ _ (T_present _ _ _ Hp H1)))).
Qed.

(* ---------- arguments and directives ---------- *)
Definition where_of (st : vctx) : string := if in_directive st then cur_directive st else cur_field st.

Definition arg_uses (wh : string) (isdir : bool) (path : opath) (a : argument) : list arguse :=
  match a_value a with
  | LVar l vn => [{| au_arg := a_name a; au_var := vn; au_varloc := l; au_where := wh; au_isdir := isdir; au_path := path |}]
  | _ => []
  end.
Definition arg_delta wh isdir path (a : argument) : delta := (val_used (a_value a), arg_uses wh isdir path a, []).
Definition args_delta wh isdir path (args : list argument) : delta :=
  fold_right (fun a acc => dapp (arg_delta wh isdir path a) acc) dnil args.

Lemma walk_argument_T path a st : in_vardefs st = false -> sc_present st ->
  T (arg_delta (where_of st) (in_directive st) path a) st (walk_argument path a st).
Proof.
  intros Hv Hp. unfold walk_argument, arg_delta, arg_uses.
  pose proof (walk_value_T path (a_value a) st Hv Hp) as H1.
  set (st1 := walk_value path (a_value a) st) in *. clearbody st1.
  destruct (a_value a) eqn:Ea; try (eapply T_cast; [|exact H1]; reflexivity).
  destruct H1 as [Ht (D1 & D2 & D3)].
  eapply T_cast; [|eapply T_trans; [split; [exact Ht|repeat split; assumption]|
    apply (upd_scope_T _ ([], [{| au_arg := a_name a; au_var := name; au_varloc := l;
                                 au_where := where_of st; au_isdir := in_directive st; au_path := path |}], []))]].
  - reflexivity.
  - intros [u aa sp]. unfold app_si, where_of. cbn. rewrite D1, D2, D3, !app_nil_r. reflexivity.
Qed.

Lemma fold_arguments_T path args : forall st, in_vardefs st = false -> sc_present st ->
  T (args_delta (where_of st) (in_directive st) path args) st (fold_left (fun st a => walk_argument path a st) args st).
Proof.
  induction args as [|a r IH]; intros st Hv Hp; cbn [fold_left args_delta fold_right].
  - apply T_frame; [exact Hp|apply frame_refl|apply dflags_refl].
  - pose proof (walk_argument_T path a st Hv Hp) as H1.
    pose proof (IH (walk_argument path a st) (eq_trans (T_vardefs _ _ _ H1) Hv) (T_present _ _ _ Hp H1)) as H2.
    destruct H1 as [Ht1 Hd1]. assert (Hw : where_of (walk_argument path a st) = where_of st /\ in_directive (walk_argument path a st) = in_directive st).
    { destruct Hd1 as (D1 & D2 & D3). unfold where_of. rewrite D1, D2, D3. split; reflexivity. }
    destruct Hw as [Hw1 Hw2]. rewrite Hw1, Hw2 in H2. exact (T_trans _ _ _ _ _ (conj Ht1 Hd1) H2).
Qed.

Lemma walk_arguments_T path args st : in_vardefs st = false -> sc_present st ->
  T (args_delta (where_of st) (in_directive st) path args) st (walk_arguments path args st).
Proof.
  intros Hv Hp. unfold walk_arguments. destruct args as [|a0 r0].
  - apply T_frame; [exact Hp|apply frame_refl|apply dflags_refl].
  - pose proof (fold_arguments_T path (a0 :: r0) st Hv Hp) as H1.
    exact (T_cast _ _ _ _ (dapp_nil_r _) (T_trans _ _ _ _ _ H1 (emit_ok_T _ _ (T_present _ _ _ Hp H1)))).
Qed.

Definition dir_delta (path : opath) (d : directive) : delta := args_delta (d_name d) true path (dir_args d).
Definition dirs_delta (path : opath) (ds : list directive) : delta :=
  fold_right (fun d acc => dapp (dir_delta path d) acc) dnil ds.

(* tell + what later steps need: still outside variable definitions, the scope entry still there *)
Definition told (x : delta) (st st' : vctx) : Prop := tell x st st' /\ sc_present st'.

Lemma told_trans x y a b c : told x a b -> told y b c -> told (dapp x y) a c.
Proof. intros [A1 P1] [A2 P2]. split; [exact (tell_trans _ _ _ _ _ A1 A2)|exact P2]. Qed.
Lemma told_vardefs x a b : told x a b -> in_vardefs b = in_vardefs a.
Proof. intros [(_ & _ & _ & D & _) _]. exact D. Qed.
Lemma told_cast x y a b : x = y -> told x a b -> told y a b. Proof. now intros ->. Qed.
Lemma told_of_T x a b : sc_present a -> T x a b -> told x a b.
Proof. intros Hp H. split; [exact (proj1 H)|exact (T_present _ _ _ Hp H)]. Qed.
Lemma told_frame a b : sc_present a -> frame a b -> told dnil a b.
Proof.
  intros Hp Hf. split; [now apply tell_of_frame|]. destruct Hf as (A & B & C & _ & E & F). unfold sc_present in *. now rewrite A, B, C, E, F.
Qed.

Lemma told_emit x a b bb r : told x a b -> told x a (emit bb r b).
Proof.
  intros H. eapply told_cast; [apply dapp_nil_r|]. eapply told_trans; [exact H|].
  apply told_of_T; [exact (proj2 H)|apply emit_T; exact (proj2 H)].
Qed.
Lemma told_emit_ok x a b es : told x a b -> told x a (emit_ok es b).
Proof. apply told_emit. Qed.

Lemma walk_directive_told path d st : in_vardefs st = false -> sc_present st ->
  told (dir_delta path d) st (walk_directive V path d st).
Proof.
  intros Hv Hp. unfold walk_directive.
  set (st1 := st <| in_directive := true |> <| cur_directive := d_name d |>).
  assert (F1 : frame st st1) by (repeat split).
  assert (P1 : sc_present st1) by exact Hp.
  pose proof (walk_arguments_T path (dir_args d) st1 Hv P1) as H2.
  change (where_of st1) with (d_name d) in H2. change (in_directive st1) with true in H2.
  set (st2 := walk_arguments path (dir_args d) st1) in *.
  assert (H2' : told (dir_delta path d) st st2).
  { split; [exact (tell_frame_l _ _ _ _ F1 (proj1 H2))|exact (T_present _ _ _ P1 H2)]. }
  set (st3 := st2 <| in_directive := false |>).
  assert (H3 : told (dir_delta path d) st st3).
  { destruct H2' as [Ht Hpp]. split; [exact (tell_frame_r _ _ _ _ Ht ltac:(repeat split))|exact Hpp]. }
  apply told_emit_ok, told_emit_ok, told_emit_ok, told_emit. exact H3.
Qed.

Lemma walk_directives_told path ds st : in_vardefs st = false -> sc_present st ->
  told (dirs_delta path ds) st (walk_directives V path ds st).
Proof.
  intros Hv Hp. unfold walk_directives. destruct ds as [|d0 r0]; [now apply told_frame; [|apply frame_refl]|].
  apply told_emit_ok. generalize (d0 :: r0). intros ds. revert st Hv Hp.
  induction ds as [|d r IH]; intros st Hv Hp; cbn [fold_left dirs_delta fold_right]; [now apply told_frame; [|apply frame_refl]|].
  pose proof (walk_directive_told path d st Hv Hp) as H1.
  exact (told_trans _ _ _ _ _ H1 (IH _ (eq_trans (told_vardefs _ _ _ H1) Hv) (proj2 H1))).
Qed.

(* ---------- selections ---------- *)
Definition spread_delta (name : string) : delta := ([], [], [name]).

Fixpoint sel_delta (scope : option string) (path : opath) (s : selection) {struct s} : delta :=
  match s with
  | SField _ _ name args dirs sels =>
      let path' := path_push path name in
      dapp (args_delta (show_opt scope ++ "." ++ name)%string false path' args)
        (dapp (dirs_delta path' dirs)
           ((fix go (xs : list selection) : delta :=
               match xs with [] => dnil | x :: r => dapp (sel_delta (field_type_name V scope name) path' x) (go r) end) sels))
  | SSpread _ name dirs => dapp (dirs_delta path dirs) (spread_delta name)
  | SInline _ tc dirs sels =>
      dapp (dirs_delta path dirs)
        ((fix go (xs : list selection) : delta :=
            match xs with [] => dnil | x :: r => dapp (sel_delta (inner_scope scope tc) path x) (go r) end) sels)
  end.
Definition sels_delta scope path (sels : list selection) : delta :=
  fold_right (fun x acc => dapp (sel_delta scope path x) acc) dnil sels.

Lemma told_frame_l x a b c : frame a b -> told x b c -> told x a c.
Proof. intros F [Ht Hp]. split; [exact (tell_frame_l _ _ _ _ F Ht)|exact Hp]. Qed.
Lemma told_frame_r x a b c : told x a b -> frame b c -> told x a c.
Proof.
  intros [Ht Hp] F. split; [exact (tell_frame_r _ _ _ _ Ht F)|].
  destruct F as (A & B & C & _ & E & G). unfold sc_present in *. now rewrite A, B, C, E, G.
Qed.

Fixpoint walk_selection_told path s {struct s} : forall st, in_vardefs st = false -> sc_present st ->
  told (sel_delta (parent_type st) path s) st (walk_selection V path s st).
Proof.
  destruct s as [l alias name args dirs sels|l name dirs|l tc dirs sels]; intros st Hv Hp; cbn [walk_selection sel_delta].
  - (* field *)
    set (saved := parent_type st). set (path' := path_push path name). set (ftn := field_type_name V saved name).
    set (cf := (show_opt saved ++ "." ++ name)%string).
    set (st1 := st <| parent_type := ftn |> <| in_directive := false |> <| cur_field := cf |>).
    assert (F1 : frame st st1) by (repeat split).
    pose proof (walk_arguments_T path' args st1 Hv Hp) as H2.
    change (where_of st1) with cf in H2. change (in_directive st1) with false in H2.
    set (st2 := walk_arguments path' args st1) in *.
    assert (T2 : told (args_delta cf false path' args) st st2).
    { split; [exact (tell_frame_l _ _ _ _ F1 (proj1 H2))|exact (T_present _ st1 _ Hp H2)]. }
    pose proof (walk_directives_told path' dirs st2 (eq_trans (told_vardefs _ _ _ T2) Hv) (proj2 T2)) as T3.
    set (st3 := walk_directives V path' dirs st2) in *.
    assert (P3 : parent_type st3 = ftn).
    { unfold st3, st2. rewrite (proj1 (walk_directives_K V path' dirs _)), (proj1 (walk_arguments_K path' args st1)). reflexivity. }
    assert (Hin : forall sels0 st0, parent_type st0 = ftn -> in_vardefs st0 = false -> sc_present st0 ->
              told ((fix go (xs : list selection) : delta :=
                       match xs with [] => dnil | x :: r => dapp (sel_delta ftn path' x) (go r) end) sels0)
                   st0 ((fix go (xs : list selection) (st : vctx) : vctx :=
                           match xs with [] => st | x :: r => go r (walk_selection V path' x st) end) sels0 st0) /\
              parent_type ((fix go (xs : list selection) (st : vctx) : vctx :=
                           match xs with [] => st | x :: r => go r (walk_selection V path' x st) end) sels0 st0) = ftn).
    { clear - walk_selection_told. induction sels0 as [|x r IH]; intros st0 Hpt Hv0 Hp0.
      - split; [apply told_frame; [exact Hp0|apply frame_refl]|exact Hpt].
      - pose proof (walk_selection_told path' x st0 Hv0 Hp0) as Hx. rewrite Hpt in Hx.
        pose proof (proj2 (walk_selection_obs V path' x st0)) as Hpx.
        destruct (IH (walk_selection V path' x st0) (eq_trans Hpx Hpt) (eq_trans (told_vardefs _ _ _ Hx) Hv0) (proj2 Hx)) as [Hr Hpr].
        split; [exact (told_trans _ _ _ _ _ Hx Hr)|exact Hpr]. }
    destruct (Hin sels st3 P3 (eq_trans (told_vardefs _ _ _ T3) (eq_trans (told_vardefs _ _ _ T2) Hv)) (proj2 T3)) as [T4 P4].
    set (st4 := (fix go (xs : list selection) (st : vctx) : vctx :=
                   match xs with [] => st | x :: r => go r (walk_selection V path' x st) end) sels st3) in *.
    pose proof (told_trans _ _ _ _ _ T2 (told_trans _ _ _ _ _ T3 T4)) as T5.
    assert (T6 : told (dapp (args_delta cf false path' args)
                        (dapp (dirs_delta path' dirs)
                           ((fix go (xs : list selection) : delta :=
                               match xs with [] => dnil | x :: r => dapp (sel_delta ftn path' x) (go r) end) sels)))
                   st (st4 <| parent_type := saved |>)).
    { apply (told_frame_r _ _ _ _ T5). repeat split. }
    unfold field_rules. apply told_emit_ok, told_emit_ok, told_emit, told_emit_ok, told_emit_ok, told_emit_ok. exact T6.
  - (* spread *)
    pose proof (walk_directives_told path dirs st Hv Hp) as T1.
    set (st1 := walk_directives V path dirs st) in *.
    pose proof (told_emit_ok _ _ _ (valid_locations_errors V path "FRAGMENT_SPREAD" l dirs) T1) as T2.
    set (st2 := emit_ok (valid_locations_errors V path "FRAGMENT_SPREAD" l dirs) st1) in *.
    set (st3 := st2 <| frag_spreads ::= fun x => x ++ [(name, l)] |>
                    <| spreaded_in ::= upd_assoc opt_str_eqb (parent_type st2) [] (fun x => x ++ [(name, l, path)]) |>).
    assert (T3 : told (dirs_delta path dirs) st st3) by (apply (told_frame_r _ _ _ _ T2); repeat split).
    eapply told_trans; [exact T3|]. apply told_of_T; [exact (proj2 T3)|].
    apply upd_scope_T. intros [u a sp]. unfold app_si, spread_delta. cbn. now rewrite !app_nil_r.
  - (* inline fragment *)
    set (saved := parent_type st). set (inner := inner_scope saved tc).
    set (st1 := match tc with Some t => st <| parent_type := Some t |> | None => st end).
    assert (F1 : frame st st1 /\ parent_type st1 = inner) by (unfold st1, inner, inner_scope; destruct tc; repeat split).
    destruct F1 as [F1 P1].
    assert (Hp1 : sc_present st1) by (unfold st1; destruct tc; exact Hp).
    assert (Hv1 : in_vardefs st1 = false) by (unfold st1; destruct tc; exact Hv).
    pose proof (walk_directives_told path dirs st1 Hv1 Hp1) as T2.
    set (st2 := walk_directives V path dirs st1) in *.
    assert (P2 : parent_type st2 = inner) by (unfold st2; rewrite (proj1 (walk_directives_K V path dirs st1)); exact P1).
    assert (Hin : forall sels0 st0, parent_type st0 = inner -> in_vardefs st0 = false -> sc_present st0 ->
              told ((fix go (xs : list selection) : delta :=
                       match xs with [] => dnil | x :: r => dapp (sel_delta inner path x) (go r) end) sels0)
                   st0 ((fix go (xs : list selection) (st : vctx) : vctx :=
                           match xs with [] => st | x :: r => go r (walk_selection V path x st) end) sels0 st0)).
    { clear - walk_selection_told. induction sels0 as [|x r IH]; intros st0 Hpt Hv0 Hp0.
      - apply told_frame; [exact Hp0|apply frame_refl].
      - pose proof (walk_selection_told path x st0 Hv0 Hp0) as Hx. rewrite Hpt in Hx.
        pose proof (proj2 (walk_selection_obs V path x st0)) as Hpx.
        exact (told_trans _ _ _ _ _ Hx (IH (walk_selection V path x st0) (eq_trans Hpx Hpt) (eq_trans (told_vardefs _ _ _ Hx) Hv0) (proj2 Hx))). }
    pose proof (Hin sels st2 P2 (eq_trans (told_vardefs _ _ _ T2) Hv1) (proj2 T2)) as T3.
    set (st3 := (fix go (xs : list selection) (st : vctx) : vctx :=
                   match xs with [] => st | x :: r => go r (walk_selection V path x st) end) sels st2) in *.
    pose proof (told_frame_l _ _ _ _ F1 (told_trans _ _ _ _ _ T2 T3)) as T4.
    match goal with |- told _ _ (?x <| parent_type := saved |>) =>
      match x with ?y <| inlined_in ::= ?f |> => set (st6 := y) end end.
    assert (T6 : told (dapp (dirs_delta path dirs)
                         ((fix go (xs : list selection) : delta :=
                             match xs with [] => dnil | x :: r => dapp (sel_delta inner path x) (go r) end) sels)) st st6).
    { unfold st6. apply told_emit_ok, told_emit_ok, told_emit_ok. exact T4. }
    apply (told_frame_r _ _ _ _ T6). repeat split.
Qed.

(* ---------- definitions ---------- *)
Lemma walk_selections_told path sels : forall st, in_vardefs st = false -> sc_present st ->
  told (sels_delta (parent_type st) path sels) st (walk_selections V path sels st).
Proof.
  unfold walk_selections, sels_delta. induction sels as [|x r IH]; intros st Hv Hp; cbn [fold_left fold_right].
  - apply told_frame; [exact Hp|apply frame_refl].
  - pose proof (walk_selection_told path x st Hv Hp) as Hx.
    pose proof (proj2 (walk_selection_obs V path x st)) as Hpx.
    pose proof (IH (walk_selection V path x st) (eq_trans (told_vardefs _ _ _ Hx) Hv) (proj2 Hx)) as Hr. rewrite Hpx in Hr.
    exact (told_trans _ _ _ _ _ Hx Hr).
Qed.

(* inside variable definitions nothing is recorded *)
Lemma record_var_frame_vd n l st : in_vardefs st = true -> frame st (record_var n l st).
Proof. intros H. unfold record_var. rewrite H. apply frame_refl. Qed.
Fixpoint walk_value_frame_vd path v {struct v} : forall st, in_vardefs st = true -> frame st (walk_value path v st).
Proof.
  destruct v; intros st Hv; cbn [walk_value]; try apply frame_refl.
  - now apply record_var_frame_vd.
  - revert st Hv. induction items as [|x r IH]; intros st Hv; [apply frame_refl|].
    pose proof (walk_value_frame_vd path x st Hv) as H1.
    refine (frame_trans _ _ _ H1 (IH _ _)). destruct H1 as (_ & _ & _ & D & _). congruence.
  - assert (H : forall st0, in_vardefs st0 = true -> frame st0 ((fix go (xs : list (string * lit)) (st : vctx) : vctx :=
                  match xs with [] => st | (_, x) :: r => go r (walk_value path x st) end) fields st0)).
    { induction fields as [|[k x] r IH]; intros st0 Hv0; [apply frame_refl|].
      pose proof (walk_value_frame_vd path x st0 Hv0) as H1.
      refine (frame_trans _ _ _ H1 (IH _ _)). destruct H1 as (_ & _ & _ & D & _). congruence. }
    destruct fields as [|kv r]; [apply frame_refl|]. exact (frame_trans _ _ _ (H st Hv) (proj1 (emit_frame _ _ _))).
Qed.

Lemma walk_vardefs_frame vds st : in_vardefs st = false ->
  in_operation (walk_vardefs V vds st) = in_operation st /\ cur_op (walk_vardefs V vds st) = cur_op st /\
  cur_frag (walk_vardefs V vds st) = cur_frag st /\ in_vardefs (walk_vardefs V vds st) = false /\
  per_op (walk_vardefs V vds st) = per_op st /\ per_frag (walk_vardefs V vds st) = per_frag st.
Proof.
  intros Hv. unfold walk_vardefs. destruct vds as [|v0 r0]; [repeat split; exact Hv|].
  set (st1 := st <| in_vardefs := true |>).
  assert (H : forall vds0 st0, in_vardefs st0 = true -> frame st0 (fold_left (fun st vd => walk_vardef V vd st) vds0 st0)).
  { induction vds0 as [|vd r IH]; intros st0 Hv0; [apply frame_refl|]. cbn [fold_left].
    assert (H1 : frame st0 (walk_vardef V vd st0)).
    { unfold walk_vardef. destruct (v_default vd) as [dl|].
      - exact (frame_trans _ _ _ (walk_value_frame_vd None dl st0 Hv0) (proj1 (emit_frame _ _ _))).
      - exact (proj1 (emit_frame _ _ _)). }
    refine (frame_trans _ _ _ H1 (IH _ _)). destruct H1 as (_ & _ & _ & D & _). congruence. }
  pose proof (H (v0 :: r0) st1 eq_refl) as (A & B & C & D & E & F).
  destruct (emit_frame false (Some (uniq_errors "variable-uniqueness" v_name v_loc None (v0 :: r0)))
              ((fold_left (fun st vd => walk_vardef V vd st) (v0 :: r0) st1) <| in_vardefs := false |>)) as [(A' & B' & C' & D' & E' & F') _].
  unfold emit_ok. rewrite A', B', C', D', E', F'. cbn. repeat split; assumption.
Qed.

Definition op_delta (o : operation) : delta :=
  dapp (dirs_delta None (o_dirs o)) (sels_delta (op_root V (o_kind o)) None (o_sels o)).
Definition fr_delta (f : fragment) : delta :=
  dapp (dirs_delta None (fr_dirs f)) (sels_delta (Some (fr_type f)) None (fr_sels f)).

Lemma walk_operation_scopes o st : in_vardefs st = false ->
  per_op (walk_operation V o st) = upd_assoc String.eqb (op_key o) empty_si (app_si (op_delta o)) (per_op st) /\
  per_frag (walk_operation V o st) = per_frag st /\ in_vardefs (walk_operation V o st) = false.
Proof.
  intros Hv. unfold walk_operation.
  set (st1 := st <| parent_type := op_root V (o_kind o) |> <| in_operation := true |> <| cur_op := op_key o |>
                 <| per_op ::= upd_assoc String.eqb (op_key o) empty_si (fun x => x) |>).
  destruct (walk_vardefs_frame (o_vars o) st1 Hv) as (A & B & C & D & E & F).
  set (st2 := walk_vardefs V (o_vars o) st1) in *.
  assert (P2 : sc_present st2).
  { unfold sc_present. rewrite A, B, E. cbn. apply upd_assoc_present. now right. }
  assert (Pt2 : parent_type st2 = op_root V (o_kind o)) by (unfold st2; rewrite (proj1 (walk_vardefs_K V (o_vars o) st1)); reflexivity).
  pose proof (walk_directives_told None (o_dirs o) st2 D P2) as T3.
  set (st3 := walk_directives V None (o_dirs o) st2) in *.
  assert (Pt3 : parent_type st3 = op_root V (o_kind o)) by (unfold st3; rewrite (proj1 (walk_directives_K V None (o_dirs o) st2)); exact Pt2).
  pose proof (walk_selections_told None (o_sels o) st3 (eq_trans (told_vardefs _ _ _ T3) D) (proj2 T3)) as T4. rewrite Pt3 in T4.
  pose proof (told_emit_ok _ _ _ (valid_locations_errors V None (op_loc_name (o_kind o)) (o_loc o) (o_dirs o)) (told_trans _ _ _ _ _ T3 T4))
    as [(A5 & B5 & C5 & D5 & E5 & F5) _].
  fold (op_delta o) in E5, F5. rewrite E5, F5, D5, A, B, E, F, D. cbn. repeat split.
  rewrite upd_assoc_comp. apply upd_assoc_ext. reflexivity.
Qed.

Lemma walk_fragment_scopes f st : in_vardefs st = false ->
  per_frag (walk_fragment V f st) = upd_assoc String.eqb (fr_name f) empty_si (app_si (fr_delta f)) (per_frag st) /\
  per_op (walk_fragment V f st) = per_op st /\ in_vardefs (walk_fragment V f st) = false.
Proof.
  intros Hv. unfold walk_fragment.
  set (st1 := st <| parent_type := Some (fr_type f) |> <| in_operation := false |> <| cur_frag := fr_name f |>
                 <| per_frag ::= upd_assoc String.eqb (fr_name f) empty_si (fun x => x) |>).
  assert (P1 : sc_present st1) by (unfold sc_present; cbn; apply upd_assoc_present; now right).
  pose proof (walk_directives_told None (fr_dirs f) st1 Hv P1) as T2.
  set (st2 := walk_directives V None (fr_dirs f) st1) in *.
  assert (Pt2 : parent_type st2 = Some (fr_type f)) by (unfold st2; rewrite (proj1 (walk_directives_K V None (fr_dirs f) st1)); reflexivity).
  pose proof (walk_selections_told None (fr_sels f) st2 (eq_trans (told_vardefs _ _ _ T2) Hv) (proj2 T2)) as T3. rewrite Pt2 in T3.
  pose proof (told_trans _ _ _ _ _ T2 T3) as T4. fold (fr_delta f) in T4.
  set (st3 := walk_selections V None (fr_sels f) st2) in *.
  match goal with |- per_frag (?x <| parent_type := _ |>) = _ /\ _ => set (st6 := x) end.
  assert (T6 : told (fr_delta f) st1 st6) by (unfold st6; apply told_emit_ok, told_emit_ok, told_emit_ok; exact T4).
  destruct T6 as [(A6 & B6 & C6 & D6 & E6 & F6) _]. cbn. rewrite E6, F6, D6. cbn. repeat split; [|exact Hv].
  rewrite upd_assoc_comp. apply upd_assoc_ext. reflexivity.
Qed.

(* the books of the whole document *)
Definition doc_per_op (doc : document) : list (string * scope_info) :=
  fold_left (fun acc o => upd_assoc String.eqb (op_key o) empty_si (app_si (op_delta o)) acc) (operations doc) [].
Definition doc_per_frag (doc : document) : list (string * scope_info) :=
  fold_left (fun acc f => upd_assoc String.eqb (fr_name f) empty_si (app_si (fr_delta f)) acc) (fragments doc) [].

Theorem walked_scopes doc : per_op (walked V doc) = doc_per_op doc /\ per_frag (walked V doc) = doc_per_frag doc.
Proof.
  unfold walked, doc_per_op, doc_per_frag.
  assert (Hops : forall ops st, in_vardefs st = false ->
            per_op (fold_left (fun st o => walk_operation V o st) ops st) =
              fold_left (fun acc o => upd_assoc String.eqb (op_key o) empty_si (app_si (op_delta o)) acc) ops (per_op st) /\
            per_frag (fold_left (fun st o => walk_operation V o st) ops st) = per_frag st /\
            in_vardefs (fold_left (fun st o => walk_operation V o st) ops st) = false).
  { induction ops as [|o r IH]; intros st Hv; [repeat split; exact Hv|]. cbn [fold_left].
    destruct (walk_operation_scopes o st Hv) as (A & B & C). destruct (IH _ C) as (A' & B' & C'). rewrite A', B', A, B. repeat split. exact C'. }
  assert (Hfrs : forall frs st, in_vardefs st = false ->
            per_frag (fold_left (fun st f => walk_fragment V f st) frs st) =
              fold_left (fun acc f => upd_assoc String.eqb (fr_name f) empty_si (app_si (fr_delta f)) acc) frs (per_frag st) /\
            per_op (fold_left (fun st f => walk_fragment V f st) frs st) = per_op st).
  { induction frs as [|f r IH]; intros st Hv; [split; reflexivity|]. cbn [fold_left].
    destruct (walk_fragment_scopes f st Hv) as (A & B & C). destruct (IH _ C) as (A' & B'). rewrite A', B', A, B. split; reflexivity. }
  destruct (Hops (operations doc) init_ctx eq_refl) as (A & B & C).
  destruct (Hfrs (fragments doc) _ C) as (A' & B'). rewrite A', B', A, B. split; reflexivity.
Qed.

(* ---------- the three variable rules read nothing else ---------- *)
Lemma scope_collect_books {A} (st st' : vctx) (get : scope_info -> list A) o :
  per_op st = per_op st' -> per_frag st = per_frag st' -> scope_collect st get o = scope_collect st' get o.
Proof. intros H1 H2. unfold scope_collect. now rewrite H1, H2. Qed.

Lemma fold_left_ext' {X Y} (f g : X -> Y -> X) l : (forall a b, f a b = g a b) -> forall a, fold_left f l a = fold_left g l a.
Proof. intros H. induction l as [|y l IH]; intros a; [reflexivity|]. cbn [fold_left]. now rewrite H, IH. Qed.

Definition books_ctx (doc : document) : vctx :=
  init_ctx <| per_op := doc_per_op doc |> <| per_frag := doc_per_frag doc |>.

Theorem variable_rules_pure doc :
  uses_defined_rule (walked V doc) (operations doc) = uses_defined_rule (books_ctx doc) (operations doc) /\
  variables_used_rule (walked V doc) (operations doc) = variables_used_rule (books_ctx doc) (operations doc) /\
  usages_allowed_rule V (walked V doc) (operations doc) = usages_allowed_rule V (books_ctx doc) (operations doc).
Proof.
  destruct (walked_scopes doc) as [Ho Hf].
  assert (H1 : per_op (walked V doc) = per_op (books_ctx doc)) by (rewrite Ho; reflexivity).
  assert (H2 : per_frag (walked V doc) = per_frag (books_ctx doc)) by (rewrite Hf; reflexivity).
  unfold uses_defined_rule, variables_used_rule, usages_allowed_rule.
  repeat split; apply fold_left_ext'; intros acc o; now rewrite (scope_collect_books _ _ _ o H1 H2).
Qed.

End Scopes.
