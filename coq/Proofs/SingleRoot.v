(* The single-root-field rule (5.2.3.1) as the engine implements it (Model/ImplValidate.v
   response_keys / single_root_sels / single_root_rule):
   REFUSES a subscription whose root selection set reaches two different response keys through
   fields and inline fragments, and ACCEPTS one whose every reachable root field -- through inline
   fragments and fragment spreads, however often written -- has the same response key. *)
From Coq Require Import ZArith List String Bool Lia.
From TV Require Import Py.Prelude Model.Schema Model.ImplValidate Proofs.ValidateProofs.
Import ListNotations.
Open Scope string_scope.
Open Scope list_scope.

Definition fkey (alias : option string) (name : string) : string := match alias with Some a => a | None => name end.

(* response keys / spread names reachable through inline fragments only *)
Fixpoint inline_keys_s (s : selection) : list string :=
  match s with
  | SField _ alias name _ _ _ => [fkey alias name]
  | SSpread _ _ _ => []
  | SInline _ _ _ sub => (fix go (xs : list selection) := match xs with [] => [] | x :: r => inline_keys_s x ++ go r end) sub
  end.
Definition inline_keys (sels : list selection) : list string := flat_map inline_keys_s sels.

Fixpoint inline_spreads_s (s : selection) : list string :=
  match s with
  | SField _ _ _ _ _ _ => []
  | SSpread _ n _ => [n]
  | SInline _ _ _ sub => (fix go (xs : list selection) := match xs with [] => [] | x :: r => inline_spreads_s x ++ go r end) sub
  end.
Definition inline_spreads (sels : list selection) : list string := flat_map inline_spreads_s sels.

Lemma inline_keys_inline l tc ds sub : inline_keys_s (SInline l tc ds sub) = inline_keys sub.
Proof. cbn [inline_keys_s]. unfold inline_keys. induction sub as [|x r IH]; [reflexivity|]. cbn [flat_map]. now rewrite IH. Qed.
Lemma inline_spreads_inline l tc ds sub : inline_spreads_s (SInline l tc ds sub) = inline_spreads sub.
Proof. cbn [inline_spreads_s]. unfold inline_spreads. induction sub as [|x r IH]; [reflexivity|]. cbn [flat_map]. now rewrite IH. Qed.

(* fragments reachable from a selection set *)
Inductive reach (frs : list fragment) : list selection -> fragment -> Prop :=
| reach_direct sels n f : In n (inline_spreads sels) -> find_fragment frs n = Some f -> reach frs sels f
| reach_step sels g f : reach frs sels g -> reach frs (fr_sels g) f -> reach frs sels f.

Definition reachable_key (frs : list fragment) (sels : list selection) (k : string) : Prop :=
  In k (inline_keys sels) \/ exists f, reach frs sels f /\ In k (inline_keys (fr_sels f)).

Lemma inline_spreads_app a b : inline_spreads (a ++ b) = inline_spreads a ++ inline_spreads b.
Proof. unfold inline_spreads. apply flat_map_app. Qed.
Lemma inline_keys_app a b : inline_keys (a ++ b) = inline_keys a ++ inline_keys b.
Proof. unfold inline_keys. apply flat_map_app. Qed.

Lemma reach_app_l frs a b f : reach frs a f -> reach frs (a ++ b) f.
Proof.
  induction 1 as [sels0 n f Hin Hf|sels0 g f Hg IHg Hf IHf].
  - eapply reach_direct; [|exact Hf]. rewrite inline_spreads_app. apply in_or_app. now left.
  - eapply reach_step; eauto.
Qed.
Lemma reach_app_r frs a b f : reach frs b f -> reach frs (a ++ b) f.
Proof.
  induction 1 as [sels0 n f Hin Hf|sels0 g f Hg IHg Hf IHf].
  - eapply reach_direct; [|exact Hf]. rewrite inline_spreads_app. apply in_or_app. now right.
  - eapply reach_step; eauto.
Qed.
Lemma reach_cons_l frs s sels f : reach frs [s] f -> reach frs (s :: sels) f.
Proof. apply (reach_app_l frs [s] sels f). Qed.
Lemma reach_cons_r frs s sels f : reach frs sels f -> reach frs (s :: sels) f.
Proof. apply (reach_app_r frs [s] sels f). Qed.
Lemma reach_inline frs l tc ds sub f : reach frs sub f -> reach frs [SInline l tc ds sub] f.
Proof.
  induction 1 as [sels0 n f Hin Hf|sels0 g f Hg IHg Hf IHf].
  - eapply reach_direct; [|exact Hf]. unfold inline_spreads at 1. cbn [flat_map]. rewrite app_nil_r, inline_spreads_inline. exact Hin.
  - eapply reach_step; eauto.
Qed.

Lemma reachable_key_cons_l frs s sels k : reachable_key frs [s] k -> reachable_key frs (s :: sels) k.
Proof.
  intros [H|[f [Hr Hk]]].
  - left. unfold inline_keys in *. cbn [flat_map] in *. rewrite app_nil_r in H. apply in_or_app. now left.
  - right. exists f. split; [now apply reach_cons_l|exact Hk].
Qed.
Lemma reachable_key_cons_r frs s sels k : reachable_key frs sels k -> reachable_key frs (s :: sels) k.
Proof.
  intros [H|[f [Hr Hk]]].
  - left. unfold inline_keys in *. cbn [flat_map]. apply in_or_app. now right.
  - right. exists f. split; [now apply reach_cons_r|exact Hk].
Qed.

(* ---------- what response_keys collects ---------- *)
(* soundness: every collected key was there before or is reachable; completeness for inline keys: every
   key reachable through fields and inline fragments is collected; the accumulator only grows *)
Lemma response_keys_facts frs : forall fuel sels visited keys v' k',
  response_keys fuel frs sels visited keys = Some (v', k') ->
  (forall k, In k k' -> In k keys \/ reachable_key frs sels k) /\
  (forall k, In k keys \/ In k (inline_keys sels) -> In k k') /\
  (NoDup keys -> NoDup k').
Proof.
  induction fuel as [|fuel IH]; intros sels visited keys v' k' H; [discriminate|].
  cbn [response_keys] in H. revert visited keys H.
  induction sels as [|s sels IHs]; intros visited keys H.
  - injection H as <- <-. repeat split; auto. intros k [Hk|[]]; exact Hk.
  - destruct s as [l alias name args ds sub|l n ds|l tc ds sub].
    + (* field *)
      specialize (IHs visited (if mem_str (fkey alias name) keys then keys else fkey alias name :: keys) H).
      destruct IHs as [Hs [Hc Hn]]. split; [|split].
      * intros k Hk. destruct (Hs k Hk) as [Hin|Hr].
        -- destruct (mem_str (fkey alias name) keys); [now left|]. destruct Hin as [<-|Hin]; [|now left].
           right. left. unfold inline_keys. cbn [flat_map inline_keys_s]. now left.
        -- right. now apply reachable_key_cons_r.
      * intros k [Hk|Hk]; apply Hc.
        -- left. destruct (mem_str (fkey alias name) keys); [exact Hk|now right].
        -- unfold inline_keys in Hk. cbn [flat_map inline_keys_s app] in Hk. destruct Hk as [<-|Hk]; [|now right].
           left. destruct (mem_str (fkey alias name) keys) eqn:E; [now apply mem_str_iff|now left].
      * intros Hnd. apply Hn. destruct (mem_str (fkey alias name) keys) eqn:E; [exact Hnd|].
        constructor; [|exact Hnd]. intros Hin. apply mem_str_iff in Hin. congruence.
    + (* spread *)
      destruct (mem_str n visited).
      * destruct (IHs visited keys H) as [Hs [Hc Hn]]. split; [|split]; [| |exact Hn].
        -- intros k Hk. destruct (Hs k Hk); [now left|right; now apply reachable_key_cons_r].
        -- intros k [Hk|Hk]; apply Hc; [now left|]. right. exact Hk.
      * destruct (find_fragment frs n) as [f|] eqn:Hf.
        -- destruct (response_keys fuel frs (fr_sels f) (n :: visited) keys) as [[v1 k1]|] eqn:H1; [|discriminate].
           destruct (IH _ _ _ _ _ H1) as [Hs1 [Hc1 Hn1]].
           destruct (IHs v1 k1 H) as [Hs [Hc Hn]]. split; [|split].
           ++ intros k Hk. destruct (Hs k Hk) as [Hin|Hr]; [|right; now apply reachable_key_cons_r].
              destruct (Hs1 k Hin) as [Hin'|Hr]; [now left|]. right. apply reachable_key_cons_l.
              assert (Hrf : reach frs [SSpread l n ds] f).
              { eapply reach_direct; [|exact Hf]. cbn. now left. }
              destruct Hr as [Hk0|[g [Hg Hkg]]]; right.
              ** exists f. split; [exact Hrf|exact Hk0].
              ** exists g. split; [eapply reach_step; eauto|exact Hkg].
           ++ intros k [Hk|Hk]; apply Hc; [left; apply Hc1; now left|]. right. exact Hk.
           ++ intros Hnd. auto.
        -- destruct (IHs (n :: visited) keys H) as [Hs [Hc Hn]]. split; [|split]; [| |exact Hn].
           ++ intros k Hk. destruct (Hs k Hk); [now left|right; now apply reachable_key_cons_r].
           ++ intros k [Hk|Hk]; apply Hc; [now left|]. right. exact Hk.
    + (* inline fragment *)
      destruct (response_keys fuel frs sub visited keys) as [[v1 k1]|] eqn:H1; [|discriminate].
      destruct (IH _ _ _ _ _ H1) as [Hs1 [Hc1 Hn1]].
      destruct (IHs v1 k1 H) as [Hs [Hc Hn]]. split; [|split].
      * intros k Hk. destruct (Hs k Hk) as [Hin|Hr]; [|right; now apply reachable_key_cons_r].
        destruct (Hs1 k Hin) as [Hin'|Hr]; [now left|]. right. apply reachable_key_cons_l.
        destruct Hr as [Hk0|[g [Hg Hkg]]].
        -- left. unfold inline_keys at 1. cbn [flat_map]. rewrite app_nil_r, inline_keys_inline. exact Hk0.
        -- right. exists g. split; [now apply reach_inline|exact Hkg].
      * intros k [Hk|Hk]; apply Hc.
        -- left. apply Hc1. now left.
        -- unfold inline_keys in Hk. cbn [flat_map] in Hk. apply in_app_or in Hk. destruct Hk as [Hk|Hk]; [|now right].
           left. apply Hc1. right. now rewrite inline_keys_inline in Hk.
      * auto.
Qed.

(* ---------- the rule on one root selection set ---------- *)
Lemma two_distinct_length (l : list string) k1 k2 : k1 <> k2 -> In k1 l -> In k2 l -> (1 <? List.length l)%nat = true.
Proof.
  intros Hne H1 H2. apply Nat.ltb_lt. destruct l as [|a [|b r]]; cbn [List.length]; try lia; [contradiction|].
  destruct H1 as [<-|[]]. destruct H2 as [<-|[]]. congruence.
Qed.

Lemma all_equal_nodup_length (l : list string) k0 : NoDup l -> (forall k, In k l -> k = k0) -> (1 <? List.length l)%nat = false.
Proof.
  intros Hnd Hall. apply Nat.ltb_ge. destruct l as [|a [|b r]]; cbn [List.length]; try lia.
  exfalso. inversion Hnd as [|? ? Hni _]; subst. apply Hni. left.
  rewrite (Hall a (or_introl eq_refl)), (Hall b (or_intror (or_introl eq_refl))). reflexivity.
Qed.

Definition two_root_keys (sels : list selection) : Prop :=
  exists k1 k2, k1 <> k2 /\ In k1 (inline_keys sels) /\ In k2 (inline_keys sels).

Theorem single_root_refuses doc oloc : forall fuel sels errs,
  single_root_sels fuel doc oloc sels = Some errs -> two_root_keys sels -> errs <> [].
Proof.
  induction fuel as [|fuel IH]; intros sels errs H [k1 [k2 [Hne [H1 H2]]]]; [discriminate|].
  cbn [single_root_sels] in H.
  destruct sels as [|s [|s2 r]].
  - contradiction.
  - destruct s as [l alias name args ds sub|l n ds|l tc ds sub].
    + unfold inline_keys in H1, H2. cbn in H1, H2. destruct H1 as [<-|[]]. destruct H2 as [<-|[]]. congruence.
    + contradiction.
    + unfold inline_keys in H1, H2. cbn [flat_map] in H1, H2. rewrite app_nil_r, inline_keys_inline in H1, H2.
      apply (IH sub errs H). exists k1, k2. auto.
  - assert (Hgen : match response_keys (single_root_fuel doc) (fragments doc) (s :: s2 :: r) [] [] with
                   | Some (_, keys) => Some (if (1 <? List.length keys)%nat then [mkerr "single-root-field" None [oloc]] else [])
                   | None => None end = Some errs).
    { destruct s; exact H. }
    clear H. destruct (response_keys _ _ (s :: s2 :: r) [] []) as [[v' keys]|] eqn:Hk; [|discriminate].
    destruct (response_keys_facts _ _ _ _ _ _ _ Hk) as [_ [Hc _]].
    rewrite (two_distinct_length keys k1 k2 Hne (Hc k1 (or_intror H1)) (Hc k2 (or_intror H2))) in Hgen.
    injection Hgen as <-. discriminate.
Qed.

Lemma reachable_key_inline frs l tc ds sub k : reachable_key frs sub k -> reachable_key frs [SInline l tc ds sub] k.
Proof.
  intros [H|[f [Hr Hk]]].
  - left. unfold inline_keys at 1. cbn [flat_map]. now rewrite app_nil_r, inline_keys_inline.
  - right. exists f. split; [now apply reach_inline|exact Hk].
Qed.

Lemma reachable_key_spread frs l n ds f k :
  find_fragment frs n = Some f -> reachable_key frs (fr_sels f) k -> reachable_key frs [SSpread l n ds] k.
Proof.
  intros Hf H. assert (Hrf : reach frs [SSpread l n ds] f) by (eapply reach_direct; [|exact Hf]; cbn; now left).
  destruct H as [H|[g [Hr Hk]]]; right.
  - exists f. split; [exact Hrf|exact H].
  - exists g. split; [eapply reach_step; eauto|exact Hk].
Qed.

Theorem single_root_accepts doc oloc k0 : forall fuel sels errs,
  single_root_sels fuel doc oloc sels = Some errs ->
  (forall k, reachable_key (fragments doc) sels k -> k = k0) -> errs = [].
Proof.
  induction fuel as [|fuel IH]; intros sels errs H Hall; [discriminate|].
  cbn [single_root_sels] in H.
  destruct sels as [|s [|s2 r]].
  - now injection H as <-.
  - destruct s as [l alias name args ds sub|l n ds|l tc ds sub].
    + now injection H as <-.
    + destruct (find_fragment (fragments doc) n) as [f|] eqn:Hf; [|now injection H as <-].
      apply (IH (fr_sels f) errs H). intros k Hk. apply Hall. now apply (reachable_key_spread _ l n ds f k Hf).
    + apply (IH sub errs H). intros k Hk. apply Hall. now apply reachable_key_inline.
  - assert (Hgen : match response_keys (single_root_fuel doc) (fragments doc) (s :: s2 :: r) [] [] with
                   | Some (_, keys) => Some (if (1 <? List.length keys)%nat then [mkerr "single-root-field" None [oloc]] else [])
                   | None => None end = Some errs).
    { destruct s; exact H. }
    clear H. destruct (response_keys _ _ (s :: s2 :: r) [] []) as [[v' keys]|] eqn:Hk; [|discriminate].
    destruct (response_keys_facts _ _ _ _ _ _ _ Hk) as [Hs [_ Hn]].
    rewrite (all_equal_nodup_length keys k0 (Hn (NoDup_nil _))) in Hgen; [now injection Hgen as <-|].
    intros k Hin. destruct (Hs k Hin) as [[]|Hr]. now apply Hall.
Qed.

(* ---------- the rule on the document ---------- *)
Definition sr_step (doc : document) (acc : option (list verror)) (o : operation) : option (list verror) :=
  match acc, o_kind o with
  | Some es, OpSubscription =>
      match single_root_sels (single_root_fuel doc) doc (o_loc o) (o_sels o) with
      | Some es' => Some (es ++ es')
      | None => None
      end
  | _, _ => acc
  end.

Lemma single_root_rule_fold doc : single_root_rule doc = fold_left (sr_step doc) (operations doc) (Some []).
Proof. reflexivity. Qed.

Lemma sr_fold_none doc ops : fold_left (sr_step doc) ops None = None.
Proof. induction ops as [|o ops IH]; [reflexivity|]. cbn [fold_left sr_step]. exact IH. Qed.

Lemma sr_fold_grows doc ops : forall es r, fold_left (sr_step doc) ops (Some es) = Some r -> exists more, r = es ++ more.
Proof.
  induction ops as [|o ops IH]; intros es r H; cbn [fold_left] in H.
  - injection H as <-. exists []. now rewrite app_nil_r.
  - unfold sr_step at 2 in H. destruct (o_kind o).
    1,2: try (apply IH; exact H).
    all: try (destruct (single_root_sels _ doc (o_loc o) (o_sels o)) as [es'|];
              [destruct (IH _ _ H) as [more ->]; exists (es' ++ more); now rewrite app_assoc
              |rewrite sr_fold_none in H; discriminate]).
    all: apply IH; exact H.
Qed.

(* a subscription reaching two different root response keys through fields and inline fragments is refused *)
Theorem single_root_rule_refuses doc o :
  In o (operations doc) -> o_kind o = OpSubscription -> two_root_keys (o_sels o) ->
  single_root_rule doc <> Some [].
Proof.
  rewrite single_root_rule_fold. intros Hin Hk Htwo.
  assert (Hgen : forall ops es, In o ops -> fold_left (sr_step doc) ops (Some es) <> Some []).
  { induction ops as [|o' ops IH]; intros es Hi; [contradiction|]. cbn [fold_left].
    destruct Hi as [->|Hi].
    - unfold sr_step at 2. rewrite Hk.
      destruct (single_root_sels _ doc (o_loc o) (o_sels o)) as [es'|] eqn:Hs; [|now rewrite sr_fold_none].
      pose proof (single_root_refuses doc (o_loc o) _ _ _ Hs Htwo) as Hne.
      intros H. destruct (sr_fold_grows _ _ _ _ H) as [more Hm]. symmetry in Hm. apply app_eq_nil in Hm.
      destruct Hm as [Hm _]. apply app_eq_nil in Hm. destruct Hm as [_ Hm]. contradiction.
    - unfold sr_step at 2. destruct (o_kind o'); try (now apply IH).
      all: try (destruct (single_root_sels _ doc (o_loc o') (o_sels o')); [now apply IH|now rewrite sr_fold_none]). }
  now apply Hgen.
Qed.

(* a document whose subscriptions each reach ONE response key at the root -- however often it is written,
   through inline fragments and fragment spreads -- is not refused by the rule *)
Theorem single_root_rule_accepts doc errs :
  (forall o, In o (operations doc) -> o_kind o = OpSubscription ->
             exists k0, forall k, reachable_key (fragments doc) (o_sels o) k -> k = k0) ->
  single_root_rule doc = Some errs -> errs = [].
Proof.
  rewrite single_root_rule_fold. intros Hall.
  assert (Hgen : forall ops es r, (forall o, In o ops -> In o (operations doc)) ->
                   fold_left (sr_step doc) ops (Some es) = Some r -> r = es).
  { induction ops as [|o ops IH]; intros es r Hsub H; cbn [fold_left] in H; [now injection H as <-|].
    assert (Ho : In o (operations doc)) by (apply Hsub; now left).
    assert (Hsub' : forall o0, In o0 ops -> In o0 (operations doc)) by (intros o0 Hi; apply Hsub; now right).
    unfold sr_step at 2 in H. destruct (o_kind o) eqn:Hk; try (now apply (IH es r Hsub' H)).
    destruct (single_root_sels _ doc (o_loc o) (o_sels o)) as [es'|] eqn:Hs; [|rewrite sr_fold_none in H; discriminate].
    destruct (Hall o Ho Hk) as [k0 Hk0].
    rewrite (single_root_accepts doc (o_loc o) k0 _ _ _ Hs Hk0), app_nil_r in H. now apply (IH es r Hsub' H). }
  intros H. now apply (Hgen (operations doc) [] errs (fun o Hi => Hi) H).
Qed.
