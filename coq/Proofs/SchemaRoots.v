(* Root operation types named by a schema EXTENSION: `apply_ext` writes them into the merged schema, whose
   root check then sees them -- an extension naming an undefined mutation / subscription / query root
   never yields an engine (seed C12-h is the engine losing exactly this). *)
From Coq Require Import ZArith List String Bool.
From TV Require Import Py.Prelude Model.Schema Model.ImplValidate Model.SchemaBuild Model.SpecSchema Proofs.SchemaProofs.
Import ListNotations.
Open Scope string_scope.

Lemma roots_defect g : SpecSchema.v_roots g = true -> defect_after_merge g = true.
Proof. intros H. unfold defect_after_merge. rewrite H. now rewrite !orb_true_r. Qed.

Theorem undefined_root_after_merge_refused s g0 :
  initial s = inl g0 ->
  let g := fold_left apply_ext (s_exts s) g0 in
  (defined g (g_query g) = false \/
   (g_mutation g <> "Mutation" /\ defined g (g_mutation g) = false) \/
   (g_subscription g <> "Subscription" /\ defined g (g_subscription g) = false)) ->
  builds s = false.
Proof.
  intros Hi g H. apply (build_rejects_defects s g0 Hi). apply roots_defect. unfold SpecSchema.v_roots. fold g.
  destruct H as [H|[[Hn H]|[Hn H]]].
  - now rewrite H.
  - rewrite H. apply String.eqb_neq in Hn. rewrite Hn. cbn. now rewrite orb_true_r.
  - rewrite H. apply String.eqb_neq in Hn. rewrite Hn. cbn. now rewrite !orb_true_r.
Qed.

(* the LAST extension that names the mutation root decides it *)
Lemma apply_schema_ext_sets_mutation g ops dirs v :
  op_lookup "mutation" (g_mutation g) ops = v -> g_mutation (apply_ext g (XSchema ops dirs)) = v.
Proof. intros H. cbn. exact H. Qed.

Theorem last_extension_undefined_mutation_root_refused s g0 front ops dirs v :
  initial s = inl g0 -> s_exts s = (front ++ [XSchema ops dirs])%list ->
  op_lookup "mutation" (g_mutation (fold_left apply_ext front g0)) ops = v -> v <> "Mutation" ->
  defined (fold_left apply_ext (s_exts s) g0) v = false ->
  builds s = false.
Proof.
  intros Hi He Hv Hn Hd. apply (undefined_root_after_merge_refused s g0 Hi). right. left.
  assert (Hm : g_mutation (fold_left apply_ext (s_exts s) g0) = v).
  { rewrite He, fold_left_app. cbn [fold_left]. now apply apply_schema_ext_sets_mutation. }
  rewrite Hm. split; assumption.
Qed.
