(* C16: the parsing cache is transparent.  C17: the registry is a per-name projection. *)
From Coq Require Import List String Bool Arith Lia.
From TV Require Import Model.Cache Model.Registry.
Import ListNotations.

(* ---------------- cache ---------------- *)
Section CacheProofs.
Variable K V : Type.
Variable keq : K -> K -> bool.
Variable f : K -> V.
(* keys that compare equal denote the same request text for the same schema *)
Hypothesis keq_sound : forall a b, keq a b = true -> f a = f b.

Definition cache_inv (c : cache K V) : Prop := Forall (fun kv => snd kv = f (fst kv)) c.

Lemma lookup_inv k c v : cache_inv c -> lookup K V keq k c = Some v -> v = f k.
Proof.
  induction c as [|[k' v'] c IH]; cbn; [discriminate|].
  intros Hinv. pose proof (Forall_inv Hinv) as Hh. pose proof (Forall_inv_tail Hinv) as Ht. cbn in Hh.
  destruct (keq k k') eqn:E.
  - intros H; inversion H; subst. symmetry. now apply keq_sound.
  - now apply IH.
Qed.

Lemma remove_inv k c : cache_inv c -> cache_inv (remove K V keq k c).
Proof.
  induction c as [|[k' v'] c IH]; cbn; intros H; [constructor|].
  pose proof (Forall_inv H) as Hh. pose proof (Forall_inv_tail H) as Ht.
  destruct (keq k k'); [exact Ht|]. constructor; [exact Hh|]. apply IH. exact Ht.
Qed.

Lemma firstn_inv n c : cache_inv c -> cache_inv (firstn n c).
Proof.
  revert c. induction n as [|n IH]; intros [|x c] H; cbn; try constructor.
  - exact (Forall_inv H).
  - apply IH. exact (Forall_inv_tail H).
Qed.

Theorem cache_call_transparent cfg k c :
  cache_inv c ->
  fst (cache_call K V keq f cfg k c) = f k /\ cache_inv (snd (cache_call K V keq f cfg k c)).
Proof.
  intros Hinv. destruct cfg as [ | |cap]; cbn.
  - auto.
  - destruct (lookup K V keq k c) as [v|] eqn:E; cbn.
    + pose proof (lookup_inv _ _ _ Hinv E) as ->. split; [reflexivity|].
      constructor; [reflexivity|now apply remove_inv].
    + split; [reflexivity|]. constructor; [reflexivity|assumption].
  - destruct (lookup K V keq k c) as [v|] eqn:E; cbn.
    + pose proof (lookup_inv _ _ _ Hinv E) as ->. split; [reflexivity|].
      constructor; [reflexivity|now apply remove_inv].
    + split; [reflexivity|]. apply firstn_inv. constructor; [reflexivity|assumption].
Qed.

(* any request history through any cache configuration gets exactly what the uncached function
   gives, position by position; the invariant holds in every reachable cache state *)
Theorem cache_run_transparent cfg ks : forall c,
  cache_inv c ->
  fst (cache_run K V keq f cfg ks c) = map f ks /\ cache_inv (snd (cache_run K V keq f cfg ks c)).
Proof.
  induction ks as [|k ks IH]; intros c Hinv; cbn; [auto|].
  destruct (cache_call K V keq f cfg k c) as [v c1] eqn:Ec.
  pose proof (cache_call_transparent cfg k c Hinv) as [Hv Hc]. rewrite Ec in Hv, Hc. cbn in Hv, Hc.
  destruct (cache_run K V keq f cfg ks c1) as [vs c2] eqn:Er.
  pose proof (IH c1 Hc) as [Hvs Hc2]. rewrite Er in Hvs, Hc2. cbn in *.
  subst. auto.
Qed.

(* the bounded cache never holds more than its capacity *)
Theorem lru_bounded cap k c :
  List.length c <= cap -> List.length (snd (cache_call K V keq f (CacheLru cap) k c)) <= cap.
Proof.
  intros H. cbn. destruct (lookup K V keq k c) as [v|] eqn:E; cbn [snd].
  - assert (Hr : List.length (remove K V keq k c) < List.length c).
    { clear H. induction c as [|[k' v'] c IH]; cbn in *; [discriminate|].
      destruct (keq k k'); [lia|]. specialize (IH E). cbn. lia. }
    cbn. lia.
  - rewrite firstn_length. lia.
Qed.

End CacheProofs.

(* ---------------- registry ---------------- *)
Section RegistryProofs.
Variable Impl Sdl : Type.
Notation registry := (registry Impl Sdl).
Notation reg_op := (reg_op Impl Sdl).

Lemma get_set n m e (r : registry) :
  get Impl Sdl n (set Impl Sdl m e r) = if String.eqb n m then e else get Impl Sdl n r.
Proof.
  induction r as [|[n' e'] r IH]; cbn.
  - destruct (String.eqb n m); reflexivity.
  - destruct (String.eqb m n') eqn:Emn; cbn.
    + apply String.eqb_eq in Emn; subst n'.
      destruct (String.eqb n m); reflexivity.
    + destruct (String.eqb n n') eqn:Enn.
      * apply String.eqb_eq in Enn; subst n'.
        destruct (String.eqb n m) eqn:E; [|reflexivity].
        apply String.eqb_eq in E; subst m. rewrite String.eqb_refl in Emn. discriminate.
      * apply IH.
Qed.

(* an operation about another name leaves the entry of n untouched *)
Lemma step_other n (r : registry) (o : reg_op) :
  String.eqb (op_schema Impl Sdl o) n = false ->
  get Impl Sdl n (fst (reg_step Impl Sdl r o)) = get Impl Sdl n r.
Proof.
  intros H. destruct o as [m it|m sdl|m]; cbn in *.
  - destruct (already Impl it _); cbn; [reflexivity|].
    rewrite get_set. rewrite String.eqb_sym, H. reflexivity.
  - rewrite get_set. rewrite String.eqb_sym, H. reflexivity.
  - reflexivity.
Qed.

(* an operation about n depends only on n's entry, and determines n's next entry *)
Lemma step_same n (r r' : registry) (o : reg_op) :
  String.eqb (op_schema Impl Sdl o) n = true ->
  get Impl Sdl n r = get Impl Sdl n r' ->
  snd (reg_step Impl Sdl r o) = snd (reg_step Impl Sdl r' o) /\
  get Impl Sdl n (fst (reg_step Impl Sdl r o)) = get Impl Sdl n (fst (reg_step Impl Sdl r' o)).
Proof.
  intros H Hg. apply String.eqb_eq in H.
  destruct o as [m it|m sdl|m]; cbn in *; subst m; rewrite Hg.
  - destruct (already Impl it _); cbn; [auto|]. rewrite !get_set, String.eqb_refl. auto.
  - rewrite !get_set, String.eqb_refl. auto.
  - auto.
Qed.

(* Whatever else is registered or cooked in the process, in any interleaving, the operations
   about schema name n observe exactly what they observe when run alone. *)
Theorem registry_projection n (ops : list reg_op) : forall (r r' : registry),
  get Impl Sdl n r = get Impl Sdl n r' ->
  outs_of Impl Sdl n ops (snd (reg_run Impl Sdl r ops)) =
  snd (reg_run Impl Sdl r' (filter (fun o => String.eqb (op_schema Impl Sdl o) n) ops)).
Proof.
  induction ops as [|o ops IH]; intros r r' Hg; cbn; [reflexivity|].
  destruct (reg_step Impl Sdl r o) as [r1 out] eqn:E1.
  destruct (reg_run Impl Sdl r1 ops) as [r2 outs] eqn:E2. cbn.
  destruct (String.eqb (op_schema Impl Sdl o) n) eqn:En; cbn.
  - destruct (reg_step Impl Sdl r' o) as [r1' out'] eqn:E1'.
    destruct (reg_run Impl Sdl r1' _) as [r2' outs'] eqn:E2'. cbn.
    pose proof (step_same n r r' o En Hg) as [Ho Hn]. rewrite E1, E1' in Ho, Hn. cbn in Ho, Hn.
    subst out'. f_equal.
    specialize (IH r1 r1' Hn). rewrite E2, E2' in IH. exact IH.
  - pose proof (step_other n r o En) as Hn. rewrite E1 in Hn. cbn in Hn.
    specialize (IH r1 r' (eq_trans Hn Hg)). rewrite E2 in IH. exact IH.
Qed.

End RegistryProofs.
