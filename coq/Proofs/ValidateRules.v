(* More rules of the validation walk proved EXACT against the specification predicates, for every
   document and schema: lone anonymous operation (5.2.2.1), fragments must be used (5.5.1.4),
   fragment spread target defined (5.5.2.1).  The last two read the list of spreads the walk
   accumulates in its shared context; the bookkeeping lemma shows that this list is exactly the
   document's spreads, in document order, whatever else the walk records. *)
From Coq Require Import ZArith List String Bool Lia Arith.
From TV Require Import Py.Prelude Model.Schema Model.ImplValidate Model.SpecValidate Proofs.ValidateProofs.
Import ListNotations.
Open Scope list_scope.

(* ------------------------------------------------------------------ 5.2.2.1 *)
Definition anon (o : operation) : bool := match o_name o with None => true | Some _ => false end.

Lemma filter_nil_existsb {A} (p : A -> bool) l : filter p l = [] <-> existsb p l = false.
Proof.
  induction l as [|x l IH]; cbn; [tauto|]. destruct (p x); cbn; [split; discriminate|exact IH].
Qed.

Theorem lone_anonymous_exact ops :
  lone_anonymous_errors ops = [] <->
  (if existsb anon ops then (List.length ops =? 1)%nat else true) = true.
Proof.
  unfold lone_anonymous_errors. fold anon.
  destruct (existsb anon ops) eqn:Ee.
  - destruct (1 <? List.length ops)%nat eqn:El.
    + destruct (filter anon ops) as [|b bs] eqn:Ef.
      * apply filter_nil_existsb in Ef. congruence.
      * apply Nat.ltb_lt in El. split; [discriminate|]. intros H. apply Nat.eqb_eq in H. lia.
    + apply Nat.ltb_ge in El. split; [|reflexivity]. intros _. apply Nat.eqb_eq.
      destruct ops as [|o [|o' r]]; cbn in *; try discriminate; try reflexivity; lia.
  - apply filter_nil_existsb in Ee. rewrite Ee. destruct (1 <? List.length ops)%nat; tauto.
Qed.

(* ------------------------------------------------------------------ 5.5.1.4 / 5.5.2.1 over a spread list *)
Lemma existsb_fst_mem (sp : list (string * loc)) n :
  existsb (fun s => String.eqb (fst s) n) sp = mem_str n (map fst sp).
Proof.
  induction sp as [|[k l] sp IH]; [reflexivity|]. cbn. rewrite IH, String.eqb_sym. reflexivity.
Qed.

Theorem must_be_used_exact_on frs (sp : list (string * loc)) :
  must_be_used_errors frs sp = [] <-> forallb (fun f => mem_str (fr_name f) (map fst sp)) frs = true.
Proof.
  unfold must_be_used_errors. induction frs as [|f frs IH]; cbn [flat_map forallb]; [tauto|].
  rewrite existsb_fst_mem. destruct (mem_str (fr_name f) (map fst sp)); cbn [app andb].
  - exact IH.
  - split; discriminate.
Qed.

Lemma upd_assoc_not_nil {K A} eqb (k : K) (d : A) f l : upd_assoc eqb k d f l <> [].
Proof. destruct l as [|[k' v] r]; cbn; [discriminate|]. destruct (eqb k k'); discriminate. Qed.

Lemma group_by_name_nil {A} (l : list (string * A)) acc : group_by_name l acc = [] -> l = [] /\ acc = [].
Proof.
  revert acc. induction l as [|[k v] r IH]; intros acc; cbn [group_by_name]; [tauto|].
  intros H. apply IH in H. destruct H as [_ H]. exfalso. exact (upd_assoc_not_nil _ _ _ _ _ H).
Qed.

Theorem spread_targets_exact_on frs (sp : list (string * loc)) :
  spread_target_errors frs sp = [] <->
  forallb (fun n => match find_fragment frs n with Some _ => true | None => false end) (map fst sp) = true.
Proof.
  unfold spread_target_errors. split.
  - intros H. apply map_eq_nil in H. apply group_by_name_nil in H. destruct H as [H _].
    induction sp as [|[k l] sp IH]; [reflexivity|]. cbn [map forallb fst]. cbn [filter fst] in H.
    destruct (find_fragment frs k); [apply IH; exact H|discriminate].
  - intros H.
    assert (E : filter (fun s : string * loc => match find_fragment frs (fst s) with None => true | Some _ => false end) sp = []).
    { induction sp as [|[k l] sp IH]; [reflexivity|]. cbn [map forallb fst] in H. cbn [filter fst].
      destruct (find_fragment frs k); [apply IH; exact H|discriminate]. }
    rewrite E. reflexivity.
Qed.

(* ------------------------------------------------------------------ the walk's bookkeeping of spreads *)
Section Walk.
Variable V : vschema.

(* what the walk does not touch *)
Lemma emit_fs b r st : frag_spreads (emit b r st) = frag_spreads st.
Proof.
  unfold emit. destruct (aborted st || crashed st); [reflexivity|]. destruct r as [es|]; [|reflexivity].
  destruct (b && negb match es with [] => true | _ :: _ => false end); reflexivity.
Qed.
Lemma emit_ok_fs es st : frag_spreads (emit_ok es st) = frag_spreads st.
Proof. apply emit_fs. Qed.
Lemma upd_scope_fs f st : frag_spreads (upd_scope f st) = frag_spreads st.
Proof. unfold upd_scope. destruct (in_operation st); reflexivity. Qed.
Lemma record_var_fs n l st : frag_spreads (record_var n l st) = frag_spreads st.
Proof. unfold record_var. destruct (in_vardefs st); [reflexivity|apply upd_scope_fs]. Qed.

Fixpoint walk_value_fs path v {struct v} : forall st, frag_spreads (walk_value path v st) = frag_spreads st.
Proof.
  destruct v; intros st; cbn [walk_value]; try reflexivity.
  - apply record_var_fs.
  - revert st. induction items as [|x r IH]; intros st; [reflexivity|]. rewrite IH. apply walk_value_fs.
  - assert (H : forall st, frag_spreads ((fix go (xs : list (string * lit)) (st : vctx) : vctx :=
                  match xs with [] => st | (_, x) :: r => go r (walk_value path x st) end) fields st) = frag_spreads st).
    { induction fields as [|[k x] r IH]; intros st0; [reflexivity|]. rewrite IH. apply walk_value_fs. }
    destruct fields as [|kv r]; [reflexivity|]. rewrite emit_ok_fs. apply H.
Qed.

Lemma walk_argument_fs path a st : frag_spreads (walk_argument path a st) = frag_spreads st.
Proof.
  unfold walk_argument. destruct (a_value a); try apply walk_value_fs.
  rewrite upd_scope_fs. apply walk_value_fs.
Qed.
Lemma fold_fs {A} (f : vctx -> A -> vctx) l :
  (forall st a, frag_spreads (f st a) = frag_spreads st) -> forall st, frag_spreads (fold_left f l st) = frag_spreads st.
Proof. intros H. induction l as [|a l IH]; intros st; [reflexivity|]. cbn. rewrite IH. apply H. Qed.
Lemma walk_arguments_fs path args st : frag_spreads (walk_arguments path args st) = frag_spreads st.
Proof.
  unfold walk_arguments. destruct args as [|a r]; [reflexivity|]. rewrite emit_ok_fs.
  apply fold_fs. intros. apply walk_argument_fs.
Qed.
Lemma walk_directive_fs path d st : frag_spreads (walk_directive V path d st) = frag_spreads st.
Proof. unfold walk_directive. rewrite !emit_ok_fs, emit_fs. cbn. rewrite walk_arguments_fs. reflexivity. Qed.
Lemma walk_directives_fs path ds st : frag_spreads (walk_directives V path ds st) = frag_spreads st.
Proof.
  unfold walk_directives. destruct ds as [|d r]; [reflexivity|]. rewrite emit_ok_fs.
  apply fold_fs. intros. apply walk_directive_fs.
Qed.
Lemma field_rules_fs path l name args dirs hs st : frag_spreads (field_rules V path l name args dirs hs st) = frag_spreads st.
Proof. unfold field_rules. rewrite !emit_ok_fs, emit_fs, !emit_ok_fs. reflexivity. Qed.

(* the spreads written in a selection, in document order *)
Fixpoint sp_of_sel (s : selection) : list (string * loc) :=
  match s with
  | SField _ _ _ _ _ sels => (fix go (xs : list selection) := match xs with [] => [] | x :: r => sp_of_sel x ++ go r end) sels
  | SSpread l n _ => [(n, l)]
  | SInline _ _ _ sels => (fix go (xs : list selection) := match xs with [] => [] | x :: r => sp_of_sel x ++ go r end) sels
  end.
Definition sp_of_sels (sels : list selection) : list (string * loc) := flat_map sp_of_sel sels.
Lemma sp_go_flat sels :
  (fix go (xs : list selection) := match xs with [] => [] | x :: r => sp_of_sel x ++ go r end) sels = sp_of_sels sels.
Proof. induction sels as [|x r IH]; [reflexivity|]. cbn [sp_of_sels flat_map]. now rewrite IH. Qed.

Fixpoint walk_selection_fs path s {struct s} :
  forall st, frag_spreads (walk_selection V path s st) = frag_spreads st ++ sp_of_sel s.
Proof.
  destruct s as [l alias name args dirs sels|l name dirs|l tc dirs sels]; intros st; cbn [walk_selection sp_of_sel].
  - rewrite field_rules_fs. cbn.
    set (st1 := walk_directives V _ dirs _).
    assert (E1 : frag_spreads st1 = frag_spreads st) by (unfold st1; rewrite walk_directives_fs, walk_arguments_fs; reflexivity).
    rewrite <- E1. generalize st1. clear st1 E1.
    induction sels as [|x r IH]; intros st1; [now rewrite app_nil_r|].
    rewrite IH, walk_selection_fs, app_assoc. reflexivity.
  - rewrite upd_scope_fs. cbn. rewrite emit_ok_fs, walk_directives_fs. reflexivity.
  - cbn. rewrite !emit_ok_fs.
    set (st1 := walk_directives V path dirs _).
    assert (E1 : frag_spreads st1 = frag_spreads st) by (unfold st1; rewrite walk_directives_fs; destruct tc; reflexivity).
    rewrite <- E1. generalize st1. clear st1 E1.
    induction sels as [|x r IH]; intros st1; [now rewrite app_nil_r|].
    rewrite IH, walk_selection_fs, app_assoc. reflexivity.
Qed.

Lemma walk_selections_fs path sels st :
  frag_spreads (walk_selections V path sels st) = frag_spreads st ++ sp_of_sels sels.
Proof.
  unfold walk_selections. revert st. induction sels as [|x r IH]; intros st; cbn [fold_left sp_of_sels flat_map]; [now rewrite app_nil_r|].
  fold (sp_of_sels r). rewrite IH, walk_selection_fs, app_assoc. reflexivity.
Qed.

Lemma walk_vardef_fs vd st : frag_spreads (walk_vardef V vd st) = frag_spreads st.
Proof. unfold walk_vardef. rewrite emit_ok_fs. destruct (v_default vd); [apply walk_value_fs|reflexivity]. Qed.
Lemma walk_vardefs_fs vds st : frag_spreads (walk_vardefs V vds st) = frag_spreads st.
Proof.
  unfold walk_vardefs. destruct vds as [|vd r]; [reflexivity|]. rewrite emit_ok_fs.
  remember (vd :: r) as l eqn:El. clear El. cbn.
  rewrite (fold_fs (fun st vd => walk_vardef V vd st)); [reflexivity|]. intros. apply walk_vardef_fs.
Qed.

Lemma walk_operation_fs o st : frag_spreads (walk_operation V o st) = frag_spreads st ++ sp_of_sels (o_sels o).
Proof.
  unfold walk_operation. rewrite emit_ok_fs, walk_selections_fs, walk_directives_fs, walk_vardefs_fs. reflexivity.
Qed.
Lemma walk_fragment_fs f st : frag_spreads (walk_fragment V f st) = frag_spreads st ++ sp_of_sels (fr_sels f).
Proof.
  unfold walk_fragment. cbn. rewrite !emit_ok_fs, walk_selections_fs, walk_directives_fs. reflexivity.
Qed.

Definition doc_spreads (doc : document) : list (string * loc) :=
  flat_map (fun o => sp_of_sels (o_sels o)) (operations doc) ++ flat_map (fun f => sp_of_sels (fr_sels f)) (fragments doc).

(* the state the document-level rules start from *)
Definition walked (doc : document) : vctx :=
  fold_left (fun st f => walk_fragment V f st) (fragments doc)
    (fold_left (fun st o => walk_operation V o st) (operations doc) init_ctx).

Theorem walked_spreads doc : frag_spreads (walked doc) = doc_spreads doc.
Proof.
  unfold walked, doc_spreads.
  assert (Hf : forall frs st, frag_spreads (fold_left (fun st f => walk_fragment V f st) frs st) =
                              frag_spreads st ++ flat_map (fun f => sp_of_sels (fr_sels f)) frs).
  { induction frs as [|f r IH]; intros st; cbn [fold_left flat_map]; [now rewrite app_nil_r|].
    rewrite IH, walk_fragment_fs, app_assoc. reflexivity. }
  assert (Ho : forall ops st, frag_spreads (fold_left (fun st o => walk_operation V o st) ops st) =
                              frag_spreads st ++ flat_map (fun o => sp_of_sels (o_sels o)) ops).
  { induction ops as [|o r IH]; intros st; cbn [fold_left flat_map]; [now rewrite app_nil_r|].
    rewrite IH, walk_operation_fs, app_assoc. reflexivity. }
  rewrite Hf, Ho. reflexivity.
Qed.

(* the specification's spread sites are the same list of names *)
Definition site_spread_name (s : site) : list string := match s with SiteSpread _ n _ => [n] | _ => [] end.

Fixpoint sites_spreads scope s {struct s} :
  flat_map site_spread_name (sites_of V scope s) = map fst (sp_of_sel s).
Proof.
  destruct s as [l alias name args dirs sels|l name dirs|l tc dirs sels]; cbn [sites_of sp_of_sel flat_map site_spread_name app map fst].
  - generalize (match s_field V scope name with Some f => Some (named_of (fd_type f)) | None => None end). intros inner.
    induction sels as [|x r IH]; [reflexivity|]. rewrite flat_map_app, map_app, IH, sites_spreads. reflexivity.
  - reflexivity.
  - generalize (match tc with Some t => Some t | None => scope end). intros inner.
    induction sels as [|x r IH]; [reflexivity|]. rewrite flat_map_app, map_app, IH, sites_spreads. reflexivity.
Qed.

Lemma sites_of_sels_spreads scope sels :
  flat_map site_spread_name (sites_of_sels V scope sels) = map fst (sp_of_sels sels).
Proof.
  unfold sites_of_sels, sp_of_sels. induction sels as [|x r IH]; [reflexivity|].
  cbn [flat_map]. rewrite flat_map_app, map_app, IH, sites_spreads. reflexivity.
Qed.

Theorem spread_names_are_the_walks doc : spread_names V doc = map fst (frag_spreads (walked doc)).
Proof.
  rewrite walked_spreads. unfold spread_names, doc_sites, doc_spreads.
  change (fun s : site => match s with SiteSpread _ n _ => [n] | _ => [] end) with site_spread_name.
  rewrite flat_map_app, map_app. f_equal.
  - induction (operations doc) as [|o r IH]; [reflexivity|]. cbn [flat_map]. rewrite flat_map_app, map_app, IH, sites_of_sels_spreads. reflexivity.
  - induction (fragments doc) as [|f r IH]; [reflexivity|]. cbn [flat_map]. rewrite flat_map_app, map_app, IH, sites_of_sels_spreads. reflexivity.
Qed.

(* ------------------------------------------------------------------ the two rules, exact *)
Theorem must_be_used_exact doc :
  must_be_used_errors (fragments doc) (frag_spreads (walked doc)) = [] <-> r_fragments_used V doc = true.
Proof. unfold r_fragments_used. rewrite spread_names_are_the_walks. apply must_be_used_exact_on. Qed.

Theorem spread_targets_exact doc :
  spread_target_errors (fragments doc) (frag_spreads (walked doc)) = [] <-> r_spread_targets V doc = true.
Proof. unfold r_spread_targets. rewrite spread_names_are_the_walks. apply spread_targets_exact_on. Qed.

Theorem lone_anonymous_exact_doc doc :
  lone_anonymous_errors (operations doc) = [] <-> r_lone_anonymous doc = true.
Proof. unfold r_lone_anonymous. apply lone_anonymous_exact. Qed.

(* ... and this is the list validate_ctx hands to the two rules: the emits in between do not touch it *)
Theorem validate_ctx_reads_the_documents_spreads doc :
  validate_ctx V doc =
  let st := walked doc in
  let frs := fragments doc in
  let ops := operations doc in
  let st := emit true (cycle_rule frs) st in
  let st := emit_ok (operation_name_errors ops) st in
  let st := emit_ok (lone_anonymous_errors ops) st in
  let st := emit false (single_root_rule doc) st in
  let st := emit_ok (fragment_name_errors frs) st in
  let st := emit_ok (spread_target_errors frs (doc_spreads doc)) st in
  let st := emit_ok (must_be_used_errors frs (doc_spreads doc)) st in
  let st := emit_ok (inline_possible_errors V (inlined_in st) ++ spread_possible_errors V frs (spreaded_in st)) st in
  let st := emit false (uses_defined_rule st ops) st in
  let st := emit false (variables_used_rule st ops) st in
  emit false (usages_allowed_rule V st ops) st.
Proof.
  pose proof (walked_spreads doc) as Hw. unfold walked in Hw.
  unfold validate_ctx, walked. cbv zeta.
  repeat (rewrite emit_ok_fs || rewrite emit_fs). rewrite Hw. reflexivity.
Qed.

End Walk.
