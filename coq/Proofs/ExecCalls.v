(* C01 / C08: no resolver is called twice for the same response path.  For every schema, document,
   variables, user code, configuration (per-field settings included), operation and root value: the
   resolver invocations the implementation model logs are at pairwise different response paths
   ("each resolver is called exactly once per collected response key and parent object": at most
   once here; that the data is the specification's is C01_data_refines_spec). *)
From Coq Require Import ZArith List String Bool Lia.
From TV Require Import Py.Prelude Model.Schema Model.ImplInput Model.ImplExec Model.SpecExec
     Proofs.CollectRefine Proofs.ExecRefine.
Import ListNotations.
Open Scope string_scope.
Open Scope list_scope.

Section Calls.
Variable sch : schema.
Variable doc : document.
Variable vs : vars.
Variable U : usercode.
Variable cfg : config.

Definition rsite (c : call) : list (list pkey) := match c with CResolver p _ _ _ _ => [p] | _ => [] end.
Definition rsites (l : list call) : list (list pkey) := flat_map rsite l.
Lemma rsites_app a b : rsites (a ++ b) = rsites a ++ rsites b.
Proof. unfold rsites. apply flat_map_app. Qed.

Definition ext (p q : list pkey) : Prop := exists r, q = p ++ r.
Definition sext (p q : list pkey) : Prop := exists a r, q = p ++ a :: r.

Lemma sext_ext p q : sext p q -> ext p q.
Proof. intros (a & r & ->). now exists (a :: r). Qed.
Lemma ext_snoc_sext p a q : ext (p ++ [a]) q -> sext p q.
Proof. intros (r & ->). exists a, r. now rewrite <- app_assoc. Qed.
Lemma sext_snoc_sext p a q : sext (p ++ [a]) q -> sext p q.
Proof. intros H. apply ext_snoc_sext with a. now apply sext_ext. Qed.
Lemma ext_diff p a b q : ext (p ++ [a]) q -> ext (p ++ [b]) q -> a = b.
Proof.
  intros (r & ->) (r' & H). rewrite <- !app_assoc in H. apply app_inv_head in H. cbn in H. now injection H.
Qed.
Lemma not_sext_self p : ~ sext p p.
Proof.
  intros (a & r & H). rewrite <- (app_nil_r p) in H at 1. apply app_inv_head in H. discriminate.
Qed.

(* what a computation appends to the call log *)
Definition within (R : list pkey -> Prop) (L : list call) : Prop :=
  NoDup (rsites L) /\ forall q, In q (rsites L) -> R q.
Definition app_log {A} (m : M A) (R : list pkey -> Prop) : Prop :=
  forall s, exists L, s_log (snd (m s)) = s_log s ++ L /\ within R L.

Lemma within_nil R : within R [].
Proof. split; [constructor|intros q []]. Qed.
Lemma within_weaken (R R' : list pkey -> Prop) L : within R L -> (forall q, R q -> R' q) -> within R' L.
Proof. intros [H1 H2] H. split; [exact H1|auto]. Qed.
Lemma within_app (R1 R2 : list pkey -> Prop) L1 L2 :
  within R1 L1 -> within R2 L2 -> (forall q, R1 q -> R2 q -> False) ->
  within (fun q => R1 q \/ R2 q) (L1 ++ L2).
Proof.
  intros [N1 H1] [N2 H2] Hd. split.
  - rewrite rsites_app. induction (rsites L1) as [|x l IH]; [exact N2|].
    inversion N1 as [|? ? Hx Nl]; subst. cbn [app]. constructor.
    + intros Hin. apply in_app_or in Hin. destruct Hin as [Hin|Hin]; [contradiction|].
      apply (Hd x); [apply H1; now left|now apply H2].
    + apply IH; [exact Nl|]. intros q Hq. apply H1. now right.
  - intros q Hq. rewrite rsites_app in Hq. apply in_app_or in Hq. destruct Hq; [left; auto|right; auto].
Qed.
Lemma app_nil_log {A} (m : M A) R : (forall s, s_log (snd (m s)) = s_log s) -> app_log m R.
Proof. intros H s. exists []. rewrite app_nil_r. split; [apply H|apply within_nil]. Qed.

(* ---------- sibling fields ---------- *)
Section Fields.
Variable opath : list pkey.
Variable rf : string -> list fnode -> M (option pyval).
Hypothesis Hrf : forall k ns, app_log (rf k ns) (ext (opath ++ [KName k])).

(* sites below one of the listed fields *)
Definition below (fs : fields) (q : list pkey) : Prop := exists k ns, In (k, ns) fs /\ ext (opath ++ [KName k]) q.

Lemma below_head_tail_disjoint k ns rest q :
  NoDup (keys ((k, ns) :: rest)) -> ext (opath ++ [KName k]) q -> below rest q -> False.
Proof.
  intros Hnd He (k' & ns' & Hin & He'). cbn [keys map fst] in Hnd. inversion Hnd as [|? ? Hni _]; subst.
  pose proof (ext_diff _ _ _ _ He He') as Hk. injection Hk as ->.
  apply Hni. change (In k' (map fst rest)). apply (in_map fst rest (k', ns') Hin).
Qed.

Lemma below_cons k ns rest q : (ext (opath ++ [KName k]) q \/ below rest q) -> below ((k, ns) :: rest) q.
Proof.
  intros [H|(k' & ns' & Hin & H)]; [exists k, ns; split; [now left|exact H]|exists k', ns'; split; [now right|exact H]].
Qed.

Lemma conc_calls : forall fs, NoDup (keys fs) -> app_log (exec_fields_conc rf fs) (below fs).
Proof.
  induction fs as [|[k ns] rest IH]; intros Hnd s; cbn [exec_fields_conc].
  - exists []. rewrite app_nil_r. split; [reflexivity|apply within_nil].
  - destruct (Hrf k ns s) as (L1 & E1 & W1). destruct (rf k ns s) as [r s1]. cbn [snd] in E1.
    assert (Hnd' : NoDup (keys rest)) by (cbn [keys map] in Hnd; now inversion Hnd).
    destruct (IH Hnd' s1) as (L2 & E2 & W2). destruct (exec_fields_conc rf rest s1) as [rs s2]. cbn [snd] in E2.
    exists (L1 ++ L2). split.
    + assert (Hs2 : forall (o : outcome (list (string * pyval))), snd (o, s2) = s2) by reflexivity.
      destruct r as [[v|]|l|e]; destruct rs as [kv|l'|e']; cbn [snd]; now rewrite E2, E1, app_assoc.
    + eapply within_weaken; [apply (within_app _ _ _ _ W1 W2)|].
      * intros q H1 H2. exact (below_head_tail_disjoint k ns rest q Hnd H1 H2).
      * intros q. apply below_cons.
Qed.

Lemma seq_calls : forall fs, NoDup (keys fs) -> app_log (exec_fields_seq rf fs) (below fs).
Proof.
  induction fs as [|[k ns] rest IH]; intros Hnd s; cbn [exec_fields_seq].
  - exists []. rewrite app_nil_r. split; [reflexivity|apply within_nil].
  - destruct (Hrf k ns s) as (L1 & E1 & W1). destruct (rf k ns s) as [r s1]. cbn [snd] in E1.
    assert (Hnd' : NoDup (keys rest)) by (cbn [keys map] in Hnd; now inversion Hnd).
    assert (Hone : within (below ((k, ns) :: rest)) L1).
    { eapply within_weaken; [exact W1|]. intros q H. apply below_cons. now left. }
    destruct r as [o|l|e]; try (exists L1; split; [exact E1|exact Hone]).
    destruct (IH Hnd' s1) as (L2 & E2 & W2). destruct (exec_fields_seq rf rest s1) as [rs s2]. cbn [snd] in E2.
    exists (L1 ++ L2). split.
    + destruct rs as [kv|l'|e']; cbn [snd]; now rewrite E2, E1, app_assoc.
    + eapply within_weaken; [apply (within_app _ _ _ _ W1 W2)|].
      * intros q H1 H2. exact (below_head_tail_disjoint k ns rest q Hnd H1 H2).
      * intros q. apply below_cons.
Qed.

(* per-field settings: the fields awaited on the spot (first pass), then the deferred ones *)
Variable isc : string -> list fnode -> bool.
Definition below_sel (b : bool) (fs : fields) (q : list pkey) : Prop :=
  exists k ns, In (k, ns) fs /\ isc k ns = b /\ ext (opath ++ [KName k]) q.

Lemma below_sel_cons b k ns rest q :
  ((isc k ns = b /\ ext (opath ++ [KName k]) q) \/ below_sel b rest q) -> below_sel b ((k, ns) :: rest) q.
Proof.
  intros [[Hb H]|(k' & ns' & Hin & Hb & H)]; [exists k, ns; split; [now left|auto]|exists k', ns'; split; [now right|auto]].
Qed.
Lemma below_sel_below b fs q : below_sel b fs q -> below fs q.
Proof. intros (k & ns & Hin & _ & H). now exists k, ns. Qed.

(* the slots the first pass leaves empty are exactly the deferred fields *)
Definition slots_ok (fs : fields) (slots : list (option (option pyval))) : Prop :=
  Forall2 (fun f sl => match sl with None => isc (fst f) (snd f) = true | Some _ => isc (fst f) (snd f) = false end) fs slots.

Lemma pass1_calls : forall fs, NoDup (keys fs) ->
  forall s, exists L, s_log (snd (mixed_pass1 isc rf fs s)) = s_log s ++ L /\ within (below_sel false fs) L /\
    (forall slots, fst (mixed_pass1 isc rf fs s) = OVal slots -> slots_ok fs slots).
Proof.
  induction fs as [|[k ns] rest IH]; intros Hnd s; cbn [mixed_pass1].
  - exists []. rewrite app_nil_r. split; [reflexivity|]. split; [apply within_nil|].
    intros slots H. injection H as <-. constructor.
  - assert (Hnd' : NoDup (keys rest)) by (cbn [keys map] in Hnd; now inversion Hnd).
    destruct (isc k ns) eqn:Hc.
    + destruct (IH Hnd' s) as (L & E & W & Hs). destruct (mixed_pass1 isc rf rest s) as [rs s']. cbn [fst snd] in *.
      exists L. split; [destruct rs; exact E|]. split.
      * eapply within_weaken; [exact W|]. intros q H. apply below_sel_cons. now right.
      * destruct rs as [sl|l|e]; intros slots H; try discriminate. injection H as <-.
        constructor; [cbn [fst snd]; exact Hc|now apply Hs].
    + destruct (Hrf k ns s) as (L1 & E1 & W1). destruct (rf k ns s) as [r s1]. cbn [snd] in E1.
      assert (Hone : within (below_sel false ((k, ns) :: rest)) L1).
      { eapply within_weaken; [exact W1|]. intros q H. apply below_sel_cons. left. now split. }
      destruct r as [o|l|e]; try (exists L1; split; [exact E1|]; split; [exact Hone|intros slots H; discriminate]).
      destruct (IH Hnd' s1) as (L2 & E2 & W2 & Hs). destruct (mixed_pass1 isc rf rest s1) as [rs s2]. cbn [fst snd] in *.
      exists (L1 ++ L2). split; [destruct rs; cbn [snd]; now rewrite E2, E1, app_assoc|]. split.
      * eapply within_weaken; [apply (within_app _ _ _ _ W1 W2)|].
        -- intros q H1 H2. exact (below_head_tail_disjoint k ns rest q Hnd H1 (below_sel_below _ _ _ H2)).
        -- intros q [H|H]; apply below_sel_cons; [left; now split|now right].
      * destruct rs as [sl|l|e]; intros slots H; try discriminate. injection H as <-.
        constructor; [cbn [fst snd]; exact Hc|now apply Hs].
Qed.

Lemma pass2_calls : forall fs slots, NoDup (keys fs) -> slots_ok fs slots ->
  app_log (mixed_pass2 rf fs slots) (below_sel true fs).
Proof.
  induction fs as [|[k ns] rest IH]; intros slots Hnd Hok s; cbn [mixed_pass2].
  - exists []. rewrite app_nil_r. split; [reflexivity|apply within_nil].
  - assert (Hnd' : NoDup (keys rest)) by (cbn [keys map] in Hnd; now inversion Hnd).
    inversion Hok as [|f sl fs' sls Hsl Hrest]; subst. cbn [fst snd] in Hsl.
    destruct sl as [o|].
    + destruct (IH sls Hnd' Hrest s) as (L & E & W). destruct (mixed_pass2 rf rest sls s) as [rs s2]. cbn [snd] in E.
      exists L. split; [destruct rs; exact E|]. eapply within_weaken; [exact W|]. intros q H. apply below_sel_cons. now right.
    + destruct (Hrf k ns s) as (L1 & E1 & W1). destruct (rf k ns s) as [r s1]. cbn [snd] in E1.
      destruct (IH sls Hnd' Hrest s1) as (L2 & E2 & W2). destruct (mixed_pass2 rf rest sls s1) as [rs s2]. cbn [snd] in E2.
      exists (L1 ++ L2). split.
      * destruct r as [[v|]|l|e]; destruct rs as [kv|l'|e']; cbn [snd]; now rewrite E2, E1, app_assoc.
      * eapply within_weaken; [apply (within_app _ _ _ _ W1 W2)|].
        -- intros q H1 H2. exact (below_head_tail_disjoint k ns rest q Hnd H1 (below_sel_below _ _ _ H2)).
        -- intros q [H|H]; apply below_sel_cons; [left; now split|now right].
Qed.

Lemma in_keys_same_nodes (fs : fields) k ns ns' : NoDup (keys fs) -> In (k, ns) fs -> In (k, ns') fs -> ns = ns'.
Proof.
  induction fs as [|[k0 n0] rest IH]; intros Hnd H1 H2; [contradiction|].
  cbn [keys map fst] in Hnd. inversion Hnd as [|? ? Hni Hnd']; subst.
  destruct H1 as [H1|H1]; destruct H2 as [H2|H2].
  - congruence.
  - injection H1 as -> ->. exfalso. apply Hni. apply (in_map fst rest (k, ns') H2).
  - injection H2 as -> ->. exfalso. apply Hni. apply (in_map fst rest (k, ns) H1).
  - now apply IH.
Qed.

Lemma mixed_calls fs : NoDup (keys fs) -> app_log (exec_fields_mixed isc rf fs) (below fs).
Proof.
  intros Hnd s. unfold exec_fields_mixed.
  destruct (pass1_calls fs Hnd s) as (L1 & E1 & W1 & Hs). destruct (mixed_pass1 isc rf fs s) as [r s1]. cbn [fst snd] in *.
  destruct r as [slots|l|e]; try (exists L1; split; [exact E1|]; eapply within_weaken; [exact W1|apply below_sel_below]).
  destruct (pass2_calls fs slots Hnd (Hs slots eq_refl) s1) as (L2 & E2 & W2).
  exists (L1 ++ L2). split; [now rewrite E2, E1, app_assoc|].
  eapply within_weaken; [apply (within_app _ _ _ _ W1 W2)|].
  - intros q (k & ns & Hin & Hb & He) (k' & ns' & Hin' & Hb' & He').
    pose proof (ext_diff _ _ _ _ He He') as Hk. injection Hk as ->.
    rewrite (in_keys_same_nodes fs k' ns ns' Hnd Hin Hin') in Hb. congruence.
  - intros q [H|H]; exact (below_sel_below _ _ _ H).
Qed.

Lemma below_sext fs q : below fs q -> sext opath q.
Proof. intros (k & ns & _ & H). now apply ext_snoc_sext with (KName k). Qed.
End Fields.

(* ---------- lists ---------- *)
Lemma handle_field_error_log l nodes path t s : s_log (snd (handle_field_error l nodes path t s)) = s_log s.
Proof. unfold handle_field_error. destruct (is_non_null t); reflexivity. Qed.

Definition from_index (path : list pkey) (i : Z) (q : list pkey) : Prop := exists j, (i <= j)%Z /\ sext (path ++ [KIdx j]) q.

Lemma complete_items_calls (ci : pyval -> list pkey -> M pyval) path :
  (forall x p, app_log (ci x p) (sext p)) ->
  forall items i, app_log (complete_items ci path i items) (from_index path i).
Proof.
  intros Hci. induction items as [|x xs IH]; intros i s; cbn [complete_items].
  - exists []. rewrite app_nil_r. split; [reflexivity|apply within_nil].
  - destruct (Hci x (path ++ [KIdx i]) s) as (L1 & E1 & W1). destruct (ci x (path ++ [KIdx i]) s) as [r s1]. cbn [snd] in E1.
    destruct (IH (i + 1)%Z s1) as (L2 & E2 & W2). destruct (complete_items ci path (i + 1) xs s1) as [rs s2]. cbn [snd] in E2.
    exists (L1 ++ L2). split.
    + destruct r as [v|l|e]; destruct rs as [vs'|l'|e']; cbn [snd]; now rewrite E2, E1, app_assoc.
    + eapply within_weaken; [apply (within_app _ _ _ _ W1 W2)|].
      * intros q H1 (j & Hj & H2). pose proof (ext_diff _ _ _ _ (sext_ext _ _ H1) (sext_ext _ _ H2)) as Hk.
        injection Hk as Hij. lia.
      * intros q [H|(j & Hj & H)]; [exists i; split; [lia|exact H]|exists j; split; [lia|exact H]].
Qed.

Lemma from_index_sext path i q : from_index path i q -> sext path q.
Proof. intros (j & _ & H). now apply sext_snoc_sext with (KIdx j). Qed.

Section Coerce.
Variable nodes : list fnode.
Variable leaf : string -> pyval -> list pkey -> M pyval.
Hypothesis Hleaf : forall n v lp, app_log (leaf n v lp) (sext lp).

Lemma coerce_output_calls : forall t v p, app_log (coerce_output nodes leaf t v p) (sext p).
Proof.
  induction t as [n|t IH|t IH]; intros v p s; cbn [coerce_output].
  - apply Hleaf.
  - destruct v; try (exists []; rewrite app_nil_r; split; [reflexivity|apply within_nil]).
    set (ci := fun (item : pyval) (ipath : list pkey) (s0 : st) =>
                 match (match is_exc_value item with
                        | Some e => (OExc [e], s0)
                        | None => coerce_output nodes leaf t item ipath s0
                        end) with
                 | (OExc l0, s1) => handle_field_error l0 nodes ipath t s1
                 | r => r
                 end).
    assert (Hci : forall x q, app_log (ci x q) (sext q)).
    { intros x q s0. unfold ci. destruct (is_exc_value x) as [e|].
      - exists []. rewrite app_nil_r, handle_field_error_log. split; [reflexivity|apply within_nil].
      - destruct (IH x q s0) as (L & E & W). destruct (coerce_output nodes leaf t x q s0) as [r s1]. cbn [snd] in E.
        exists L. split; [|exact W]. destruct r; [exact E|now rewrite handle_field_error_log|exact E]. }
    destruct (complete_items_calls ci p Hci l 0%Z s) as (L & E & W).
    fold ci. destruct (complete_items ci p 0 l s) as [r s']. cbn [snd] in E.
    exists L. split; [destruct r; exact E|]. eapply within_weaken; [exact W|apply from_index_sext].
  - destruct (IH v p s) as (L & E & W). destruct (coerce_output nodes leaf t v p s) as [r s']. cbn [snd] in E.
    exists L. split; [|exact W]. destruct r as [[]| |]; exact E.
Qed.
End Coerce.

(* ---------- objects, leaves, one field ---------- *)
Definition rf_calls (rf : rfun) : Prop :=
  forall otype value opath k ns, app_log (rf otype value opath k ns) (ext (opath ++ [KName k])).

Lemma collect_subfields_keys otype nodes sub :
  collect_subfields sch doc vs COLLECT_FUEL otype nodes [] [] = Some sub -> NoDup (keys sub).
Proof.
  unfold COLLECT_FUEL. rewrite collect_subfields_refines_spec.
  destruct (spec_collect _ _ _ _ _ _ _) as [[flat v]|]; [|discriminate]. intros H. injection H as <-.
  apply group_fields_nodup. constructor.
Qed.

Lemma exec_sub_calls rf nodes otype value opath : rf_calls rf -> app_log (exec_sub sch doc vs cfg rf nodes otype value opath) (sext opath).
Proof.
  intros Hrf s. unfold exec_sub.
  destruct (collect_subfields sch doc vs COLLECT_FUEL otype nodes [] []) as [sub|] eqn:Hc.
  - destruct (mixed_calls opath (fun k ns => rf otype value opath k ns) (fun k ns => Hrf otype value opath k ns)
                          (field_conc cfg otype) sub (collect_subfields_keys _ _ _ Hc) s) as (L & E & W).
    destruct (exec_fields_mixed _ _ sub s) as [r s1]. cbn [snd] in E.
    exists L. split; [destruct r; exact E|]. eapply within_weaken; [exact W|apply below_sext].
  - exists []. rewrite app_nil_r. split; [reflexivity|apply within_nil].
Qed.

Lemma add_call_tr_log path n v s : rsites (s_log (add_call (CTypeResolver path n v) s)) = rsites (s_log s).
Proof. cbn. rewrite rsites_app. cbn. now rewrite app_nil_r. Qed.

Lemma none_match {A} (v : pyval) (x y : A) : match v with PNone => x | _ => y end = if is_none v then x else y.
Proof. destruct v; reflexivity. Qed.

Lemma abstract_calls rf ptype fd nodes path n v lp s :
  rf_calls rf ->
  exists L,
    s_log (snd (let tr := match type_resolver_kind U n ptype (fd_name fd) with
                          | TRDefault => (URet (default_type_resolver v), s)
                          | TRCustom => (type_resolver U path n v, add_call (CTypeResolver path n v) s)
                          end in
                match tr with
                | (URaise msg _ ext0, s1) => (OExc [user_raise msg ext0], s1)
                | (URet t, s1) =>
                    match resolve_runtime_type sch n t nodes with
                    | OVal rt => exec_sub sch doc vs cfg rf nodes rt v lp s1
                    | OExc l => (OExc l, s1)
                    | OCrash e => (OCrash e, s1)
                    end
                end)) = s_log s ++ L /\ within (sext lp) L.
Proof.
  intros Hrf. cbv zeta.
  assert (Hnil : exists L, s_log s = s_log s ++ L /\ within (sext lp) L) by (exists []; rewrite app_nil_r; split; [reflexivity|apply within_nil]).
  destruct (type_resolver_kind U n ptype (fd_name fd)).
  - destruct (resolve_runtime_type sch n (default_type_resolver v) nodes) as [rt|lx|ex]; try exact Hnil.
    apply (exec_sub_calls rf nodes rt v lp Hrf s).
  - set (s1 := add_call (CTypeResolver path n v) s).
    assert (Hs1 : s_log s1 = s_log s ++ [CTypeResolver path n v]) by reflexivity.
    assert (Hone : exists L, s_log s1 = s_log s ++ L /\ within (sext lp) L).
    { exists [CTypeResolver path n v]. split; [exact Hs1|]. split; [constructor|intros q []]. }
    destruct (type_resolver U path n v) as [tx|msg gx ext0]; [|exact Hone].
    destruct (resolve_runtime_type sch n tx nodes) as [rt|lx|ex]; try exact Hone.
    destruct (exec_sub_calls rf nodes rt v lp Hrf s1) as (L & E & W).
    exists ([CTypeResolver path n v] ++ L). split; [rewrite E, Hs1; now rewrite app_assoc|].
    destruct W as [W1 W2]. split; [rewrite rsites_app; exact W1|intros q Hq; rewrite rsites_app in Hq; now apply W2].
Qed.

Lemma leaf_coercer_calls rf ptype fd nodes path n v lp :
  rf_calls rf -> app_log (leaf_coercer sch doc vs U cfg rf ptype fd nodes path n v lp) (sext lp).
Proof.
  intros Hrf s. unfold leaf_coercer.
  assert (Hnil : exists L, s_log s = s_log s ++ L /\ within (sext lp) L) by (exists []; rewrite app_nil_r; split; [reflexivity|apply within_nil]).
  destruct (find_type sch n) as [[ |values|fields|ifs fs|fs|ms]|]; try exact Hnil.
  - rewrite none_match. destruct (is_none v); [exact Hnil|].
    destruct (scalars sch n) as [ops|]; [|exact Hnil].
    destruct (s_output ops v) as [rr|ex]; [destruct (is_undef rr); exact Hnil|destruct ex; exact Hnil].
  - destruct v; try exact Hnil. destruct (mem_str s0 values); exact Hnil.
  - rewrite none_match. destruct (is_none v); [exact Hnil|]. apply (exec_sub_calls rf nodes n v lp Hrf s).
  - rewrite none_match. destruct (is_none v); [exact Hnil|]. apply (abstract_calls rf ptype fd nodes path n v lp s Hrf).
  - rewrite none_match. destruct (is_none v); [exact Hnil|]. apply (abstract_calls rf ptype fd nodes path n v lp s Hrf).
Qed.

(* ---------- one field ---------- *)
Lemma resolve_field_body_calls rf : rf_calls rf -> rf_calls (resolve_field_body sch doc vs U cfg rf).
Proof.
  intros Hrf otype value opath k ns s. unfold resolve_field_body.
  assert (Hnil : exists L, s_log s = s_log s ++ L /\ within (ext (opath ++ [KName k])) L)
    by (exists []; rewrite app_nil_r; split; [reflexivity|apply within_nil]).
  destruct ns as [|node rest]; [exact Hnil|].
  destruct (get_field_definition sch otype (fn_name node)) as [fd|]; [|exact Hnil].
  set (path := opath ++ [KName k]).
  (* what complete_field appends, from any state *)
  assert (Hcf : forall raw s1, exists L, s_log (snd (complete_field sch doc vs U cfg rf otype fd (node :: rest) path raw s1)) = s_log s1 ++ L /\
                                         within (sext path) L).
  { intros raw s1. unfold complete_field.
    assert (Hn1 : exists L, s_log s1 = s_log s1 ++ L /\ within (sext path) L)
      by (exists []; rewrite app_nil_r; split; [reflexivity|apply within_nil]).
    destruct raw as [v|l|e].
    - destruct (is_exc_value v) as [ev|].
      + destruct Hn1 as (L & E & W). exists L. split; [|exact W].
        destruct (handle_field_error [ev] (node :: rest) path (fd_type fd) s1) as [r s3] eqn:Hh.
        pose proof (handle_field_error_log [ev] (node :: rest) path (fd_type fd) s1) as Hl. rewrite Hh in Hl. cbn [snd] in Hl.
        destruct r; cbn [snd]; now rewrite Hl.
      + destruct (coerce_output_calls (node :: rest) (leaf_coercer sch doc vs U cfg rf otype fd (node :: rest) path)
                    (fun n0 v0 lp => leaf_coercer_calls rf otype fd (node :: rest) path n0 v0 lp Hrf) (fd_type fd) v path s1) as (L & E & W).
        destruct (coerce_output _ _ (fd_type fd) v path s1) as [r s2]. cbn [snd] in E.
        exists L. split; [|exact W]. destruct r as [v'|l|e]; cbn [snd]; try exact E.
        destruct (handle_field_error l (node :: rest) path (fd_type fd) s2) as [r s3] eqn:Hh.
        pose proof (handle_field_error_log l (node :: rest) path (fd_type fd) s2) as Hl. rewrite Hh in Hl. cbn [snd] in Hl.
        destruct r; cbn [snd]; now rewrite Hl.
    - destruct Hn1 as (L & E & W). exists L. split; [|exact W].
      destruct (handle_field_error l (node :: rest) path (fd_type fd) s1) as [r s3] eqn:Hh.
      pose proof (handle_field_error_log l (node :: rest) path (fd_type fd) s1) as Hl. rewrite Hh in Hl. cbn [snd] in Hl.
      destruct r; cbn [snd]; now rewrite Hl.
    - exact Hn1. }
  (* resolve_value appends at most the field's own call *)
  assert (Hrv : exists own, s_log (snd (resolve_value sch vs U otype value path fd node s)) = s_log s ++ own /\
                            (own = [] \/ exists pt f src args, own = [CResolver path pt f src args])).
  { unfold resolve_value. destruct (String.eqb (fn_name node) "__typename"); [exists []; rewrite app_nil_r; auto|].
    destruct (coerce_arguments sch 20 (fd_args fd) (fn_loc node) (fn_args node) vs) as [[args [|ae aes]]|e];
      try solve [exists []; rewrite app_nil_r; auto].
    destruct (has_resolver U otype (fd_name fd)); [|exists []; rewrite app_nil_r; auto].
    exists [CResolver path otype (fd_name fd) value args]. split; [|right; eauto].
    destruct (resolver U path otype (fd_name fd) value args); reflexivity. }
  destruct Hrv as (own & Eown & Hown).
  destruct (resolve_value sch vs U otype value path fd node s) as [raw s1]. cbn [snd] in Eown.
  assert (Hown_within : within (fun q => q = path) own).
  { destruct Hown as [->|(pt & f & src & args & ->)]; [apply within_nil|].
    split; [cbn; constructor; [intros []|constructor]|]. intros q [<-|[]]. reflexivity. }
  assert (Hboth : forall L, within (sext path) L -> within (ext path) (own ++ L)).
  { intros L W. eapply within_weaken; [apply (within_app _ _ _ _ Hown_within W)|].
    - intros q -> H. exact (not_sext_self path H).
    - intros q [->|H]; [exists []; now rewrite app_nil_r|now apply sext_ext]. }
  destruct raw as [v|l|e].
  - destruct (Hcf (OVal v) s1) as (L & E & W). exists (own ++ L). split; [rewrite E, Eown; now rewrite app_assoc|now apply Hboth].
  - destruct (Hcf (OExc l) s1) as (L & E & W). exists (own ++ L). split; [rewrite E, Eown; now rewrite app_assoc|now apply Hboth].
  - exists own. split; [exact Eown|]. rewrite <- (app_nil_r own). apply Hboth. apply within_nil.
Qed.

Theorem resolve_field_calls : forall fuel, rf_calls (resolve_field sch doc vs U cfg fuel).
Proof.
  induction fuel as [|fuel IH].
  - intros otype value opath k ns s. exists []. rewrite app_nil_r. split; [reflexivity|apply within_nil].
  - cbn [resolve_field]. now apply resolve_field_body_calls.
Qed.

Lemma collect_fields_keys rt sels fs v :
  collect_fields sch doc vs COLLECT_FUEL rt sels [] [] = Some (fs, v) -> NoDup (keys fs).
Proof.
  rewrite collect_fields_refines_spec.
  destruct (spec_collect _ _ _ _ _ _ _) as [[flat v']|]; [|discriminate]. intros H. injection H as <- _.
  apply group_fields_nodup. constructor.
Qed.

(* the whole operation: resolver invocations are at pairwise different response paths *)
Theorem execute_operation_calls_once op root r :
  execute_operation sch doc vs U cfg op root = OVal r -> NoDup (rsites (r_log r)).
Proof.
  unfold execute_operation.
  destruct (root_type_of sch (o_kind op)) as [rt|]; [|discriminate].
  destruct (collect_fields sch doc vs COLLECT_FUEL rt (o_sels op) [] []) as [[fs v]|] eqn:Hc; [|discriminate].
  pose proof (collect_fields_keys _ _ _ _ Hc) as Hnd.
  set (rf := fun k ns => resolve_field sch doc vs U cfg EXEC_FUEL rt root [] k ns).
  assert (Hrf : forall k ns, app_log (rf k ns) (ext ([] ++ [KName k]))) by (intros k ns; apply resolve_field_calls).
  assert (Hrun : exists L, s_log (snd ((match o_kind op with
                                        | OpMutation => exec_fields_seq rf fs
                                        | _ => exec_fields_mixed (field_conc cfg rt) rf fs
                                        end) st0)) = s_log st0 ++ L /\ within (below [] fs) L).
  { destruct (o_kind op).
    - apply (mixed_calls [] rf Hrf (field_conc cfg rt) fs Hnd st0).
    - apply (seq_calls [] rf Hrf fs Hnd st0).
    - apply (mixed_calls [] rf Hrf (field_conc cfg rt) fs Hnd st0). }
  destruct Hrun as (L & E & [W _]).
  fold rf. destruct ((match o_kind op with OpMutation => exec_fields_seq rf fs | _ => exec_fields_mixed (field_conc cfg rt) rf fs end) st0)
    as [res s] eqn:Hres. cbn [snd] in E. cbn [st0 s_log app] in E.
  destruct res as [kv|l|e]; intros H; [| |discriminate]; injection H as <-; cbn [r_log add_errors s_log]; now rewrite E.
Qed.

End Calls.
