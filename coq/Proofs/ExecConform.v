(* C03: whatever resolvers return, the data the implementation model produces conforms to the
   schema and the selection. *)
From Coq Require Import ZArith List String Bool Lia.
From TV Require Import Py.Prelude Model.Schema Model.ImplInput Model.ImplExec.
Import ListNotations.
Open Scope string_scope.
Open Scope list_scope.

Section Conform.
Variable sch : schema.
Variable doc : document.
Variable vs : vars.
Variable U : usercode.
Variable cfg : config.

(* a response value conforms to a declared type for the (merged) field nodes selecting it *)
Inductive conf_ty : ty -> list fnode -> pyval -> Prop :=
| CNull t nodes : is_non_null t = false -> conf_ty t nodes PNone
| CNonNull t nodes v : v <> PNone -> conf_ty t nodes v -> conf_ty (TNonNull t) nodes v
| CList t nodes l : Forall (conf_ty t nodes) l -> conf_ty (TList t) nodes (PList l)
| CScalar n nodes ops v r :
    find_type sch n = Some DScalar -> scalars sch n = Some ops ->
    s_output ops v = Ok r -> is_undef r = false ->
    conf_ty (TNamed n) nodes r                       (* a value the scalar's serialiser produced *)
| CEnum n nodes values x :
    find_type sch n = Some (DEnum values) -> mem_str x values = true ->
    conf_ty (TNamed n) nodes (PStr x)                (* a declared enum value *)
| CObject n nodes rt sub kv :
    (rt = n \/ mem_str rt (possible_types sch n) = true) ->   (* a possible object type *)
    (exists ifs fs, find_type sch rt = Some (DObject ifs fs)) ->
    collect_subfields sch doc vs COLLECT_FUEL rt nodes [] [] = Some sub ->
    conf_fields rt sub kv ->
    conf_ty (TNamed n) nodes (PDict kv)
(* exactly the collected response keys (those whose field the type defines), in order *)
with conf_fields : string -> fields -> list (string * pyval) -> Prop :=
| CFNil rt : conf_fields rt [] []
| CFSkip rt k node ns rest kv :
    get_field_definition sch rt (fn_name node) = None ->
    conf_fields rt rest kv -> conf_fields rt ((k, node :: ns) :: rest) kv
| CFCons rt k node ns rest kv fd v :
    get_field_definition sch rt (fn_name node) = Some fd ->
    conf_ty (fd_type fd) (node :: ns) v ->
    conf_fields rt rest kv -> conf_fields rt ((k, node :: ns) :: rest) ((k, v) :: kv).

Ltac cnull := apply CNull; first [reflexivity | assumption].

(* what the per-field function must guarantee *)
Definition rf_ok (rf : rfun) : Prop :=
  forall otype value opath k ns s o s',
    rf otype value opath k ns s = (OVal o, s') ->
    exists node rest, ns = node :: rest /\
      match o with
      | None => get_field_definition sch otype (fn_name node) = None
      | Some v => exists fd, get_field_definition sch otype (fn_name node) = Some fd /\
                             conf_ty (fd_type fd) ns v
      end.

Lemma exec_fields_conc_conf rf otype value opath :
  rf_ok rf -> forall sub s kv s',
  exec_fields_conc (fun k ns => rf otype value opath k ns) sub s = (OVal kv, s') ->
  conf_fields otype sub kv.
Proof.
  intros Hrf. induction sub as [|[k ns] rest IH]; intros s kv s'; cbn [exec_fields_conc].
  - intros H; inversion H. constructor.
  - destruct (rf otype value opath k ns s) as [r s1] eqn:Er.
    destruct (exec_fields_conc _ rest s1) as [rs s2] eqn:Ers.
    destruct r as [[v|]|l|e]; destruct rs as [kv'|l'|e']; try discriminate;
      destruct (Hrf _ _ _ _ _ _ _ _ Er) as (node & ns' & -> & Ho);
      intros H; inversion H; subst.
    + destruct Ho as (fd & Hfd & Hc). eapply CFCons; eauto.
    + eapply CFSkip; eauto.
Qed.

Lemma exec_fields_seq_conf rf otype value opath :
  rf_ok rf -> forall sub s kv s',
  exec_fields_seq (fun k ns => rf otype value opath k ns) sub s = (OVal kv, s') ->
  conf_fields otype sub kv.
Proof.
  intros Hrf. induction sub as [|[k ns] rest IH]; intros s kv s'; cbn [exec_fields_seq].
  - intros H; inversion H. constructor.
  - destruct (rf otype value opath k ns s) as [r s1] eqn:Er.
    destruct r as [[v|]|l|e]; try discriminate;
      destruct (exec_fields_seq _ rest s1) as [rs s2] eqn:Ers;
      destruct rs as [kv'|l'|e']; try discriminate;
      destruct (Hrf _ _ _ _ _ _ _ _ Er) as (node & ns' & -> & Ho);
      intros H; inversion H; subst.
    + destruct Ho as (fd & Hfd & Hc). eapply CFCons; eauto.
    + eapply CFSkip; eauto.
Qed.

(* per-field settings: positions done in pass 1 carry values of the right shape; pass 2 completes the rest *)
Definition slot_conf (otype : string) (kn : string * list fnode) (slot : option (option pyval)) : Prop :=
  match slot with
  | None => True
  | Some o => exists node rest, snd kn = node :: rest /\
      match o with
      | None => get_field_definition sch otype (fn_name node) = None
      | Some v => exists fd, get_field_definition sch otype (fn_name node) = Some fd /\ conf_ty (fd_type fd) (snd kn) v
      end
  end.

Lemma mixed_pass1_conf isc rf otype value opath :
  rf_ok rf -> forall sub s slots s',
  mixed_pass1 isc (fun k ns => rf otype value opath k ns) sub s = (OVal slots, s') ->
  Forall2 (slot_conf otype) sub slots.
Proof.
  intros Hrf. induction sub as [|[k ns] rest IH]; intros s slots s'; cbn [mixed_pass1].
  - intros H; inversion H. constructor.
  - destruct (isc k ns).
    + destruct (mixed_pass1 isc _ rest s) as [[sl|l|e] s1] eqn:E; try discriminate.
      intros H; inversion H; subst. constructor; [exact I|eapply IH; eauto].
    + destruct (rf otype value opath k ns s) as [r s1] eqn:Er. destruct r as [o|l|e]; try discriminate.
      destruct (mixed_pass1 isc _ rest s1) as [[sl|l|e] s2] eqn:E; try discriminate.
      intros H; inversion H; subst. constructor; [|eapply IH; eauto].
      destruct (Hrf _ _ _ _ _ _ _ _ Er) as (node & ns' & -> & Ho). exists node, ns'. split; [reflexivity|exact Ho].
Qed.

Lemma mixed_pass2_conf rf otype value opath :
  rf_ok rf -> forall sub slots, Forall2 (slot_conf otype) sub slots -> forall s kv s',
  mixed_pass2 (fun k ns => rf otype value opath k ns) sub slots s = (OVal kv, s') ->
  conf_fields otype sub kv.
Proof.
  intros Hrf sub slots HF. induction HF as [|[k ns] slot rest srest Hs HF IH]; intros s kv s'; cbn [mixed_pass2].
  - intros H; inversion H. constructor.
  - destruct slot as [o|].
    + destruct (mixed_pass2 _ rest srest s) as [rs s2] eqn:Ers. destruct rs as [kv'|l'|e']; try discriminate.
      destruct Hs as (node & ns' & Hns & Ho). cbn [snd] in Hns. subst ns.
      intros H; inversion H; subst. destruct o as [v|].
      * destruct Ho as (fd & Hfd & Hc). eapply CFCons; eauto.
      * eapply CFSkip; eauto.
    + destruct (rf otype value opath k ns s) as [r s1] eqn:Er.
      destruct (mixed_pass2 _ rest srest s1) as [rs s2] eqn:Ers.
      destruct r as [[v|]|l|e]; destruct rs as [kv'|l'|e']; try discriminate;
        destruct (Hrf _ _ _ _ _ _ _ _ Er) as (node & ns' & -> & Ho);
        intros H; inversion H; subst.
      * destruct Ho as (fd & Hfd & Hc). eapply CFCons; eauto.
      * eapply CFSkip; eauto.
Qed.

Lemma exec_fields_mixed_conf isc rf otype value opath :
  rf_ok rf -> forall sub s kv s',
  exec_fields_mixed isc (fun k ns => rf otype value opath k ns) sub s = (OVal kv, s') ->
  conf_fields otype sub kv.
Proof.
  intros Hrf sub s kv s'. unfold exec_fields_mixed.
  destruct (mixed_pass1 isc _ sub s) as [[slots|l|e] s1] eqn:E1; try discriminate.
  intros H. eapply mixed_pass2_conf; eauto. eapply mixed_pass1_conf; eauto.
Qed.

Lemma exec_sub_conf rf nodes n rt value opath s r s' :
  rf_ok rf ->
  (rt = n \/ mem_str rt (possible_types sch n) = true) ->
  (exists ifs fs, find_type sch rt = Some (DObject ifs fs)) ->
  exec_sub sch doc vs cfg rf nodes rt value opath s = (OVal r, s') ->
  conf_ty (TNamed n) nodes r.
Proof.
  intros Hrf Hrt Hobj. unfold exec_sub.
  destruct (collect_subfields sch doc vs COLLECT_FUEL rt nodes [] []) as [sub|] eqn:Ec; [|discriminate].
  destruct (exec_fields_mixed _ _ sub s) as [[kv|l|e] s1] eqn:E; try discriminate.
  intros H; inversion H; subst. eapply CObject; eauto. eapply exec_fields_mixed_conf; eauto.
Qed.

Lemma resolve_runtime_type_ok n t nodes rt :
  resolve_runtime_type sch n t nodes = OVal rt ->
  mem_str rt (possible_types sch n) = true /\ exists ifs fs, find_type sch rt = Some (DObject ifs fs).
Proof.
  unfold resolve_runtime_type. destruct t; try discriminate.
  destruct (find_type sch s) as [[ | | |ifs fs| | ]|] eqn:E; try discriminate.
  destruct (mem_str s (possible_types sch n)) eqn:Em; [|discriminate].
  intros H; inversion H; subst. split; eauto.
Qed.

Lemma leaf_conf rf ptype fd nodes path :
  rf_ok rf -> forall n v lp s r s',
  leaf_coercer sch doc vs U cfg rf ptype fd nodes path n v lp s = (OVal r, s') ->
  conf_ty (TNamed n) nodes r.
Proof.
  intros Hrf n v lp s r s'. unfold leaf_coercer.
  destruct (find_type sch n) as [[ |values|ifields|ifs fs|fs|ms]|] eqn:En; try discriminate.
  - (* scalar *)
    destruct v; try (intros H; inversion H; subst; cnull);
      (destruct (scalars sch n) as [ops|] eqn:Eo; [|discriminate]);
      match goal with |- context [s_output ops ?x] => destruct (s_output ops x) as [o|ex] eqn:Es end;
      try (destruct ex; discriminate);
      (destruct (is_undef o) eqn:Eu; [discriminate|]);
      intros H; inversion H; subst; eapply CScalar; eauto.
  - (* enum *)
    destruct v; try discriminate; try (intros H; inversion H; subst; cnull).
    destruct (mem_str s0 values) eqn:Em; [|discriminate].
    intros H; inversion H; subst. eapply CEnum; eauto.
  - (* object *)
    destruct v; try (intros H; inversion H; subst; cnull);
      intros H; eapply exec_sub_conf; eauto.
  - (* interface *)
    destruct v; try (intros H; inversion H; subst; cnull);
      (destruct (type_resolver_kind U n ptype (fd_name fd));
       [ cbv beta iota zeta
       | destruct (type_resolver U path n _) as [t|msg g ext] eqn:Et; [|discriminate] ]);
      match goal with |- context [resolve_runtime_type sch n ?t nodes] =>
        destruct (resolve_runtime_type sch n t nodes) as [rt|lx|ex] eqn:Er end; try discriminate;
      destruct (resolve_runtime_type_ok _ _ _ _ Er) as [Hp Ho];
      intros H; eapply exec_sub_conf; eauto.
  - (* union *)
    destruct v; try (intros H; inversion H; subst; cnull);
      (destruct (type_resolver_kind U n ptype (fd_name fd));
       [ cbv beta iota zeta
       | destruct (type_resolver U path n _) as [t|msg g ext] eqn:Et; [|discriminate] ]);
      match goal with |- context [resolve_runtime_type sch n ?t nodes] =>
        destruct (resolve_runtime_type sch n t nodes) as [rt|lx|ex] eqn:Er end; try discriminate;
      destruct (resolve_runtime_type_ok _ _ _ _ Er) as [Hp Ho];
      intros H; eapply exec_sub_conf; eauto.
Qed.

(* handle_field_error yields null only at a nullable type *)
Lemma handle_field_error_val l nodes path t s v s' :
  handle_field_error l nodes path t s = (OVal v, s') -> v = PNone /\ is_non_null t = false.
Proof.
  unfold handle_field_error. destruct (is_non_null t); [discriminate|].
  intros H; inversion H; auto.
Qed.

Lemma complete_items_forall (P : pyval -> Prop) ci path :
  (forall x ip s v s', ci x ip s = (OVal v, s') -> P v) ->
  forall items i s l s', complete_items ci path i items s = (OVal l, s') -> Forall P l.
Proof.
  intros Hci. induction items as [|x xs IH]; intros i s l s'; cbn [complete_items].
  - intros H; inversion H. constructor.
  - destruct (ci x (path ++ [KIdx i]) s) as [r s1] eqn:Er.
    destruct (complete_items ci path (i + 1)%Z xs s1) as [rs s2] eqn:Ers.
    destruct r as [v|lx|e]; destruct rs as [vs'|lx'|e']; try discriminate.
    intros H; inversion H; subst. constructor; eauto.
Qed.

Lemma coerce_output_conf nodes leaf :
  (forall n v lp s r s', leaf n v lp s = (OVal r, s') -> conf_ty (TNamed n) nodes r) ->
  forall t v path s r s',
  coerce_output nodes leaf t v path s = (OVal r, s') -> conf_ty t nodes r.
Proof.
  intros Hleaf. induction t as [n|t IH|t IH]; intros v path s r s'; cbn [coerce_output].
  - apply Hleaf.
  - destruct v; try discriminate.
    + intros H; inversion H; subst. cnull.
    + match goal with |- context [complete_items ?ci path 0%Z l s] =>
        destruct (complete_items ci path 0%Z l s) as [[lv|le|e] s1] eqn:Ec;
        pose proof (complete_items_forall (conf_ty t nodes) ci path) as Hall end; try discriminate.
      intros H; inversion H; subst. constructor. eapply Hall; [|exact Ec].
      intros x ip s0 v0 s0'. cbv beta.
      destruct (is_exc_value x) as [ex|].
      * intros Hh. apply handle_field_error_val in Hh. destruct Hh as [-> Hn]. cnull.
      * destruct (coerce_output nodes leaf t x ip s0) as [[cv|cl|ce] s2] eqn:Eco.
        -- intros Hh; inversion Hh; subst. eapply IH; eauto.
        -- intros Hh. apply handle_field_error_val in Hh. destruct Hh as [-> Hn]. cnull.
        -- discriminate.
  - destruct (coerce_output nodes leaf t v path s) as [[cv|cl|ce] s1] eqn:Eco; try discriminate.
    destruct cv; intros H; inversion H; subst;
      (apply CNonNull; [discriminate | eapply IH; eauto]).
Qed.

Lemma resolve_field_body_ok rf : rf_ok rf -> rf_ok (resolve_field_body sch doc vs U cfg rf).
Proof.
  intros Hrf otype value opath k ns s o s'. unfold resolve_field_body.
  destruct ns as [|node rest]; [discriminate|].
  destruct (get_field_definition sch otype (fn_name node)) as [fd|] eqn:Efd.
  - destruct (resolve_value sch vs U otype value (opath ++ [KName k]) fd node s) as [raw s1] eqn:Erv.
    assert (Hcf : forall raw', complete_field sch doc vs U cfg rf otype fd (node :: rest) (opath ++ [KName k]) raw' s1 = (OVal o, s') ->
                  exists node0 rest0, node :: rest = node0 :: rest0 /\
                    match o with
                    | None => get_field_definition sch otype (fn_name node0) = None
                    | Some v => exists fd0, get_field_definition sch otype (fn_name node0) = Some fd0 /\
                                            conf_ty (fd_type fd0) (node :: rest) v
                    end).
    { intros raw'. unfold complete_field.
      set (leaf := leaf_coercer sch doc vs U cfg rf otype fd (node :: rest) (opath ++ [KName k])).
      assert (Hleaf : forall n v lp s0 r s0', leaf n v lp s0 = (OVal r, s0') -> conf_ty (TNamed n) (node :: rest) r)
        by (intros; eapply leaf_conf; eauto).
      intros H. exists node, rest. split; [reflexivity|].
      destruct raw' as [v|l|e].
      - destruct (is_exc_value v) as [ex|].
        + destruct (handle_field_error [ex] _ _ _ s1) as [[hv|hl|he] s3] eqn:Eh; try discriminate.
          inversion H; subst. apply handle_field_error_val in Eh. destruct Eh as [-> Hn].
          exists fd; split; [exact Efd| cnull].
        + destruct (coerce_output _ leaf (fd_type fd) v _ s1) as [[cv|cl|ce] s2] eqn:Eco.
          * inversion H; subst. exists fd; split; [exact Efd|]. eapply coerce_output_conf; eauto.
          * destruct (handle_field_error cl _ _ _ s2) as [[hv|hl|he] s3] eqn:Eh; try discriminate.
            inversion H; subst. apply handle_field_error_val in Eh. destruct Eh as [-> Hn].
            exists fd; split; [exact Efd| cnull].
          * discriminate.
      - destruct (handle_field_error l _ _ _ s1) as [[hv|hl|he] s3] eqn:Eh; try discriminate.
        inversion H; subst. apply handle_field_error_val in Eh. destruct Eh as [-> Hn].
        exists fd; split; [exact Efd| cnull].
      - discriminate. }
    destruct raw as [v|l|e]; try discriminate; intros Hx; eapply Hcf; exact Hx.
  - intros H; inversion H; subst. exists node, rest. split; [reflexivity|exact Efd].
Qed.

Theorem resolve_field_ok fuel : rf_ok (resolve_field sch doc vs U cfg fuel).
Proof.
  induction fuel as [|fuel IH].
  - intros otype value opath k ns s o s'. cbn. discriminate.
  - cbn [resolve_field]. now apply resolve_field_body_ok.
Qed.

(* the whole response: data is null, or an object with exactly the collected root keys *)
Theorem execute_operation_conforms op root r :
  execute_operation sch doc vs U cfg op root = OVal r ->
  r_data r = PNone \/
  exists rt fs v kv, root_type_of sch (o_kind op) = Some rt /\
    collect_fields sch doc vs COLLECT_FUEL rt (o_sels op) [] [] = Some (fs, v) /\
    r_data r = PDict kv /\ conf_fields rt fs kv.
Proof.
  unfold execute_operation.
  destruct (root_type_of sch (o_kind op)) as [rt|] eqn:Ert; [|discriminate].
  destruct (collect_fields sch doc vs COLLECT_FUEL rt (o_sels op) [] []) as [[fs v]|] eqn:Ec; [|discriminate].
  pose proof (resolve_field_ok EXEC_FUEL) as Hrf.
  assert (Hboth : forall run,
            (run = exec_fields_mixed (field_conc cfg rt) (fun k ns => resolve_field sch doc vs U cfg EXEC_FUEL rt root [] k ns) fs \/
             run = exec_fields_seq (fun k ns => resolve_field sch doc vs U cfg EXEC_FUEL rt root [] k ns) fs) ->
            match run st0 with
            | (OVal kv, s) => OVal {| r_data := PDict kv; r_errors := s_errors s; r_log := s_log s |}
            | (OExc l, s) =>
                let s' := add_errors l s in
                OVal {| r_data := PNone; r_errors := s_errors s'; r_log := s_log s' |}
            | (OCrash e, _) => OCrash e
            end = OVal r ->
            r_data r = PNone \/
            exists rt0 fs0 v0 kv, Some rt = Some rt0 /\ Some (fs, v) = Some (fs0, v0) /\
              r_data r = PDict kv /\ conf_fields rt0 fs0 kv).
  { intros run Hrun. destruct (run st0) as [[kv|l|e] s] eqn:Erun; try discriminate.
    - intros H; inversion H; subst r. right. exists rt, fs, v, kv. cbn [r_data].
      split; [reflexivity|]. split; [reflexivity|]. split; [reflexivity|].
      destruct Hrun as [-> | ->].
      + eapply exec_fields_mixed_conf; eauto.
      + eapply exec_fields_seq_conf; eauto.
    - intros H; inversion H; subst r. now left. }
  assert (Hfin : forall run,
            (run = exec_fields_mixed (field_conc cfg rt) (fun k ns => resolve_field sch doc vs U cfg EXEC_FUEL rt root [] k ns) fs \/
             run = exec_fields_seq (fun k ns => resolve_field sch doc vs U cfg EXEC_FUEL rt root [] k ns) fs) ->
            match run st0 with
            | (OVal kv, s) => OVal {| r_data := PDict kv; r_errors := s_errors s; r_log := s_log s |}
            | (OExc l, s) =>
                let s' := add_errors l s in
                OVal {| r_data := PNone; r_errors := s_errors s'; r_log := s_log s' |}
            | (OCrash e, _) => OCrash e
            end = OVal r ->
            r_data r = PNone \/
            exists rt0 fs0 v0 kv, Some rt = Some rt0 /\
              collect_fields sch doc vs COLLECT_FUEL rt0 (o_sels op) [] [] = Some (fs0, v0) /\
              r_data r = PDict kv /\ conf_fields rt0 fs0 kv).
  { intros run Hrun H.
    destruct (Hboth run Hrun H) as [Hl | (rt0 & fs0 & v0 & kv & E1 & E2 & Hd & Hc)]; [now left|].
    right. inversion E1; inversion E2; subst. exists rt0, fs0, v0, kv. auto. }
  destruct (o_kind op); apply Hfin; auto.
Qed.

End Conform.
