(* The per-site rules of the validation walk, each EXACT against the specification's predicate at that
   site, for every schema: argument names (5.4.1), required arguments (5.4.2.1), directives in valid
   locations (5.7.2), directives defined (5.7.1), type-condition existence / compositeness (5.5.1.2,
   5.5.1.3).  What remains for the whole-document statement is that the walk visits every site with the
   scope the specification computes (decided per document by the check). *)
From Coq Require Import ZArith List String Bool Lia.
From TV Require Import Py.Prelude Model.Schema Model.ImplValidate Model.SpecValidate Proofs.ValidateProofs.
Import ListNotations.
Open Scope list_scope.

Lemma flat_map_nil_iff {A B} (f : A -> list B) l : flat_map f l = [] <-> forall x, In x l -> f x = [].
Proof.
  induction l as [|a l IH]; cbn [flat_map]; [split; [intros _ x []|reflexivity]|].
  split.
  - intros H x [<-|Hx]; apply app_eq_nil in H; destruct H as [H1 H2]; [exact H1|now apply IH].
  - intros H. rewrite (H a (or_introl eq_refl)). apply IH. intros x Hx. apply H. now right.
Qed.

Section Sites.
Variable V : vschema.

(* 5.4.1 *)
Theorem argument_names_exact path ds args :
  argument_names_errors path (Some ds) args = [] <->
  forallb (fun a => existsb (fun d => String.eqb (in_name d) (a_name a)) ds) args = true.
Proof.
  unfold argument_names_errors. rewrite flat_map_nil_iff, forallb_forall. split; intros H a Ha; specialize (H a Ha).
  - destruct (existsb _ ds); [reflexivity|discriminate].
  - now rewrite H.
Qed.

(* 5.4.2.1 *)
Theorem required_arguments_exact path ds l args :
  required_arguments_errors path (Some ds) l args = [] <->
  forallb (fun d => negb (is_non_null (in_type d)) || match in_default d with Some _ => true | None => false end ||
                    existsb (fun a => String.eqb (a_name a) (in_name d)) args) ds = true.
Proof.
  unfold required_arguments_errors. rewrite flat_map_nil_iff, forallb_forall. split; intros H d Hd; specialize (H d Hd).
  - destruct (is_non_null (in_type d)), (in_default d), (existsb _ args); cbn in *; try reflexivity; discriminate.
  - destruct (is_non_null (in_type d)), (in_default d), (existsb _ args); cbn in *; try reflexivity; discriminate.
Qed.

(* 5.7.2 *)
Theorem valid_locations_exact path where_ l ds :
  valid_locations_errors V path where_ l ds = [] <->
  forallb (fun d => match s_directive V (d_name d) with
                    | Some dd => mem_str where_ (dd_locs dd)
                    | None => true end) ds = true.
Proof.
  unfold valid_locations_errors, s_directive. rewrite flat_map_nil_iff, forallb_forall. split; intros H d Hd; specialize (H d Hd).
  - destruct (vfind_directive V (d_name d)) as [dd|]; [|reflexivity]. destruct (mem_str where_ (dd_locs dd)); [reflexivity|discriminate].
  - destruct (vfind_directive V (d_name d)) as [dd|]; [|reflexivity]. now rewrite H.
Qed.

(* the two rules of one field against its reduced type: 5.3.1 (unless __typename) and 5.3.3 *)
Theorem field_exists_exact path l name (rt : option typedef) :
  (if String.eqb name "__typename" then [] else
   match rt with None => [mkerr "field-selections-on-objects-interfaces-and-unions-types" path [l]] | Some _ => [] end) = [] <->
  (String.eqb name "__typename" = true \/ rt <> None).
Proof.
  destruct (String.eqb name "__typename"); [split; [now left|reflexivity]|].
  destruct rt; split; try reflexivity; try discriminate.
  - intros _. right. discriminate.
  - intros [H|H]; [discriminate|contradiction].
Qed.

Theorem leaf_selection_exact path l (d : typedef) has_sels :
  (if negb has_sels && is_composite_def d then [mkerr "leaf-field-selections" path [l]]
   else if has_sels && negb (is_composite_def d) then [mkerr "leaf-field-selections" path [l]] else []) = [] <->
  Bool.eqb has_sels (is_composite_def d) = true.
Proof. destruct has_sels, (is_composite_def d); cbn; split; try reflexivity; discriminate. Qed.

(* 5.5.1.2 / 5.5.1.3 at a type condition *)
Theorem type_condition_exists_exact path l t :
  (if has_type V t then [] else [mkerr "fragment-spread-type-existence" path [l]]) = [] <->
  (match s_type V t with Some _ => true | None => false end) = true.
Proof. unfold has_type, s_type. destruct (vfind_type V t); split; try reflexivity; discriminate. Qed.

Theorem type_condition_composite_exact path l t :
  (match vfind_type V t with
   | Some d => if is_composite_def d then [] else [mkerr "fragments-on-composite-types" path [l]]
   | None => [] end) = [] <->
  (match s_type V t with Some d => is_composite_def d | None => true end) = true.
Proof. unfold s_type. destruct (vfind_type V t) as [d|]; [destruct (is_composite_def d)|]; split; try reflexivity; discriminate. Qed.

End Sites.
