(* collect_fields (accumulator-passing, one shared ordered dict and visited set) computes the
   grouping of the specification's ordered traversal; consequences for response keys. *)
From Coq Require Import ZArith List String Bool Lia.
From TV Require Import Py.Prelude Model.Schema Model.ImplInput Model.ImplExec Model.SpecExec.
Import ListNotations.
Open Scope string_scope.
Open Scope list_scope.

Section Collect.
Variable sch : schema.
Variable doc : document.
Variable vs : vars.

Lemma group_fields_app a b acc : group_fields (a ++ b) acc = group_fields b (group_fields a acc).
Proof. unfold group_fields. apply fold_left_app. Qed.

Theorem collect_fields_refines_spec : forall fuel rt sels acc visited,
  collect_fields sch doc vs fuel rt sels acc visited =
  match spec_collect sch doc vs fuel rt sels visited with
  | Some (flat, v) => Some (group_fields flat acc, v)
  | None => None
  end.
Proof.
  induction fuel as [|fuel IH]; intros rt sels acc visited; [reflexivity|].
  cbn [collect_fields spec_collect].
  revert acc visited.
  induction sels as [|sel rest IHs]; intros acc visited; [reflexivity|].
  destruct sel as [l alias name args dirs sub | l name dirs | l tc dirs sub].
  - destruct (should_include sch vs dirs).
    + rewrite IHs.
      match goal with |- context [match ?g with Some _ => _ | None => _ end] =>
        destruct g as [[flat v]|] eqn:E end; reflexivity.
    + apply IHs.
  - destruct (mem_str name visited || negb (should_include sch vs dirs)); [apply IHs|].
    destruct (find_fragment (fragments doc) name) as [fr|]; [|reflexivity].
    destruct (condition_matches sch (Some (fr_type fr)) rt); [|apply IHs].
    rewrite IH.
    destruct (spec_collect sch doc vs fuel rt (fr_sels fr) (name :: visited)) as [[flat1 v1]|]; [|reflexivity].
    rewrite IHs.
    match goal with |- context [match ?g with Some _ => _ | None => _ end] =>
      destruct g as [[flat2 v2]|] eqn:E end; [|reflexivity].
    now rewrite group_fields_app.
  - destruct (should_include sch vs dirs && condition_matches sch tc rt); [|apply IHs].
    rewrite IH.
    destruct (spec_collect sch doc vs fuel rt sub visited) as [[flat1 v1]|]; [|reflexivity].
    rewrite IHs.
    match goal with |- context [match ?g with Some _ => _ | None => _ end] =>
      destruct g as [[flat2 v2]|] eqn:E end; [|reflexivity].
    now rewrite group_fields_app.
Qed.

(* ---------- properties of grouping ---------- *)
Definition keys (fs : fields) : list string := map fst fs.

Lemma fields_add_keys k f fs :
  keys (fields_add k f fs) = if mem_str k (keys fs) then keys fs else keys fs ++ [k].
Proof.
  induction fs as [|[k' l] fs IH]; cbn [fields_add keys map mem_str fst]; [reflexivity|].
  destruct (String.eqb k k') eqn:E; cbn [orb map fst]; [reflexivity|].
  fold (keys (fields_add k f fs)). rewrite IH. fold (keys fs).
  destruct (mem_str k (keys fs)); reflexivity.
Qed.

Lemma mem_str_In x l : mem_str x l = true <-> In x l.
Proof.
  induction l as [|y l IH]; cbn [mem_str In]; [split; [discriminate|contradiction]|].
  rewrite orb_true_iff, IH, String.eqb_eq. split; intros [H|H]; auto.
Qed.

Lemma nodup_snoc (k : string) l : NoDup l -> ~ In k l -> NoDup (l ++ [k]).
Proof.
  induction l as [|y l IH]; cbn; intros H Hn.
  - constructor; [intros []|constructor].
  - inversion H; subst. constructor.
    + intro Hin. apply in_app_or in Hin. destruct Hin as [Hin|[Hin|[]]]; [contradiction|].
      subst. apply Hn. now left.
    + apply IH; auto.
Qed.

Lemma fields_add_nodup k f fs : NoDup (keys fs) -> NoDup (keys (fields_add k f fs)).
Proof.
  intros H. rewrite fields_add_keys. destruct (mem_str k (keys fs)) eqn:E; [exact H|].
  apply nodup_snoc; [exact H|]. intro Hin. apply mem_str_In in Hin. congruence.
Qed.

(* every response key appears once *)
Theorem group_fields_nodup flat : forall acc, NoDup (keys acc) -> NoDup (keys (group_fields flat acc)).
Proof.
  induction flat as [|[k f] flat IH]; intros acc H; cbn [group_fields fold_left]; [exact H|].
  apply IH. now apply fields_add_nodup.
Qed.

(* ... in first-appearance order *)
Fixpoint first_appearance (l : list string) (seen : list string) : list string :=
  match l with
  | [] => []
  | x :: l' => if mem_str x seen then first_appearance l' seen
               else x :: first_appearance l' (seen ++ [x])
  end.

Lemma mem_str_app x a b : mem_str x (a ++ b) = mem_str x a || mem_str x b.
Proof. induction a as [|y a IH]; cbn; [reflexivity|]. now rewrite IH, orb_assoc. Qed.

Theorem group_fields_order flat : forall acc,
  keys (group_fields flat acc) = keys acc ++ first_appearance (map fst flat) (keys acc).
Proof.
  induction flat as [|[k f] flat IH]; intros acc; cbn [group_fields fold_left map fst first_appearance].
  - now rewrite app_nil_r.
  - fold (group_fields flat (fields_add k f acc)). rewrite IH, fields_add_keys.
    destruct (mem_str k (keys acc)) eqn:E; [reflexivity|].
    now rewrite <- app_assoc.
Qed.

(* each group holds exactly the fields with that key, in order *)
Fixpoint nodes_of (k : string) (fs : fields) : list fnode :=
  match fs with
  | [] => []
  | (k', l) :: fs' => if String.eqb k k' then l else nodes_of k fs'
  end.

Lemma nodes_of_add k k' f fs :
  NoDup (keys fs) ->
  nodes_of k (fields_add k' f fs) = if String.eqb k k' then nodes_of k fs ++ [f] else nodes_of k fs.
Proof.
  induction fs as [|[k2 l] fs IH]; intros Hnd; cbn [fields_add nodes_of].
  - destruct (String.eqb k k'); reflexivity.
  - inversion Hnd as [|? ? Hnotin Hnd']; subst.
    destruct (String.eqb k' k2) eqn:E2; cbn [nodes_of].
    + apply String.eqb_eq in E2; subst k2.
      destruct (String.eqb k k') eqn:E; reflexivity.
    + destruct (String.eqb k k2) eqn:E.
      * apply String.eqb_eq in E; subst k2.
        destruct (String.eqb k k') eqn:E3; [|reflexivity].
        apply String.eqb_eq in E3; subst k'. rewrite String.eqb_refl in E2. discriminate.
      * apply IH. exact Hnd'.
Qed.

Theorem group_fields_nodes flat : forall acc k,
  NoDup (keys acc) ->
  nodes_of k (group_fields flat acc) =
  nodes_of k acc ++ map snd (filter (fun kn => String.eqb k (fst kn)) flat).
Proof.
  induction flat as [|[k' f] flat IH]; intros acc k Hnd; cbn [group_fields fold_left filter map].
  - now rewrite app_nil_r.
  - fold (group_fields flat (fields_add k' f acc)).
    rewrite IH by now apply fields_add_nodup.
    rewrite nodes_of_add by exact Hnd. cbn [fst].
    destruct (String.eqb k k'); cbn [map snd]; [now rewrite <- app_assoc|reflexivity].
Qed.

End Collect.
