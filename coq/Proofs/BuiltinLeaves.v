(* The assumptions the type-soundness theorems make of scalars hold for the five built-in scalars
   as REGENERATED from /repo (Gen/Scalars_gen.v through Model/StdScalars.v): their coerce_input /
   parse_literal return an in-range Int, a finite Float, text or a boolean -- or "invalid" -- and
   never None. *)
From Coq Require Import ZArith List String Bool SpecFloat.
From TV Require Import Py.Prelude Model.Schema Model.ScalarSpec Model.StdScalars Model.ImplInput
     Proofs.PreludeFacts Proofs.ScalarLaws Proofs.ScalarRefine Gen.Scalars_gen.
Import ListNotations.
Open Scope string_scope.

Section Builtin.
Variable O : oracles.

Definition builtin_leaf (n : string) (v : pyval) : bool :=
  if String.eqb n "Int" then match v with PInt z => in32b z | _ => false end
  else if String.eqb n "Float" then match v with PFloat f => sf_finite f | _ => false end
  else if String.eqb n "String" then match v with PStr _ => true | _ => false end
  else if String.eqb n "Boolean" then match v with PBool _ => true | _ => false end
  else if String.eqb n "ID" then match v with PStr _ => true | _ => false end
  else false.

Definition builtin_scalars (n : string) : option scalar_ops :=
  if String.eqb n "Int" || String.eqb n "Float" || String.eqb n "String" || String.eqb n "Boolean" || String.eqb n "ID"
  then std_scalars O n else None.

Lemma builtin_leaf_not_none n : builtin_leaf n PNone = false.
Proof. unfold builtin_leaf. repeat destruct (String.eqb n _); reflexivity. Qed.

Ltac pick_scalar n H :=
  unfold builtin_scalars, std_scalars in H;
  destruct (String.eqb n "Int") eqn:EInt;
  [apply String.eqb_eq in EInt; subst n; cbn in H
  |destruct (String.eqb n "Float") eqn:EFloat;
   [apply String.eqb_eq in EFloat; subst n; cbn in H
   |destruct (String.eqb n "String") eqn:EString;
    [apply String.eqb_eq in EString; subst n; cbn in H
    |destruct (String.eqb n "Boolean") eqn:EBoolean;
     [apply String.eqb_eq in EBoolean; subst n; cbn in H
     |destruct (String.eqb n "ID") eqn:EID;
      [apply String.eqb_eq in EID; subst n; cbn in H|cbn in H; discriminate]]]]].

Theorem builtin_leaf_input n ops v r :
  builtin_scalars n = Some ops -> s_input ops v = Ok r -> is_undef r = false -> builtin_leaf n r = true.
Proof.
  intros H Hi _. pick_scalar n H; injection H as <-; cbn [s_input] in Hi.
  - rewrite int_coerce_input_refines in Hi. apply int_input_accepts_exactly in Hi.
    destruct Hi as (z & -> & Hz & _). cbn. now apply in32b_spec.
  - rewrite float_coerce_input_refines in Hi. apply float_input_accepts_exactly in Hi.
    destruct Hi as (f & -> & Hf & _). cbn. exact Hf.
  - rewrite string_coerce_input_refines in Hi. apply string_input_accepts_exactly in Hi.
    destruct Hi as (s & _ & ->). reflexivity.
  - rewrite boolean_coerce_input_refines in Hi. apply boolean_input_accepts_exactly in Hi.
    destruct Hi as (b & _ & ->). reflexivity.
  - rewrite id_coerce_input_refines in Hi. apply id_input_accepts_exactly in Hi.
    destruct Hi as [(s & _ & ->)|(z & _ & ->)]; reflexivity.
Qed.

Theorem builtin_leaf_literal n ops a r :
  builtin_scalars n = Some ops -> wf_node a = true -> s_literal ops a = Ok r -> is_undef r = false -> builtin_leaf n r = true.
Proof.
  intros H Hw Hl Hu. pick_scalar n H; injection H as <-; cbn [s_literal] in Hl.
  - rewrite (int_parse_literal_refines O a Hw) in Hl. unfold int_literal_spec in Hl.
    destruct a as [ | | | | | | | | | | |k x]; try (injection Hl as <-; discriminate).
    destruct k; try (injection Hl as <-; discriminate).
    destruct x; try (injection Hl as <-; discriminate).
    + destruct (in32b z) eqn:E; injection Hl as <-; [cbn; exact E|discriminate].
    + destruct (string_to_Z s) as [z|]; [|injection Hl as <-; discriminate].
      destruct (in32b z) eqn:E; injection Hl as <-; [cbn; exact E|discriminate].
  - rewrite (float_parse_literal_refines O a Hw) in Hl. unfold float_literal_spec in Hl.
    destruct a as [ | | | | | | | | | | |k x]; try (injection Hl as <-; discriminate).
    destruct k; try (injection Hl as <-; discriminate); destruct x; try (injection Hl as <-; discriminate).
    + destruct (sf_of_Z z) as [f|] eqn:Hz; injection Hl as <-; [|discriminate]. cbn. eapply sf_of_Z_finite; eauto.
    + destruct (float_of_string O s) as [f|]; [|injection Hl as <-; discriminate].
      destruct (sf_finite f) eqn:E; injection Hl as <-; [cbn; exact E|discriminate].
    + destruct (sf_finite f) eqn:E; injection Hl as <-; [cbn; exact E|discriminate].
    + destruct (float_of_string O s) as [f|]; [|injection Hl as <-; discriminate].
      destruct (sf_finite f) eqn:E; injection Hl as <-; [cbn; exact E|discriminate].
  - rewrite (string_parse_literal_refines O a Hw) in Hl. unfold string_literal_spec in Hl.
    destruct a as [ | | | | | | | | | | |k x]; try (injection Hl as <-; discriminate).
    destruct k; try (injection Hl as <-; discriminate). injection Hl as <-.
    destruct x; try discriminate. reflexivity.
  - rewrite (boolean_parse_literal_refines O a Hw) in Hl. unfold boolean_literal_spec in Hl.
    destruct a as [ | | | | | | | | | | |k x]; try (injection Hl as <-; discriminate).
    destruct k; try (injection Hl as <-; discriminate). injection Hl as <-.
    destruct x; try discriminate. reflexivity.
  - rewrite (id_parse_literal_refines O a Hw) in Hl. unfold id_literal_spec in Hl.
    destruct a as [ | | | | | | | | | | |k x]; try (injection Hl as <-; discriminate).
    destruct k; try (injection Hl as <-; discriminate).
    + destruct x; injection Hl as <-; try discriminate; reflexivity.
    + injection Hl as <-. destruct x; try discriminate. reflexivity.
Qed.
End Builtin.
