(* An extension the specification predicate `ext_ok` refuses (unknown target, another kind, a member
   that exists already, a directive the target already carries, a schema directive already there)
   makes the build fail: _validate_extensions reports it, for every SDL model. *)
From Coq Require Import ZArith List String Bool Lia.
From TV Require Import Py.Prelude Model.Schema Model.ImplValidate Model.SchemaBuild Model.SpecSchema
     Proofs.SchemaProofs Proofs.SchemaInterfaces Proofs.ValidateProofs.
Import ListNotations.
Open Scope string_scope.
Open Scope list_scope.

Lemma flat_map_hit {A B} (f : A -> list B) l x : In x l -> f x <> [] -> flat_map f l <> [].
Proof.
  intros Hin Hf. induction l as [|y l IH]; [contradiction|]. cbn [flat_map].
  destruct Hin as [->|Hin].
  - destruct (f x); [congruence|discriminate].
  - intros H. apply app_eq_nil in H. destruct H as [_ H]. now apply IH.
Qed.

Lemma member_exists_reported {A} (name : A -> string) (existing : list string) (xs : list A) tag :
  forallb (fun x => negb (mem_str (name x) existing)) xs = false ->
  flat_map (fun x => if mem_str (name x) existing then [tag] else []) xs <> ([] : list string).
Proof.
  intros H. apply forallb_false_witness in H. destruct H as [x [Hin Hx]].
  apply (flat_map_hit _ xs x Hin). apply negb_false_iff in Hx. rewrite Hx. discriminate.
Qed.

Lemma member_exists_reported_wider {A} (name : A -> string) (existing more : list string) (xs : list A) tag :
  forallb (fun x => negb (mem_str (name x) existing)) xs = false ->
  flat_map (fun x => if mem_str (name x) (existing ++ more) then [tag] else []) xs <> ([] : list string).
Proof.
  intros H. apply forallb_false_witness in H. destruct H as [x [Hin Hx]].
  apply (flat_map_hit _ xs x Hin). apply negb_false_iff in Hx.
  assert (Hm : mem_str (name x) (existing ++ more) = true).
  { apply mem_str_iff. apply in_or_app. left. now apply mem_str_iff. }
  rewrite Hm. discriminate.
Qed.

Lemma dup_dirs_reported kind dirs existing :
  forallb (fun x => negb (mem_str x existing)) dirs = false -> dup_dirs kind dirs existing <> [].
Proof. intros H. unfold dup_dirs. now apply (member_exists_reported (fun x => x)). Qed.

(* one type extension the specification refuses is reported by ext_type_errors *)
Lemma ext_type_errors_complete s g0 n d dirs :
  initial s = inl g0 -> ext_ok s (XType n d dirs) = false -> ext_type_errors g0 n d dirs <> [].
Proof.
  intros Hi Hbad. unfold ext_ok in Hbad. unfold ext_type_errors.
  assert (Ht : g_types g0 = all_decls s).
  { unfold initial in Hi. destruct (first_dup (map td_name _) []); [discriminate|].
    destruct (first_dup _ []); [discriminate|]. injection Hi as <-. reflexivity. }
  rewrite Ht. destruct (find_tdecl (all_decls s) n) as [t|]; [|discriminate].
  destruct (same_kind (td_def t) d) eqn:Hk; cbn [negb andb] in *; [|discriminate].
  destruct (forallb (fun x => negb (mem_str x (td_dirs t))) dirs) eqn:Hd; cbn [andb] in Hbad.
  - (* a member that exists *)
    destruct (td_def t) as [ |vs|fs|ifs fs|fs|ms]; destruct d as [ |xs|xs|xifs xfs|xfs|xs]; try discriminate.
    + apply app_nonnil_l. now apply (member_exists_reported (fun x => x)).
    + apply app_nonnil_r. now apply (member_exists_reported in_name).
    + apply andb_false_iff in Hbad. destruct Hbad as [Hf|Hi'].
      * apply app_nonnil_l. unfold field_names. now apply (member_exists_reported_wider fd_name).
      * apply app_nonnil_r, app_nonnil_l. now apply (member_exists_reported (fun x => x)).
    + apply app_nonnil_l. now apply (member_exists_reported fd_name).
    + apply app_nonnil_l. now apply (member_exists_reported (fun x => x)).
  - (* a directive the target already carries *)
    pose proof (dup_dirs_reported) as Hdd.
    destruct (td_def t) as [ |vs|fs|ifs fs|fs|ms]; destruct d as [ |xs|xs|xifs xfs|xfs|xs]; try discriminate.
    + now apply Hdd.
    + apply app_nonnil_r. now apply Hdd.
    + apply app_nonnil_l. now apply Hdd.
    + apply app_nonnil_r, app_nonnil_r. now apply Hdd.
    + apply app_nonnil_r. now apply Hdd.
    + apply app_nonnil_r. now apply Hdd.
Qed.

Lemma kind_of_cases d :
  kind_of d = "ENUM" \/ kind_of d = "INPUT" \/ kind_of d = "TYPE" \/ kind_of d = "INTERFACE" \/ kind_of d = "SCALAR" \/ kind_of d = "UNION".
Proof. destruct d; cbn; tauto. Qed.

Definition of_kind (g : gschema) (exts : list ext) (k : string) : list string :=
  flat_map (fun e => match e with
                     | XType n d dirs => if String.eqb (kind_of d) k then ext_type_errors g n d dirs else []
                     | XSchema _ _ => [] end) exts.

Lemma of_kind_hit g exts n d dirs :
  In (XType n d dirs) exts -> ext_type_errors g n d dirs <> [] -> of_kind g exts (kind_of d) <> [].
Proof.
  intros Hin He. unfold of_kind. apply (flat_map_hit _ exts _ Hin). now rewrite String.eqb_refl.
Qed.

(* the schema-extension pass only ever adds errors *)
Definition schema_step (g : gschema) (acc : list string * list string) (e : ext) : list string * list string :=
  match e with
  | XSchema ops dirs =>
      let '(errs, extended) := acc in
      let (es, x) := schema_ext_ops g ops extended in
      (errs ++ es ++ flat_map (fun d => if mem_str d (g_schema_dirs g) then ["ext-schema-directive-already-there"] else []) dirs, x)
  | _ => acc
  end.

Lemma schema_step_mono g acc e : fst acc <> [] -> fst (schema_step g acc e) <> [].
Proof.
  intros H. destruct e as [n d dirs|ops dirs]; cbn [schema_step]; [exact H|].
  destruct acc as [errs extended]. destruct (schema_ext_ops g ops extended) as [es x]. cbn [fst] in *.
  now apply app_nonnil_l.
Qed.

Lemma schema_fold_mono g exts : forall acc, fst acc <> [] -> fst (fold_left (schema_step g) exts acc) <> [].
Proof.
  induction exts as [|e exts IH]; intros acc H; cbn [fold_left]; [exact H|]. apply IH. now apply schema_step_mono.
Qed.

Lemma schema_fold_hit g exts ops dirs :
  In (XSchema ops dirs) exts ->
  forallb (fun d => negb (mem_str d (g_schema_dirs g))) dirs = false ->
  forall acc, fst (fold_left (schema_step g) exts acc) <> [].
Proof.
  intros Hin Hbad. induction exts as [|e exts IH]; intros acc; [contradiction|]. cbn [fold_left].
  destruct Hin as [->|Hin]; [|now apply IH].
  apply schema_fold_mono. cbn [schema_step]. destruct acc as [errs extended].
  destruct (schema_ext_ops g ops extended) as [es x]. cbn [fst].
  apply app_nonnil_r, app_nonnil_r. now apply (member_exists_reported (fun x => x)).
Qed.

Lemma validate_extensions_unfold g exts :
  validate_extensions g exts =
  of_kind g exts "ENUM" ++ of_kind g exts "INPUT" ++ of_kind g exts "TYPE" ++ of_kind g exts "INTERFACE" ++
  of_kind g exts "SCALAR" ++ of_kind g exts "UNION" ++ fst (fold_left (schema_step g) exts ([], [])).
Proof. reflexivity. Qed.

Theorem invalid_extension_reported s g0 :
  initial s = inl g0 -> v_invalid_extension s = true -> validate_extensions g0 (s_exts s) <> [].
Proof.
  intros Hi Hbad. unfold v_invalid_extension in Hbad. apply negb_true_iff in Hbad.
  apply forallb_false_witness in Hbad. destruct Hbad as [e [Hin He]].
  rewrite validate_extensions_unfold.
  destruct e as [n d dirs|ops dirs].
  - pose proof (of_kind_hit g0 (s_exts s) n d dirs Hin (ext_type_errors_complete s g0 n d dirs Hi He)) as Hk.
    destruct (kind_of_cases d) as [E|[E|[E|[E|[E|E]]]]]; rewrite E in Hk.
    + now apply app_nonnil_l.
    + now apply app_nonnil_r, app_nonnil_l.
    + now apply app_nonnil_r, app_nonnil_r, app_nonnil_l.
    + now apply app_nonnil_r, app_nonnil_r, app_nonnil_r, app_nonnil_l.
    + now apply app_nonnil_r, app_nonnil_r, app_nonnil_r, app_nonnil_r, app_nonnil_l.
    + now apply app_nonnil_r, app_nonnil_r, app_nonnil_r, app_nonnil_r, app_nonnil_r, app_nonnil_l.
  - do 6 apply app_nonnil_r.
    apply (schema_fold_hit g0 (s_exts s) ops dirs Hin).
    cbn [ext_ok] in He.
    assert (Hs : g_schema_dirs g0 = s_schema_dirs s).
    { unfold initial in Hi. destruct (first_dup (map td_name _) []); [discriminate|].
      destruct (first_dup _ []); [discriminate|]. injection Hi as <-. reflexivity. }
    now rewrite Hs.
Qed.

Theorem build_rejects_invalid_extensions s : v_invalid_extension s = true -> builds s = false.
Proof.
  intros Hbad. unfold builds, impl_build.
  destruct (initial s) as [g0|k] eqn:Hi; [|reflexivity].
  pose proof (invalid_extension_reported s g0 Hi Hbad) as Hv.
  destruct (validate_extensions g0 (s_exts s)); [congruence|reflexivity].
Qed.

(* ---------- `extend schema { operation: Type }` ---------- *)
(* an extension naming an operation whose root type is already defined is reported ... *)
Lemma schema_ext_ops_defined g ops extended k v :
  In (k, v) ops -> g_has_type g (op_name_of g k) = true -> fst (schema_ext_ops g ops extended) <> [].
Proof.
  revert extended. induction ops as [|[k0 v0] r IH]; intros extended Hin Hdef; [contradiction|].
  cbn [schema_ext_ops]. destruct Hin as [Heq|Hin].
  - injection Heq as -> ->. rewrite Hdef. destruct (schema_ext_ops g r extended) as [es x]. cbn [fst].
    apply app_nonnil_r. discriminate.
  - destruct (g_has_type g (op_name_of g k0)).
    + destruct (schema_ext_ops g r extended) as [es x] eqn:E. cbn [fst]. apply app_nonnil_r. discriminate.
    + pose proof (IH (extended ++ [op_name_of g k0]) Hin Hdef) as H.
      destruct (schema_ext_ops g r (extended ++ [op_name_of g k0])) as [es x]. cbn [fst] in *. now apply app_nonnil_r.
Qed.

(* ... and so is an operation extended a second time *)
Lemma schema_ext_ops_twice g ops extended k v :
  In (k, v) ops -> In (op_name_of g k) extended -> fst (schema_ext_ops g ops extended) <> [].
Proof.
  revert extended. induction ops as [|[k0 v0] r IH]; intros extended Hin Hext; [contradiction|].
  cbn [schema_ext_ops]. destruct Hin as [Heq|Hin].
  - injection Heq as -> ->. assert (Hm : mem_str (op_name_of g k) extended = true) by now apply mem_str_iff.
    rewrite Hm. destruct (g_has_type g (op_name_of g k)).
    + destruct (schema_ext_ops g r extended) as [es x]. cbn [fst]. apply app_nonnil_l. discriminate.
    + destruct (schema_ext_ops g r (extended ++ [op_name_of g k])) as [es x]. cbn [fst]. apply app_nonnil_l. discriminate.
  - destruct (g_has_type g (op_name_of g k0)).
    + pose proof (IH extended Hin Hext) as H. destruct (schema_ext_ops g r extended) as [es x]. cbn [fst] in *.
      apply app_nonnil_r, app_nonnil_r. exact H.
    + assert (Hext' : In (op_name_of g k) (extended ++ [op_name_of g k0])) by (apply in_or_app; now left).
      pose proof (IH _ Hin Hext') as H. destruct (schema_ext_ops g r (extended ++ [op_name_of g k0])) as [es x]. cbn [fst] in *.
      now apply app_nonnil_r.
Qed.

Theorem schema_operation_redefinition_refused s g0 ops dirs k v :
  initial s = inl g0 -> In (XSchema ops dirs) (s_exts s) -> In (k, v) ops -> g_has_type g0 (op_name_of g0 k) = true ->
  builds s = false.
Proof.
  intros Hi Hin Hk Hdef. unfold builds, impl_build. rewrite Hi.
  assert (Hv : validate_extensions g0 (s_exts s) <> []).
  { rewrite validate_extensions_unfold. do 6 apply app_nonnil_r.
    assert (Hgen : forall exts acc, In (XSchema ops dirs) exts -> fst (fold_left (schema_step g0) exts acc) <> []).
    { induction exts as [|e exts IH]; intros acc Hi'; [contradiction|]. cbn [fold_left].
      destruct Hi' as [->|Hi']; [|now apply IH].
      apply schema_fold_mono. cbn [schema_step]. destruct acc as [errs extended].
      pose proof (schema_ext_ops_defined g0 ops extended k v Hk Hdef) as H.
      destruct (schema_ext_ops g0 ops extended) as [es x]. cbn [fst] in *. apply app_nonnil_r, app_nonnil_l. exact H. }
    now apply Hgen. }
  destruct (validate_extensions g0 (s_exts s)); [congruence|reflexivity].
Qed.
