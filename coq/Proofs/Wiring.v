(* The structural tie to the source: the rule invocations, RULE_SET and the schema validator lists
   extracted from /repo's CURRENT source (Gen/Wiring_gen.v, regenerated on every run) are the ones
   the models transcribe.  Deleting or moving a `validators.validate(...)` call, changing an abort
   flag, or dropping a `_validate_*` method from the lists breaks one of these obligations. *)
From Coq Require Import List String Bool.
From TV Require Import Py.Prelude Model.Schema Model.ImplValidate Model.SchemaBuild Gen.Wiring_gen.
Import ListNotations.
Open Scope string_scope.

Lemma call_sites_are_the_models : src_call_sites = model_call_sites.
Proof. vm_compute. reflexivity. Qed.

Lemma aborting_rules_are_the_models :
  map fst (filter snd src_rule_set) = model_aborting_rules.
Proof. vm_compute. reflexivity. Qed.

Lemma every_supported_rule_is_registered_and_invoked :
  forallb (fun r => existsb (fun kv => String.eqb (fst kv) r) src_rule_set &&
                    existsb (fun fr => String.eqb (snd fr) r) src_call_sites) supported_rules = true.
Proof. vm_compute. reflexivity. Qed.

Lemma every_invoked_rule_is_registered :
  forallb (fun fr => existsb (fun kv => String.eqb (fst kv) (snd fr)) src_rule_set) src_call_sites = true.
Proof. vm_compute. reflexivity. Qed.

Lemma schema_validators_are_the_models : src_schema_validators = model_schema_validators.
Proof. vm_compute. reflexivity. Qed.
Lemma extension_validators_are_the_models : src_extension_validators = model_extension_validators.
Proof. vm_compute. reflexivity. Qed.
Lemma bake_steps_are_the_models : src_bake_steps = model_bake_steps.
Proof. vm_compute. reflexivity. Qed.
