(* C11: what an `extend` definition contributes is reported: after a type extension is merged, `__type(name:)` describes
   the definition with the extension's members appended (enum values, union members, object / interface interfaces)
   or merged by name (fields, input fields), and the directives of both. *)
From Coq Require Import ZArith List String Bool.
From TV Require Import Py.Prelude Model.Schema Model.ImplValidate Model.SchemaBuild Model.Introspect Proofs.IntrospectProofs.
Import ListNotations.
Open Scope string_scope.
Open Scope list_scope.

Lemma find_upd_tdecl ts n f t :
  find_tdecl ts n = Some t -> td_name (f t) = td_name t -> find_tdecl (upd_tdecl ts n f) n = Some (f t).
Proof.
  induction ts as [|t0 r IH]; intros H Hn; [discriminate|]. cbn [find_tdecl upd_tdecl] in *.
  destruct (String.eqb n (td_name t0)) eqn:E.
  - injection H as ->. cbn [find_tdecl]. rewrite Hn, E. reflexivity.
  - cbn [find_tdecl]. rewrite E. now apply IH.
Qed.

Definition extended (t : tdecl) (d : typedef) (dirs : list string) : tdecl :=
  {| td_name := td_name t; td_def := merge_def (td_def t) d; td_dirs := td_dirs t ++ dirs |}.

Theorem extension_is_reported g n t d dirs :
  find_tdecl (g_types g) n = Some t ->
  introspect_type (apply_ext g (XType n d dirs)) n = Some (type_info (apply_ext g (XType n d dirs)) (extended t d dirs)).
Proof.
  intros H. unfold introspect_type. cbn [apply_ext g_types].
  rewrite (find_upd_tdecl (g_types g) n (fun t0 => {| td_name := td_name t0; td_def := merge_def (td_def t0) d; td_dirs := td_dirs t0 ++ dirs |}) t H eq_refl).
  reflexivity.
Qed.

(* in particular the values an `extend enum` adds are reported after the declared ones *)
Theorem extended_enum_values_reported g n t vs xs dirs :
  find_tdecl (g_types g) n = Some t -> td_def t = DEnum vs ->
  exists ti, introspect_type (apply_ext g (XType n (DEnum xs) dirs)) n = Some ti /\
             option_map (map fst) (it_enum ti) = Some (vs ++ xs).
Proof.
  intros H Hd. eexists. split; [apply (extension_is_reported g n t (DEnum xs) dirs H)|].
  unfold type_info, extended. cbn [td_def td_name]. rewrite Hd. cbn [merge_def it_enum option_map].
  now rewrite map_map, map_id.
Qed.

Theorem extended_union_members_reported g n t ms xs dirs :
  find_tdecl (g_types g) n = Some t -> td_def t = DUnion ms ->
  exists ti, introspect_type (apply_ext g (XType n (DUnion xs) dirs)) n = Some ti /\ it_possible ti = Some (ms ++ xs).
Proof.
  intros H Hd. eexists. split; [apply (extension_is_reported g n t (DUnion xs) dirs H)|].
  unfold type_info, extended. cbn [td_def td_name]. rewrite Hd. reflexivity.
Qed.

Theorem extended_object_interfaces_reported g n t ifs fs xifs xfs dirs :
  find_tdecl (g_types g) n = Some t -> td_def t = DObject ifs fs ->
  exists ti, introspect_type (apply_ext g (XType n (DObject xifs xfs) dirs)) n = Some ti /\ it_interfaces ti = Some (ifs ++ xifs).
Proof.
  intros H Hd. eexists. split; [apply (extension_is_reported g n t (DObject xifs xfs) dirs H)|].
  unfold type_info, extended. cbn [td_def td_name]. rewrite Hd. reflexivity.
Qed.
