(* The laws of property C10, proved about the reference semantics of Model/ScalarSpec.v.
   Properties/C10.v transfers them to the definitions regenerated from the repository via
   Proofs/ScalarRefine.v. *)
From Coq Require Import ZArith List String Bool Lia SpecFloat.
From TV Require Import Py.Prelude Model.ScalarSpec Proofs.PreludeFacts.
Import ListNotations.
Open Scope Z_scope.

Definition in32 (z : Z) : Prop := -2147483648 <= z <= 2147483647.

(* the integer a value denotes (what "the same value" means for Int and ID results) *)
Definition int_denotes (O : oracles) (v : pyval) (z : Z) : Prop :=
  match v with
  | PBool b => z = b2z b
  | PInt z' => z = z'
  | PFloat f => sf_finite f = true /\ sf_to_Z_exact f = Some z
  | PStr s => exists f, float_of_string O s = Some f /\ sf_finite f = true /\ sf_to_Z_exact f = Some z
  | _ => False
  end.

(* the finite double a value denotes *)
Definition float_denotes (O : oracles) (v : pyval) (f : spec_float) : Prop :=
  match v with
  | PBool b => f = (if b then S754_finite false 4503599627370496 (-52) else S754_zero false)
  | PInt z => sf_of_Z z = Ok f
  | PFloat g => f = g
  | PStr s => float_of_string O s = Some f
  | _ => False
  end.

(* JSON kinds the specification lets each scalar accept as input *)
Definition int_acceptable (v : pyval) (z : Z) : Prop :=
  in32 z /\ (v = PInt z \/ exists f, v = PFloat f /\ sf_finite f = true /\ sf_to_Z_exact f = Some z).
Definition float_acceptable (v : pyval) (f : spec_float) : Prop :=
  sf_finite f = true /\ (v = PFloat f \/ exists z, v = PInt z /\ sf_of_Z z = Ok f).

Ltac inv H := inversion H; subst; clear H.

Section Laws.
Variable O : oracles.

(* ---------------- Int ---------------- *)
Theorem int_output_wire v r :
  int_output_spec O v = Ok r -> exists z, r = PInt z /\ in32 z /\ int_denotes O v z.
Proof.
  unfold int_output_spec, integral_value, in32.
  destruct v as [ | |b|z|f|s|l|kv|cls attrs|e|tag|k a]; try discriminate.
  - intros H; inv H. exists (b2z b). destruct b; cbn; repeat split; lia.
  - destruct (in32b z) eqn:E; intros H; inv H. apply in32b_spec in E. exists z; cbn; auto.
  - destruct (sf_finite f) eqn:Hf; try discriminate.
    destruct (sf_to_Z_exact f) as [z|] eqn:He; try discriminate.
    destruct (in32b z) eqn:E; intros H; inv H. apply in32b_spec in E. exists z; cbn; auto.
  - destruct s as [|c s]; try discriminate.
    destruct (float_of_string O (String c s)) as [f|] eqn:Hs; try discriminate.
    destruct (sf_finite f) eqn:Hf; try discriminate.
    destruct (sf_to_Z_exact f) as [z|] eqn:He; try discriminate.
    destruct (in32b z) eqn:E; intros H; inv H. apply in32b_spec in E.
    exists z; cbn [int_denotes]; repeat split; try lia. exists f; auto.
Qed.

Theorem int_input_accepts_exactly v r :
  int_input_spec O v = Ok r <-> exists z, r = PInt z /\ int_acceptable v z.
Proof.
  unfold int_input_spec, int_acceptable, integral_value, in32. split.
  - destruct v as [ | |b|z|f|s|l|kv|cls attrs|e|tag|k a]; try discriminate.
    + destruct (in32b z) eqn:E; intros H; inv H. apply in32b_spec in E. exists z; auto.
    + destruct (sf_finite f) eqn:Hf; try discriminate.
      destruct (sf_to_Z_exact f) as [z|] eqn:He; try discriminate.
      destruct (in32b z) eqn:E; intros H; inv H. apply in32b_spec in E.
      exists z; repeat split; try lia. right. exists f; auto.
  - intros (z & -> & Hr & [-> | (f & -> & Hf & He)]); apply in32b_spec in Hr.
    + now rewrite Hr.
    + now rewrite Hf, He, Hr.
Qed.

(* booleans and strings are never accepted as Int input *)
Corollary int_input_rejects_bool_str v :
  (exists b, v = PBool b) \/ (exists s, v = PStr s) -> exists e, int_input_spec O v = Raise e.
Proof. intros [[b ->] | [s ->]]; eexists; reflexivity. Qed.

Theorem int_literal_eq_variable z :
  match int_literal_spec O (PAst KIntValue (PStr (Z_to_string z))), int_input_spec O (PInt z) with
  | Ok PUndef, Raise _ => ~ in32 z          (* both refuse *)
  | Ok a, Ok b => a = b /\ a = PInt z /\ in32 z
  | _, _ => False
  end.
Proof.
  unfold int_literal_spec, int_input_spec, integral_value.
  rewrite string_to_Z_to_string.
  destruct (in32b z) eqn:E.
  - apply in32b_spec in E. auto.
  - intro H. apply in32b_spec in H. congruence.
Qed.

Theorem int_idempotent v r : int_output_spec O v = Ok r -> int_input_spec O r = Ok r.
Proof.
  intros H. destruct (int_output_wire v r H) as (z & -> & Hr & _).
  unfold int_input_spec, integral_value. apply in32b_spec in Hr. now rewrite Hr.
Qed.

(* ---------------- Float ---------------- *)
Theorem float_output_wire v r :
  float_output_spec O v = Ok r -> exists f, r = PFloat f /\ sf_finite f = true /\ float_denotes O v f.
Proof.
  unfold float_output_spec, finite_float_of.
  destruct v as [ | |b|z|f|s|l|kv|cls attrs|e|tag|k a]; try discriminate.
  - intros H; inv H. eexists; repeat split. destruct b; reflexivity.
  - destruct (sf_of_Z z) as [f|] eqn:Hz; intros H; inv H.
    exists f; repeat split; auto. eapply sf_of_Z_finite; eauto.
  - destruct (sf_finite f) eqn:Hf; intros H; inv H. exists f; cbn; auto.
  - destruct s as [|c s]; try discriminate.
    destruct (float_of_string O (String c s)) as [f|] eqn:Hs; try discriminate.
    destruct (sf_finite f) eqn:Hf; intros H; inv H. exists f; cbn; auto.
Qed.

Theorem float_input_accepts_exactly v r :
  float_input_spec O v = Ok r <-> exists f, r = PFloat f /\ float_acceptable v f.
Proof.
  unfold float_input_spec, float_acceptable, finite_float_of. split.
  - destruct v as [ | |b|z|f|s|l|kv|cls attrs|e|tag|k a]; try discriminate.
    + destruct (sf_of_Z z) as [f|] eqn:Hz; intros H; inv H.
      exists f; repeat split; eauto using sf_of_Z_finite.
    + destruct (sf_finite f) eqn:Hf; intros H; inv H. exists f; auto.
  - intros (f & -> & Hf & [-> | (z & -> & Hz)]).
    + now rewrite Hf.
    + now rewrite Hz.
Qed.

Corollary float_input_rejects_bool_str_nonfinite v :
  (exists b, v = PBool b) \/ (exists s, v = PStr s) \/ (exists f, v = PFloat f /\ sf_finite f = false) ->
  exists e, float_input_spec O v = Raise e.
Proof.
  intros [[b ->] | [[s ->] | (f & -> & Hf)]]; cbn; try rewrite Hf; eexists; reflexivity.
Qed.

(* a literal whose lexeme the interpreter reads as f  vs  a variable carrying f *)
Theorem float_literal_eq_variable s f k :
  (k = KFloatValue \/ k = KIntValue) ->
  float_of_string O s = Some f ->
  match float_literal_spec O (PAst k (PStr s)), float_input_spec O (PFloat f) with
  | Ok PUndef, Raise _ => sf_finite f = false
  | Ok a, Ok b => a = b /\ a = PFloat f /\ sf_finite f = true
  | _, _ => False
  end.
Proof.
  intros Hk Hs. unfold float_literal_spec, float_input_spec, finite_float_of.
  destruct Hk as [-> | ->]; rewrite Hs; destruct (sf_finite f) eqn:Hf; auto.
Qed.

Theorem float_idempotent v r : float_output_spec O v = Ok r -> float_input_spec O r = Ok r.
Proof.
  intros H. destruct (float_output_wire v r H) as (f & -> & Hf & _).
  unfold float_input_spec, finite_float_of. now rewrite Hf.
Qed.

(* ---------------- String ---------------- *)
Theorem string_output_wire v r :
  string_output_spec O v = Ok r ->
  exists s, r = PStr s /\
            (forall s', v = PStr s' -> s = s') /\
            (forall z, v = PInt z -> s = Z_to_string z).
Proof.
  unfold string_output_spec.
  destruct v as [ | |b|z|f|s|l|kv|cls attrs|e|tag|k a]; cbn [py_str];
    try (destruct (str_of_value O _) eqn:E; intros H; inv H; eexists; repeat split; intros; discriminate);
    intros H; inv H; eexists; repeat split; intros ? E; inv E; reflexivity.
Qed.

Theorem string_input_accepts_exactly v r :
  string_input_spec O v = Ok r <-> exists s, v = PStr s /\ r = PStr s.
Proof.
  unfold string_input_spec. split.
  - destruct v; try discriminate. intros H; inv H; eauto.
  - intros (s & -> & ->). reflexivity.
Qed.

Theorem string_literal_eq_variable s :
  string_literal_spec O (PAst KStringValue (PStr s)) = string_input_spec O (PStr s).
Proof. reflexivity. Qed.

Theorem string_idempotent v r : string_output_spec O v = Ok r -> string_input_spec O r = Ok r.
Proof. intros H. destruct (string_output_wire v r H) as (s & -> & _). reflexivity. Qed.

(* ---------------- Boolean ---------------- *)
Theorem boolean_output_wire v r :
  boolean_output_spec O v = Ok r ->
  exists b, r = PBool b /\ (forall b', v = PBool b' -> b = b').
Proof.
  unfold boolean_output_spec.
  destruct v as [ | |b|z|f|s|l|kv|cls attrs|e|tag|k a]; try discriminate.
  - intros H; inv H. eexists; split; eauto. intros ? E; inv E; reflexivity.
  - destruct (sf_of_Z z); intros H; inv H. eexists; split; eauto. discriminate.
  - destruct (sf_finite f); intros H; inv H. eexists; split; eauto. discriminate.
Qed.

Theorem boolean_input_accepts_exactly v r :
  boolean_input_spec O v = Ok r <-> exists b, v = PBool b /\ r = PBool b.
Proof.
  unfold boolean_input_spec. split.
  - destruct v; try discriminate. intros H; inv H; eauto.
  - intros (b & -> & ->). reflexivity.
Qed.

Theorem boolean_literal_eq_variable b :
  boolean_literal_spec O (PAst KBooleanValue (PBool b)) = boolean_input_spec O (PBool b).
Proof. reflexivity. Qed.

Theorem boolean_idempotent v r : boolean_output_spec O v = Ok r -> boolean_input_spec O r = Ok r.
Proof. intros H. destruct (boolean_output_wire v r H) as (b & -> & _). reflexivity. Qed.

(* ---------------- ID ---------------- *)
Theorem id_output_wire v r :
  id_output_spec O v = Ok r ->
  exists s, r = PStr s /\
            (forall s', v = PStr s' -> s = s') /\
            (forall z, integral_value v = Some z -> s = Z_to_string z).
Proof.
  unfold id_output_spec.
  destruct v as [ | |b|z|f|s|l|kv|cls attrs|e|tag|k a]; cbn [integral_value]; try discriminate.
  - intros H; inv H. eexists; repeat split; try discriminate. intros ? E; inv E; reflexivity.
  - destruct (sf_finite f); try discriminate. destruct (sf_to_Z_exact f) eqn:E; intros H; inv H.
    eexists; repeat split; try discriminate. intros ? E'; inv E'; reflexivity.
  - intros H; inv H. eexists; repeat split; try discriminate. intros ? E; inv E; reflexivity.
Qed.

Theorem id_input_accepts_exactly v r :
  id_input_spec O v = Ok r <->
  (exists s, v = PStr s /\ r = PStr s) \/ (exists z, integral_value v = Some z /\ r = PStr (Z_to_string z)).
Proof.
  unfold id_input_spec, id_output_spec. split.
  - destruct v as [ | |b|z|f|s|l|kv|cls attrs|e|tag|k a]; cbn [integral_value]; try discriminate.
    + intros H; inv H. right; eauto.
    + destruct (sf_finite f); try discriminate. destruct (sf_to_Z_exact f) eqn:E; intros H; inv H.
      right; eauto.
    + intros H; inv H. left; eauto.
  - intros [(s & -> & ->) | (z & Hz & ->)]; [reflexivity|].
    destruct v; cbn [integral_value] in *; try discriminate; try (inv Hz; reflexivity).
    destruct (sf_finite f); try discriminate. rewrite Hz. reflexivity.
Qed.

Theorem id_literal_eq_variable_int z :
  id_literal_spec O (PAst KIntValue (PStr (Z_to_string z))) = id_input_spec O (PInt z).
Proof. reflexivity. Qed.
Theorem id_literal_eq_variable_str s :
  id_literal_spec O (PAst KStringValue (PStr s)) = id_input_spec O (PStr s).
Proof. reflexivity. Qed.

Theorem id_idempotent v r : id_output_spec O v = Ok r -> id_input_spec O r = Ok r.
Proof. intros H. destruct (id_output_wire v r H) as (s & -> & _). reflexivity. Qed.

End Laws.
