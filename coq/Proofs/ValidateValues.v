(* Rule 5.6.1 "values of correct type": the rule's implementation model (Model/ImplValidate.v vct, the
   accumulator-passing recursion of ValuesOfCorrectType._validate with its per-kind helpers) against
   the specification predicate value_ok (Model/SpecValidate.v), for EVERY schema, literal and type,
   at any nesting depth -- list items, input-object fields, self-referential input types included:
     - a value the specification accepts leaves the accumulator untouched (nothing reported, no raise);
     - a value the specification rejects makes the rule raise or append at least one error;
     - the rule never drops what was accumulated. *)
From Coq Require Import ZArith List String Bool Lia.
From TV Require Import Py.Prelude Model.Schema Model.ImplValidate Model.SpecValidate.
Import ListNotations.
Open Scope list_scope.

(* nested induction on literals *)
Section LitInd.
Variable P : lit -> Prop.
Hypothesis HVar : forall l n, P (LVar l n).
Hypothesis HInt : forall l v, P (LInt l v).
Hypothesis HFloat : forall l v, P (LFloat l v).
Hypothesis HStr : forall l s, P (LStr l s).
Hypothesis HBool : forall l b, P (LBool l b).
Hypothesis HNull : forall l, P (LNull l).
Hypothesis HEnum : forall l s, P (LEnum l s).
Hypothesis HList : forall l items, Forall P items -> P (LList l items).
Hypothesis HObj : forall l fields, Forall (fun kv => P (snd kv)) fields -> P (LObj l fields).
Fixpoint lit_ind2 (v : lit) : P v :=
  match v with
  | LVar l n => HVar l n | LInt l x => HInt l x | LFloat l x => HFloat l x | LStr l s => HStr l s
  | LBool l b => HBool l b | LNull l => HNull l | LEnum l s => HEnum l s
  | LList l items =>
      HList l items ((fix go (xs : list lit) : Forall P xs :=
                        match xs with [] => Forall_nil _ | x :: r => Forall_cons _ (lit_ind2 x) (go r) end) items)
  | LObj l fields =>
      HObj l fields ((fix go (xs : list (string * lit)) : Forall (fun kv => P (snd kv)) xs :=
                        match xs with [] => Forall_nil _ | (k, x) :: r => Forall_cons (k, x) (lit_ind2 x) (go r) end) fields)
  end.
End LitInd.

Section Values.
Variable V : vschema.

(* the outcome either keeps the accumulator exactly, or raises / appends at least one error *)
Definition kept (acc : list verror) (r : option (list verror)) : Prop := r = Some acc.
Definition flagged (acc : list verror) (r : option (list verror)) : Prop :=
  r = None \/ exists e es, r = Some (acc ++ e :: es).
Definition monotone (acc : list verror) (r : option (list verror)) : Prop :=
  r = None \/ exists es, r = Some (acc ++ es).

Lemma kept_monotone acc r : kept acc r -> monotone acc r.
Proof. intros ->. right. exists []. now rewrite app_nil_r. Qed.
Lemma flagged_monotone acc r : flagged acc r -> monotone acc r.
Proof. intros [->|(e & es & ->)]; [now left|right; now exists (e :: es)]. Qed.

Lemma flagged_step acc es r : flagged (acc ++ es) r -> flagged acc r.
Proof.
  intros [->|(e & es' & ->)]; [now left|right]. destruct es as [|x xs].
  - rewrite app_nil_r. now exists e, es'.
  - exists x, (xs ++ e :: es'). now rewrite <- app_assoc.
Qed.
Lemma monotone_then_flagged acc r (f : list verror -> option (list verror)) :
  monotone acc r -> (forall acc', flagged acc' (f acc')) ->
  flagged acc (match r with Some acc' => f acc' | None => None end).
Proof.
  intros [->|(es & ->)] Hf; [now left|]. eapply flagged_step. apply Hf.
Qed.
Lemma flagged_then_monotone acc r (f : list verror -> option (list verror)) :
  flagged acc r -> (forall acc', monotone acc' (f acc')) ->
  flagged acc (match r with Some acc' => f acc' | None => None end).
Proof.
  intros [->|(e & es & ->)] Hf; [now left|]. destruct (Hf (acc ++ e :: es)) as [->|(es' & ->)]; [now left|].
  right. exists e, (es ++ es'). now rewrite <- app_assoc.
Qed.

(* only input types are expected types of values: guaranteed for every schema an engine is built from (C12:
   an argument or input field whose type is not an input type makes the build fail) *)
Definition input_named (n : string) : Prop :=
  match vfind_type V n with
  | Some (DObject _ _) | Some (DInterface _) | Some (DUnion _) => False
  | _ => True
  end.
Definition input_ty (c : ty) : Prop := input_named (named_of c).
Hypothesis input_fields_ok : forall n ifs f, vfind_type V n = Some (DInput ifs) -> In f ifs -> input_ty (in_type f).

(* the statement proved by nested induction: exactness and monotonicity together *)
Definition vct_spec (v : lit) : Prop :=
  forall path argloc c acc, input_ty c ->
    (value_ok V v c = true -> kept acc (vct V path argloc v c acc)) /\
    (value_ok V v c = false -> flagged acc (vct V path argloc v c acc)) /\
    monotone acc (vct V path argloc v c acc).

Ltac triple := split; [|split].
Ltac keep := triple; [intros _; reflexivity|discriminate|right; exists []; now rewrite app_nil_r].
Ltac flag1 := triple; [discriminate|intros _; right; eexists; eexists; reflexivity|right; eexists; reflexivity].
Ltac crash := triple; [discriminate|intros _; now left|now left].

Lemma input_ty_nonnull c : input_ty (TNonNull c) -> input_ty c.  Proof. exact (fun H => H). Qed.
Lemma input_ty_list c : input_ty (TList c) -> input_ty c.  Proof. exact (fun H => H). Qed.

(* leaves: a literal that is neither a variable, null, a list nor an object *)
Definition is_leaf (v : lit) : Prop := match v with LInt _ _ | LFloat _ _ | LStr _ _ | LBool _ _ | LEnum _ _ => True | _ => False end.

Lemma leaf_spec v : is_leaf v -> vct_spec v.
Proof.
  intros Hl path argloc c. induction c as [n|c IH|c IH]; intros acc Hin.
  - (* named *)
    unfold input_ty, input_named in Hin. cbn [named_of] in Hin.
    destruct v; try contradiction; cbn [vct value_ok]; unfold s_type;
      (destruct (vfind_type V n) as [[|values|ifs|ifaces fs|fs|ms]|]; try contradiction; try crash; try flag1);
      try (destruct (scalars (vs V) n) as [ops|]; [|crash];
           match goal with |- context [s_literal ops ?x] => destruct (s_literal ops x) as [[]|]; try keep; try crash; try flag1 end);
      try (cbn [enum_value_known]; match goal with |- context [mem_str ?a ?b] => destruct (mem_str a b); [keep|flag1] end).
  - destruct v; try contradiction; cbn [vct value_ok] in *; apply IH; exact Hin.
  - destruct v; try contradiction; cbn [vct value_ok] in *; apply IH; exact Hin.
Qed.

Lemma null_spec l : vct_spec (LNull l).
Proof. intros path argloc c acc Hin. destruct c; cbn [vct value_ok]; [keep|keep|flag1]. Qed.

Lemma var_spec l n : vct_spec (LVar l n).
Proof. intros path argloc c acc Hin. cbn [vct value_ok]. keep. Qed.

(* composition of monotone steps *)
Lemma monotone_bind acc r (f : list verror -> option (list verror)) :
  monotone acc r -> (forall acc', monotone acc' (f acc')) ->
  monotone acc (match r with Some acc' => f acc' | None => None end).
Proof.
  intros [->|(es & ->)] Hf; [now left|]. destruct (Hf (acc ++ es)) as [->|(es' & ->)]; [now left|].
  right. exists (es ++ es'). now rewrite app_assoc.
Qed.

(* the loop over the items of a list literal *)
Definition each_items path argloc c' :=
  fix each (xs : list lit) (acc : list verror) : option (list verror) :=
    match xs with
    | [] => Some acc
    | x :: r =>
        match x with
        | LVar _ _ => each r acc
        | _ => match vct V path argloc x c' acc with Some acc' => each r acc' | None => None end
        end
    end.
Definition all_items c' :=
  fix all (xs : list lit) : bool := match xs with [] => true | x :: r => value_ok V x c' && all r end.

Lemma each_items_step path argloc c' x r acc :
  each_items path argloc c' (x :: r) acc =
  match vct V path argloc x c' acc with Some acc' => each_items path argloc c' r acc' | None => None end.
Proof. destruct x; reflexivity. Qed.

Lemma items_spec path argloc c' items : input_ty c' -> Forall vct_spec items -> forall acc,
  (all_items c' items = true -> kept acc (each_items path argloc c' items acc)) /\
  (all_items c' items = false -> flagged acc (each_items path argloc c' items acc)) /\
  monotone acc (each_items path argloc c' items acc).
Proof.
  intros Hin HF. induction HF as [|x r Hx HF IH]; intros acc.
  - cbn. keep.
  - rewrite each_items_step. cbn [all_items]. fold (all_items c').
    destruct (Hx path argloc c' acc Hin) as (Hk & Hf & Hm).
    assert (Hrest : forall acc', monotone acc' (each_items path argloc c' r acc')) by (intros; apply IH).
    triple.
    + intros H. apply andb_prop in H. destruct H as [H1 H2]. rewrite (Hk H1). apply IH. exact H2.
    + intros H. destruct (value_ok V x c') eqn:Ex.
      * rewrite (Hk eq_refl). apply IH. exact H.
      * apply flagged_then_monotone; [apply Hf; reflexivity|exact Hrest].
    + apply monotone_bind; [exact Hm|exact Hrest].
Qed.

Lemma list_spec l items : Forall vct_spec items -> vct_spec (LList l items).
Proof.
  intros HF path argloc c. induction c as [n|c IH|c IH]; intros acc Hin.
  - unfold input_ty, input_named in Hin. cbn [named_of] in Hin.
    cbn [vct value_ok]; unfold s_type;
      (destruct (vfind_type V n) as [[|values|ifs|ifaces fs|fs|ms]|]; try contradiction; try crash; try flag1).
    destruct (scalars (vs V) n) as [ops|]; [|crash].
    match goal with |- context [s_literal ops ?x] => destruct (s_literal ops x) as [[]|]; try keep; try crash end.
  - cbn [vct value_ok]. exact (items_spec path argloc c items (input_ty_list c Hin) HF acc).
  - cbn [vct value_ok] in *. apply IH. exact Hin.
Qed.

(* the loop over the fields of an input-object literal *)
Definition each_fields path argloc (ifs : list input_def) :=
  fix each (xs : list (string * lit)) (acc : list verror) : option (list verror) :=
    match xs with
    | [] => Some acc
    | (fname, fv) :: r =>
        match find (fun f => String.eqb (in_name f) fname) ifs with
        | None => each r (acc ++ [mkerr VT path [lit_loc fv]])
        | Some f => match vct V path argloc fv (in_type f) acc with Some acc' => each r acc' | None => None end
        end
    end.
Definition all_fields (ifs : list input_def) :=
  fix all (xs : list (string * lit)) : bool :=
    match xs with
    | [] => true
    | (fname, fv) :: r =>
        match find (fun f => String.eqb (in_name f) fname) ifs with
        | Some f => value_ok V fv (in_type f) && all r
        | None => false
        end
    end.

Lemma find_in {A} (p : A -> bool) l x : find p l = Some x -> In x l.
Proof. induction l as [|y l IH]; cbn; [discriminate|]. destruct (p y); [intros H; inversion H; now left|intros H; right; auto]. Qed.

Lemma fields_spec path argloc n ifs fields : vfind_type V n = Some (DInput ifs) ->
  Forall (fun kv => vct_spec (snd kv)) fields -> forall acc,
  (all_fields ifs fields = true -> kept acc (each_fields path argloc ifs fields acc)) /\
  (all_fields ifs fields = false -> flagged acc (each_fields path argloc ifs fields acc)) /\
  monotone acc (each_fields path argloc ifs fields acc).
Proof.
  intros Hn HF. induction HF as [|[fname fv] r Hx HF IH]; intros acc.
  - cbn. keep.
  - cbn [each_fields all_fields snd] in *. fold (each_fields path argloc ifs) (all_fields ifs).
    assert (Hrest : forall acc', monotone acc' (each_fields path argloc ifs r acc')) by (intros; apply IH).
    destruct (find (fun f => String.eqb (in_name f) fname) ifs) as [f|] eqn:Ef.
    + destruct (Hx path argloc (in_type f) acc (input_fields_ok n ifs f Hn (find_in _ _ _ Ef))) as (Hk & Hf & Hm).
      triple.
      * intros H. apply andb_prop in H. destruct H as [H1 H2]. rewrite (Hk H1). apply IH. exact H2.
      * intros H. destruct (value_ok V fv (in_type f)) eqn:Ex.
        -- rewrite (Hk eq_refl). apply IH. exact H.
        -- apply flagged_then_monotone; [apply Hf; reflexivity|exact Hrest].
      * apply monotone_bind; [exact Hm|exact Hrest].
    + triple.
      * discriminate.
      * intros _. destruct (Hrest (acc ++ [mkerr VT path [lit_loc fv]])) as [->|(es & ->)]; [now left|].
        right. exists (mkerr VT path [lit_loc fv]), es. now rewrite <- app_assoc.
      * destruct (Hrest (acc ++ [mkerr VT path [lit_loc fv]])) as [->|(es & ->)]; [now left|].
        right. exists ([mkerr VT path [lit_loc fv]] ++ es). now rewrite app_assoc.
Qed.

Lemma obj_spec l fields : Forall (fun kv => vct_spec (snd kv)) fields -> vct_spec (LObj l fields).
Proof.
  intros HF path argloc c. induction c as [n|c IH|c IH]; intros acc Hin.
  - unfold input_ty, input_named in Hin. cbn [named_of] in Hin.
    cbn [vct value_ok]; unfold s_type.
    destruct (vfind_type V n) as [[|values|ifs|ifaces fs|fs|ms]|] eqn:En; try contradiction; try crash; try flag1.
    + destruct (scalars (vs V) n) as [ops|]; [|crash].
      match goal with |- context [s_literal ops ?x] => destruct (s_literal ops x) as [[]|]; try keep; try crash end.
    + (* input object *)
      set (missing := flat_map (fun f => if negb (mem_str (in_name f) (map fst fields)) && is_non_null (in_type f) &&
                                            match in_default f with None => true | Some _ => false end
                                         then [mkerr VT path [lit_loc (LObj l fields)]] else []) ifs).
      set (req := forallb (fun f => negb (is_non_null (in_type f)) ||
                                    match in_default f with Some _ => true | None => false end ||
                                    mem_str (in_name f) (map fst fields)) ifs).
      assert (Hreq : (req = true -> missing = []) /\ (req = false -> missing <> [])).
      { unfold req, missing. clear. induction ifs as [|f r IH]; cbn [forallb flat_map]; [split; [reflexivity|discriminate]|].
        destruct IH as [IH1 IH2].
        destruct (mem_str (in_name f) (map fst fields)), (is_non_null (in_type f)), (in_default f); cbn;
          (split; [intros H; auto|intros H; auto]); try discriminate; try (intros E; discriminate E). }
      destruct Hreq as [Hr1 Hr2].
      destruct (fields_spec path argloc n ifs fields En HF (acc ++ missing)) as (Hk & Hf & Hm).
      change ((fix each (xs : list (string * lit)) (acc0 : list verror) {struct xs} : option (list verror) := _) fields (acc ++ missing))
        with (each_fields path argloc ifs fields (acc ++ missing)).
      change ((fix all (xs : list (string * lit)) : bool := _) fields) with (all_fields ifs fields).
      triple.
      * intros H. apply andb_prop in H. destruct H as [H1 H2]. fold req in H1. unfold kept. rewrite (Hr1 H1), app_nil_r in *. now apply Hk.
      * intros H. fold req in H. destruct req eqn:Er.
        -- rewrite (Hr1 eq_refl), app_nil_r in *. cbn [andb] in H. now apply Hf.
        -- destruct missing as [|e es] eqn:Em; [exfalso; now apply Hr2|].
           destruct Hm as [->|(es' & ->)]; [now left|]. right. exists e, (es ++ es'). now rewrite <- !app_assoc.
      * destruct Hm as [->|(es' & ->)]; [now left|]. right. exists (missing ++ es'). now rewrite app_assoc.
  - cbn [vct value_ok] in *. apply IH. exact Hin.
  - cbn [vct value_ok] in *. apply IH. exact Hin.
Qed.

Theorem vct_exact v : vct_spec v.
Proof.
  induction v using lit_ind2.
  - apply var_spec.
  - now apply leaf_spec.
  - now apply leaf_spec.
  - now apply leaf_spec.
  - now apply leaf_spec.
  - apply null_spec.
  - now apply leaf_spec.
  - now apply list_spec.
  - now apply obj_spec.
Qed.

(* ---------- the arguments of one field / directive ---------- *)
Definition args_ok (ds : list input_def) (args : list argument) : bool :=
  forallb (fun a => match find (fun d => String.eqb (in_name d) (a_name a)) ds with
                    | Some d => value_ok V (a_value a) (in_type d)
                    | None => true end) args.

Theorem vct_arguments_exact path ds args :
  (forall d, In d ds -> input_ty (in_type d)) ->
  (args_ok ds args = true -> vct_arguments V path (Some ds) args = Some []) /\
  (args_ok ds args = false -> flagged [] (vct_arguments V path (Some ds) args)).
Proof.
  intros Hds. unfold vct_arguments, args_ok.
  assert (H : forall acc,
    (forallb (fun a => match find (fun d => String.eqb (in_name d) (a_name a)) ds with
                       | Some d => value_ok V (a_value a) (in_type d) | None => true end) args = true ->
     kept acc ((fix each (xs : list argument) (acc : list verror) : option (list verror) :=
         match xs with
         | [] => Some acc
         | a :: r =>
             match find (fun d => String.eqb (in_name d) (a_name a)) ds with
             | None => each r acc
             | Some d => match vct V path (a_loc a) (a_value a) (in_type d) acc with
                         | Some acc' => each r acc'
                         | None => None
                         end
             end
         end) args acc)) /\
    (forallb (fun a => match find (fun d => String.eqb (in_name d) (a_name a)) ds with
                       | Some d => value_ok V (a_value a) (in_type d) | None => true end) args = false ->
     flagged acc ((fix each (xs : list argument) (acc : list verror) : option (list verror) :=
         match xs with
         | [] => Some acc
         | a :: r =>
             match find (fun d => String.eqb (in_name d) (a_name a)) ds with
             | None => each r acc
             | Some d => match vct V path (a_loc a) (a_value a) (in_type d) acc with
                         | Some acc' => each r acc'
                         | None => None
                         end
             end
         end) args acc)) /\
    monotone acc ((fix each (xs : list argument) (acc : list verror) : option (list verror) :=
         match xs with
         | [] => Some acc
         | a :: r =>
             match find (fun d => String.eqb (in_name d) (a_name a)) ds with
             | None => each r acc
             | Some d => match vct V path (a_loc a) (a_value a) (in_type d) acc with
                         | Some acc' => each r acc'
                         | None => None
                         end
             end
         end) args acc)).
  { induction args as [|a r IH]; intros acc; cbn [forallb].
    - keep.
    - destruct (find (fun d => String.eqb (in_name d) (a_name a)) ds) as [d|] eqn:Ef.
      + destruct (vct_exact (a_value a) path (a_loc a) (in_type d) acc (Hds d (find_in _ _ _ Ef))) as (Hk & Hf & Hm).
        assert (Hrest := fun acc' => proj2 (proj2 (IH acc'))).
        triple.
        * intros H. apply andb_prop in H. destruct H as [H1 H2]. rewrite (Hk H1). now apply IH.
        * intros H. destruct (value_ok V (a_value a) (in_type d)) eqn:Ex.
          -- rewrite (Hk eq_refl). now apply IH.
          -- apply flagged_then_monotone; [apply Hf; reflexivity|exact Hrest].
        * apply monotone_bind; [exact Hm|exact Hrest].
      + cbn [andb]. apply IH. }
  destruct (H []) as (H1 & H2 & _). split; [exact H1|exact H2].
Qed.

(* what the walk does with the rule's outcome: a flagged outcome puts it in a refusing state *)
Theorem flagged_values_refuse r st :
  aborted st = false -> flagged [] r -> crashed (emit false r st) = true \/ errs (emit false r st) <> [].
Proof.
  intros Ha Hf. unfold emit. rewrite Ha. cbn [orb].
  destruct (crashed st) eqn:Ec; [now left|].
  destruct Hf as [->|(e & es & ->)]; [now left|]. right. cbn. intros E. apply app_eq_nil in E. destruct E as [_ E]. discriminate.
Qed.

End Values.
