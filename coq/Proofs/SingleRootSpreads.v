(* single-root-field through fragment SPREADS: the engine's traversal (response_keys, with its visited set) collects
   EVERY response key reachable from a selection set through inline fragments and any chain of fragment spreads
   (cyclic spread graphs included: the visited set makes it terminate), so the rule is exact:
   it reports an operation exactly when two different root response keys are reachable. *)
From Coq Require Import ZArith List String Bool Lia.
From TV Require Import Py.Prelude Model.Schema Model.ImplValidate Proofs.ValidateProofs Proofs.SingleRoot.
Import ListNotations.
Open Scope string_scope.
Open Scope list_scope.

Section Complete.
Variable frs : list fragment.

(* a fragment already dealt with: its own keys collected, its spreads visited *)
Definition closed_node (v' k' : list string) (m : string) : Prop :=
  forall f, find_fragment frs m = Some f ->
    (forall k, In k (inline_keys (fr_sels f)) -> In k k') /\ (forall m', In m' (inline_spreads (fr_sels f)) -> In m' v').

Definition dfs_inv (sels : list selection) (visited keys v' k' : list string) : Prop :=
  (forall m, In m visited -> In m v') /\ (forall k, In k keys -> In k k') /\
  (forall k, In k (inline_keys sels) -> In k k') /\
  (forall n, In n (inline_spreads sels) -> In n v') /\
  (forall m, In m v' -> ~ In m visited -> closed_node v' k' m).

Lemma closed_mono v1 k1 v2 k2 m : (forall x, In x v1 -> In x v2) -> (forall x, In x k1 -> In x k2) -> closed_node v1 k1 m -> closed_node v2 k2 m.
Proof. intros Hv Hk H f Hf. destruct (H f Hf) as [A B]. split; auto. Qed.

Ltac inv5 := unfold dfs_inv; split; [|split; [|split; [|split]]].

Lemma response_keys_dfs : forall fuel sels visited keys v' k',
  response_keys fuel frs sels visited keys = Some (v', k') -> dfs_inv sels visited keys v' k'.
Proof.
  induction fuel as [|fuel IH]; intros sels visited keys v' k' H; [discriminate|].
  cbn [response_keys] in H. revert visited keys H.
  induction sels as [|s sels IHs]; intros visited keys H.
  - injection H as <- <-. inv5; auto; try (intros x []). intros m Hm Hn. contradiction.
  - destruct s as [l alias name args ds sub|l n ds|l tc ds sub].
    + (* field *)
      destruct (IHs visited (if mem_str (fkey alias name) keys then keys else fkey alias name :: keys) H) as (A & B & C & D & E).
      inv5.
      * exact A.
      * intros k Hk. apply B. destruct (mem_str (fkey alias name) keys); [exact Hk|now right].
      * intros k Hk. unfold inline_keys in Hk. cbn [flat_map inline_keys_s app] in Hk. destruct Hk as [<-|Hk]; [|now apply C].
        apply B. destruct (mem_str (fkey alias name) keys) eqn:Em; [now apply mem_str_iff|now left].
      * exact D.
      * exact E.
    + (* spread *)
      unfold inline_spreads, inline_keys. cbn [flat_map inline_spreads_s inline_keys_s app].
      fold (inline_spreads sels). fold (inline_keys sels).
      destruct (mem_str n visited) eqn:Ev.
      * destruct (IHs visited keys H) as (A & B & C & D & E). inv5; auto.
        intros m [<-|Hm]; [apply A; now apply mem_str_iff|now apply D].
      * assert (Hnv : ~ In n visited) by (intros Hin; apply mem_str_iff in Hin; congruence).
        destruct (find_fragment frs n) as [f|] eqn:Hf.
        -- destruct (response_keys fuel frs (fr_sels f) (n :: visited) keys) as [[v1 k1]|] eqn:H1; [|discriminate].
           destruct (IH _ _ _ _ _ H1) as (A1 & B1 & C1 & D1 & E1).
           destruct (IHs v1 k1 H) as (A & B & C & D & E). inv5.
           ++ intros m Hm. apply A, A1. now right.
           ++ intros k Hk. apply B, B1, Hk.
           ++ exact C.
           ++ intros m [<-|Hm]; [apply A, A1; now left|now apply D].
           ++ intros m Hm Hnm. destruct (in_dec string_dec m v1) as [Hm1|Hm1].
              ** apply (closed_mono v1 k1 v' k' m A B).
                 destruct (string_dec m n) as [->|Hne].
                 --- intros f' Hf'. rewrite Hf in Hf'. injection Hf' as <-. split; [exact C1|exact D1].
                 --- apply E1; [exact Hm1|]. intros [Heq|Hin]; [now apply Hne|now apply Hnm].
              ** now apply E.
        -- destruct (IHs (n :: visited) keys H) as (A & B & C & D & E). inv5.
           ++ intros m Hm. apply A. now right.
           ++ exact B.
           ++ exact C.
           ++ intros m [<-|Hm]; [apply A; now left|now apply D].
           ++ intros m Hm Hnm. destruct (string_dec m n) as [->|Hne]; [intros f' Hf'; congruence|].
              apply E; [exact Hm|]. intros [Heq|Hin]; [now apply Hne|now apply Hnm].
    + (* inline fragment *)
      destruct (response_keys fuel frs sub visited keys) as [[v1 k1]|] eqn:H1; [|discriminate].
      destruct (IH _ _ _ _ _ H1) as (A1 & B1 & C1 & D1 & E1).
      destruct (IHs v1 k1 H) as (A & B & C & D & E). inv5.
      * intros m Hm. apply A, A1, Hm.
      * intros k Hk. apply B, B1, Hk.
      * intros k Hk. unfold inline_keys in Hk. cbn [flat_map] in Hk. apply in_app_or in Hk. destruct Hk as [Hk|Hk]; [|now apply C].
        rewrite inline_keys_inline in Hk. apply B, C1, Hk.
      * intros m Hm. unfold inline_spreads in Hm. cbn [flat_map] in Hm. apply in_app_or in Hm. destruct Hm as [Hm|Hm]; [|now apply D].
        rewrite inline_spreads_inline in Hm. apply A, D1, Hm.
      * intros m Hm Hnm. destruct (in_dec string_dec m v1) as [Hm1|Hm1].
        -- apply (closed_mono v1 k1 v' k' m A B). now apply E1.
        -- now apply E.
Qed.

(* from the empty visited set: every reachable fragment is visited and closed, so every reachable key is collected *)
Theorem response_keys_complete fuel sels v' k' :
  response_keys fuel frs sels [] [] = Some (v', k') -> forall k, reachable_key frs sels k -> In k k'.
Proof.
  intros H. destruct (response_keys_dfs _ _ _ _ _ _ H) as (_ & _ & C & D & E).
  assert (Hclosed : forall m, In m v' -> closed_node v' k' m) by (intros m Hm; apply E; [exact Hm|intros []]).
  assert (Hreach : forall sels0 f, reach frs sels0 f -> (forall n, In n (inline_spreads sels0) -> In n v') ->
                     exists m, In m v' /\ find_fragment frs m = Some f).
  { intros sels0 f Hr. induction Hr as [sels1 n f Hn Hf|sels1 g f Hg IHg Hf IHf]; intros Hsp.
    - exists n. split; [now apply Hsp|exact Hf].
    - destruct (IHg Hsp) as (mg & Hmg & Hfg). apply IHf. exact (proj2 (Hclosed mg Hmg g Hfg)). }
  intros k [Hk|(f & Hr & Hk)]; [now apply C|].
  destruct (Hreach sels f Hr D) as (m & Hm & Hf). exact (proj1 (Hclosed m Hm f Hf) k Hk).
Qed.
End Complete.

(* ---------- the rule, exact ---------- *)
Definition two_reachable_keys (frs : list fragment) (sels : list selection) : Prop :=
  exists k1 k2, k1 <> k2 /\ reachable_key frs sels k1 /\ reachable_key frs sels k2.

Lemma reach_from_spread frs l n ds f g : find_fragment frs n = Some f -> reach frs [SSpread l n ds] g -> g = f \/ reach frs (fr_sels f) g.
Proof.
  intros Hf Hr. remember [SSpread l n ds] as s0 eqn:Es. induction Hr as [sels0 m g Hm Hg|sels0 h g Hh IHh Hg IHg]; subst sels0.
  - cbn in Hm. destruct Hm as [<-|[]]. left. congruence.
  - destruct (IHh eq_refl) as [->|Hh']; [right; exact Hg|right; eapply reach_step; eauto].
Qed.

Lemma reachable_key_from_spread frs l n ds f k :
  find_fragment frs n = Some f -> reachable_key frs [SSpread l n ds] k -> reachable_key frs (fr_sels f) k.
Proof.
  intros Hf [Hk|(g & Hr & Hk)]; [contradiction|].
  destruct (reach_from_spread frs l n ds f g Hf Hr) as [->|Hr']; [now left|right; eauto].
Qed.

Lemma reach_from_inline frs l tc ds sub g : reach frs [SInline l tc ds sub] g -> reach frs sub g.
Proof.
  intros Hr. remember [SInline l tc ds sub] as s0 eqn:Es. induction Hr as [sels0 m g Hm Hg|sels0 h g Hh IHh Hg IHg]; subst sels0.
  - eapply reach_direct; [|exact Hg]. unfold inline_spreads in Hm. cbn [flat_map] in Hm. now rewrite app_nil_r, inline_spreads_inline in Hm.
  - eapply reach_step; [exact (IHh eq_refl)|exact Hg].
Qed.
Lemma reachable_key_from_inline frs l tc ds sub k : reachable_key frs [SInline l tc ds sub] k -> reachable_key frs sub k.
Proof.
  intros [Hk|(g & Hr & Hk)].
  - left. unfold inline_keys in Hk. cbn [flat_map] in Hk. now rewrite app_nil_r, inline_keys_inline in Hk.
  - right. exists g. split; [now apply reach_from_inline in Hr|exact Hk].
Qed.

Theorem single_root_refuses_reachable doc oloc : forall fuel sels errs,
  single_root_sels fuel doc oloc sels = Some errs -> two_reachable_keys (fragments doc) sels -> errs <> [].
Proof.
  induction fuel as [|fuel IH]; intros sels errs H (k1 & k2 & Hne & H1 & H2); [discriminate|].
  cbn [single_root_sels] in H.
  destruct sels as [|s [|s2 r]].
  - destruct H1 as [[]|(f & Hr & _)]. exfalso. clear - Hr. remember (@nil selection) as s0. induction Hr as [sels0 m g Hm Hg|sels0 h g Hh IHh Hg IHg]; subst; [contradiction|now apply IHh].
  - destruct s as [l alias name args ds sub|l n ds|l tc ds sub].
    + (* one field: one key *)
      assert (Hone : forall k, reachable_key (fragments doc) [SField l alias name args ds sub] k -> k = fkey alias name).
      { intros k [Hk|(f & Hr & _)]; [cbn in Hk; destruct Hk as [<-|[]]; reflexivity|].
        exfalso. clear - Hr. remember [SField l alias name args ds sub] as s0. induction Hr as [sels0 m g Hm Hg|sels0 h g Hh IHh Hg IHg]; subst; [contradiction|now apply IHh]. }
      rewrite (Hone k1 H1), (Hone k2 H2) in Hne. now elim Hne.
    + destruct (find_fragment (fragments doc) n) as [f|] eqn:Hf.
      * apply (IH (fr_sels f) errs H). exists k1, k2. split; [exact Hne|]. split; eapply reachable_key_from_spread; eauto.
      * (* undefined target: nothing reachable *)
        exfalso. destruct H1 as [[]|(g & Hr & _)]. clear - Hr Hf. remember [SSpread l n ds] as s0.
        induction Hr as [sels0 m g Hm Hg|sels0 h g Hh IHh Hg IHg]; subst; [cbn in Hm; destruct Hm as [<-|[]]; congruence|now apply IHh].
    + apply (IH sub errs H). exists k1, k2. split; [exact Hne|]. split; eapply reachable_key_from_inline; eauto.
  - assert (Hgen : match response_keys (single_root_fuel doc) (fragments doc) (s :: s2 :: r) [] [] with
                   | Some (_, keys) => Some (if (1 <? List.length keys)%nat then [mkerr "single-root-field" None [oloc]] else [])
                   | None => None end = Some errs).
    { destruct s; exact H. }
    clear H. destruct (response_keys _ _ (s :: s2 :: r) [] []) as [[v' keys]|] eqn:Hk; [|discriminate].
    pose proof (response_keys_complete (fragments doc) _ _ _ _ Hk) as Hc.
    rewrite (two_distinct_length keys k1 k2 Hne (Hc k1 H1) (Hc k2 H2)) in Hgen. injection Hgen as <-. discriminate.
Qed.

(* the rule on the document, exact through spreads *)
Theorem single_root_rule_refuses_reachable doc o :
  In o (operations doc) -> o_kind o = OpSubscription -> two_reachable_keys (fragments doc) (o_sels o) ->
  single_root_rule doc <> Some [].
Proof.
  rewrite single_root_rule_fold. intros Hin Hk Htwo.
  assert (Hgen : forall ops es, In o ops -> fold_left (sr_step doc) ops (Some es) <> Some []).
  { induction ops as [|o' ops IH]; intros es Hi; [contradiction|]. cbn [fold_left].
    destruct Hi as [->|Hi].
    - unfold sr_step at 2. rewrite Hk.
      destruct (single_root_sels _ doc (o_loc o) (o_sels o)) as [es'|] eqn:Hs; [|now rewrite sr_fold_none].
      pose proof (single_root_refuses_reachable doc (o_loc o) _ _ _ Hs Htwo) as Hne.
      intros H. destruct (sr_fold_grows _ _ _ _ H) as [more Hm]. symmetry in Hm. apply app_eq_nil in Hm.
      destruct Hm as [Hm _]. apply app_eq_nil in Hm. destruct Hm as [_ Hm]. contradiction.
    - unfold sr_step at 2. destruct (o_kind o'); try (now apply IH).
      all: try (destruct (single_root_sels _ doc (o_loc o') (o_sels o')); [now apply IH|now rewrite sr_fold_none]). }
  now apply Hgen.
Qed.
