(* The engine's field lookup in a type scope (Model/ImplValidate.v vfind_field: the declared fields with the meta-fields
   APPENDED by _inject_introspection_fields) against the specification's (Model/SpecValidate.v s_field: meta-fields by
   name, then the declared fields): for schemas whose declared field names do not begin with two underscores they are
   the same function, EXCEPT `__typename` in an interface scope -- interfaces have no add_field, so the engine does
   not know the field there (recorded finding C07-interface-typename-arguments). *)
From Coq Require Import ZArith List String Bool.
From TV Require Import Py.Prelude Model.Schema Model.ImplValidate Model.SpecValidate.
Import ListNotations.
Open Scope string_scope.
Open Scope list_scope.

Section Lookup.
Variable V : vschema.

Definition plain_names (fs : list field_def) : Prop := forall f, In f fs -> prefix "__" (fd_name f) = false.

Lemma find_field_app fs gs n :
  find_field (fs ++ gs) n = match find_field fs n with Some f => Some f | None => find_field gs n end.
Proof. induction fs as [|f r IH]; cbn [app find_field]; [reflexivity|]. destruct (String.eqb n (fd_name f)); [reflexivity|exact IH]. Qed.

Lemma find_field_plain fs n : plain_names fs -> prefix "__" n = true -> find_field fs n = None.
Proof.
  intros Hp Hn. induction fs as [|f r IH]; [reflexivity|]. cbn [find_field].
  destruct (String.eqb n (fd_name f)) eqn:E.
  - apply String.eqb_eq in E. subst n. rewrite (Hp f (or_introl eq_refl)) in Hn. discriminate.
  - apply IH. intros g Hg. apply Hp. now right.
Qed.

Definition is_interface (p : string) : bool := match vfind_type V p with Some (DInterface _) => true | _ => false end.

Theorem field_lookup_agrees p name :
  (forall ifs fs, vfind_type V p = Some (DObject ifs fs) -> plain_names fs) ->
  (forall fs, vfind_type V p = Some (DInterface fs) -> plain_names fs) ->
  (String.eqb p (query_type (vs V)) = true -> exists ifs fs, vfind_type V p = Some (DObject ifs fs)) ->
  (is_interface p = true -> name <> "__typename") ->
  vfind_field V (Some p) name = s_field V (Some p) name.
Proof.
  intros Hobj Hifc Hq Hfind. unfold vfind_field, s_field, vfields_of, s_composite, s_type, is_interface in *.
  destruct (vfind_type V p) as [[ |values|ifds|ifs fs|fs|ms]|] eqn:Ht.
  1-3,5-7: assert (Eq : String.eqb p (query_type (vs V)) = false)
    by (destruct (String.eqb p (query_type (vs V))); [destruct (Hq eq_refl) as (a & b & Hc); discriminate|reflexivity]).
  - rewrite Eq. cbn [andb]. destruct (String.eqb name "__typename"); reflexivity.
  - rewrite Eq. cbn [andb]. destruct (String.eqb name "__typename"); reflexivity.
  - rewrite Eq. cbn [andb]. destruct (String.eqb name "__typename"); reflexivity.
  - (* interface *)
    specialize (Hfind eq_refl). rewrite Eq. cbn [is_composite_def andb].
    destruct (String.eqb name "__typename") eqn:E0; [apply String.eqb_eq in E0; contradiction|reflexivity].
  - (* union *)
    rewrite Eq. cbn [is_composite_def andb find_field]. unfold typename_field at 1. cbn [fd_name fld].
    destruct (String.eqb name "__typename"); reflexivity.
  - rewrite Eq. cbn [andb]. destruct (String.eqb name "__typename"); reflexivity.
  - (* object *)
    pose proof (Hobj ifs fs eq_refl) as Hp. cbn [is_composite_def]. rewrite !find_field_app.
    destruct (String.eqb name "__typename") eqn:E0.
    + apply String.eqb_eq in E0. subst name. rewrite (find_field_plain fs "__typename" Hp eq_refl).
      destruct (String.eqb p (query_type (vs V))); cbn; reflexivity.
    + destruct (String.eqb p (query_type (vs V))) eqn:Eq; cbn [andb].
      * destruct (String.eqb name "__schema") eqn:E1.
        -- apply String.eqb_eq in E1. subst name. rewrite (find_field_plain fs "__schema" Hp eq_refl). reflexivity.
        -- destruct (String.eqb name "__type") eqn:E2.
           ++ apply String.eqb_eq in E2. subst name. rewrite (find_field_plain fs "__type" Hp eq_refl). cbn. reflexivity.
           ++ destruct (find_field fs name); [reflexivity|]. cbn. rewrite E1, E2, E0. reflexivity.
      * destruct (find_field fs name); [reflexivity|]. cbn. rewrite E0. reflexivity.
Qed.
End Lookup.
