(* The definitions regenerated from the repository's scalar modules are equal, on every
   value of the universe and for every oracle, to the reference semantics of
   Model/ScalarSpec.v.  Proof scripts are generic symbolic execution. *)
From Coq Require Import ZArith List String Bool Lia SpecFloat.
From TV Require Import Py.Prelude Model.ScalarSpec Proofs.PreludeFacts Gen.Scalars_gen.
Import ListNotations.
Open Scope Z_scope.

Ltac py_simp :=
  cbn [bind catch_exception truthy isinstance nth py_int py_float py_str py_bool
       py_isfinite py_floor py_attr_value orb andb negb py_le py_eq as_num cmp_num
       option_map integral_value finite_float_of is_some b2z
       float_of_string str_of_value].

(* destruct the innermost scrutinee of the goal *)
Ltac py_step :=
  match goal with
  | |- context [match ?x with _ => _ end] =>
      lazymatch x with
      | context [match _ with _ => _ end] => fail
      | _ => destruct x eqn:?
      end
  end.

Ltac use_float_facts :=
  repeat match goal with
  | Hf : sf_finite ?f = true |- context [sf_floor ?f] =>
      let z := fresh "z" in let H1 := fresh in let H2 := fresh in let H3 := fresh in
      destruct (floor_exact f Hf) as (z & H1 & H2 & H3); rewrite H1
  | Hf : sf_finite ?f = true |- context [sf_trunc ?f] =>
      let z := fresh "z" in let H1 := fresh in let H2 := fresh in let H3 := fresh in
      destruct (trunc_exact f Hf) as (z & H1 & H2 & H3); rewrite H1
  | Hf : sf_finite ?f = false |- context [sf_trunc ?f] =>
      let e := fresh "e" in let H1 := fresh in let H2 := fresh in
      destruct (sf_trunc_nonfinite f Hf) as (e & H1 & H2); rewrite H1
  end.

Ltac py_close :=
  try reflexivity; try congruence;
  try (exfalso; congruence).

Section Refine.
Variable O : oracles.

Lemma is_integer_refines v :
  values_is_integer O v = Ok (PBool (is_some (integral_value v))).
Proof.
  unfold values_is_integer. destruct v as [ | |b|z|f|s|l|kv|cls attrs|e|tag|k a]; try destruct k; py_simp; try reflexivity.
  destruct (sf_finite f) eqn:Hf; py_simp; [|reflexivity].
  use_float_facts. py_simp.
  match goal with H : _ = is_some _ |- _ => rewrite H end.
  destruct (sf_to_Z_exact f); reflexivity.
Qed.


Ltac cases v := destruct v as [ | |?b|?z|?f|?s|?l|?kv|?cls ?attrs|?e|?tag|?k ?a]; try destruct k.

Ltac float_case :=
  match goal with
  | |- context [sf_finite ?f] =>
      lazymatch goal with
      | _ : sf_finite f = _ |- _ => fail
      | _ => destruct (sf_finite f) eqn:?
      end
  end.

Ltac exact_facts :=
  repeat match goal with
  | H : forall z', sf_to_Z_exact ?f = Some z' -> z' = ?w, He : sf_to_Z_exact ?f = Some ?z |- _ =>
      specialize (H z He); try subst w; try subst z
  | H : forall z', sf_to_Z_exact ?f = Some z' -> _, He : sf_to_Z_exact ?f = None |- _ => clear H
  | Hf : sf_finite ?f = true, He : sf_to_Z_exact ?f = Some ?z |- context [cmp_Z_sf ?x ?f] =>
      rewrite (cmp_Z_sf_exact x f z Hf He)
  | H : forall z', Some ?z = Some z' -> z' = ?w |- _ =>
      let E := fresh in assert (E : z = w) by (apply H; reflexivity); clear H; try subst w; try subst z
  | H : forall z', None = Some z' -> _ |- _ => clear H
  | H : true = is_some ?o |- _ => destruct o eqn:?; [clear H | discriminate H]
  | H : false = is_some ?o |- _ => destruct o eqn:?; [discriminate H | clear H]
  | H : is_eq_cmp ?c = is_some (sf_to_Z_exact ?f) |- context [is_eq_cmp ?c] =>
      rewrite H
  end.

Ltac prio_case :=
  match goal with
  | |- context [sf_to_Z_exact ?f] =>
      lazymatch goal with
      | _ : sf_to_Z_exact f = _ |- _ => fail
      | _ => destruct (sf_to_Z_exact f) eqn:?
      end
  | |- context [float_of_string ?O ?s] =>
      lazymatch goal with
      | _ : float_of_string O s = _ |- _ => fail
      | _ => destruct (float_of_string O s) eqn:?
      end
  end.

Ltac arith_close :=
  exact_facts;
  repeat match goal with
  | H : sf_of_Z _ = Raise ?e |- _ => apply sf_of_Z_raise in H; try discriminate H; try subst e
  | H : sf_of_Z ?z = Ok ?a, Hf : sf_finite ?a = false |- _ =>
      apply sf_of_Z_finite in H; rewrite H in Hf; discriminate Hf
  end;
  repeat match goal with
  | He : sf_to_Z_exact ?f = _, H : context [sf_to_Z_exact ?f] |- _ =>
      lazymatch H with He => fail | _ => rewrite He in H end
  end;
  repeat match goal with
  | Hf : sf_finite ?f = true, He : sf_to_Z_exact ?f = Some ?z, H : context [cmp_Z_sf ?x ?f] |- _ =>
      rewrite (cmp_Z_sf_exact x f z Hf He) in H
  end;
  cbn [option_map CompOpp is_some is_eq_cmp] in *;
  repeat match goal with
  | H : Some _ = Some _ |- _ => inversion H; clear H
  | H : CompOpp ?c = _ |- _ => destruct c eqn:?; cbn [CompOpp] in H; try discriminate H; clear H
  end;
  subst;
  repeat match goal with
  | H : (?x ?= ?y) = Eq |- _ => apply Z.compare_eq in H
  | H : (?x ?= ?y) = Lt |- _ => apply -> Z.compare_lt_iff in H
  | H : (?x ?= ?y) = Gt |- _ => apply -> Z.compare_gt_iff in H
  end;
  try discriminate; try congruence; try (exfalso; lia).

Ltac go :=
  repeat (py_simp; unfold int_MIN_INT, int_MAX_INT, in32b, Z.leb, is_le_cmp;
          rewrite ?is_integer_refines, ?compare_antisym_opp;
          try float_case; try prio_case; use_float_facts; exact_facts;
          py_simp; try py_step);
  py_close; arith_close.

Lemma int_coerce_input_refines v : int_coerce_input O v = int_input_spec O v.
Proof. unfold int_coerce_input, int_input_spec. cases v; go. Qed.

Lemma int_coerce_output_refines v : int_coerce_output O v = int_output_spec O v.
Proof. unfold int_coerce_output, int_output_spec, id_output_spec. cases v; go. Qed.

Lemma int_parse_literal_refines a : wf_node a = true -> int_parse_literal O a = int_literal_spec O a.
Proof. unfold int_parse_literal, int_literal_spec, id_output_spec. cases a; try match goal with a : pyval |- _ => cases a end; cbn [wf_node]; intros Hwf; try discriminate Hwf; go. Qed.

Lemma float_coerce_output_refines v : float_coerce_output O v = float_output_spec O v.
Proof. unfold float_coerce_output, float_output_spec, id_output_spec. cases v; go. Qed.

Lemma float_coerce_input_refines v : float_coerce_input O v = float_input_spec O v.
Proof. unfold float_coerce_input, float_input_spec, id_output_spec. cases v; go. Qed.

Lemma float_parse_literal_refines a : wf_node a = true -> float_parse_literal O a = float_literal_spec O a.
Proof. unfold float_parse_literal, float_literal_spec, id_output_spec. cases a; try match goal with a : pyval |- _ => cases a end; cbn [wf_node]; intros Hwf; try discriminate Hwf; go. Qed.

Lemma string_coerce_output_refines v : string_coerce_output O v = string_output_spec O v.
Proof. unfold string_coerce_output, string_output_spec, id_output_spec. cases v; go. Qed.

Lemma string_coerce_input_refines v : string_coerce_input O v = string_input_spec O v.
Proof. unfold string_coerce_input, string_input_spec, id_output_spec. cases v; go. Qed.

Lemma string_parse_literal_refines a : wf_node a = true -> string_parse_literal O a = string_literal_spec O a.
Proof. unfold string_parse_literal, string_literal_spec, id_output_spec. cases a; try match goal with a : pyval |- _ => cases a end; cbn [wf_node]; intros Hwf; try discriminate Hwf; go. Qed.

Lemma boolean_coerce_output_refines v : boolean_coerce_output O v = boolean_output_spec O v.
Proof. unfold boolean_coerce_output, boolean_output_spec, id_output_spec. cases v; go. Qed.

Lemma boolean_coerce_input_refines v : boolean_coerce_input O v = boolean_input_spec O v.
Proof. unfold boolean_coerce_input, boolean_input_spec, id_output_spec. cases v; go. Qed.

Lemma boolean_parse_literal_refines a : wf_node a = true -> boolean_parse_literal O a = boolean_literal_spec O a.
Proof. unfold boolean_parse_literal, boolean_literal_spec, id_output_spec. cases a; try match goal with a : pyval |- _ => cases a end; cbn [wf_node]; intros Hwf; try discriminate Hwf; go. Qed.

Lemma id_coerce_output_refines v : id_coerce_output O v = id_output_spec O v.
Proof. unfold id_coerce_output, id_output_spec, id_output_spec. cases v; go. Qed.

Lemma id_coerce_input_refines v : id_coerce_input O v = id_input_spec O v.
Proof. unfold id_coerce_input, id_input_spec, id_output_spec. cases v; go. Qed.

Lemma id_parse_literal_refines a : wf_node a = true -> id_parse_literal O a = id_literal_spec O a.
Proof. unfold id_parse_literal, id_literal_spec, id_output_spec. cases a; try match goal with a : pyval |- _ => cases a end; cbn [wf_node]; intros Hwf; try discriminate Hwf; go. Qed.

End Refine.
