(* Acceptance characterised.  The walk phase of the validation (Proofs/ValidateWalk.v: a pure function of the
   document) reports nothing EXACTLY when every node of every selection tree satisfies the specification's
   predicates at that node -- argument and directive rules, values of correct type at every depth, field /
   leaf / type-condition rules -- with the scope handed down the tree.  With the document-level rules proved
   exact elsewhere (cycles, names, lone anonymous operation, fragments used, spread targets) this gives an
   exact characterisation of the documents the engine hands to execution, five rule functions (single root
   field, possible spreads, the three variable rules) still appearing as such. *)
From Coq Require Import ZArith List String Bool Lia.
From TV Require Import Py.Prelude Model.Schema Model.ImplValidate Model.SpecValidate Proofs.ValidateProofs
     Proofs.ValidateRules Proofs.ValidateValues Proofs.ValidateSites Proofs.ValidateWalk.
Import ListNotations.
Open Scope list_scope.

Section Tree.
Variable V : vschema.
(* expected types of values are input types: what C12 guarantees of every schema an engine is built from *)
Hypothesis Hin : forall n ifs f, vfind_type V n = Some (DInput ifs) -> In f ifs -> input_ty V (in_type f).
Hypothesis Hfields : forall scope name f d, vfind_field V scope name = Some f -> In d (fd_args f) -> input_ty V (in_type d).
Hypothesis Hdirs : forall n dd d, vfind_directive V n = Some dd -> In d (dd_args dd) -> input_ty V (in_type d).

Lemma app_nil_iff {A} (a b : list A) : a ++ b = [] <-> a = [] /\ b = [].
Proof. split; [apply app_eq_nil|intros [-> ->]; reflexivity]. Qed.

(* ---------- 5.6.3 inside literals ---------- *)
Lemma value_errs_exact path v : value_errs path v = [] <-> obj_fields_unique v = true.
Proof.
  induction v using lit_ind2; cbn [value_errs obj_fields_unique]; try (split; reflexivity).
  - (* list *)
    induction H as [|x r Hx HF IH]; [split; reflexivity|].
    rewrite app_nil_iff, andb_true_iff, Hx, IH. reflexivity.
  - (* object *)
    rewrite app_nil_iff, andb_true_iff.
    assert (Hsub : (fix go (xs : list (string * lit)) : list verror :=
                      match xs with [] => [] | (_, x) :: r => value_errs path x ++ go r end) fields = [] <->
                   (fix all (xs : list (string * lit)) : bool :=
                      match xs with [] => true | (_, x) :: r => obj_fields_unique x && all r end) fields = true).
    { induction H as [|[k x] r Hx HF IH]; [split; reflexivity|]. cbn [snd] in Hx.
      rewrite app_nil_iff, andb_true_iff, Hx, IH. reflexivity. }
    rewrite Hsub. destruct fields as [|kv r].
    + cbn. tauto.
    + rewrite input_field_uniqueness_rule. tauto.
Qed.

(* ---------- arguments: 5.4.2 uniqueness + the literals they carry ---------- *)
Definition arguments_ok (args : list argument) : bool :=
  nodupb (map a_name args) && forallb (fun a => obj_fields_unique (a_value a)) args.

Lemma arguments_errs_exact path args : arguments_errs path args = [] <-> arguments_ok args = true.
Proof.
  unfold arguments_errs, arguments_ok. destruct args as [|a0 r0]; [split; reflexivity|].
  remember (a0 :: r0) as args eqn:E. clear E.
  rewrite app_nil_iff, andb_true_iff, argument_uniqueness_rule, flat_map_nil_iff, forallb_forall.
  split; intros [A B].
  - split; [exact B|]. intros a Ha. apply (proj1 (value_errs_exact path (a_value a))). auto.
  - split; [|exact A]. intros a Ha. apply (proj2 (value_errs_exact path (a_value a))). auto.
Qed.

(* ---------- one directive: 5.7.1 defined, its arguments' rules ---------- *)
Definition defs_ok (ds : list input_def) (l_args : list argument) : bool :=
  args_ok V ds l_args &&
  forallb (fun a => existsb (fun d => String.eqb (in_name d) (a_name a)) ds) l_args &&
  forallb (fun d => negb (is_non_null (in_type d)) || match in_default d with Some _ => true | None => false end ||
                    existsb (fun a => String.eqb (a_name a) (in_name d)) l_args) ds.

Lemma vct_arguments_quiet path ds args :
  (forall d, In d ds -> input_ty V (in_type d)) ->
  (vct_arguments V path (Some ds) args = Some [] <-> args_ok V ds args = true).
Proof.
  intros Hd. destruct (vct_arguments_exact V Hin path ds args Hd) as [H1 H2]. split; [|exact H1].
  intros E. destruct (args_ok V ds args); [reflexivity|]. destruct (H2 eq_refl) as [H|(e & es & H)]; rewrite E in H; discriminate.
Qed.

Lemma defs_rules_exact path l ds args :
  (forall d, In d ds -> input_ty V (in_type d)) ->
  (vct_arguments V path (Some ds) args = Some [] /\ argument_names_errors path (Some ds) args = [] /\
   required_arguments_errors path (Some ds) l args = [] <-> defs_ok ds args = true).
Proof.
  intros Hd. unfold defs_ok. rewrite !andb_true_iff, (vct_arguments_quiet path ds args Hd), argument_names_exact, required_arguments_exact. tauto.
Qed.

Definition dir_ok (d : directive) : bool :=
  arguments_ok (dir_args d) &&
  match s_directive V (d_name d) with
  | Some dd => defs_ok (dd_args dd) (dir_args d)
  | None => false
  end.

Lemma directive_errs_exact path d : directive_errs V path d = Some [] <-> dir_ok d = true.
Proof.
  unfold directive_errs, dir_ok, s_directive. cbn [seqs].
  rewrite !seq2_quiet, !some_quiet, arguments_errs_exact, andb_true_iff.
  destruct (vfind_directive V (d_name d)) as [dd|] eqn:Ed.
  - rewrite <- (defs_rules_exact path (d_loc d) (dd_args dd) (dir_args d) (fun x Hx => Hdirs _ dd x Ed Hx)). tauto.
  - cbn [vct_arguments argument_names_errors required_arguments_errors]. split.
    + intros (_ & _ & _ & _ & H & _). discriminate.
    + intros [_ H]. discriminate.
Qed.

Definition dirs_ok (ds : list directive) : bool := forallb dir_ok ds && nodupb (map d_name ds).

Lemma seqs_quiet l : seqs l = Some [] <-> Forall (fun r => r = Some []) l.
Proof.
  induction l as [|a l IH]; cbn [seqs]; [split; [constructor|reflexivity]|].
  rewrite seq2_quiet, IH. split; [intros [H1 H2]; now constructor|intros H; inversion H; auto].
Qed.

Lemma directives_errs_exact path ds : directives_errs V path ds = Some [] <-> dirs_ok ds = true.
Proof.
  unfold directives_errs, dirs_ok. destruct ds as [|d0 r0]; [split; reflexivity|].
  remember (d0 :: r0) as ds eqn:E. clear E.
  rewrite seq2_quiet, some_quiet, directive_uniqueness_rule, andb_true_iff, seqs_quiet, Forall_map, Forall_forall, forallb_forall.
  split; intros [A B].
  - split; [|exact B]. intros d Hd. apply (proj1 (directive_errs_exact path d)). auto.
  - split; [|exact B]. intros d Hd. apply (proj2 (directive_errs_exact path d)). auto.
Qed.

Definition locs_ok (where_ : string) (ds : list directive) : bool :=
  forallb (fun d => match s_directive V (d_name d) with Some dd => mem_str where_ (dd_locs dd) | None => true end) ds.

(* ---------- one field node ---------- *)
Definition field_ok (scope : option string) (name : string) (args : list argument) (dirs : list directive) (hs : bool) : bool :=
  locs_ok "FIELD" dirs &&
  (String.eqb name "__typename" || match field_reduced_type V scope name with Some _ => true | None => false end) &&
  match field_reduced_type V scope name with Some d => Bool.eqb hs (is_composite_def d) | None => true end &&
  match vfind_field V scope name with Some f => defs_ok (fd_args f) args | None => true end.

Lemma field_rules_errs_exact scope path l name args dirs hs :
  field_rules_errs V scope path l name args dirs hs = Some [] <-> field_ok scope name args dirs hs = true.
Proof.
  rewrite (field_node_quiet V Hin scope path l name args dirs hs (fun f d Hf Hd => Hfields scope name f d Hf Hd)).
  unfold field_ok, locs_ok. rewrite !andb_true_iff, orb_true_iff.
  assert (Hdo : forall f, defs_ok (fd_args f) args = true <->
            args_ok V (fd_args f) args = true /\
            forallb (fun a => existsb (fun d => String.eqb (in_name d) (a_name a)) (fd_args f)) args = true /\
            forallb (fun d => negb (is_non_null (in_type d)) || match in_default d with Some _ => true | None => false end ||
                              existsb (fun a => String.eqb (a_name a) (in_name d)) args) (fd_args f) = true).
  { intros f. unfold defs_ok. rewrite !andb_true_iff. tauto. }
  destruct (field_reduced_type V scope name) as [d|] eqn:Er; destruct (vfind_field V scope name) as [f|] eqn:Ef;
    (split; [intros (H1 & H2 & H3 & H4) | intros (((H1 & H2) & H3) & H4)]).
  - split; [split; [split; [exact H1|right; reflexivity]|exact (H3 d eq_refl)]|apply Hdo; exact (H4 f eq_refl)].
  - split; [exact H1|]. split; [right; discriminate|]. split; [intros d' E; inversion E; subst; exact H3|].
    intros f' E; inversion E; subst. apply Hdo. exact H4.
  - split; [split; [split; [exact H1|right; reflexivity]|exact (H3 d eq_refl)]|reflexivity].
  - split; [exact H1|]. split; [right; discriminate|]. split; [intros d' E; inversion E; subst; exact H3|].
    intros f' E; discriminate.
  - split; [split; [split; [exact H1|]|reflexivity]|apply Hdo; exact (H4 f eq_refl)].
    destruct H2 as [H2|H2]; [now left|exfalso; now apply H2].
  - split; [exact H1|]. split; [destruct H2 as [H2|H2]; [now left|discriminate]|]. split; [intros d' E; discriminate|].
    intros f' E; inversion E; subst. apply Hdo. exact H4.
  - split; [split; [split; [exact H1|]|reflexivity]|reflexivity].
    destruct H2 as [H2|H2]; [now left|exfalso; now apply H2].
  - split; [exact H1|]. split; [destruct H2 as [H2|H2]; [now left|discriminate]|]. split; [intros d' E; discriminate|].
    intros f' E; discriminate.
Qed.

(* ---------- the selection tree ---------- *)
Definition tc_ok (tc : option string) : bool :=
  match tc with
  | Some t => match s_type V t with Some d => is_composite_def d | None => false end
  | None => true
  end.

Lemma type_condition_errs_exact path l tc : type_condition_errs V path l tc = [] <-> tc_ok tc = true.
Proof.
  unfold type_condition_errs, tc_ok, has_type, s_type. destruct tc as [t|]; [|split; reflexivity].
  destruct (vfind_type V t) as [d|]; cbn; [destruct (is_composite_def d); cbn; split; try reflexivity; discriminate|split; discriminate].
Qed.

Fixpoint sel_ok (scope : option string) (s : selection) {struct s} : bool :=
  match s with
  | SField _ _ name args dirs sels =>
      arguments_ok args && dirs_ok dirs &&
      (fix all (xs : list selection) : bool := match xs with [] => true | x :: r => sel_ok (field_type_name V scope name) x && all r end) sels &&
      field_ok scope name args dirs (match sels with [] => false | _ => true end)
  | SSpread _ _ dirs => dirs_ok dirs && locs_ok "FRAGMENT_SPREAD" dirs
  | SInline _ tc dirs sels =>
      dirs_ok dirs &&
      (fix all (xs : list selection) : bool :=
         match xs with [] => true | x :: r => sel_ok (match tc with Some t => Some t | None => scope end) x && all r end) sels &&
      locs_ok "INLINE_FRAGMENT" dirs && tc_ok tc
  end.

Fixpoint sel_errs_exact scope path s {struct s} : sel_errs V scope path s = Some [] <-> sel_ok scope s = true.
Proof.
  destruct s as [l alias name args dirs sels|l name dirs|l tc dirs sels]; cbn [sel_errs sel_ok].
  - rewrite !seq2_quiet, some_quiet, arguments_errs_exact, directives_errs_exact, field_rules_errs_exact, !andb_true_iff.
    assert (Hsub : (fix go (xs : list selection) : option (list verror) :=
                      match xs with [] => Some [] | x :: r => seq2 (sel_errs V (field_type_name V scope name) (path_push path name) x) (go r) end) sels = Some [] <->
                   (fix all (xs : list selection) : bool :=
                      match xs with [] => true | x :: r => sel_ok (field_type_name V scope name) x && all r end) sels = true).
    { induction sels as [|x r IH]; [split; reflexivity|]. rewrite seq2_quiet, andb_true_iff, IH, sel_errs_exact. reflexivity. }
    rewrite Hsub. tauto.
  - rewrite seq2_quiet, some_quiet, directives_errs_exact, valid_locations_exact, andb_true_iff. reflexivity.
  - rewrite !seq2_quiet, some_quiet, app_nil_iff, directives_errs_exact, valid_locations_exact, type_condition_errs_exact, !andb_true_iff.
    assert (Hsub : (fix go (xs : list selection) : option (list verror) :=
                      match xs with [] => Some [] | x :: r => seq2 (sel_errs V (match tc with Some t => Some t | None => scope end) path x) (go r) end) sels = Some [] <->
                   (fix all (xs : list selection) : bool :=
                      match xs with [] => true | x :: r => sel_ok (match tc with Some t => Some t | None => scope end) x && all r end) sels = true).
    { induction sels as [|x r IH]; [split; reflexivity|]. rewrite seq2_quiet, andb_true_iff, IH, sel_errs_exact. reflexivity. }
    rewrite Hsub. unfold locs_ok. tauto.
Qed.

Definition sels_ok (scope : option string) (sels : list selection) : bool := forallb (sel_ok scope) sels.

Lemma sels_errs_exact scope path sels : sels_errs V scope path sels = Some [] <-> sels_ok scope sels = true.
Proof.
  unfold sels_errs, sels_ok. induction sels as [|x r IH]; [split; reflexivity|].
  cbn [forallb]. rewrite seq2_quiet, andb_true_iff, IH, sel_errs_exact. reflexivity.
Qed.

(* ---------- definitions ---------- *)
Definition vardef_ok (vd : var_def) : bool :=
  match v_default vd with Some d => obj_fields_unique d | None => true end &&
  match vfind_type V (named_of (v_type vd)) with Some d => is_input_def d | None => true end.
Definition vardefs_ok (vds : list var_def) : bool := forallb vardef_ok vds && nodupb (map v_name vds).

Lemma vardefs_errs_exact vds : vardefs_errs V vds = [] <-> vardefs_ok vds = true.
Proof.
  unfold vardefs_errs, vardefs_ok. destruct vds as [|v0 r0]; [split; reflexivity|].
  remember (v0 :: r0) as vds eqn:E. clear E.
  rewrite app_nil_iff, variable_uniqueness_rule, andb_true_iff, flat_map_nil_iff, forallb_forall.
  assert (H1 : forall vd, vardef_errs V vd = [] <-> vardef_ok vd = true).
  { intros vd. unfold vardef_errs, vardef_ok. rewrite app_nil_iff, andb_true_iff.
    destruct (v_default vd) as [d|]; [rewrite value_errs_exact|];
      (destruct (vfind_type V (named_of (v_type vd))) as [td|]; [destruct (is_input_def td)|]; cbn; split; intros [A B]; split; auto; try discriminate). }
  split; intros [A B].
  - split; [|exact B]. intros vd Hvd. apply (proj1 (H1 vd)). auto.
  - split; [|exact B]. intros vd Hvd. apply (proj2 (H1 vd)). auto.
Qed.

Definition operation_ok (o : operation) : bool :=
  vardefs_ok (o_vars o) && dirs_ok (o_dirs o) && sels_ok (op_root V (o_kind o)) (o_sels o) &&
  locs_ok (op_loc_name (o_kind o)) (o_dirs o).

Lemma operation_errs_exact o : operation_errs V o = Some [] <-> operation_ok o = true.
Proof.
  unfold operation_errs, operation_ok.
  rewrite !seq2_quiet, !some_quiet, vardefs_errs_exact, directives_errs_exact, sels_errs_exact, valid_locations_exact, !andb_true_iff.
  unfold locs_ok. tauto.
Qed.

Definition fragment_ok (f : fragment) : bool :=
  dirs_ok (fr_dirs f) && sels_ok (Some (fr_type f)) (fr_sels f) && locs_ok "FRAGMENT_DEFINITION" (fr_dirs f) &&
  tc_ok (Some (fr_type f)).

Lemma fragment_errs_exact f : fragment_errs V f = Some [] <-> fragment_ok f = true.
Proof.
  unfold fragment_errs, fragment_ok.
  rewrite !seq2_quiet, some_quiet, app_nil_iff, directives_errs_exact, sels_errs_exact, valid_locations_exact,
    type_condition_errs_exact, !andb_true_iff.
  unfold locs_ok. tauto.
Qed.

Definition doc_walk_ok (doc : document) : bool :=
  forallb operation_ok (operations doc) && forallb fragment_ok (fragments doc).

Theorem walk_phase_exact doc : quiet (walk_phase_errs V doc) <-> doc_walk_ok doc = true.
Proof.
  unfold quiet, walk_phase_errs, doc_walk_ok.
  rewrite seq2_quiet, !seqs_quiet, !Forall_map, !Forall_forall, andb_true_iff, !forallb_forall.
  split; intros [H1 H2]; split; intros x Hx.
  - apply (proj1 (operation_errs_exact x)). auto.
  - apply (proj1 (fragment_errs_exact x)). auto.
  - apply (proj2 (operation_errs_exact x)). auto.
  - apply (proj2 (fragment_errs_exact x)). auto.
Qed.

(* ---------- acceptance, characterised ---------- *)
Lemma walked_same doc : ValidateWalk.walked V doc = ValidateRules.walked V doc.
Proof. reflexivity. Qed.

Theorem accepted_characterised doc :
  accepted V doc = true <->
  doc_walk_ok doc = true /\
  acyclic (fragments doc) /\ r_operation_names doc = true /\ r_lone_anonymous doc = true /\
  r_fragment_names doc = true /\ r_spread_targets V doc = true /\ r_fragments_used V doc = true /\
  (* the rule functions not (yet) related to the specification's predicates *)
  quiet (single_root_rule doc) /\
  inline_possible_errors V (inlined_in (ValidateWalk.walked V doc)) ++
    spread_possible_errors V (fragments doc) (spreaded_in (ValidateWalk.walked V doc)) = [] /\
  quiet (uses_defined_rule (ValidateWalk.walked V doc) (operations doc)) /\
  quiet (variables_used_rule (ValidateWalk.walked V doc) (operations doc)) /\
  quiet (usages_allowed_rule V (ValidateWalk.walked V doc) (operations doc)).
Proof.
  rewrite accepted_iff_clean, validate_clean_iff, walk_phase_exact.
  rewrite operation_names_rule, (lone_anonymous_exact_doc doc), fragment_names_rule.
  rewrite walked_same, (spread_targets_exact V doc), (must_be_used_exact V doc).
  split.
  - intros (H0 & H1 & H2 & H3 & H4 & H5 & H6 & H7 & H8 & H9 & H10 & H11).
    assert (Hn : NoDup (map fr_name (fragments doc))) by (apply nodupb_iff; exact H5).
    repeat split; auto. apply (cycle_rule_exact _ Hn). exact H1.
  - intros (H0 & H1 & H2 & H3 & H5 & H6 & H7 & H4 & H8 & H9 & H10 & H11).
    assert (Hn : NoDup (map fr_name (fragments doc))) by (apply nodupb_iff; exact H5).
    repeat split; auto. apply (cycle_rule_exact _ Hn). exact H1.
Qed.

End Tree.
