(* C18: where the `locations` of an error entry come from.
   For an arbitrary predicate P on source locations (think: "a positive line / column pair lying
   inside the request text"): when every location the PARSER attached to the nodes of the document
   satisfies P -- field nodes, the outermost value node of every argument, variable definitions --
   then every location of every entry of `errors` satisfies P.  The executor only ever copies
   locations out of the document: located_error binds the field nodes' locations, argument
   coercion reports the field's or the argument value's location, variable coercion the variable
   definition's.  Which locations the parser attaches is outside the model (stand-in). *)
From Coq Require Import ZArith List String Bool Lia.
From TV Require Import Py.Prelude Model.Schema Model.ImplInput Model.ImplExec Model.Envelope.
Import ListNotations.
Open Scope string_scope.
Open Scope list_scope.

Section Locs.
Variable P : loc -> Prop.

(* ---------- what "the document's locations satisfy P" means ---------- *)
Definition arg_good (a : argument) : Prop := P (lit_loc (a_value a)).

Fixpoint sel_good (s : selection) : Prop :=
  match s with
  | SField l _ _ args _ sub =>
      P l /\ Forall arg_good args /\
      (fix all (l : list selection) : Prop :=
         match l with [] => True | x :: r => sel_good x /\ all r end) sub
  | SSpread _ _ _ => True
  | SInline _ _ _ sub =>
      (fix all (l : list selection) : Prop :=
         match l with [] => True | x :: r => sel_good x /\ all r end) sub
  end.
Fixpoint sels_good (l : list selection) : Prop :=
  match l with [] => True | x :: r => sel_good x /\ sels_good r end.

Lemma sel_good_field l a n args d sub :
  sel_good (SField l a n args d sub) = (P l /\ Forall arg_good args /\ sels_good sub).
Proof. reflexivity. Qed.
Lemma sel_good_inline l tc d sub : sel_good (SInline l tc d sub) = sels_good sub.
Proof. reflexivity. Qed.

Definition op_good (op : operation) : Prop :=
  Forall (fun vd => P (v_loc vd)) (o_vars op) /\ sels_good (o_sels op).
Definition doc_good (d : document) : Prop :=
  Forall op_good (operations d) /\ Forall (fun fr => sels_good (fr_sels fr)) (fragments d).

(* ---------- collected field nodes ---------- *)
Definition node_good (n : fnode) : Prop :=
  P (fn_loc n) /\ Forall arg_good (fn_args n) /\ sels_good (fn_sels n).
Definition fields_good (fs : fields) : Prop := Forall (fun kn => Forall node_good (snd kn)) fs.

Lemma fields_add_good k f fs : node_good f -> fields_good fs -> fields_good (fields_add k f fs).
Proof.
  intros Hf. induction fs as [|[k' l] fs IH]; intros Hfs; cbn [fields_add].
  - constructor; [|constructor]. cbn. constructor; [exact Hf|constructor].
  - inversion Hfs as [|x xs Hx Hxs]; subst. destruct (String.eqb k k').
    + constructor; [|exact Hxs]. cbn [snd] in *. apply Forall_app. split; [exact Hx|].
      constructor; [exact Hf|constructor].
    + constructor; [exact Hx|]. now apply IH.
Qed.

(* ---------- error entries ---------- *)
Definition gerr_good (g : gerr) : Prop := Forall P (g_locs g).
Definition perr_good (e : perr) : Prop :=
  match p_locs e with Some l => Forall P l | None => True end.

Definition grows_good (s s' : st) : Prop :=
  exists new, s_errors s' = s_errors s ++ new /\ Forall gerr_good new.

Lemma gg_refl s : grows_good s s.
Proof. exists []. split; [now rewrite app_nil_r|constructor]. Qed.
Lemma gg_trans s1 s2 s3 : grows_good s1 s2 -> grows_good s2 s3 -> grows_good s1 s3.
Proof.
  intros (n1 & E1 & F1) (n2 & E2 & F2). exists (n1 ++ n2). split.
  - now rewrite E2, E1, app_assoc.
  - apply Forall_app; auto.
Qed.
Lemma gg_add_call c s : grows_good s (add_call c s).
Proof. exists []. cbn. split; [now rewrite app_nil_r|constructor]. Qed.

Definition okL {A} (m : M A) : Prop :=
  forall s r s', m s = (r, s') ->
    grows_good s s' /\ match r with OExc l => Forall perr_good l | _ => True end.

Lemma finalize_good e : perr_good e -> gerr_good (finalize e).
Proof. unfold perr_good, gerr_good, finalize. cbn. destruct (p_locs e); auto. Qed.

Lemma locate_good nodes path e :
  Forall node_good nodes -> perr_good e -> perr_good (locate (locs_of nodes) path e).
Proof.
  intros Hn. unfold perr_good, locate. cbn [p_locs]. destruct (p_locs e); [auto|]. intros _.
  unfold locs_of. apply Forall_map. eapply Forall_impl; [|exact Hn]. intros n (H & _). exact H.
Qed.

Lemma locs_of_good nodes : Forall node_good nodes -> Forall P (locs_of nodes).
Proof.
  intros Hn. unfold locs_of. apply Forall_map. eapply Forall_impl; [|exact Hn]. intros n (H & _). exact H.
Qed.

Lemma raw_good m x : perr_good (raw_err m x).
Proof. exact I. Qed.
Lemma one_raw m x : Forall perr_good [raw_err m x].
Proof. constructor; [exact I|constructor]. Qed.
Lemma one_engine t : Forall perr_good [engine_err t].
Proof. apply one_raw. Qed.

Lemma add_errors_good l s : Forall perr_good l -> grows_good s (add_errors l s).
Proof.
  intros H. exists (map finalize l). split; [reflexivity|].
  apply Forall_map. eapply Forall_impl; [|exact H]. intros e. apply finalize_good.
Qed.

Lemma handle_field_error_okL l nodes path t :
  Forall node_good nodes -> Forall perr_good l -> okL (handle_field_error l nodes path t).
Proof.
  intros Hn Hl s r s'. unfold handle_field_error.
  assert (Hloc : Forall perr_good (map (locate (locs_of nodes) path) l)).
  { apply Forall_map. eapply Forall_impl; [|exact Hl]. intros e. now apply locate_good. }
  destruct (is_non_null t); intros H; inversion H; subst.
  - split; [apply gg_refl|exact Hloc].
  - split; [now apply add_errors_good|exact I].
Qed.

Lemma complete_items_okL ci path :
  (forall x q, okL (ci x q)) -> forall items i, okL (complete_items ci path i items).
Proof.
  intros Hci. induction items as [|x xs IH]; intros i s r s'; cbn [complete_items].
  - intros H; inversion H; subst. split; [apply gg_refl|exact I].
  - destruct (ci x (path ++ [KIdx i]) s) as [r1 s1] eqn:E1.
    destruct (complete_items ci path (i + 1)%Z xs s1) as [rs s2] eqn:E2.
    destruct (Hci _ _ _ _ _ E1) as [G1 R1]. destruct (IH _ _ _ _ E2) as [G2 R2].
    pose proof (gg_trans _ _ _ G1 G2) as G.
    destruct r1 as [v|l|e]; destruct rs as [vs'|l'|e']; intros H; inversion H; subst;
      (split; [exact G|]); try exact I; auto.
    apply Forall_app; auto.
Qed.

Lemma is_exc_value_good v e : is_exc_value v = Some e -> perr_good e.
Proof. destruct v; try discriminate. destruct e0; intros H; inversion H; exact I. Qed.

Lemma coerce_output_okL nodes leaf :
  Forall node_good nodes ->
  (forall n v lp, okL (leaf n v lp)) ->
  forall t v path, okL (coerce_output nodes leaf t v path).
Proof.
  intros Hn Hleaf. induction t as [n|t IH|t IH]; intros v path; cbn [coerce_output].
  - apply Hleaf.
  - intros s r s'.
    destruct v as [ | |b|z|f|x|l|kv|c at_|e|tag|k a];
      try (intros H; inversion H; subst; split; [apply gg_refl|];
           first [exact I | apply one_engine]).
    match goal with |- context [complete_items ?ci path 0%Z l s] =>
      pose proof (complete_items_okL ci path) as Hall end.
    cbv beta in Hall.
    assert (Hci : forall (x : pyval) (q : list pkey), okL
                (fun s0 => match (match is_exc_value x with
                                  | Some e => (OExc [e], s0)
                                  | None => coerce_output nodes leaf t x q s0
                                  end) with
                           | (OExc l0, s1) => handle_field_error l0 nodes q t s1
                           | r0 => r0
                           end)).
    { intros x q s0 r0 s0'. destruct (is_exc_value x) as [ex|] eqn:Ex.
      - apply handle_field_error_okL; [exact Hn|].
        constructor; [eapply is_exc_value_good; eauto|constructor].
      - destruct (coerce_output nodes leaf t x q s0) as [[cv|cl|ce] s2] eqn:Eco;
          destruct (IH x q _ _ _ Eco) as [G R].
        + intros H; inversion H; subst; split; [exact G|exact I].
        + intros H.
          destruct (handle_field_error_okL cl nodes q t Hn R _ _ _ H) as [G' R'].
          split; [eapply gg_trans; eauto|exact R'].
        + intros H; inversion H; subst; split; [exact G|exact I]. }
    specialize (Hall Hci l 0%Z).
    match goal with |- context [complete_items ?ci path 0%Z l s] =>
      destruct (complete_items ci path 0%Z l s) as [[lv|le|ce] s1] eqn:Ec end;
      destruct (Hall _ _ _ Ec) as [G R]; intros H; inversion H; subst; split; try exact G; try exact I.
    exact R.
  - intros s r s'.
    destruct (coerce_output nodes leaf t v path s) as [[cv|cl|ce] s1] eqn:Eco;
      destruct (IH v path _ _ _ Eco) as [G R].
    + destruct cv; intros H; inversion H; subst; split; try exact G; try exact I.
      apply one_engine.
    + intros H; inversion H; subst. split; [exact G|exact R].
    + intros H; inversion H; subst. split; [exact G|exact I].
Qed.

Section Exec.
Variable sch : schema.
Variable doc : document.
Variable vs : vars.
Variable U : usercode.
Variable cfg : config.
Hypothesis fragments_good : Forall (fun fr => sels_good (fr_sels fr)) (fragments doc).

Lemma find_fragment_good n fr : find_fragment (fragments doc) n = Some fr -> sels_good (fr_sels fr).
Proof.
  revert fragments_good. generalize (fragments doc). intros frs. induction frs as [|f frs IH]; [discriminate|].
  intros Hf. inversion Hf as [|x xs Hx Hxs]; subst. cbn [find_fragment].
  destruct (String.eqb n (fr_name f)); [intros H; inversion H; subst; exact Hx|now apply IH].
Qed.

Lemma collect_fields_good : forall fuel rt sels acc vis r v',
  sels_good sels -> fields_good acc ->
  collect_fields sch doc vs fuel rt sels acc vis = Some (r, v') -> fields_good r.
Proof.
  induction fuel as [|fuel IH]; intros rt sels; [discriminate|].
  cbn [collect_fields].
  induction sels as [|sel rest IHs]; intros acc vis r v' Hs Ha.
  - intros H; inversion H; subst; exact Ha.
  - destruct Hs as [Hsel Hrest].
    destruct sel as [l alias name args dirs sub | l name dirs | l tc dirs sub].
    + rewrite sel_good_field in Hsel. destruct Hsel as (Hl & Hargs & Hsub).
      destruct (should_include sch vs dirs).
      * apply IHs; [exact Hrest|]. apply fields_add_good; [|exact Ha]. repeat split; assumption.
      * apply IHs; assumption.
    + destruct (mem_str name vis || negb (should_include sch vs dirs)); [apply IHs; assumption|].
      destruct (find_fragment (fragments doc) name) as [fr|] eqn:Ef; [|discriminate].
      destruct (condition_matches sch (Some (fr_type fr)) rt); [|apply IHs; assumption].
      destruct (collect_fields sch doc vs fuel rt (fr_sels fr) acc (name :: vis)) as [[acc1 v1]|] eqn:E1; [|discriminate].
      apply IHs; [exact Hrest|]. eapply IH; [eapply find_fragment_good; eauto|exact Ha|exact E1].
    + rewrite sel_good_inline in Hsel.
      destruct (should_include sch vs dirs && condition_matches sch tc rt); [|apply IHs; assumption].
      destruct (collect_fields sch doc vs fuel rt sub acc vis) as [[acc1 v1]|] eqn:E1; [|discriminate].
      apply IHs; [exact Hrest|]. eapply IH; [exact Hsel|exact Ha|exact E1].
Qed.

Lemma collect_subfields_good fuel rt : forall nodes acc vis r,
  Forall node_good nodes -> fields_good acc ->
  collect_subfields sch doc vs fuel rt nodes acc vis = Some r -> fields_good r.
Proof.
  induction nodes as [|n rest IH]; intros acc vis r Hn Ha; cbn [collect_subfields].
  - intros H; inversion H; subst; exact Ha.
  - inversion Hn as [|x xs Hx Hxs]; subst. destruct Hx as (_ & _ & Hsels).
    destruct (fn_sels n) as [|s0 ss] eqn:Es; [now apply IH|].
    destruct (collect_fields sch doc vs fuel rt (s0 :: ss) acc vis) as [[acc1 v1]|] eqn:E1; [|discriminate].
    apply IH; [exact Hxs|]. eapply collect_fields_good; [exact Hsels|exact Ha|exact E1].
Qed.

(* ---------- the executor ---------- *)
Definition rf_okL (rf : rfun) : Prop :=
  forall otype value opath k ns, Forall node_good ns -> okL (rf otype value opath k ns).

Lemma exec_fields_conc_okL (rf : string -> list fnode -> M (option pyval)) :
  (forall k ns, Forall node_good ns -> okL (rf k ns)) ->
  forall sub, fields_good sub -> okL (exec_fields_conc rf sub).
Proof.
  intros Hrf. induction sub as [|[k ns] rest IH]; intros Hs s r s'; cbn [exec_fields_conc].
  - intros H; inversion H; subst. split; [apply gg_refl|exact I].
  - inversion Hs as [|x xs Hx Hxs]; subst. cbn [snd] in Hx.
    destruct (rf k ns s) as [r1 s1] eqn:E1.
    destruct (exec_fields_conc rf rest s1) as [rs s2] eqn:E2.
    destruct (Hrf _ _ Hx _ _ _ E1) as [G1 R1]. destruct (IH Hxs _ _ _ E2) as [G2 R2].
    pose proof (gg_trans _ _ _ G1 G2) as G.
    destruct r1 as [[v|]|l|e]; destruct rs as [kv|l'|e']; intros H; inversion H; subst;
      (split; [exact G|]); try exact I; auto.
    apply Forall_app; auto.
Qed.

Lemma exec_fields_seq_okL (rf : string -> list fnode -> M (option pyval)) :
  (forall k ns, Forall node_good ns -> okL (rf k ns)) ->
  forall sub, fields_good sub -> okL (exec_fields_seq rf sub).
Proof.
  intros Hrf. induction sub as [|[k ns] rest IH]; intros Hs s r s'; cbn [exec_fields_seq].
  - intros H; inversion H; subst. split; [apply gg_refl|exact I].
  - inversion Hs as [|x xs Hx Hxs]; subst. cbn [snd] in Hx.
    destruct (rf k ns s) as [r1 s1] eqn:E1.
    destruct (Hrf _ _ Hx _ _ _ E1) as [G1 R1].
    destruct r1 as [o|l|e].
    + destruct (exec_fields_seq rf rest s1) as [rs s2] eqn:E2.
      destruct (IH Hxs _ _ _ E2) as [G2 R2].
      destruct rs as [kv|l'|e']; intros H; inversion H; subst;
        (split; [eapply gg_trans; eauto|]); try exact I; exact R2.
    + intros H; inversion H; subst. split; [exact G1|exact R1].
    + intros H; inversion H; subst. split; [exact G1|exact I].
Qed.

Lemma mixed_pass1_okL isc (rf : string -> list fnode -> M (option pyval)) :
  (forall k ns, Forall node_good ns -> okL (rf k ns)) ->
  forall sub, fields_good sub -> okL (mixed_pass1 isc rf sub).
Proof.
  intros Hrf. induction sub as [|[k ns] rest IH]; intros Hs s r s'; cbn [mixed_pass1].
  - intros H; inversion H; subst. split; [apply gg_refl|exact I].
  - inversion Hs as [|x xs Hx Hxs]; subst. cbn [snd] in Hx.
    destruct (isc k ns).
    + destruct (mixed_pass1 isc rf rest s) as [[slots|l|e] s1] eqn:E2; destruct (IH Hxs _ _ _ E2) as [G2 R2];
        intros H; inversion H; subst; split; try exact G2; try exact I; exact R2.
    + destruct (rf k ns s) as [r1 s1] eqn:E1.
      destruct (Hrf _ _ Hx _ _ _ E1) as [G1 R1].
      destruct r1 as [o|l|e].
      * destruct (mixed_pass1 isc rf rest s1) as [[slots|l'|e'] s2] eqn:E2; destruct (IH Hxs _ _ _ E2) as [G2 R2];
          intros H; inversion H; subst; (split; [eapply gg_trans; eauto|]); try exact I; exact R2.
      * intros H; inversion H; subst. split; [exact G1|exact R1].
      * intros H; inversion H; subst. split; [exact G1|exact I].
Qed.

Lemma mixed_pass2_okL (rf : string -> list fnode -> M (option pyval)) :
  (forall k ns, Forall node_good ns -> okL (rf k ns)) ->
  forall sub, fields_good sub -> forall slots, okL (mixed_pass2 rf sub slots).
Proof.
  intros Hrf. induction sub as [|[k ns] rest IH]; intros Hs slots s r s'; cbn [mixed_pass2].
  - intros H; inversion H; subst. split; [apply gg_refl|exact I].
  - inversion Hs as [|x xs Hx Hxs]; subst. cbn [snd] in Hx.
    destruct slots as [|[o|] srest].
    + intros H; inversion H; subst. split; [apply gg_refl|exact I].
    + destruct (mixed_pass2 rf rest srest s) as [rs s2] eqn:E2. destruct (IH Hxs _ _ _ _ E2) as [G2 R2].
      destruct rs as [kv|l'|e']; intros H; inversion H; subst; split; try exact G2; try exact I; exact R2.
    + destruct (rf k ns s) as [r1 s1] eqn:E1.
      destruct (mixed_pass2 rf rest srest s1) as [rs s2] eqn:E2.
      destruct (Hrf _ _ Hx _ _ _ E1) as [G1 R1]. destruct (IH Hxs _ _ _ _ E2) as [G2 R2].
      pose proof (gg_trans _ _ _ G1 G2) as G.
      destruct r1 as [[v|]|l|e]; destruct rs as [kv|l'|e']; intros H; inversion H; subst;
        (split; [exact G|]); try exact I; auto.
      apply Forall_app; auto.
Qed.

Lemma exec_fields_mixed_okL isc (rf : string -> list fnode -> M (option pyval)) :
  (forall k ns, Forall node_good ns -> okL (rf k ns)) ->
  forall sub, fields_good sub -> okL (exec_fields_mixed isc rf sub).
Proof.
  intros Hrf sub Hs s r s'. unfold exec_fields_mixed.
  destruct (mixed_pass1 isc rf sub s) as [[slots|l|e] s1] eqn:E1;
    destruct (mixed_pass1_okL isc rf Hrf sub Hs _ _ _ E1) as [G1 R1].
  - intros H. destruct (mixed_pass2_okL rf Hrf sub Hs slots _ _ _ H) as [G2 R2].
    split; [eapply gg_trans; eauto|exact R2].
  - intros H; inversion H; subst. split; [exact G1|exact R1].
  - intros H; inversion H; subst. split; [exact G1|exact I].
Qed.

Lemma exec_sub_okL rf nodes otype value opath :
  rf_okL rf -> Forall node_good nodes -> okL (exec_sub sch doc vs cfg rf nodes otype value opath).
Proof.
  intros Hrf Hn s r s'. unfold exec_sub.
  destruct (collect_subfields sch doc vs COLLECT_FUEL otype nodes [] []) as [sub|] eqn:Hc.
  - assert (Hsub : fields_good sub) by (eapply collect_subfields_good; [exact Hn|constructor|exact Hc]).
    destruct (exec_fields_mixed _ _ sub s) as [[kv|l|e] s1] eqn:E;
      destruct (exec_fields_mixed_okL _ _ (fun k ns => Hrf otype value opath k ns) sub Hsub _ _ _ E) as [G R];
      intros H; inversion H; subst; split; auto.
  - intros H; inversion H; subst. split; [apply gg_refl|exact I].
Qed.

Lemma resolve_runtime_type_good n t nodes l :
  Forall node_good nodes -> resolve_runtime_type sch n t nodes = OExc l -> Forall perr_good l.
Proof.
  intros Hn. pose proof (locs_of_good nodes Hn) as HL.
  assert (H1 : forall m, Forall perr_good [{| p_path := None; p_locs := Some (locs_of nodes); p_msg := m; p_ext := false |}]).
  { intros m. constructor; [exact HL|constructor]. }
  unfold resolve_runtime_type. destruct t; try (intros H; inversion H; apply H1).
  destruct (find_type sch s) as [[ | | |ifs fs| | ]|]; try (intros H; inversion H; apply H1).
  destruct (mem_str s (possible_types sch n)); [discriminate|].
  intros H; inversion H; apply H1.
Qed.

Lemma leaf_okL rf ptype fd nodes path :
  rf_okL rf -> Forall node_good nodes ->
  forall n v lp, okL (leaf_coercer sch doc vs U cfg rf ptype fd nodes path n v lp).
Proof.
  intros Hrf Hn n v lp s r s'. unfold leaf_coercer.
  assert (Hsub : forall ot, okL (exec_sub sch doc vs cfg rf nodes ot v lp)).
  { intros ot. now apply exec_sub_okL. }
  assert (Hplain : forall (r0 : outcome pyval), (r0, s) = (r, s') ->
            match r0 with OExc l => Forall perr_good l | _ => True end ->
            grows_good s s' /\ match r with OExc l => Forall perr_good l | _ => True end).
  { intros r0 H Hr. inversion H; subst. split; [apply gg_refl|exact Hr]. }
  destruct (find_type sch n) as [[ |values|ifields|ifs fs|fs|ms]|].
  - (* scalar *)
    destruct v; try (intros H; eapply Hplain; [exact H|exact I]);
      (destruct (scalars sch n) as [ops|]; [|intros H; eapply Hplain; [exact H|apply one_engine]]);
      (match goal with |- context [s_output ops ?x] => destruct (s_output ops x) as [o|xe] end;
       [ destruct (is_undef o); intros H; eapply Hplain; try exact H; first [exact I | apply one_engine]
       | destruct xe; intros H; eapply Hplain; try exact H; first [exact I | apply one_engine] ]).
  - (* enum *)
    destruct v; try (intros H; eapply Hplain; [exact H| first [exact I | apply one_engine]]).
    destruct (mem_str s0 values); intros H; eapply Hplain; try exact H; first [exact I | apply one_engine].
  - intros H; eapply Hplain; [exact H|apply one_engine].
  - (* object *)
    destruct v; try (intros H; eapply Hplain; [exact H|exact I]); apply Hsub.
  - (* interface *)
    destruct v; try (intros H; eapply Hplain; [exact H|exact I]);
      (destruct (type_resolver_kind U n ptype (fd_name fd));
       [ cbv beta iota zeta;
         match goal with |- context [resolve_runtime_type sch n ?t nodes] =>
           destruct (resolve_runtime_type sch n t nodes) as [rt|lx|ex] eqn:Er end;
         [ apply Hsub
         | intros H; eapply Hplain; [exact H|eapply resolve_runtime_type_good; eauto]
         | intros H; eapply Hplain; [exact H|exact I] ]
       | destruct (type_resolver U path n _) as [t|msg g ext];
         [ match goal with |- context [resolve_runtime_type sch n ?t nodes] =>
             destruct (resolve_runtime_type sch n t nodes) as [rt|lx|ex] eqn:Er end;
           [ intros H; destruct (Hsub _ _ _ _ H) as [G R]; split; [|exact R];
             eapply gg_trans; [apply gg_add_call|exact G]
           | intros H; inversion H; subst; split; [apply gg_add_call|eapply resolve_runtime_type_good; eauto]
           | intros H; inversion H; subst; split; [apply gg_add_call|exact I] ]
         | intros H; inversion H; subst; split; [apply gg_add_call|apply one_raw] ] ]).
  - (* union *)
    destruct v; try (intros H; eapply Hplain; [exact H|exact I]);
      (destruct (type_resolver_kind U n ptype (fd_name fd));
       [ cbv beta iota zeta;
         match goal with |- context [resolve_runtime_type sch n ?t nodes] =>
           destruct (resolve_runtime_type sch n t nodes) as [rt|lx|ex] eqn:Er end;
         [ apply Hsub
         | intros H; eapply Hplain; [exact H|eapply resolve_runtime_type_good; eauto]
         | intros H; eapply Hplain; [exact H|exact I] ]
       | destruct (type_resolver U path n _) as [t|msg g ext];
         [ match goal with |- context [resolve_runtime_type sch n ?t nodes] =>
             destruct (resolve_runtime_type sch n t nodes) as [rt|lx|ex] eqn:Er end;
           [ intros H; destruct (Hsub _ _ _ _ H) as [G R]; split; [|exact R];
             eapply gg_trans; [apply gg_add_call|exact G]
           | intros H; inversion H; subst; split; [apply gg_add_call|eapply resolve_runtime_type_good; eauto]
           | intros H; inversion H; subst; split; [apply gg_add_call|exact I] ]
         | intros H; inversion H; subst; split; [apply gg_add_call|apply one_raw] ] ]).
  - intros H; eapply Hplain; [exact H|apply one_engine].
Qed.

(* ---------- argument coercion only reports the field's or an argument value's location ---------- *)
Lemma find_arg_in n args a : find_arg n args = Some a -> In a args.
Proof.
  induction args as [|x xs IH]; [discriminate|]. cbn [find_arg].
  destruct (find_arg n xs) as [later|].
  - intros H; inversion H; subst. right. now apply IH.
  - destruct (String.eqb n (a_name x)); [intros H; inversion H; subst; now left|discriminate].
Qed.

Lemma run_literal_loc (m : res pyval) name eloc n k l :
  bind m (fun v => if is_undef v then Ok (AErr (name, AInvalidValue, eloc)) else Ok (AVal v)) = Ok (AErr (n, k, l)) ->
  l = eloc.
Proof.
  destruct m as [v|e]; cbn [bind]; [|discriminate].
  destruct (is_undef v); intros H; inversion H; reflexivity.
Qed.

Lemma argument_coercer_loc fuel ad field_loc anode n k l :
  P field_loc -> (forall a, anode = Some a -> P (lit_loc (a_value a))) ->
  argument_coercer sch fuel ad field_loc anode vs = Ok (AErr (n, k, l)) -> P l.
Proof.
  intros Hf Ha. unfold argument_coercer.
  destruct anode as [a|].
  - pose proof (Ha a eq_refl) as Hl. clear Ha.
    set (x := a_value a) in *. clearbody x.
    assert (Hrun : forall node eloc, P eloc ->
       bind (get_literal_coercer sch fuel (in_type ad) vs false node)
         (fun v => if is_undef v then Ok (AErr (in_name ad, AInvalidValue, eloc)) else Ok (AVal v)) = Ok (AErr (n, k, l)) -> P l).
    { intros node eloc He H. apply run_literal_loc in H. now subst. }
    destruct x; cbn [lit_loc] in *;
      repeat match goal with
             | |- (let '(_, _) := ?p in _) = _ -> _ => destruct p eqn:?
             | |- context [dict_get ?a ?b] => destruct (dict_get a b)
             | |- context [is_none ?a] => destruct (is_none a)
             end; cbn [negb orb andb];
      destruct (in_default ad) as [d|]; destruct (is_non_null (in_type ad)); cbn [negb orb andb];
      try (intros H; inversion H; subst; assumption);
      try (intros H; eapply Hrun; [|exact H]; assumption);
      try discriminate;
      try (destruct (is_undef _); intros H; inversion H; subst; assumption).
  - cbn. destruct (in_default ad) as [d|].
    + intros H. apply run_literal_loc in H. now subst.
    + destruct (is_non_null (in_type ad)); cbn; [intros H; inversion H; subst; exact Hf|discriminate].
Qed.

Lemma coerce_arguments_aux_loc fuel field_loc anodes :
  P field_loc -> Forall arg_good anodes ->
  forall ads vals errs, coerce_arguments_aux sch fuel ads field_loc anodes vs = Ok (vals, errs) ->
  Forall (fun ae : aerr => P (snd ae)) errs.
Proof.
  intros Hf Ha. induction ads as [|ad ads IH]; intros vals errs; cbn [coerce_arguments_aux].
  - intros H; inversion H; constructor.
  - destruct (argument_coercer sch fuel ad field_loc (find_arg (in_name ad) anodes) vs) as [o|e] eqn:Eo; cbn [bind]; [|discriminate].
    destruct (coerce_arguments_aux sch fuel ads field_loc anodes vs) as [[vals' errs']|e] eqn:Er; cbn [bind]; [|discriminate].
    specialize (IH _ _ eq_refl).
    destruct o as [|v|[[n k] l]]; intros H; inversion H; subst; try exact IH.
    constructor; [|exact IH]. cbn [snd].
    eapply argument_coercer_loc; [exact Hf| |exact Eo].
    intros a Hfa. apply find_arg_in in Hfa. rewrite Forall_forall in Ha. now apply Ha.
Qed.

Lemma coerce_arguments_loc fuel ads field_loc anodes vals errs :
  P field_loc -> Forall arg_good anodes ->
  coerce_arguments sch fuel ads field_loc anodes vs = Ok (vals, errs) ->
  Forall (fun ae : aerr => P (snd ae)) errs.
Proof.
  intros Hf Ha. unfold coerce_arguments. destruct ads as [|ad ads].
  - intros H; inversion H; constructor.
  - now apply coerce_arguments_aux_loc.
Qed.

Lemma arg_errs_good (errs : list aerr) :
  Forall (fun ae : aerr => P (snd ae)) errs ->
  Forall perr_good (map (fun ae : aerr => {| p_path := None; p_locs := Some [snd ae];
                                            p_msg := MEngine "argument"; p_ext := false |}) errs).
Proof.
  intros H. apply Forall_map. eapply Forall_impl; [|exact H].
  intros ae Hae. unfold perr_good. cbn. constructor; [exact Hae|constructor].
Qed.

Lemma resolve_value_okL ptype source path fd node :
  node_good node -> okL (resolve_value sch vs U ptype source path fd node).
Proof.
  intros (Hl & Hargs & _) s r s'. unfold resolve_value.
  destruct (String.eqb (fn_name node) "__typename").
  - intros H; inversion H; subst. split; [apply gg_refl|exact I].
  - destruct (coerce_arguments sch 20 (fd_args fd) (fn_loc node) (fn_args node) vs) as [[args errs]|e] eqn:Eca.
    + pose proof (coerce_arguments_loc _ _ _ _ _ _ Hl Hargs Eca) as Herrs.
      destruct errs as [|e es].
      * destruct (has_resolver U ptype (fd_name fd)).
        -- destruct (resolver U path ptype (fd_name fd) source args); intros H; inversion H; subst;
             (split; [apply gg_add_call|]); [exact I|apply one_raw].
        -- intros H; inversion H; subst. split; [apply gg_refl|exact I].
      * intros H; inversion H; subst. split; [apply gg_refl|].
        exact (arg_errs_good (e :: es) Herrs).
    + intros H; inversion H; subst. split; [apply gg_refl|exact I].
Qed.

Lemma complete_field_okL rf ptype fd nodes path raw :
  rf_okL rf -> Forall node_good nodes ->
  match raw with OExc l => Forall perr_good l | _ => True end ->
  okL (complete_field sch doc vs U cfg rf ptype fd nodes path raw).
Proof.
  intros Hrf Hn Hraw s r s'. unfold complete_field.
  assert (Hh : forall l s2 (rr : outcome pyval) s3, Forall perr_good l ->
             grows_good s s2 ->
             handle_field_error l nodes path (fd_type fd) s2 = (rr, s3) ->
             match rr with
             | OVal v => (OVal (Some v), s3)
             | OExc l' => (OExc l', s3)
             | OCrash e => (OCrash e, s3)
             end = (r, s') ->
             grows_good s s' /\ match r with OExc l0 => Forall perr_good l0 | _ => True end).
  { intros l s2 rr s3 Hl G Eh H.
    destruct (handle_field_error_okL l nodes path (fd_type fd) Hn Hl _ _ _ Eh) as [G' R'].
    destruct rr; inversion H; subst; (split; [eapply gg_trans; eauto|]); auto. }
  destruct raw as [v|l|e].
  - destruct (is_exc_value v) as [ex|] eqn:Ex.
    + destruct (handle_field_error [ex] nodes path (fd_type fd) s) as [rr s3] eqn:Eh.
      eapply Hh; [|apply gg_refl|exact Eh].
      constructor; [eapply is_exc_value_good; eauto|constructor].
    + destruct (coerce_output nodes _ (fd_type fd) v path s) as [[cv|cl|ce] s2] eqn:Eco;
        destruct (coerce_output_okL nodes _ Hn (leaf_okL rf ptype fd nodes path Hrf Hn) _ _ _ _ _ _ Eco) as [G R].
      * intros H; inversion H; subst. split; [exact G|exact I].
      * destruct (handle_field_error cl nodes path (fd_type fd) s2) as [rr s3] eqn:Eh.
        eapply Hh; eauto.
      * intros H; inversion H; subst. split; [exact G|exact I].
  - destruct (handle_field_error l nodes path (fd_type fd) s) as [rr s3] eqn:Eh.
    eapply Hh; [exact Hraw|apply gg_refl|exact Eh].
  - intros H; inversion H; subst. split; [apply gg_refl|exact I].
Qed.

Lemma resolve_field_body_okL rf : rf_okL rf -> rf_okL (resolve_field_body sch doc vs U cfg rf).
Proof.
  intros Hrf otype value opath k ns Hn s r s'. unfold resolve_field_body.
  destruct ns as [|node rest].
  - intros H; inversion H; subst. split; [apply gg_refl|exact I].
  - assert (Hnode : node_good node) by (inversion Hn; assumption).
    destruct (get_field_definition sch otype (fn_name node)) as [fd|].
    + destruct (resolve_value sch vs U otype value (opath ++ [KName k]) fd node s) as [raw s1] eqn:Erv.
      destruct (resolve_value_okL _ _ _ _ _ Hnode _ _ _ Erv) as [G R].
      destruct raw as [v|l|e].
      * intros H. destruct (complete_field_okL rf otype fd (node :: rest) _ (OVal v) Hrf Hn I _ _ _ H) as [G' R'].
        split; [eapply gg_trans; eauto|exact R'].
      * intros H. destruct (complete_field_okL rf otype fd (node :: rest) _ (OExc l) Hrf Hn R _ _ _ H) as [G' R'].
        split; [eapply gg_trans; eauto|exact R'].
      * intros H; inversion H; subst. split; [exact G|exact I].
    + intros H; inversion H; subst. split; [apply gg_refl|exact I].
Qed.

Theorem resolve_field_okL fuel : rf_okL (resolve_field sch doc vs U cfg fuel).
Proof.
  induction fuel as [|fuel IH].
  - intros otype value opath k ns _ s r s'. cbn. intros H; inversion H; subst.
    split; [apply gg_refl|exact I].
  - cbn [resolve_field]. now apply resolve_field_body_okL.
Qed.

Theorem execute_operation_locations op root r :
  sels_good (o_sels op) ->
  execute_operation sch doc vs U cfg op root = OVal r -> Forall gerr_good (r_errors r).
Proof.
  intros Hop. unfold execute_operation.
  destruct (root_type_of sch (o_kind op)) as [rt|]; [|discriminate].
  destruct (collect_fields sch doc vs COLLECT_FUEL rt (o_sels op) [] []) as [[fs v]|] eqn:Hc; [|discriminate].
  assert (Hfs : fields_good fs) by (eapply collect_fields_good; [exact Hop|constructor|exact Hc]).
  pose proof (resolve_field_okL EXEC_FUEL) as Hrf.
  set (rf := fun k ns => resolve_field sch doc vs U cfg EXEC_FUEL rt root [] k ns).
  assert (Hrf' : forall k ns, Forall node_good ns -> okL (rf k ns)) by (intros k ns; apply Hrf).
  assert (Hrun : forall run, okL run ->
            match run st0 with
            | (OVal kv, s) => OVal {| r_data := PDict kv; r_errors := s_errors s; r_log := s_log s |}
            | (OExc l, s) =>
                let s' := add_errors l s in
                OVal {| r_data := PNone; r_errors := s_errors s'; r_log := s_log s' |}
            | (OCrash e, _) => OCrash e
            end = OVal r -> Forall gerr_good (r_errors r)).
  { intros run Hok. destruct (run st0) as [[kv|l|e] s] eqn:E; try discriminate;
      destruct (Hok _ _ _ E) as [(new & En & Fn) R].
    - intros H; inversion H; subst. cbn [r_errors]. rewrite En. exact Fn.
    - intros H; inversion H; subst. cbn [r_errors add_errors s_errors]. rewrite En. cbn [st0 s_errors app].
      apply Forall_app. split; [exact Fn|].
      apply Forall_map. eapply Forall_impl; [|exact R]. intros e. apply finalize_good. }
  destruct (o_kind op); apply Hrun;
    first [apply exec_fields_mixed_okL; assumption | apply exec_fields_seq_okL; assumption].
Qed.

End Exec.

(* ---------- the whole request ---------- *)
Lemma select_operation_in d name op : select_operation d name = Some op -> In op (operations d).
Proof.
  unfold select_operation. destruct name as [n|].
  - assert (H : forall ops acc,
      fold_left (fun acc op0 => match o_name op0 with
                               | Some m => if String.eqb m n then Some op0 else acc
                               | None => acc end) ops acc = Some op ->
      In op ops \/ acc = Some op).
    { induction ops as [|o ops IH]; intros acc; cbn [fold_left]; [auto|].
      intros H. destruct (IH _ H) as [Hin|Hacc]; [left; now right|].
      destruct (o_name o) as [m|]; [|auto]. destruct (String.eqb m n); [|auto].
      inversion Hacc; subst. left; now left. }
    intros Hs. destruct (H _ _ Hs) as [Hin|Hn]; [exact Hin|discriminate].
  - destruct (operations d) as [|o [|o' os]]; try discriminate. intros H; inversion H; subst. now left.
Qed.

Lemma vdef_loc_good vds n : Forall (fun vd => P (v_loc vd)) vds -> Forall P (vdef_loc vds n).
Proof.
  intros H. unfold vdef_loc. induction H as [|vd vds Hvd Hvds IH]; cbn [flat_map]; [constructor|].
  destruct (String.eqb (v_name vd) n); cbn [app]; [constructor; assumption|exact IH].
Qed.

Theorem impl_execute_locations sch d U cfg opname raw root r :
  doc_good d ->
  impl_execute sch d U cfg opname raw root = OVal r -> Forall gerr_good (r_errors r).
Proof.
  intros [Hops Hfr]. unfold impl_execute.
  destruct (select_operation d opname) as [op|] eqn:Hs.
  - apply select_operation_in in Hs. rewrite Forall_forall in Hops. destruct (Hops _ Hs) as [Hv Hsels].
    destruct (coerce_variables sch 40 (o_vars op) raw) as [[vs [|e es]]|e]; [| |discriminate].
    + now apply execute_operation_locations.
    + intros H; inversion H; subst. cbn [r_errors].
      change (Forall gerr_good (map (verr_to_gerr (o_vars op)) (e :: es))).
      apply Forall_map. apply Forall_forall. intros x _.
      unfold gerr_good, verr_to_gerr. cbn [g_locs]. now apply vdef_loc_good.
  - intros H; inversion H; subst. cbn. constructor; [constructor|constructor].
Qed.

(* through Engine.execute: every location handed to the error coercer, for a parsed and accepted
   document, is one of the document's own *)
Theorem engine_execute_locations A (coercer : gerr -> A) sch U cfg d opname raw root :
  doc_good d ->
  Forall gerr_good (e_coercer_calls A (engine_execute A coercer sch U cfg (PDoc d) opname raw root)).
Proof.
  intros Hd. unfold engine_execute.
  destruct (impl_execute sch d U cfg opname raw root) as [r|l|e] eqn:E; cbn.
  - eapply impl_execute_locations; eauto.
  - constructor; [constructor|constructor].
  - constructor; [constructor|constructor].
Qed.

End Locs.
