(* The WHOLE chain of root fields of a mutation, under every schedule of the nested resolvers:
   the log of `sequence_abort [(k1,p1); ...; (kn,pn)]` is the concatenation, in document order, of
   complete logs of p1, p2, ... (each under a schedule of its own), the chain stops at the first
   root field that raises, and the result lists the keys of the completed ones in document order.
   (Proofs/AsyncProofs.v has the binary statement `bind_is_sequential`; this file lifts it to the
   list by induction.) *)
From Coq Require Import ZArith List String Bool Permutation.
From TV Require Import Py.Prelude Model.Schema Model.ImplInput Model.ImplExec Model.Async Proofs.AsyncProofs.
Import ListNotations.
Open Scope list_scope.

Section SerialChain.
Variable oracle : site -> string -> string -> pyval -> list (string * pyval) -> uret.

(* the accumulated log is only a prefix: a run from `acc ++ ev` is the run from `ev`, shifted *)
Lemma run_picks_shift : forall picks q acc ev q' evs,
  run_picks oracle picks q (acc ++ ev) = Some (q', evs) ->
  exists evs', run_picks oracle picks q ev = Some (q', evs') /\ evs = acc ++ evs'.
Proof.
  induction picks as [|s picks IH]; intros q acc ev q' evs; cbn [run_picks].
  - intros E; inversion E; subst. eauto.
  - destruct (release oracle s q) as [[q1 e1]|]; [|discriminate].
    rewrite <- app_assoc. apply IH.
Qed.

Lemma run_picks_done : forall picks r acc q evs,
  run_picks oracle picks (PDone r) acc = Some (q, evs) -> picks = [] /\ q = PDone r /\ evs = acc.
Proof.
  intros [|s picks] r acc q evs; cbn.
  - intros E; inversion E; auto.
  - discriminate.
Qed.

(* what one link of the chain adds to the result of the rest *)
Definition chain_result (key : string) (o : option pyval) (r' : res) : res :=
  match r' with
  | RKVs kv => RKVs (match o with Some v => (key, v) :: kv | None => kv end)
  | other => other
  end.

(* the specification of a serial run of the chain: one entry per root field that ran, in document
   order -- its key, its result and its complete log under a schedule of its own *)
Definition outcome1 := (string * res * list event)%type.

Inductive serial_run : list (string * prog) -> list outcome1 -> Prop :=
| SR_nil : serial_run [] []
| SR_stop key p rest picks r evs :
    run_sched oracle picks p = Some (PDone r, evs) ->
    (forall o, r <> ROpt o) ->
    serial_run ((key, p) :: rest) [(key, r, evs)]
| SR_cont key p rest picks o evs outs :
    run_sched oracle picks p = Some (PDone (ROpt o), evs) ->
    serial_run rest outs ->
    serial_run ((key, p) :: rest) ((key, ROpt o, evs) :: outs).

Fixpoint chain_value (outs : list outcome1) : res :=
  match outs with
  | [] => RKVs []
  | (key, ROpt o, _) :: rest => chain_result key o (chain_value rest)
  | (_, r, _) :: _ => r
  end.

Definition chain_log (outs : list outcome1) : list event := flat_map snd outs.

Lemma run_sched_ret picks r q evs :
  run_sched oracle picks (Ret r) = Some (q, evs) -> picks = [] /\ q = PDone r /\ evs = [].
Proof. unfold run_sched. cbn [start]. apply run_picks_done. Qed.

Theorem chain_is_serial : forall kps picks r evs,
  run_sched oracle picks (sequence_abort kps) = Some (PDone r, evs) ->
  exists outs, serial_run kps outs /\ r = chain_value outs /\ evs = chain_log outs.
Proof.
  induction kps as [|[key p] rest IH]; intros picks r evs H.
  - cbn [sequence_abort] in H. apply run_sched_ret in H. destruct H as (_ & E & ->).
    inversion E; subst. exists []. repeat split. constructor.
  - cbn [sequence_abort] in H.
    apply bind_is_sequential in H.
    destruct H as (p1 & p2 & r1 & evs1 & _ & H1 & q2 & ev2 & Hs & H3).
    apply run_picks_shift in H3. destruct H3 as (evs' & H3 & ->).
    destruct r1 as [v|o|kv|l|e];
      try (cbn [start] in Hs; inversion Hs; subst q2 ev2;
           apply run_picks_done in H3; destruct H3 as (_ & E & ->); inversion E; subst;
           eexists [(key, _, evs1)]; split; [eapply SR_stop; [exact H1|discriminate]|];
           split; [reflexivity|]; unfold chain_log; cbn; now rewrite !app_nil_r).
    assert (Hrun : run_sched oracle p2 (bind (sequence_abort rest) (fun r' =>
              match r' with
              | RKVs kv => Ret (RKVs (match o with Some v => (key, v) :: kv | None => kv end))
              | other => Ret other
              end)) = Some (PDone r, evs')).
    { unfold run_sched. rewrite Hs. exact H3. }
    clear Hs H3.
    apply bind_is_sequential in Hrun.
    destruct Hrun as (p3 & p4 & r3 & evs3 & _ & H4 & q5 & ev5 & Hs5 & H6).
    destruct (IH _ _ _ H4) as (outs & Hsr & -> & ->).
    exists ((key, ROpt o, evs1) :: outs). split; [eapply SR_cont; eassumption|].
    assert (E5 : (q5, ev5) = (PDone (chain_result key o (chain_value outs)), [])).
    { rewrite <- Hs5. unfold chain_result. destruct (chain_value outs); reflexivity. }
    inversion E5; subst q5 ev5.
    apply run_picks_done in H6. destruct H6 as (_ & E & ->). inversion E; subst.
    split; [reflexivity|]. unfold chain_log. cbn. now rewrite app_nil_r.
Qed.

(* ---- consequences read off the serial run ---- *)

Definition out_key (o : outcome1) : string := fst (fst o).
Definition out_res (o : outcome1) : res := snd (fst o).

(* the root fields that ran are an initial segment of the chain, in document order, no gaps *)
Theorem serial_run_is_a_prefix kps outs :
  serial_run kps outs -> exists later, map fst kps = map out_key outs ++ later.
Proof.
  induction 1 as [|key p rest picks r evs Hp Hn|key p rest picks o evs outs Hp Hr IH].
  - exists []. reflexivity.
  - exists (map fst rest). reflexivity.
  - destruct IH as [later E]. exists later. cbn. now rewrite E.
Qed.

(* every entry is a complete run of the root field at the same position *)
Theorem serial_run_entries kps outs :
  serial_run kps outs ->
  Forall2 (fun kp o => fst kp = out_key o /\ exists picks, run_sched oracle picks (snd kp) = Some (PDone (out_res o), snd o))
          (firstn (List.length outs) kps) outs.
Proof.
  induction 1 as [|key p rest picks r evs Hp Hn|key p rest picks o evs outs Hp Hr IH]; cbn.
  - constructor.
  - constructor; [|constructor]. split; [reflexivity|]. exists picks. exact Hp.
  - constructor; [|exact IH]. split; [reflexivity|]. exists picks. exact Hp.
Qed.

(* a contained failure (ROpt None: null, its error in the log) does not stop the chain; only a
   result that is not ROpt (a raised non-null failure / a crash) does, and then it is the last *)
Theorem serial_run_stops_only_on_raise kps outs :
  serial_run kps outs ->
  (Forall (fun o => exists v, out_res o = ROpt v) outs /\ List.length outs = List.length kps) \/
  (exists front last, outs = front ++ [last] /\
     Forall (fun o => exists v, out_res o = ROpt v) front /\ (forall v, out_res last <> ROpt v)).
Proof.
  induction 1 as [|key p rest picks r evs Hp Hn|key p rest picks o evs outs Hp Hr IH].
  - left. split; [constructor|reflexivity].
  - right. exists [], (key, r, evs). repeat split; [constructor|exact Hn].
  - destruct IH as [[Hall Hlen]|(front & last & -> & Hall & Hlast)].
    + left. split; [constructor; [eexists; reflexivity|exact Hall]|cbn; now rewrite Hlen].
    + right. exists ((key, ROpt o, evs) :: front), last. repeat split; auto.
      constructor; [eexists; reflexivity|exact Hall].
Qed.

(* when every root field completed, the response object lists exactly the keys that produced a
   value, in document order *)
Theorem all_completed_value outs :
  Forall (fun o => exists v, out_res o = ROpt v) outs ->
  chain_value outs =
  RKVs (flat_map (fun o => match out_res o with ROpt (Some v) => [(out_key o, v)] | _ => [] end) outs).
Proof.
  induction outs as [|[[key r] evs] outs IH]; intros H; [reflexivity|].
  inversion H as [|? ? [v Hv] Hrest]; subst. cbn in Hv. subst r.
  cbn [chain_value]. rewrite IH by exact Hrest. unfold out_res, out_key. cbn.
  destruct v; reflexivity.
Qed.

(* a raise makes the whole chain return that raise *)
Theorem raised_value front last :
  Forall (fun o => exists v, out_res o = ROpt v) front -> (forall v, out_res last <> ROpt v) ->
  (forall kv, out_res last <> RKVs kv) ->
  chain_value (front ++ [last]) = out_res last.
Proof.
  induction front as [|[[key r] evs] front IH]; intros H Hl Hk.
  - destruct last as [[key r] evs]. cbn in *. destruct r; try reflexivity. exfalso; eapply Hl; reflexivity.
  - inversion H as [|? ? [v Hv] Hrest]; subst. cbn in Hv; subst r.
    cbn [app chain_value]. rewrite IH by assumption.
    destruct last as [[key' r'] evs']. cbn in *. destruct r'; try reflexivity.
    exfalso; eapply Hk; reflexivity.
Qed.

(* in the concatenated log, every event of an earlier root field -- all finishes of its whole
   sub-selection -- comes before every event of a later one -- its first start included *)
Theorem chain_log_split front o back :
  chain_log (front ++ o :: back) = chain_log front ++ snd o ++ chain_log back.
Proof. unfold chain_log. rewrite flat_map_app. reflexivity. Qed.

(* a program that begins with the chain: its log begins with the chain's serial log *)
Theorem chain_then_is_serial kps finish picks r evs :
  run_sched oracle picks (bind (sequence_abort kps) finish) = Some (PDone r, evs) ->
  exists outs tail, serial_run kps outs /\ evs = chain_log outs ++ tail.
Proof.
  intros H. apply bind_log_is_prefixed in H. destruct H as (p1 & r1 & evs1 & tail & H1 & ->).
  apply chain_is_serial in H1. destruct H1 as (outs & Hs & _ & ->). eauto.
Qed.

End SerialChain.
